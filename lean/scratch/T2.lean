import Emu2a.Lemmas.PegDen
import Emu2a.Model.Build
open Emu2a Emu2a.Peg Emu2a.Parse

theorem find_add : Gen.mrasm.find "add" = some ⟨"add", false, Gen.rule_add⟩ := rfl
theorem find_sep_ip : Gen.mrasm.find "sep_ip" = some ⟨"sep_ip", false, Gen.rule_sep_ip⟩ := rfl
theorem find_sep_pp : Gen.mrasm.find "sep_pp" = some ⟨"sep_pp", false, Gen.rule_sep_pp⟩ := rfl
theorem find_register : Gen.mrasm.find "register" = some ⟨"register", false, Gen.rule_register⟩ := rfl

example (c : List Char) (n : List String) (h : Den Gen.mrasm Gen.rule_add c n) : n = ["sep_ip", "register", "sep_pp", "register"] := by
  simp only [Gen.rule_add, Den, find_sep_ip, find_sep_pp, find_register] at h
  obtain ⟨c1, n1, c2, n2, ⟨_, rfl⟩, ⟨c3, n3, c4, n4, h3, ⟨c5, n5, c6, n6, h5, ⟨c7, n7, c8, n8, h7, h8, _, rfl⟩, _, rfl⟩, _, rfl⟩, _, rfl⟩ := h
  simp at h3 h5 h7 h8
  subst h3 h5 h7 h8
  rfl

example (i : Tree) (h : i.rule = "add") : (match i.rule with | "org" => 1 | "add" => 2 | _ => 3) = 2 := by
  simp [h]
example (i : Tree) (h : i.rule = "add") : (match i.rule with | "org" => 1 | "add" => 2 | _ => 3) = 2 := by
  rw [h]
