import Emu2a.Props.C03x.Num
open Emu2a Emu2a.Peg Emu2a.Parse Emu2a.C03

theorem ew1 : ("constant_bin".endsWith "_bin") = true := by decide +kernel
theorem ew2 : ("constant_hex".endsWith "_bin") = false := by decide +kernel

example (t k : Tree) (hk : kid t 0 ["constant_bin", "constant_hex", "constant_dec", "raw_label"] = .ok k) (hr : k.rule = "raw_label") :
    ∃ v, parseConstant t = .ok v := by
  simp [parseConstant, hk, hr, bind, Except.bind, pure, Except.pure]
  
example (t k : Tree) (hk : kid t 0 ["constant_bin", "constant_hex", "constant_dec", "raw_label"] = .ok k) (hr : k.rule = "constant_hex") (v : Nat) (hn : number k 256 = .ok v):
    ∃ v, parseConstant t = .ok v := by
  simp [parseConstant, hk, hr, hn, bind, Except.bind, pure, Except.pure, Functor.map, Except.map]

example (t : Tree) (hr : t.rule = "constant_bin") (v : Nat) (h : fromRadix 2 256 (t.text.drop 2) = some v) : number t 256 = .ok v := by
  simp [number, hr, h, unwrapNum, ew1]
