import Emu2a.Props.C03x.Num
open Emu2a Emu2a.Peg Emu2a.Parse Emu2a.C03

-- shapes of the number rules in the regenerated grammar
example : ∃ E, Gen.rule_constant_dec = .choice (.seq (.star (.str ['0'])) E) (.plus (.str ['0'])) ∧ (altsOf E).isSome := ⟨_, rfl, rfl⟩
example : ∃ E, Gen.rule_word_dec = .choice (.seq (.star (.str ['0'])) E) (.plus (.str ['0'])) ∧ (altsOf E).isSome := ⟨_, rfl, rfl⟩
example : Gen.rule_constant_bin = .seq (.str ['0', 'b']) (.choice (.seq (.star (.str ['0'])) (.rep (.builtin .ascii_bin_digit) 1 8)) (.plus (.str ['0']))) := rfl
