import Emu2a.Lemmas.PegDen
import Emu2a.Model.Build
open Emu2a Emu2a.Peg Emu2a.Parse

example : Gen.mrasm.find "register" = some ⟨"register", false, Gen.rule_register⟩ := by decide
example : Gen.mrasm.find "register" = some ⟨"register", false, Gen.rule_register⟩ := by rfl

theorem char_range4 (d : Char) (h1 : '0' ≤ d) (h2 : d ≤ '3') : d = '0' ∨ d = '1' ∨ d = '2' ∨ d = '3' := by
  have a : 48 ≤ d.toNat := h1
  have b : d.toNat ≤ 51 := h2
  have : d.toNat = 48 ∨ d.toNat = 49 ∨ d.toNat = 50 ∨ d.toNat = 51 := by omega
  rcases this with h | h | h | h
  · left; rw [← Char.ofNat_toNat d, h]; rfl
  · right; left; rw [← Char.ofNat_toNat d, h]; rfl
  · right; right; left; rw [← Char.ofNat_toNat d, h]; rfl
  · right; right; right; rw [← Char.ofNat_toNat d, h]; rfl

example : parseRegister (.node "register" ['r', '2'] []) = .ok .r2 := by decide
example : parseRegister (.node "register" ['r', '2'] []) = .ok .r2 := by rfl
