/-
The operation alphabet of machine histories (what a user of the library / the TUI / the runner can do).
-/
import Emu2a.Model.Machine
namespace Emu2a

inductive MOp
  | edge                      -- RawMachine::trigger_clock_edge
  | clock                     -- Machine::trigger_key_clock (current step mode)
  | irq                       -- trigger_key_interrupt
  | cont                      -- trigger_key_continue
  | cpuReset
  | masterReset
  | setInput (i : Fin 4) (v : Byte)
  | setDi1 (v : Byte)
  | setTemp (v : F32.Bits)
  | setAi1 (v : F32.Bits)
  | setAi2 (v : F32.Bits)
  | setJ1 (v : Bool)
  | setJ2 (v : Bool)
  | setUio1 (v : Bool)
  | setUio2 (v : Bool)
  | setUio3 (v : Bool)
  | setMode (s : StepMode)
  | busWrite (a v : Byte)     -- direct bus call
  | busRead (a : Byte)        -- direct bus call (pure)
  | load (img : List Byte) (ss : Stacksize) (ps : Programsize)
  deriving Repr

def Bus.setInputReg (b : Bus) (i : Fin 4) (v : Byte) : Bus :=
  match i with
  | 0 => { b with inFC := v } | 1 => { b with inFD := v } | 2 => { b with inFE := v } | 3 => { b with inFF := v }

namespace Machine

/-- Apply one operation. `none`: the step loop ran out of fuel (C11 shows enough fuel exists) or the
Rust call panics (`load` of an image larger than the RAM). -/
def applyOp (fuel : Nat) (m : Machine) : MOp → Option Machine
  | .edge => some m.clockEdge
  | .clock => m.keyClock fuel
  | .irq => some m.keyInterrupt
  | .cont => some m.keyContinue
  | .cpuReset => some m.cpuReset
  | .masterReset => some m.masterReset
  | .setInput i v => some (m.mapBus (·.setInputReg i v))
  | .setDi1 v => some (m.mapBoard (·.setDi1 v))
  | .setTemp v => some (m.mapBoard (·.setTemp v))
  | .setAi1 v => some (m.mapBoard (·.setAi1 v))
  | .setAi2 v => some (m.mapBoard (·.setAi2 v))
  | .setJ1 v => some (m.mapBoard (·.setJ1 v))
  | .setJ2 v => some (m.mapBoard (·.setJ2 v))
  | .setUio1 v => some (m.mapBoard (·.setUio1 v))
  | .setUio2 v => some (m.mapBoard (·.setUio2 v))
  | .setUio3 v => some (m.mapBoard (·.setUio3 v))
  | .setMode s => some { m with mode := s }
  | .busWrite a v => some (m.mapBus (·.write a v))
  | .busRead _ => some m
  | .load img ss ps => m.load img ss ps

/-- Does some edge of an assembly step panic?  (Instrumented copies of `stepA`/`stepB`.) -/
def stepAPanics : Nat → Machine → Bool
  | 0, _ => false
  | fuel + 1, m =>
    if m.core.done && m.run = .running then m.edgePanics || stepAPanics fuel (clockEdge m) else false
def stepBPanics : Nat → Machine → Bool
  | 0, _ => false
  | fuel + 1, m =>
    if !m.core.done && m.run = .running then
      m.edgePanics || (if clockEdge m = m then false else stepBPanics fuel (clockEdge m))
    else false

/-- Does the Rust call for `op` panic in state `m`? -/
def opPanics (fuel : Nat) (m : Machine) : MOp → Bool
  | .edge => m.edgePanics
  | .clock =>
    match m.mode with
    | .real => m.edgePanics
    | .assembly => stepAPanics fuel m || (match stepA fuel m with | some m1 => stepBPanics fuel m1 | none => false)
  | .load img _ _ => decide (img.length > Gen.C.ramSize)
  | _ => false     -- every other call has only the dead sites discharged above

end Machine
end Emu2a
