/-
Rendering of the AST (parser/ast/format.rs `Display` impls).
-/
import Emu2a.Model.Ast
import Emu2a.Gen.Consts
namespace Emu2a.Fmt
open Emu2a.Asm

def hexU (n : Nat) : Char := if n < 10 then Char.ofNat (48 + n) else Char.ofNat (55 + n)
/-- `{:>02X}`. -/
def hex2U (n : Nat) : String :=
  if n < 16 then String.ofList ['0', hexU n] else String.ofList [hexU (n / 16), hexU (n % 16)]

def reg : Reg → String | .r0 => "R0" | .r1 => "R1" | .r2 => "R2" | .r3 => "R3"
def const : Const → String | .num n => "0x" ++ hex2U n | .label l => l
def mem : MemAddr → String | .const c => "(" ++ const c ++ ")" | .reg r => "(" ++ reg r ++ ")"
def src : Src → String
  | .reg r => reg r | .mem m => mem m | .const c => const c
  | .di r => "(" ++ reg r ++ "+)" | .ddi r => "((" ++ reg r ++ "+))"
def dst : Dst → String
  | .reg r => reg r | .mem m => mem m | .di r => "(" ++ reg r ++ "+)" | .ddi r => "((" ++ reg r ++ "+))"
def ssize : SSize → String
  | .s0 => "0" | .s16 => "16" | .s32 => "32" | .s48 => "48" | .s64 => "64" | .notSet => "NOSET"
def psize : PSize → String | .auto => "AUTO" | .notSet => "NOSET" | .size n => toString n
def nums (l : List Nat) : String := ", ".intercalate (l.map toString)

def instr : Instr → String
  | .org n => s!".ORG {n}" | .byte n => s!".BYTE {n}" | .db l => ".DB " ++ nums l | .dw l => ".DW " ++ nums l
  | .equ l n => s!".EQU {l} {n}" | .stacksize s => "*STACKSIZE " ++ ssize s | .programsize p => "*PROGRAMSIZE " ++ psize p
  | .clr r => "CLR " ++ reg r
  | .add a b => s!"ADD {reg a}, {reg b}" | .adc a b => s!"ADC {reg a}, {reg b}" | .sub a b => s!"SUB {reg a}, {reg b}"
  | .mul a b => s!"MUL {reg a}, {reg b}" | .div a b => s!"DIV {reg a}, {reg b}"
  | .inc r => "INC " ++ reg r | .dec s => "DEC " ++ src s | .neg r => "NEG " ++ reg r
  | .and a b => s!"AND {reg a}, {reg b}" | .or a b => s!"OR {reg a}, {reg b}" | .xor a b => s!"XOR {reg a}, {reg b}"
  | .com r => "COM " ++ reg r
  | .bits d s => s!"BITS {dst d}, {src s}" | .bitc d s => s!"BITC {dst d}, {src s}" | .tst r => "TST " ++ reg r
  | .cmp d s => s!"CMP {dst d}, {src s}" | .bitt d s => s!"BITT {dst d}, {src s}"
  | .lsr r => "LSR " ++ reg r | .asr r => "ASR " ++ reg r | .lsl r => "LSL " ++ reg r | .rrc r => "RRC " ++ reg r
  | .rlc r => "RLC " ++ reg r
  | .mov d s => s!"MOV {dst d}, {src s}" | .ldConst r c => s!"LD {reg r}, {const c}"
  | .ldMem r m => s!"LD {reg r}, {mem m}" | .st m r => s!"ST {mem m}, {reg r}"
  | .push r => "PUSH " ++ reg r | .pop r => "POP " ++ reg r | .pushf => "PUSHF" | .popf => "POPF"
  | .ldsp s => "LDSP " ++ src s | .ldfr s => "LDFR " ++ src s
  | .jmp l => "JMP " ++ l | .jcs l => "JCS " ++ l | .jcc l => "JCC " ++ l | .jzs l => "JZS " ++ l
  | .jzc l => "JZC " ++ l | .jns l => "JNS " ++ l | .jnc l => "JNC " ++ l | .jr l => "JR " ++ l
  | .call l => "CALL " ++ l
  | .ret => "RET" | .reti => "RETI" | .stop => "STOP" | .nop => "NOP" | .ei => "EI" | .di => "DI"

/-- `pad_to_width`: blanks up to the width, never truncating (the padded texts are ASCII). -/
def padTo (w : Nat) (s : String) : String := s ++ String.ofList (List.replicate (w - s.length) ' ')

def cmt : Option String → String | some c => "; " ++ c | none => ""

def line : Line → String
  | .empty c => cmt c
  | .label l c => padTo Gen.C.commentWidth (l ++ ":") ++ cmt c
  | .instr i c => padTo Gen.C.instWidth "" ++ padTo (Gen.C.commentWidth - Gen.C.instWidth) (instr i) ++ cmt c

/-- `Display for Asm`. -/
def program (p : Program) : String :=
  "#! mrasm" ++ (match p.header with | some c => " ; " ++ c | none => "") ++
    String.join (p.lines.map fun l => "\n" ++ line l)

end Emu2a.Fmt
