/-
The assembler's abstract syntax tree (parser/ast/mod.rs).
-/
namespace Emu2a.Asm

inductive Reg | r0 | r1 | r2 | r3
  deriving DecidableEq, Repr, Inhabited

def Reg.num : Reg → Nat | .r0 => 0 | .r1 => 1 | .r2 => 2 | .r3 => 3

inductive Const
  | num (n : Nat)          -- `Constant::Constant(u8)`
  | label (s : String)     -- `Constant::Label`
  deriving DecidableEq, Repr, Inhabited

inductive MemAddr
  | const (c : Const)
  | reg (r : Reg)
  deriving DecidableEq, Repr, Inhabited

inductive Src
  | reg (r : Reg) | mem (m : MemAddr) | const (c : Const) | di (r : Reg) | ddi (r : Reg)
  deriving DecidableEq, Repr, Inhabited

inductive Dst
  | reg (r : Reg) | mem (m : MemAddr) | di (r : Reg) | ddi (r : Reg)
  deriving DecidableEq, Repr, Inhabited

inductive SSize | s0 | s16 | s32 | s48 | s64 | notSet
  deriving DecidableEq, Repr, Inhabited

inductive PSize | size (n : Nat) | auto | notSet
  deriving DecidableEq, Repr, Inhabited

inductive Instr
  | org (a : Nat) | byte (n : Nat) | db (bs : List Nat) | dw (ws : List Nat) | equ (l : String) (n : Nat)
  | stacksize (s : SSize) | programsize (p : PSize)
  | clr (r : Reg) | add (d s : Reg) | adc (d s : Reg) | sub (d s : Reg) | mul (d s : Reg) | div (d s : Reg)
  | inc (r : Reg) | dec (s : Src) | neg (r : Reg) | and (d s : Reg) | or (d s : Reg) | xor (d s : Reg)
  | com (r : Reg) | bits (d : Dst) (s : Src) | bitc (d : Dst) (s : Src) | tst (r : Reg)
  | cmp (d : Dst) (s : Src) | bitt (d : Dst) (s : Src) | lsr (r : Reg) | asr (r : Reg) | lsl (r : Reg)
  | rrc (r : Reg) | rlc (r : Reg) | mov (d : Dst) (s : Src) | ldConst (r : Reg) (c : Const)
  | ldMem (r : Reg) (m : MemAddr) | st (m : MemAddr) (r : Reg) | push (r : Reg) | pop (r : Reg)
  | pushf | popf | ldsp (s : Src) | ldfr (s : Src)
  | jmp (l : String) | jcs (l : String) | jcc (l : String) | jzs (l : String) | jzc (l : String)
  | jns (l : String) | jnc (l : String) | jr (l : String) | call (l : String)
  | ret | reti | stop | nop | ei | di
  deriving DecidableEq, Repr, Inhabited

inductive Line
  | empty (c : Option String)
  | label (l : String) (c : Option String)
  | instr (i : Instr) (c : Option String)
  deriving DecidableEq, Repr, Inhabited

structure Program where
  header : Option String       -- comment after the shebang
  lines : List Line
  deriving DecidableEq, Repr, Inhabited

/-- Case-insensitive comparison key of label names (`to_lowercase`; names are ASCII). -/
def lower (s : String) : String := s.toLower

end Emu2a.Asm
