/-
The machine around the core: halt states, memory wait, supervision, keys, resets, load and the
two step modes (raw/mod.rs `RawMachine`, machine/mod.rs `Machine`).
-/
import Emu2a.Model.Core
namespace Emu2a
open Gen

inductive RunState | stopped | error | running
  deriving DecidableEq, Repr, Inhabited

inductive Stacksize | s0 | s16 | s32 | s48 | s64 | notSet
  deriving DecidableEq, Repr, Inhabited

inductive Programsize
  | size (n : Nat)   -- `Programsize::Size(u8)`, n < 256
  | auto
  | notSet
  deriving DecidableEq, Repr, Inhabited

inductive StepMode | real | assembly
  deriving DecidableEq, Repr, Inhabited

def Stacksize.default : Stacksize :=
  match C.defaultStacksize with
  | 0 => .s0 | 16 => .s16 | 32 => .s32 | 48 => .s48 | 64 => .s64 | _ => .notSet

structure Machine where
  core : Core
  run : RunState
  wait : Bool
  ss : Stacksize
  ps : Programsize
  mode : StepMode
  deriving DecidableEq, Repr

namespace Machine

/-- `is_stackpointer_valid`. For `notSet` the Rust code hits `unreachable!`; the model returns `true`
there and `edgePanics` below reports the panic. -/
def spValid (ss : Stacksize) (sp : Byte) : Bool :=
  let s := sp.toNat
  if s ≥ C.spTop then false else
  match ss with
  | .s0 => true
  | .s16 => s ≤ C.bandLo16 || s ≥ C.bandHi16
  | .s32 => s ≤ C.bandLo32 || s ≥ C.bandHi32
  | .s48 => s ≤ C.bandLo48 || s ≥ C.bandHi48
  | .s64 => s ≤ C.bandLo64 || s ≥ C.bandHi64
  | .notSet => true

/-- `is_program_counter_valid`. -/
def pcValid (ps : Programsize) (pc : Byte) : Bool :=
  match ps with
  | .size n => pc.toNat ≤ n
  | _ => pc.toNat = 0

def new : Machine :=
  { core := Core.new, run := .running, wait := false, ss := Stacksize.default, ps := .auto, mode := .real }

instance : Inhabited Machine := ⟨new⟩

/-- Halt-state part of phase 1: a committed register write is supervised. -/
def superviseWrite (m : Machine) (c1 : Core) : RunState :=
  if m.core.pendReg.isSome then
    if !spValid m.ss c1.regs.r5 || !pcValid m.ps c1.regs.r3 then .error else m.run
  else m.run

/-- Halt-state part of phase 2: opcode 0x00 / 0x01 detection when the instruction register is loaded. -/
def superviseFetch (c1 : Core) (run : RunState) : RunState :=
  match Core.irAct (word c1.addr) with
  | .load =>
    if c1.lastBus.toNat = C.opError then .error
    else if c1.lastBus.toNat = C.opStop then (if run = .error then .error else .stopped)
    else run
  | _ => run

/-- An executed clock edge (machine running, no wait pending). -/
def exec (m : Machine) : Machine :=
  let c1 := m.core.applyPending
  let run1 := superviseWrite m c1
  let run2 := superviseFetch c1 run1
  let (c', w) := Core.execWord (Core.updateWord (Core.updateIr c1))
  { m with core := c', run := run2, wait := w }

/-- `trigger_clock_edge`. -/
def clockEdge (m : Machine) : Machine :=
  if m.run ≠ .running then m
  else if m.wait then { m with wait := false }
  else exec m

/-- The Rust edge panics (`unreachable!`) iff a register write is supervised with stack size NotSet
and the stack pointer is below 0xF0. -/
def edgePanics (m : Machine) : Bool :=
  m.run = .running && !m.wait && m.core.pendReg.isSome && m.ss = .notSet
    && decide ((m.core.applyPending.regs.r5).toNat < C.spTop)

/-- `trigger_key_edge_interrupt`. -/
def keyInterrupt (m : Machine) : Machine :=
  let c := m.core
  let (pend, misr) := if c.bus.keyEdgeEnabled
    then (true, c.bus.misr ||| BitVec.ofNat 8 C.misrKeyPending)
    else (c.pendInt, c.bus.misr)
  let misr := misr ||| BitVec.ofNat 8 C.misrKeyActive
  { m with core := { c with pendInt := pend, bus := { c.bus with misr := misr } } }

/-- `trigger_key_continue`. -/
def keyContinue (m : Machine) : Machine :=
  if m.run = .stopped then { m with run := .running } else m

/-- `RawMachine::cpu_reset`. -/
def cpuReset (m : Machine) : Machine :=
  { m with
    core := { m.core with addr := 0, regs := Regs.zero, ir := C.irReset, pendReg := none, pendFlag := false,
                          pendInt := false, alu := AluOut.default, lastBus := 0, bus := m.core.bus.cpuReset },
    run := .running, wait := false }

/-- `RawMachine::master_reset`. -/
def masterReset (m : Machine) : Machine :=
  let m := cpuReset m
  { m with core := { m.core with bus := m.core.bus.masterReset } }

def mapBus (m : Machine) (f : Bus → Bus) : Machine := { m with core := { m.core with bus := f m.core.bus } }
def mapBoard (m : Machine) (f : Board → Board) : Machine := m.mapBus fun b => { b with board := f b.board }

/-- RAM after `reset_ram` and copying the image; `none` when the image does not fit
(the Rust code panics on the out-of-bounds index). -/
def fillRam (img : List Byte) : Option (Vector Byte 240) :=
  if img.length ≤ C.ramSize then
    some (Vector.ofFn fun (i : Fin 240) => img.getD i.val 0#8)
  else none

/-- `Machine::load`; `none` = the Rust code panics (image larger than the RAM). -/
def load (m : Machine) (img : List Byte) (ss : Stacksize) (ps : Programsize) : Option Machine :=
  match fillRam img with
  | none => none
  | some ram =>
    let m := masterReset m
    let m := m.mapBus fun b => { b with ram := ram }
    let m := if ss ≠ .notSet then { m with ss := ss } else m
    let m := match ps with
      | .size n => { m with ps := .size n }
      | .auto => { m with ps := .size (img.length % 256) }
      | .notSet => m
    some m

/-- Fuel-bounded loops of assembly step mode.  Phase A: `while done && running`. -/
def stepA : Nat → Machine → Option Machine
  | 0, _ => none
  | fuel + 1, m =>
    if m.core.done && m.run = .running then stepA fuel (clockEdge m) else some m

/-- Phase B: `while !done && running { edge; if unchanged break }`. -/
def stepB : Nat → Machine → Option Machine
  | 0, _ => none
  | fuel + 1, m =>
    if !m.core.done && m.run = .running then
      let m' := clockEdge m
      if m' = m then some m' else stepB fuel m'
    else some m

/-- `trigger_key_clock`; `none` = out of fuel. -/
def keyClock (fuel : Nat) (m : Machine) : Option Machine :=
  match m.mode with
  | .real => some (clockEdge m)
  | .assembly => (stepA fuel m).bind (stepB fuel)

end Machine
end Emu2a
