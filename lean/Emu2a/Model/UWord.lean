/-
Control word of the micro-sequencer (`Word` bitflags in microprogram_ram.rs), decoded into fields.
-/
namespace Emu2a

abbrev Byte := BitVec 8

/-- A decoded control word. `na`, `aa`, `ab`, `alus` are the small bit groups as numbers
(NA4..NA0, MRGAA2..0, MRGAB2..0, MALUS3..0). -/
structure UWord where
  mac3 : Bool
  mac2 : Bool
  mac1 : Bool
  mac0 : Bool
  na : Nat
  buswr : Bool
  busen : Bool
  aa3 : Bool
  aa : Nat
  ab3 : Bool
  ab : Nat
  mrgws : Bool
  mrgwe : Bool
  maluia : Bool
  maluib : Bool
  alus : Nat
  mchflg : Bool
  deriving DecidableEq, Repr, Inhabited

/-- Bit position of every `Word` constant (generated from the bitflags block). -/
structure BitPos where
  mac3 : Nat
  mac2 : Nat
  mac1 : Nat
  mac0 : Nat
  na4 : Nat
  na3 : Nat
  na2 : Nat
  na1 : Nat
  na0 : Nat
  buswr : Nat
  busen : Nat
  mrgaa3 : Nat
  mrgaa2 : Nat
  mrgaa1 : Nat
  mrgaa0 : Nat
  mrgab3 : Nat
  mrgab2 : Nat
  mrgab1 : Nat
  mrgab0 : Nat
  mrgws : Nat
  mrgwe : Nat
  maluia : Nat
  maluib : Nat
  malus3 : Nat
  malus2 : Nat
  malus1 : Nat
  malus0 : Nat
  mchflg : Nat

def bitN (v p : Nat) : Nat := v / 2 ^ p % 2
def bitB (v p : Nat) : Bool := v / 2 ^ p % 2 == 1

/-- Decode a raw 32-bit literal the way `Signals` reads the `Word` (one `contains` per flag). -/
def UWord.decode (P : BitPos) (v : Nat) : UWord :=
  { mac3 := bitB v P.mac3, mac2 := bitB v P.mac2, mac1 := bitB v P.mac1, mac0 := bitB v P.mac0,
    na := 16 * bitN v P.na4 + 8 * bitN v P.na3 + 4 * bitN v P.na2 + 2 * bitN v P.na1 + bitN v P.na0,
    buswr := bitB v P.buswr, busen := bitB v P.busen,
    aa3 := bitB v P.mrgaa3,
    aa := 4 * bitN v P.mrgaa2 + 2 * bitN v P.mrgaa1 + bitN v P.mrgaa0,
    ab3 := bitB v P.mrgab3,
    ab := 4 * bitN v P.mrgab2 + 2 * bitN v P.mrgab1 + bitN v P.mrgab0,
    mrgws := bitB v P.mrgws, mrgwe := bitB v P.mrgwe,
    maluia := bitB v P.maluia, maluib := bitB v P.maluib,
    alus := 8 * bitN v P.malus3 + 4 * bitN v P.malus2 + 2 * bitN v P.malus1 + bitN v P.malus0,
    mchflg := bitB v P.mchflg }

/-- All-zero word (unprogrammed address). -/
def UWord.zero : UWord :=
  ⟨false, false, false, false, 0, false, false, false, 0, false, 0, false, false, false, false, 0, false⟩

/-- Field-wise Boolean equality (cheap for the kernel, unlike the derived `DecidableEq`). -/
def UWord.same (a b : UWord) : Bool :=
  a.mac3 == b.mac3 && a.mac2 == b.mac2 && a.mac1 == b.mac1 && a.mac0 == b.mac0 && a.na == b.na &&
  a.buswr == b.buswr && a.busen == b.busen && a.aa3 == b.aa3 && a.aa == b.aa && a.ab3 == b.ab3 &&
  a.ab == b.ab && a.mrgws == b.mrgws && a.mrgwe == b.mrgwe && a.maluia == b.maluia &&
  a.maluib == b.maluib && a.alus == b.alus && a.mchflg == b.mchflg

theorem UWord.same_iff (a b : UWord) : a.same b = true ↔ a = b := by
  cases a; cases b
  simp [UWord.same, and_assoc]

end Emu2a
