/-
The interactive session (emulator-2a/src/tui): the line editor with history and completion
(`input/mod.rs`), the nom command grammar (`input/parser.rs`), the layout arithmetic of the input
widget, and the event dispatch of `tui/mod.rs`.

Every Rust operation that can panic (indexing, `Vec::insert/remove`, `%` by zero, `usize`
subtraction, string slicing at a byte offset) is an explicit `panic <site>` outcome here; the
theorems of Props/C17 show that none of them is reachable.  External calls are parameters: the path
completer's answer (`fc`) and the file system (`fs`).
-/
import Emu2a.Model.Runner
namespace Emu2a.Tui
open Emu2a

inductive Fault | panic (site : String) | nofuel | unknown (what : String)
  deriving Repr, DecidableEq

abbrev M := Except Fault

def panic {α} (site : String) : M α := .error (.panic site)

/-! ### Line editor -/

structure Editor where
  input : List Char := []
  idx : Nat := 0
  hist : List String := []          -- oldest first
  hidx : Option Nat := none
  comps : Option (List (List Char) × Nat) := none
  deriving Repr, DecidableEq

inductive Key
  | enter | tab | backtab | char (c : Char) | backspace | home | «end» | left | right | up | down | delete
  | other          -- any key code the editor never receives (Esc, Insert, F-keys, PageUp ...)
  deriving Repr, DecidableEq

/-- `Vec::insert(i, c)`: panics if `i > len`. -/
def insertAt (l : List Char) (i : Nat) (c : Char) : M (List Char) :=
  if i ≤ l.length then .ok (l.take i ++ c :: l.drop i) else panic "Vec::insert index > len"

/-- `Vec::remove(i)`: panics if `i ≥ len`. -/
def removeAt (l : List Char) (i : Nat) : M (List Char) :=
  if i < l.length then .ok (l.take i ++ l.drop (i + 1)) else panic "Vec::remove index >= len"

def nth {α} (l : List α) (i : Nat) (site : String) : M α :=
  match l[i]? with | some x => .ok x | none => panic site

def utf8Len (c : Char) : Nat := c.utf8Size

/-- Is `pos` a character boundary of the UTF-8 encoding of `s` (incl. 0 and the end)? -/
def isBoundary : List Char → Nat → Bool
  | _, 0 => true
  | [], _ + 1 => false
  | c :: cs, p + 1 => if utf8Len c ≤ p + 1 then isBoundary cs (p + 1 - utf8Len c) else false

def startsWith (l p : List Char) : Bool := p.isPrefixOf l

def loadPrefix : List Char := "load ".toList

/-- First half of `InputState::complete`: which completions there are.  `fc` is what the path
completer answers for this call (`none`: no scripted answer, the real file-system lookup, which
the model does not know). -/
def complete1 (e : Editor) (fc : Option (List String)) : M Editor :=
  if startsWith e.input loadPrefix then
    -- byte offset of the cursor inside `s`; `self.input[..self.input_index]` panics if idx > len
    if e.idx > e.input.length then panic "slice input[..input_index]" else
    -- `complete_path` slices `&s[..pos]`
    if !isBoundary (e.input.drop 5) (((e.input.take e.idx).drop 5).map utf8Len).sum then
      panic "complete_path: pos is not a char boundary" else
    match fc with
    | some list => .ok { e with comps := some (list.map (fun r => loadPrefix ++ r.toList), 0) }
    | none => .error (.unknown "file-system completion")
  else if startsWith e.input ['l'] then .ok { e with comps := some ([loadPrefix], 0) }
  else if startsWith e.input ['s'] then .ok { e with comps := some (["set ".toList], 0) }
  else if startsWith e.input ['F'] && decide (e.idx > 1) && decide (e.idx ≤ 4) then
    match e.input[1]? with
    | some 'C' => .ok { e with comps := some (["FC = ".toList], 0) }
    | some 'D' => .ok { e with comps := some (["FD = ".toList], 0) }
    | some 'E' => .ok { e with comps := some (["FE = ".toList], 0) }
    | some 'F' => .ok { e with comps := some (["FF = ".toList], 0) }
    | _ => .ok e     -- `return`
  else .ok e

/-- Second half: the current input is appended to the list and the first completion selected. -/
def complete2 (e1 : Editor) : M Editor :=
  match e1.comps with
  | some (comps, i) =>
    match (comps ++ [e1.input])[i]? with
    | some sel => .ok { e1 with comps := some (comps ++ [e1.input], i), input := sel, idx := sel.length }
    | none => panic "comps[idx]"
  | none => .ok e1

/-- `InputState::complete`. -/
def complete (e : Editor) (fc : Option (List String)) : M Editor :=
  match complete1 e fc with
  | .ok e1 => complete2 e1
  | .error f => .error f

/-- `usize::MAX`. -/
def usizeMax : Nat := 2 ^ 64 - 1

def nextCompletion (e : Editor) (fc : Option (List String)) : M Editor :=
  match e.comps with
  | some (comps, i) =>
    if comps.length = 0 then panic "remainder by zero" else
    match comps[(i + 1) % comps.length]? with
    | some sel => .ok { e with comps := some (comps, (i + 1) % comps.length), input := sel, idx := sel.length }
    | none => panic "comps[idx]"
  | none => complete e fc

def prevCompletion (e : Editor) (fc : Option (List String)) : M Editor :=
  match e.comps with
  | some (comps, i) =>
    if comps.length = 0 then panic "remainder by zero" else
    -- `(idx as isize - 1) as usize % len`
    match comps[(if i = 0 then usizeMax else i - 1) % comps.length]? with
    | some sel =>
      .ok { e with comps := some (comps, (if i = 0 then usizeMax else i - 1) % comps.length), input := sel, idx := sel.length }
    | none => panic "comps[idx]"
  | none => complete e fc

/-- The `match` of `InputState::handle`. -/
def handle1 (e : Editor) (k : Key) (fc : Option (List String)) : M Editor :=
  match k with
  | .enter =>
    .ok { e with hist := if e.input.isEmpty then e.hist else e.hist ++ [String.ofList e.input],
                 input := [], idx := 0, hidx := none }
  | .tab => nextCompletion e fc
  | .backtab => prevCompletion e fc
  | .char c =>
    -- `Vec::insert(i, c)` panics if `i > len`
    if e.idx ≤ e.input.length then .ok { e with input := e.input.take e.idx ++ c :: e.input.drop e.idx, idx := e.idx + 1 }
    else panic "Vec::insert index > len"
  | .backspace =>
    if e.idx > 0 then
      -- `Vec::remove(i)` panics if `i ≥ len`
      if e.idx - 1 < e.input.length then
        .ok { e with input := e.input.take (e.idx - 1) ++ e.input.drop e.idx, idx := e.idx - 1 }
      else panic "Vec::remove index >= len"
    else .ok e
  | .home => .ok { e with idx := 0 }
  | .«end» => .ok { e with idx := e.input.length }
  | .left => .ok (if e.idx > 0 then { e with idx := e.idx - 1 } else e)
  | .right => .ok (if e.idx < e.input.length then { e with idx := e.idx + 1 } else e)
  | .up =>
    match e.hidx with
    | some i =>
      if i > 0 then
        match e.hist[i - 1]? with
        | some h => .ok { e with hidx := some (i - 1), input := h.toList, idx := h.toList.length }
        | none => panic "history[index - 1]"
      else .ok e
    | none =>
      match e.hist.getLast? with
      | some h => .ok { e with hidx := some (e.hist.length - 1), input := h.toList, idx := h.toList.length }
      | none => .ok e
  | .down =>
    match e.hidx with
    | some i =>
      if e.hist.length = 0 then panic "history.len() - 1 underflows" else
      if i < e.hist.length - 1 then
        match e.hist[i + 1]? with
        | some h => .ok { e with hidx := some (i + 1), input := h.toList, idx := h.toList.length }
        | none => panic "history[index + 1]"
      else if i = e.hist.length - 1 then .ok { e with hidx := none, input := [], idx := 0 }
      else .ok e
    | none => .ok e
  | .delete =>
    if e.idx < e.input.length then .ok { e with input := e.input.take e.idx ++ e.input.drop (e.idx + 1) }
    else .ok e
  | .other => panic "unreachable!: the input field should not have received this key"

/-- `InputState::handle`: any key but Tab / BackTab ends a completion. -/
def Editor.handle (e : Editor) (k : Key) (fc : Option (List String)) : M Editor :=
  match handle1 e k fc with
  | .ok e' => .ok (if k ≠ .tab ∧ k ≠ .backtab then { e' with comps := none } else e')
  | .error f => .error f

/-! ### Input widget layout (`impl StatefulWidget for InputWidget`) -/

/-- A cell of the input row: symbol and style mark (`y` yellow foreground, `b` yellow background). -/
structure Cell where
  sym : Char := ' '
  mark : Char := '.'
  deriving Repr, DecidableEq

/-- Control characters have no width: `set_stringn` skips them. -/
def zeroWidth (c : Char) : Bool := c.toNat < 32 || (0x7f ≤ c.toNat && c.toNat < 0xa0)

/-- `Buffer::set_stringn` of a one-cell-wide symbol at column `x` (relative to the row) with at most
`maxw` columns available: out of the row is a panic (`index_of`), no room means nothing is drawn. -/
def putCell (row : List Cell) (x : Nat) (maxw : Nat) (c : Cell) : M (List Cell) :=
  if x ≥ row.length then panic "Buffer index out of range" else
  if maxw = 0 ∨ zeroWidth c.sym then .ok row else .ok (row.set x c)

/-- `start` of the visible window: the text is cut on the left when it is longer than the field, and
the window is moved left to keep the cursor (with five characters of context) visible. -/
def winStart (maxw len idx : Nat) : Nat :=
  if len - maxw > 0 ∧ len - maxw + 5 > idx then idx - 5 else len - maxw

/-- The displayed characters: dots for what is cut off on the left and on the right. -/
def visible (w : Nat) (input : List Char) (idx : Nat) : M (List Char) :=
  if w < 3 then panic "area.width - 3 underflows" else
  let maxw := w - 3
  let start := winStart maxw input.length idx
  if start > 0 ∧ start + 3 > input.length then panic "slice string[start + 3..]" else
  let s1 := if start > 0 then "...".toList ++ input.drop (start + 3) else input
  if s1.length > maxw then
    (if maxw < 3 then panic "max_string_width - 3 underflows" else .ok (s1.take (maxw - 3) ++ "...".toList))
  else .ok s1

/-- The loop drawing the characters: the `i`-th at column `2 + i`, highlighted at the cursor. -/
def drawChars (w hl : Nat) : List Cell → Nat → List Char → M (List Cell)
  | row, _, [] => .ok row
  | row, i, c :: cs =>
    if w < 2 + i then panic "area.width - 2 - i underflows" else
    match putCell row (2 + i) (w - 2 - i) ⟨c, if i = hl then 'b' else '.'⟩ with
    | .ok row' => drawChars w hl row' (i + 1) cs
    | .error f => .error f

/-- The row the widget draws for an area of width `w` (all characters one cell wide). -/
def renderRow (w : Nat) (input : List Char) (idx : Nat) : M (List Cell) :=
  match visible w input idx with
  | .error f => .error f
  | .ok s2 =>
    let start := winStart (w - 3) input.length idx
    -- prompt "> "
    match putCell (List.replicate w {}) 0 w ⟨'>', 'y'⟩ with
    | .error f => .error f
    | .ok row1 =>
      match putCell row1 1 (w - 1) ⟨' ', 'y'⟩ with
      | .error f => .error f
      | .ok row2 =>
        if idx < start then panic "input_index - start underflows" else
        match drawChars w (idx - start) row2 0 s2 with
        | .error f => .error f
        | .ok row3 =>
          if idx = input.length then putCell row3 (idx - start + 2) 1 ⟨'█', 'y'⟩ else .ok row3

/-! ### Command grammar (nom combinators, transliterated) -/

abbrev P (α : Type) := List Char → Option (α × List Char)

def lowerC (c : Char) : Char := if 'A' ≤ c ∧ c ≤ 'Z' then Char.ofNat (c.toNat + 32) else c

/-- `tag_no_case` for an ASCII tag. -/
def tagNC (t : String) : P Unit := fun inp =>
  let tl := t.toList
  if (inp.take tl.length).map lowerC = tl.map lowerC ∧ tl.length ≤ inp.length then some ((), inp.drop tl.length) else none

def tag (t : String) : P Unit := fun inp =>
  if t.toList.isPrefixOf inp then some ((), inp.drop t.length) else none

/-- `is_a(set)` / `digit1` / `hex_digit1`: one or more characters satisfying `p`. -/
def many1 (p : Char → Bool) : P (List Char) := fun inp =>
  let m := inp.takeWhile p
  if m.isEmpty then none else some (m, inp.dropWhile p)

def isWs (c : Char) : Bool := c = ' ' || c = '\t'
def isDigit (c : Char) : Bool := '0' ≤ c && c ≤ '9'
def isHex (c : Char) : Bool := isDigit c || ('a' ≤ c && c ≤ 'f') || ('A' ≤ c && c ≤ 'F')
def isBit (c : Char) : Bool := c = '0' || c = '1'

def ws : P Unit := fun inp => (many1 isWs inp).map fun (_, r) => ((), r)
def wsOpt : P Unit := fun inp => match ws inp with | some r => some r | none => some ((), inp)

/-- Prefix tag, digits of the radix, value below the limit (`u8::from_str_radix` / `parse`). -/
def number (pre : Option String) (isD : Char → Bool) (base limit : Nat) : P Nat := fun inp =>
  match (match pre with | some t => tagNC t inp | none => some ((), inp)) with
  | none => none
  | some (_, r) =>
    match many1 isD r with
    | none => none
    | some (ds, r) =>
      match Parse.fromRadix base limit ds with
      | none => none
      | some v => some (v, r)

def nrHex : P Nat := number (some "0x") isHex 16 256
def nrBin : P Nat := number (some "0b") isBit 2 256
def nrDec : P Nat := number none isDigit 10 256
def nrDecUsize : P Nat := number none isDigit 10 (2 ^ 64)

def valueU8 : P Nat := fun inp =>
  match nrHex inp with
  | some r => some r
  | none => match nrBin inp with
    | some r => some r
    | none => nrDec inp

def andThen (p q : P Unit) : P Unit := fun inp =>
  match p inp with
  | none => none
  | some (_, r) => q r

def setWs : P Unit := andThen (tagNC "set") ws
def unsetWs : P Unit := andThen (tagNC "unset") ws
def eqWs : P Unit := andThen wsOpt (andThen (tag "=") wsOpt)

/-- Result of nom's `float` on the part of the grammar the model covers: `digits [. digits]`, at most
nine digits, not followed by something `float` might also consume.  Anything else is `unknown`. -/
inductive FloatRes | ok (bits : F32.Bits) (rest : List Char) | fail | unknown

def natOfDigits (ds : List Char) : Nat := ds.foldl (fun a c => a * 10 + (c.toNat - 48)) 0

def floatLit (inp : List Char) : FloatRes :=
  let ip := inp.takeWhile isDigit
  let r1 := inp.dropWhile isDigit
  if ip.isEmpty then
    (match inp with
     | [] => .fail
     | c :: _ => if c = '.' ∨ c = '+' ∨ c = '-' ∨ lowerC c = 'i' ∨ lowerC c = 'n' then .unknown else .fail)
  else
    let (fp, r2) := match r1 with
      | '.' :: t => (t.takeWhile isDigit, t.dropWhile isDigit)
      | _ => ([], r1)
    let dotNoDigits := match r1 with | '.' :: t => (t.takeWhile isDigit).isEmpty | _ => false
    let follows : Bool := match r2 with | c :: _ => lowerC c == 'e' || c == '.' | [] => false
    if dotNoDigits || follows || decide (ip.length + fp.length > 9) then .unknown
    else .ok (F32.roundRat (natOfDigits (ip ++ fp)) (10 ^ fp.length) 0) r2

inductive Cmd
  | load (path : List Char)
  | reg (r : Nat) (v : Nat)       -- 0..3 = FC..FF
  | irg (v : Nat)
  | temp (b : F32.Bits) | i1 (b : F32.Bits) | i2 (b : F32.Bits)
  | j1 (b : Bool) | j2 (b : Bool) | uio1 (b : Bool) | uio2 (b : Bool) | uio3 (b : Bool)
  | show (memory : Bool)
  | next (n : Nat)
  | quit
  deriving Repr, DecidableEq

/-- Outcome of one alternative: success, failure (try the next one), or outside the modelled floats. -/
inductive Alt (α : Type) | ok (v : α) (rest : List Char) | fail | unknown

def ofOpt {α} : Option (α × List Char) → Alt α
  | some (v, r) => .ok v r
  | none => .fail

def cmdLoad : List Char → Alt Cmd := fun inp =>
  match tagNC "load" inp with
  | none => .fail
  | some (_, r) =>
    match ws r with
    | none => .fail
    | some (_, r) => .ok (.load r) []       -- `rest`

def inputReg : P Nat := fun inp =>
  match tagNC "fc" inp with
  | some (_, r) => some (0, r)
  | none => match tagNC "fd" inp with
    | some (_, r) => some (1, r)
    | none => match tagNC "fe" inp with
      | some (_, r) => some (2, r)
      | none => match tagNC "ff" inp with
        | some (_, r) => some (3, r)
        | none => none

/-- `<target> ws* = ws* <byte>` after an optional / mandatory `set`. -/
def assignByte (target : P Nat) (mk : Nat → Nat → Cmd) (r : List Char) : Alt Cmd :=
  match target r with
  | none => .fail
  | some (i, r) =>
    match eqWs r with
    | none => .fail
    | some (_, r) =>
      match valueU8 r with
      | none => .fail
      | some (v, r) => .ok (mk i v) r

def cmdSetReg : List Char → Alt Cmd := fun inp =>
  assignByte inputReg .reg (match setWs inp with | some (_, r) => r | none => inp)

def irgTag : P Nat := fun inp => match tagNC "IRG" inp with | some (_, r) => some (0, r) | none => none

def cmdSetIrg : List Char → Alt Cmd := fun inp =>
  match setWs inp with
  | none => .fail
  | some (_, r) => assignByte irgTag (fun _ v => .irg v) r

def floatArg (name : String) (mk : F32.Bits → Cmd) (r : List Char) : Alt Cmd :=
  match (do let (_, r) ← tagNC name r; eqWs r) with
  | none => .fail
  | some (_, r) =>
    match floatLit r with
    | .ok b rest => .ok (mk b) rest
    | .fail => .fail
    | .unknown => .unknown

def cmdSetTemp : List Char → Alt Cmd := fun inp =>
  match setWs inp with
  | none => .fail
  | some (_, r) => floatArg "TEMP" .temp r

def cmdSetIx : List Char → Alt Cmd := fun inp =>
  match setWs inp with
  | none => .fail
  | some (_, r) =>
    match floatArg "I1" .i1 r with
    | .fail => floatArg "I2" .i2 r
    | o => o

def pre (p : P Unit) (name : String) (c : Cmd) : List Char → Option (Cmd × List Char) := fun inp =>
  match p inp with
  | none => none
  | some (_, r) =>
    match tagNC name r with
    | none => none
    | some (_, r) => some (c, r)

def firstOf {α} : List (List Char → Option (α × List Char)) → List Char → Option (α × List Char)
  | [], _ => none
  | p :: ps, inp => match p inp with | some r => some r | none => firstOf ps inp

def cmdSetJx : List Char → Alt Cmd := fun inp => ofOpt <|
  firstOf [pre setWs "J1" (.j1 true), pre setWs "J2" (.j2 true), pre unsetWs "J1" (.j1 false), pre unsetWs "J2" (.j2 false)] inp

def cmdSetUiox : List Char → Alt Cmd := fun inp => ofOpt <|
  firstOf [pre setWs "UIO1" (.uio1 true), pre setWs "UIO2" (.uio2 true), pre setWs "UIO3" (.uio3 true),
           pre unsetWs "UIO1" (.uio1 false), pre unsetWs "UIO2" (.uio2 false), pre unsetWs "UIO3" (.uio3 false)] inp

def cmdShow : List Char → Alt Cmd := fun inp =>
  match tagNC "show" inp with
  | none => .fail
  | some (_, r) =>
    match ws r with
    | none => .fail
    | some (_, r) =>
      match tagNC "register" r with
      | some (_, r) => .ok (.show false) r
      | none =>
        match tagNC "memory" r with
        | some (_, r) => .ok (.show true) r
        | none => .fail

def cmdNext : List Char → Alt Cmd := fun inp =>
  match tagNC "next" inp with
  | none => .fail
  | some (_, r) =>
    match ws r with
    | none => .ok (.next 1) r
    | some (_, r') =>
      match nrDecUsize r' with
      | some (n, r'') => .ok (.next n) r''
      | none => .ok (.next 1) r

def cmdQuit : List Char → Alt Cmd := fun inp =>
  match tagNC "quit" inp with
  | some (_, r) => .ok .quit r
  | none =>
    match tagNC "exit" inp with
    | some (_, r) => .ok .quit r
    | none => .fail

def altAll : List (List Char → Alt Cmd) → List Char → Alt Cmd
  | [], _ => .fail
  | p :: ps, inp => match p inp with | .fail => altAll ps inp | o => o

inductive ParseRes | cmd (c : Cmd) | invalid | unknown
  deriving Repr, DecidableEq

/-- What `ws_opt` leaves. -/
def stripWs (l : List Char) : List Char := l.dropWhile isWs

def allCmds : List (List Char → Alt Cmd) :=
  [cmdLoad, cmdSetReg, cmdSetIrg, cmdSetTemp, cmdSetIx, cmdSetJx, cmdSetUiox, cmdShow, cmdNext, cmdQuit]

/-- `all_consuming(.. ws_opt)`: only blanks may follow the command. -/
def finish : Alt Cmd → ParseRes
  | .ok c rest => if (stripWs rest).isEmpty then .cmd c else .invalid
  | .fail => .invalid
  | .unknown => .unknown

/-- `parse_cmd`: `all_consuming(delimited(ws_opt, alt((...)), ws_opt))`. -/
def parseCmd (line : List Char) : ParseRes := finish (altAll allCmds (stripWs line))

/-! ### Session state and event dispatch (`tui/mod.rs`) -/

inductive Note | invalid (line : String) | loadFail
  deriving Repr, DecidableEq

structure State where
  m : Machine
  ed : Editor := {}
  note : Option Note := none
  showMemory : Bool := false
  auto : Bool := false
  deriving Repr, DecidableEq

def State.new : State := { m := Runner.applyConfig {} Machine.new }

structure Mods where
  ctrl : Bool := false
  shift : Bool := false
  alt : Bool := false
  deriving Repr, DecidableEq

/-- Key codes as the event loop sees them (crossterm `KeyCode`). -/
inductive Code | key (k : Key) | esc | insert | pageUp | pageDown | null | f (n : Nat)
  deriving Repr, DecidableEq

def stepFuel : Nat := 100000

def keyClock (m : Machine) : M Machine :=
  match m.keyClock stepFuel with | some m' => .ok m' | none => .error .nofuel

def clocks : Nat → Machine → M Machine
  | 0, m => .ok m
  | n + 1, m => do let m' ← keyClock m; clocks n m'

/-- `Tui::load_program`: read, parse, translate, load.  `fs` is the file system. -/
def loadProgram (st : State) (fs : String → Option String) (path : String) : M State :=
  match fs path with
  | none => .ok { st with note := some .loadFail }
  | some src =>
    match Parse.parse (Parse.defaultFuel src) src with
    | .ok p =>
      match Asm.compile p with
      | .ok b =>
        match st.m.load (b.bytes.map (BitVec.ofNat 8)) (Runner.ssOf b.ss) (Runner.psOf b.ps) with
        | some m => .ok { st with m := m }
        | none => panic "Machine::load: image larger than the RAM"
      | .error e => panic e.str
    | .panic s => panic s
    | _ => .ok { st with note := some .loadFail }

/-- The effect of a parsed command on the session; `true` = quit. -/
def execCmd (st : State) (fs : String → Option String) : Cmd → M (State × Bool)
  | .load p => do let s ← loadProgram st fs (String.ofList p); pure (s, false)
  | .reg 0 v => pure ({ st with m := st.m.mapBus (·.setInputReg 0 (BitVec.ofNat 8 v)) }, false)
  | .reg 1 v => pure ({ st with m := st.m.mapBus (·.setInputReg 1 (BitVec.ofNat 8 v)) }, false)
  | .reg 2 v => pure ({ st with m := st.m.mapBus (·.setInputReg 2 (BitVec.ofNat 8 v)) }, false)
  | .reg _ v => pure ({ st with m := st.m.mapBus (·.setInputReg 3 (BitVec.ofNat 8 v)) }, false)
  | .irg v => pure ({ st with m := st.m.mapBoard (·.setDi1 (BitVec.ofNat 8 v)) }, false)
  | .temp b => pure ({ st with m := st.m.mapBoard (·.setTemp b) }, false)
  | .i1 b => pure ({ st with m := st.m.mapBoard (·.setAi1 b) }, false)
  | .i2 b => pure ({ st with m := st.m.mapBoard (·.setAi2 b) }, false)
  | .j1 b => pure ({ st with m := st.m.mapBoard (·.setJ1 b) }, false)
  | .j2 b => pure ({ st with m := st.m.mapBoard (·.setJ2 b) }, false)
  | .uio1 b => pure ({ st with m := st.m.mapBoard (·.setUio1 b) }, false)
  | .uio2 b => pure ({ st with m := st.m.mapBoard (·.setUio2 b) }, false)
  | .uio3 b => pure ({ st with m := st.m.mapBoard (·.setUio3 b) }, false)
  | .show mem => pure ({ st with showMemory := mem }, false)
  | .next n => do let m ← clocks n st.m; pure ({ st with m := m }, false)
  | .quit => pure (st, true)

/-- `Tui::handle_input`. -/
def handleInput (st : State) (fc : Option (List String)) (fs : String → Option String) : M (State × Bool) := do
  let ed ← st.ed.handle .enter fc
  let st := { st with ed := ed }
  match ed.hist.getLast? with
  | none => pure (st, false)          -- `last_cmd()` is None and `last()` is None: the notification stays empty
  | some line =>
    match parseCmd line.toList with
    | .cmd c => execCmd st fs c
    | .invalid => pure ({ st with note := some (.invalid line) }, false)
    | .unknown => .error (.unknown "float syntax outside the model")

/-- `Tui::handle_event` for one key event. -/
def handleEvent (st : State) (code : Code) (mods : Mods) (fc : Option (List String)) (fs : String → Option String) :
    M (State × Bool) :=
  if st.note.isSome then pure ({ st with note := none }, false) else
  if mods = { ctrl := true } then
    match code with
    | .key (.char 'c') => pure (st, true)
    | .key (.char 'a') => pure ({ st with auto := !st.auto }, false)
    | .key (.char 'w') =>
      pure ({ st with m := { st.m with mode := match st.m.mode with | .real => .assembly | .assembly => .real } }, false)
    | .key (.char 'e') => pure ({ st with m := st.m.keyInterrupt }, false)
    | .key (.char 'r') => pure ({ st with m := st.m.cpuReset }, false)
    | .key (.char 'l') => pure ({ st with m := st.m.keyContinue }, false)
    | _ => pure (st, false)
  else
    match code with
    | .key .enter =>
      if st.ed.input.isEmpty then do
        let m ← keyClock st.m
        pure ({ st with m := m }, false)
      else handleInput st fc fs
    | .key .other => pure (st, false)
    | .key k => do
      let ed ← st.ed.handle k fc
      pure ({ st with ed := ed }, false)
    | _ => pure (st, false)

/-- Layout of `Interface` / `MainView`: width of the input field for a terminal of `w` columns
(`none`: the "too small" screen is drawn instead). -/
def inputWidth (w h : Nat) : Option Nat :=
  if w < Gen.C.tuiMinWidth ∨ h < Gen.C.tuiMinHeight then none else some (w - Gen.C.tuiSidebarWidth - 2)

end Emu2a.Tui
