/-
A PEG interpreter with pest's token semantics for the constructs mrasm.pest uses.
Input is a list of characters; every non-silent rule that matches produces a token (tree node) that
spans the consumed text; `EOI` also produces a token, the other built-ins do not.
-/
namespace Emu2a.Peg

inductive Builtin | soi | eoi | any | newline | ascii_bin_digit | ascii_hex_digit | ascii_alpha | ascii_alphanumeric
  deriving DecidableEq, Repr

inductive Expr
  | str (s : List Char)
  | istr (s : List Char)           -- `^"…"`: ASCII case-insensitive
  | range (lo hi : Char)
  | builtin (b : Builtin)
  | seq (a b : Expr)
  | choice (a b : Expr)
  | star (e : Expr)
  | plus (e : Expr)
  | opt (e : Expr)
  | rep (e : Expr) (min max : Nat)
  | notP (e : Expr)
  | rule (name : String)
  deriving Repr

structure RuleDef where
  name : String
  silent : Bool
  body : Expr

abbrev Grammar := List RuleDef

def Grammar.find (g : Grammar) (n : String) : Option RuleDef := List.find? (fun r => r.name == n) g

/-- A token: rule name, the text it spans, inner tokens. -/
inductive Tree
  | node (rule : String) (text : List Char) (children : List Tree)
  deriving Repr, Inhabited

def Tree.rule : Tree → String | .node r _ _ => r
def Tree.text : Tree → List Char | .node _ t _ => t
def Tree.children : Tree → List Tree | .node _ _ c => c

def lowerC (c : Char) : Char := if 'A' ≤ c ∧ c ≤ 'Z' then Char.ofNat (c.toNat + 32) else c

def isAlpha (c : Char) : Bool := ('a' ≤ c && c ≤ 'z') || ('A' ≤ c && c ≤ 'Z')
def isDigit (c : Char) : Bool := '0' ≤ c && c ≤ '9'
def isHex (c : Char) : Bool := isDigit c || ('a' ≤ c && c ≤ 'f') || ('A' ≤ c && c ≤ 'F')

/-- Strip a literal prefix. -/
def stripPrefix (eq : Char → Char → Bool) : List Char → List Char → Option (List Char)
  | [], inp => some inp
  | _ :: _, [] => none
  | p :: ps, c :: cs => if eq p c then stripPrefix eq ps cs else none

/-- Result of matching: tokens produced and the remaining input, a failed match, or "out of fuel"
(the recursion bound was hit: the answer is unknown and must not be taken for a failed match —
an ordered choice may only fall through to its next alternative when the previous one really fails). -/
inductive Res
  | ok (ts : List Tree) (rest : List Char)
  | fail
  | oof
  deriving Repr, Inhabited

def Res.ofOpt : Option (List Char) → Res
  | some r => .ok [] r
  | none => .fail

/-- One character satisfying `p`. -/
def oneChar (p : Char → Bool) : List Char → Res
  | c :: cs => if p c then .ok [] cs else .fail
  | [] => .fail

/-- The interpreter. `atStart` tells whether we are at the very start of the input (for `SOI`).
`fuel` bounds the recursion depth (rule calls, repetitions); running out of it is reported as `oof`
and propagates to the top. -/
def run (g : Grammar) : Nat → Expr → Bool → List Char → Res
  | 0, _, _, _ => .oof
  | fuel + 1, e, atStart, inp =>
    match e with
    | .str s => Res.ofOpt (stripPrefix (· == ·) s inp)
    | .istr s => Res.ofOpt (stripPrefix (fun p c => lowerC p == lowerC c) s inp)
    | .range lo hi => oneChar (fun c => decide (lo ≤ c ∧ c ≤ hi)) inp
    | .builtin b =>
      match b with
      | .soi => if atStart then .ok [] inp else .fail
      | .eoi => if inp.isEmpty then .ok [.node "EOI" [] []] inp else .fail
      | .any => oneChar (fun _ => true) inp
      | .newline =>
        match inp with
        | '\n' :: cs => .ok [] cs
        | '\r' :: '\n' :: cs => .ok [] cs
        | '\r' :: cs => .ok [] cs
        | _ => .fail
      | .ascii_bin_digit => oneChar (fun c => c == '0' || c == '1') inp
      | .ascii_hex_digit => oneChar isHex inp
      | .ascii_alpha => oneChar isAlpha inp
      | .ascii_alphanumeric => oneChar (fun c => isAlpha c || isDigit c) inp
    | .seq a b =>
      match run g fuel a atStart inp with
      | .ok ta r1 =>
        match run g fuel b (atStart && r1.length == inp.length) r1 with
        | .ok tb r2 => .ok (ta ++ tb) r2
        | .fail => .fail
        | .oof => .oof
      | .fail => .fail
      | .oof => .oof
    | .choice a b =>
      match run g fuel a atStart inp with
      | .ok ts r => .ok ts r
      | .fail => run g fuel b atStart inp
      | .oof => .oof
    | .opt a =>
      match run g fuel a atStart inp with
      | .ok ts r => .ok ts r
      | .fail => .ok [] inp
      | .oof => .oof
    | .star a =>
      match run g fuel a atStart inp with
      | .ok ta r1 =>
        if r1.length < inp.length then
          match run g fuel (.star a) false r1 with
          | .ok tb r2 => .ok (ta ++ tb) r2
          | .fail => .ok ta r1
          | .oof => .oof
        else .ok ta r1   -- no progress: stop (pest rejects such grammars)
      | .fail => .ok [] inp
      | .oof => .oof
    | .plus a =>
      match run g fuel a atStart inp with
      | .ok ta r1 =>
        match run g fuel (.star a) (atStart && r1.length == inp.length) r1 with
        | .ok tb r2 => .ok (ta ++ tb) r2
        | .fail => .ok ta r1
        | .oof => .oof
      | .fail => .fail
      | .oof => .oof
    | .rep a mn mx =>
      if mx = 0 then .ok [] inp else
      match run g fuel a atStart inp with
      | .ok ta r1 =>
        match run g fuel (.rep a (mn - 1) (mx - 1)) (atStart && r1.length == inp.length) r1 with
        | .ok tb r2 => .ok (ta ++ tb) r2
        | .fail => if mn ≤ 1 then .ok ta r1 else .fail
        | .oof => .oof
      | .fail => if mn = 0 then .ok [] inp else .fail
      | .oof => .oof
    | .notP a =>
      match run g fuel a atStart inp with
      | .ok _ _ => .fail
      | .fail => .ok [] inp
      | .oof => .oof
    | .rule n =>
      match g.find n with
      | none => .fail
      | some rd =>
        match run g fuel rd.body atStart inp with
        | .ok ts r =>
          if rd.silent then .ok ts r
          else .ok [.node n (inp.take (inp.length - r.length)) ts] r
        | .fail => .fail
        | .oof => .oof

end Emu2a.Peg
