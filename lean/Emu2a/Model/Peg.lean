/-
A PEG interpreter with pest's token semantics for the constructs mrasm.pest uses.
Input is a list of characters; every non-silent rule that matches produces a token (tree node) that
spans the consumed text; `EOI` also produces a token, the other built-ins do not.
-/
namespace Emu2a.Peg

inductive Builtin | soi | eoi | any | newline | ascii_bin_digit | ascii_hex_digit | ascii_alpha | ascii_alphanumeric
  deriving DecidableEq, Repr

inductive Expr
  | str (s : List Char)
  | istr (s : List Char)           -- `^"…"`: ASCII case-insensitive
  | range (lo hi : Char)
  | builtin (b : Builtin)
  | seq (a b : Expr)
  | choice (a b : Expr)
  | star (e : Expr)
  | plus (e : Expr)
  | opt (e : Expr)
  | rep (e : Expr) (min max : Nat)
  | notP (e : Expr)
  | rule (name : String)
  deriving Repr

structure RuleDef where
  name : String
  silent : Bool
  body : Expr

abbrev Grammar := List RuleDef

def Grammar.find (g : Grammar) (n : String) : Option RuleDef := List.find? (fun r => r.name == n) g

/-- A token: rule name, the text it spans, inner tokens. -/
inductive Tree
  | node (rule : String) (text : List Char) (children : List Tree)
  deriving Repr, Inhabited

def Tree.rule : Tree → String | .node r _ _ => r
def Tree.text : Tree → List Char | .node _ t _ => t
def Tree.children : Tree → List Tree | .node _ _ c => c

def lowerC (c : Char) : Char := if 'A' ≤ c ∧ c ≤ 'Z' then Char.ofNat (c.toNat + 32) else c

def isAlpha (c : Char) : Bool := ('a' ≤ c && c ≤ 'z') || ('A' ≤ c && c ≤ 'Z')
def isDigit (c : Char) : Bool := '0' ≤ c && c ≤ '9'
def isHex (c : Char) : Bool := isDigit c || ('a' ≤ c && c ≤ 'f') || ('A' ≤ c && c ≤ 'F')

/-- Strip a literal prefix. -/
def stripPrefix (eq : Char → Char → Bool) : List Char → List Char → Option (List Char)
  | [], inp => some inp
  | _ :: _, [] => none
  | p :: ps, c :: cs => if eq p c then stripPrefix eq ps cs else none

/-- Result of matching: tokens produced and the remaining input. -/
abbrev Res := Option (List Tree × List Char)

/-- The interpreter. `pos0` tells whether we are at the very start of the input (for `SOI`).
`fuel` bounds the recursion depth (rule calls, repetitions). -/
def run (g : Grammar) : Nat → Expr → Bool → List Char → Res
  | 0, _, _, _ => none
  | fuel + 1, e, atStart, inp =>
    match e with
    | .str s => (stripPrefix (· == ·) s inp).map fun r => ([], r)
    | .istr s => (stripPrefix (fun p c => lowerC p == lowerC c) s inp).map fun r => ([], r)
    | .range lo hi =>
      match inp with
      | c :: cs => if lo ≤ c ∧ c ≤ hi then some ([], cs) else none
      | [] => none
    | .builtin b =>
      match b with
      | .soi => if atStart then some ([], inp) else none
      | .eoi => if inp.isEmpty then some ([.node "EOI" [] []], inp) else none
      | .any => match inp with | _ :: cs => some ([], cs) | [] => none
      | .newline =>
        match inp with
        | '\n' :: cs => some ([], cs)
        | '\r' :: '\n' :: cs => some ([], cs)
        | '\r' :: cs => some ([], cs)
        | _ => none
      | .ascii_bin_digit => match inp with | c :: cs => if c == '0' || c == '1' then some ([], cs) else none | [] => none
      | .ascii_hex_digit => match inp with | c :: cs => if isHex c then some ([], cs) else none | [] => none
      | .ascii_alpha => match inp with | c :: cs => if isAlpha c then some ([], cs) else none | [] => none
      | .ascii_alphanumeric =>
        match inp with | c :: cs => if isAlpha c || isDigit c then some ([], cs) else none | [] => none
    | .seq a b =>
      match run g fuel a atStart inp with
      | some (ta, r1) =>
        match run g fuel b (atStart && r1.length == inp.length) r1 with
        | some (tb, r2) => some (ta ++ tb, r2)
        | none => none
      | none => none
    | .choice a b =>
      match run g fuel a atStart inp with
      | some r => some r
      | none => run g fuel b atStart inp
    | .opt a =>
      match run g fuel a atStart inp with
      | some r => some r
      | none => some ([], inp)
    | .star a =>
      match run g fuel a atStart inp with
      | some (ta, r1) =>
        if r1.length < inp.length then
          match run g fuel (.star a) false r1 with
          | some (tb, r2) => some (ta ++ tb, r2)
          | none => some (ta, r1)
        else some (ta, r1)   -- no progress: stop (pest rejects such grammars)
      | none => some ([], inp)
    | .plus a =>
      match run g fuel a atStart inp with
      | some (ta, r1) =>
        match run g fuel (.star a) (atStart && r1.length == inp.length) r1 with
        | some (tb, r2) => some (ta ++ tb, r2)
        | none => some (ta, r1)
      | none => none
    | .rep a mn mx =>
      if mx = 0 then some ([], inp) else
      match run g fuel a atStart inp with
      | some (ta, r1) =>
        match run g fuel (.rep a (mn - 1) (mx - 1)) (atStart && r1.length == inp.length) r1 with
        | some (tb, r2) => some (ta ++ tb, r2)
        | none => if mn ≤ 1 then some (ta, r1) else none
      | none => if mn = 0 then some ([], inp) else none
    | .notP a =>
      match run g fuel a atStart inp with
      | some _ => none
      | none => some ([], inp)
    | .rule n =>
      match g.find n with
      | none => none
      | some rd =>
        match run g fuel rd.body atStart inp with
        | some (ts, r) =>
          if rd.silent then some (ts, r)
          else some ([.node n (inp.take (inp.length - r.length)) ts], r)
        | none => none

end Emu2a.Peg
