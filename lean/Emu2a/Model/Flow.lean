/-
Control-flow graph of the micro-sequencer over the generated control store (C09, C11, C15).
A node is (micro-address, instruction register).
-/
import Emu2a.Model.Core
import Emu2a.Spec.Opcodes
namespace Emu2a.Flow
open Emu2a Gen

/-- Next address with the multiplexer AM3 output forced to `x` (when MAC2 is clear). -/
def nextWith (w : UWord) (ir : Nat) (x : Bool) : Nat :=
  256 * b2n (irBit ir C.ir_a8) + 128 * b2n (irBit ir C.ir_a7) + 64 * b2n (irBit ir C.ir_a6)
  + 32 * b2n (irBit ir C.ir_a5) + 4 * (w.na / 4) + 2 * b2n (Sig.am4 w ir)
  + b2n (if w.mac2 then irBit ir C.ir_op10 else x)

/-- Possible next micro-addresses of word `w` under instruction register `ir`, over all flag,
ALU-condition and interrupt inputs (the condition multiplexer contributes one bit). -/
def succs (w : UWord) (ir : Nat) : List Nat :=
  if w.mac2 then [nextWith w ir false]
  else match w.mac1, w.mac0, w.na % 2 == 1 with
    | false, false, false => [nextWith w ir false]
    | false, false, true => [nextWith w ir true]
    | _, _, _ => [nextWith w ir false, nextWith w ir true]

abbrev Node := Nat × Nat

def isFetch (n : Node) : Bool := (word n.1).mac3

/-- The word that loads the second opcode byte of a two-byte instruction (loads IR, not MAC3). -/
def isSecond (n : Node) : Bool := !(word n.1).mac3 && decide (Core.irAct (word n.1) = .load)

/-- Exploration stops at an instruction fetch or at the second-opcode fetch (the routine of the
second byte is explored separately, from `start2`). -/
def isTerminal (n : Node) : Bool := isFetch n || isSecond n

/-- Instruction-register values after phase 2 at word `w`; a load takes any byte of `loadSet`. -/
def irAfter (w : UWord) (ir : Nat) (loadSet : List Nat) : List Nat :=
  match Core.irAct w with
  | .keep => [ir]
  | .reset => [C.irReset]
  | .load => loadSet

/-- Successor nodes; edges listed in `cut` (address pairs) are removed. -/
def succNodes (loadSet : List Nat) (cut : List (Nat × Nat)) (n : Node) : List Node :=
  (irAfter (word n.1) n.2 loadSet).flatMap fun ir' =>
    ((succs (word n.1) ir').filter fun a' => !cut.contains (n.1, a')).map fun a' => (a', ir')

/-- One breadth-first level: successors of all nodes that are not instruction fetches. -/
def level (loadSet : List Nat) (cut : List (Nat × Nat)) (S : List Node) : List Node :=
  ((S.filter fun n => !isTerminal n).flatMap (succNodes loadSet cut)).eraseDups

/-- The node holds a programmed (non-zero) control word. -/
def programmedNode (n : Node) : Bool := !(word n.1).same UWord.zero

/-- Do all paths from `S` reach an instruction fetch (or the second-opcode fetch) within `fuel`
further steps, visiting programmed control words only? -/
def completesWithin (loadSet : List Nat) (cut : List (Nat × Nat)) : Nat → List Node → Bool
  | 0, S => S.all programmedNode && S.all isTerminal
  | fuel + 1, S =>
    S.all programmedNode && (S.all isTerminal || completesWithin loadSet cut fuel (level loadSet cut S))

/-- All nodes visited within `fuel` levels (including `S`). -/
def visited (loadSet : List Nat) (cut : List (Nat × Nat)) : Nat → List Node → List Node
  | 0, S => S
  | fuel + 1, S => S ++ visited loadSet cut fuel (level loadSet cut S)

/-- Nodes right after the fetch word (address 6; all fetch words are identical) loaded `op`. -/
def start (op : Nat) : List Node := succNodes [op] [] (6, C.irReset)

/-- Nodes right after the second-opcode word (address 0x1E6) loaded second byte `b`. -/
def start2 (b : Nat) : List Node := succNodes [b] [] (0x1E6, C.irReset)

/-- `V` is closed under successors (for first-byte loads of `loadSet`) and contains no fetch. -/
def closedNoFetch (loadSet : List Nat) (V : List Node) : Bool :=
  V.all fun n => !isTerminal n && (succNodes loadSet [] n).all fun m => V.contains m

/-- Back edges of the two data-driven loops. -/
def mulBack : List (Nat × Nat) := [(0x168, 0x165)]
def divBack : List (Nat × Nat) := [(0x188, 0x187)]


/-- Successors when no interrupt is taken: at an end word (MAC1, MAC0, NA0 set, MAC2 clear) the
condition multiplexer selects "interrupt enabled and pending"; that branch is left out. -/
def succsNoInt (w : UWord) (ir : Nat) : List Nat :=
  if !w.mac2 && w.mac1 && w.mac0 && (w.na % 2 == 1) then [nextWith w ir false] else succs w ir

def levelNoInt (S : List Node) : List Node :=
  ((S.filter fun n => !isTerminal n).flatMap fun n =>
    (irAfter (word n.1) n.2 []).flatMap fun ir' => (succsNoInt (word n.1) ir').map fun a' => (a', ir')).eraseDups

/-- Lengths (in micro-steps after dispatch) of all interrupt-free paths from `S` to the next terminal. -/
def pathLens : Nat → List Node → List Nat
  | 0, _ => []
  | fuel + 1, S =>
    (if S.any isTerminal then [0] else []) ++ ((pathLens fuel (levelNoInt S)).map (· + 1))

/-- Micro-steps from one instruction fetch (exclusive) to the next (inclusive) for a defined
instruction without interrupt: dispatch path, plus the second byte's path for prefixes. -/
def stepsOf (op : Nat) (b2 : Option Nat) : Nat :=
  (pathLens 17 (start op)).headD 0 + 1 +
    (match b2 with
     | some b => if op ≥ 0xF0 then (pathLens 17 (start2 b)).headD 0 + 1 else 0
     | none => 0)

end Emu2a.Flow
