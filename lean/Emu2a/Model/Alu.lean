/-
The ALU (`AluOutput::from_input` in alu.rs), mirrored operation by operation.
-/
import Emu2a.Model.UWord
import Emu2a.Gen.Consts
namespace Emu2a

structure AluOut where
  out : Byte
  c : Bool
  z : Bool
  n : Bool
  deriving DecidableEq, Repr, Inhabited

/-- `u8::overflowing_add`. -/
@[inline] def ovAdd (a b : Byte) : Byte × Bool := (a + b, decide (a.toNat + b.toNat ≥ 256))

@[inline] def boolByte (b : Bool) : Byte := if b then 1#8 else 0#8

/-- `(out, carry_out)` of every ALU function; `f` is the value of MALUS3..0
(`AluSelect::from_u8`, numbering from Gen.Consts). -/
def aluRaw (f : Nat) (a b : Byte) (cin : Bool) : Byte × Bool :=
  if f = Gen.C.aluADDH then
    let (o, c) := ovAdd a b
    (o, c || cin)
  else if f = Gen.C.aluA then (a, false)
  else if f = Gen.C.aluNOR then (~~~(a ||| b), false)
  else if f = Gen.C.aluZERO then (0#8, false)
  else if f = Gen.C.aluADD then ovAdd a b
  else if f = Gen.C.aluADDS then
    let (o, c1) := ovAdd a b
    let (o, c2) := ovAdd o 1#8
    (o, !(c1 || c2))
  else if f = Gen.C.aluADC then
    let (o, c1) := ovAdd a b
    let (o, c2) := ovAdd o (boolByte cin)
    (o, c1 || c2)
  else if f = Gen.C.aluADCS then
    let (o, c1) := ovAdd a b
    let (o, c2) := ovAdd o (boolByte (!cin))
    (o, !(c1 || c2))
  else if f = Gen.C.aluLSR then (a >>> 1, (a &&& 1#8) != 0#8)
  else if f = Gen.C.aluRR then (a.rotateRight 1, (a &&& 1#8) != 0#8)
  else if f = Gen.C.aluRRC then ((a >>> 1) ||| (boolByte cin <<< 7), (a &&& 1#8) != 0#8)
  else if f = Gen.C.aluASR then ((a >>> 1) ||| (a &&& 0x80#8), (a &&& 1#8) != 0#8)
  else if f = Gen.C.aluB then (b, false)
  else if f = Gen.C.aluSETC then (b, true)
  else if f = Gen.C.aluBH then (b, cin)
  else (b, !cin)

def alu (f : Nat) (a b : Byte) (cin : Bool) : AluOut :=
  let r := aluRaw f a b cin
  { out := r.1, c := r.2, z := r.1 == 0#8, n := (r.1 &&& 0x80#8) != 0#8 }

/-- `AluOutput::default()`. -/
def AluOut.default : AluOut := ⟨0#8, false, false, false⟩

end Emu2a
