/-
Reading and writing the one-line AST serialisation used by the line protocol (harness/src/astser.rs).
-/
import Emu2a.Model.Compile
import Emu2a.Model.Dump
namespace Emu2a.Asm

def hexOf (s : String) : String :=
  s.toUTF8.foldl (fun acc b => acc ++ hex2 (BitVec.ofNat 8 b.toNat)) ""

def cmtStr : Option String → String
  | none => "-"
  | some s => "=" ++ hexOf s

def unhex (s : String) : Option String :=
  match parseHexBytes s.toList with
  | some bs =>
    let arr : ByteArray := ⟨(bs.map fun b => b.toNat.toUInt8).toArray⟩
    String.fromUTF8? arr
  | none => none

def parseCmt (s : String) : Option (Option String) :=
  if s = "-" then some none
  else if s.startsWith "=" then (unhex (s.drop 1).toString).map some
  else none

def parseReg : String → Option Reg
  | "R0" => some .r0 | "R1" => some .r1 | "R2" => some .r2 | "R3" => some .r3 | _ => none

def parseConst (s : String) : Option Const :=
  if s.startsWith "#:" then some (.label (s.drop 2).toString)
  else if s.startsWith "#" then (s.drop 1).toString.toNat?.map .num
  else none

def parseMemBody (s : String) : Option MemAddr :=
  match parseReg s with
  | some r => some (.reg r)
  | none => (parseConst s).map .const

def parseSrc (s : String) : Option Src :=
  if s.startsWith "r:" then (parseReg (s.drop 2).toString).map .reg
  else if s.startsWith "m:" then (parseMemBody (s.drop 2).toString).map .mem
  else if s.startsWith "c:" then (parseConst (s.drop 2).toString).map .const
  else if s.startsWith "ddi:" then (parseReg (s.drop 4).toString).map .ddi
  else if s.startsWith "di:" then (parseReg (s.drop 3).toString).map .di
  else none

def parseDst (s : String) : Option Dst :=
  if s.startsWith "r:" then (parseReg (s.drop 2).toString).map .reg
  else if s.startsWith "m:" then (parseMemBody (s.drop 2).toString).map .mem
  else if s.startsWith "ddi:" then (parseReg (s.drop 4).toString).map .ddi
  else if s.startsWith "di:" then (parseReg (s.drop 3).toString).map .di
  else none

def parseMem (s : String) : Option MemAddr :=
  if s.startsWith "m:" then parseMemBody (s.drop 2).toString else none

def parseList (s : String) : Option (List Nat) := (s.splitOn ",").mapM (·.toNat?)

def parseSSz : String → Option SSize
  | "0" => some .s0 | "16" => some .s16 | "32" => some .s32 | "48" => some .s48 | "64" => some .s64
  | "N" => some .notSet | _ => none
def parsePSz (s : String) : Option PSize :=
  if s = "A" then some .auto else if s = "N" then some .notSet else s.toNat?.map .size

def rr (f : Reg → Reg → Instr) (a b : String) : Option Instr := do
  let x ← parseReg a; let y ← parseReg b; pure (f x y)
def r1 (f : Reg → Instr) (a : String) : Option Instr := (parseReg a).map f
def ds (f : Dst → Src → Instr) (a b : String) : Option Instr := do
  let x ← parseDst a; let y ← parseSrc b; pure (f x y)

def parseInstr : List String → Option Instr
  | ["ORG", n] => n.toNat?.map .org
  | ["BYTE", n] => n.toNat?.map .byte
  | ["DB", l] => (parseList l).map .db
  | ["DW", l] => (parseList l).map .dw
  | ["EQU", l, n] => n.toNat?.map (.equ l)
  | ["STACKSIZE", s] => (parseSSz s).map .stacksize
  | ["PROGRAMSIZE", s] => (parsePSz s).map .programsize
  | ["CLR", a] => r1 .clr a | ["ADD", a, b] => rr .add a b | ["ADC", a, b] => rr .adc a b
  | ["SUB", a, b] => rr .sub a b | ["MUL", a, b] => rr .mul a b | ["DIV", a, b] => rr .div a b
  | ["INC", a] => r1 .inc a | ["DEC", s] => (parseSrc s).map .dec | ["NEG", a] => r1 .neg a
  | ["AND", a, b] => rr .and a b | ["OR", a, b] => rr .or a b | ["XOR", a, b] => rr .xor a b
  | ["COM", a] => r1 .com a | ["BITS", a, b] => ds .bits a b | ["BITC", a, b] => ds .bitc a b
  | ["TST", a] => r1 .tst a | ["CMP", a, b] => ds .cmp a b | ["BITT", a, b] => ds .bitt a b
  | ["LSR", a] => r1 .lsr a | ["ASR", a] => r1 .asr a | ["LSL", a] => r1 .lsl a | ["RRC", a] => r1 .rrc a
  | ["RLC", a] => r1 .rlc a | ["MOV", a, b] => ds .mov a b
  | ["LDC", a, c] => do let r ← parseReg a; let k ← parseConst c; pure (.ldConst r k)
  | ["LDM", a, m] => do let r ← parseReg a; let k ← parseMem m; pure (.ldMem r k)
  | ["ST", m, a] => do let k ← parseMem m; let r ← parseReg a; pure (.st k r)
  | ["PUSH", a] => r1 .push a | ["POP", a] => r1 .pop a | ["PUSHF"] => some .pushf | ["POPF"] => some .popf
  | ["LDSP", s] => (parseSrc s).map .ldsp | ["LDFR", s] => (parseSrc s).map .ldfr
  | ["JMP", l] => some (.jmp l) | ["JCS", l] => some (.jcs l) | ["JCC", l] => some (.jcc l)
  | ["JZS", l] => some (.jzs l) | ["JZC", l] => some (.jzc l) | ["JNS", l] => some (.jns l)
  | ["JNC", l] => some (.jnc l) | ["JR", l] => some (.jr l) | ["CALL", l] => some (.call l)
  | ["RET"] => some .ret | ["RETI"] => some .reti | ["STOP"] => some .stop | ["NOP"] => some .nop
  | ["EI"] => some .ei | ["DI"] => some .di
  | _ => none

def parseLine : List String → Option Line
  | ["E", c] => (parseCmt c).map .empty
  | ["L", c, l] => (parseCmt c).map (.label l)
  | "I" :: c :: rest => do
    let cm ← parseCmt c
    let i ← parseInstr rest
    pure (.instr i cm)
  | _ => none

def splitBar : List String → List (List String)
  | [] => [[]]
  | t :: ts =>
    match splitBar ts with
    | [] => [[t]]
    | g :: gs => if t == "|" then [] :: g :: gs else (t :: g) :: gs

/-- Parse `header | line | line …` given as whitespace-separated tokens. -/
def parseProgram (toks : List String) : Option Program :=
  let groups := splitBar toks
  match groups with
  | [hd] :: rest => do
    let h ← parseCmt hd
    let ls ← rest.mapM parseLine
    pure ⟨h, ls⟩
  | _ => none

/-! Printing (same format) -/
def Reg.str : Reg → String | .r0 => "R0" | .r1 => "R1" | .r2 => "R2" | .r3 => "R3"
def Const.str : Const → String | .num n => s!"#{n}" | .label l => s!"#:{l}"
def MemAddr.str : MemAddr → String | .const c => s!"m:{c.str}" | .reg r => s!"m:{r.str}"
def Src.str : Src → String
  | .reg r => s!"r:{r.str}" | .mem m => m.str | .const c => s!"c:{c.str}" | .di r => s!"di:{r.str}" | .ddi r => s!"ddi:{r.str}"
def Dst.str : Dst → String
  | .reg r => s!"r:{r.str}" | .mem m => m.str | .di r => s!"di:{r.str}" | .ddi r => s!"ddi:{r.str}"
def SSize.str : SSize → String
  | .s0 => "0" | .s16 => "16" | .s32 => "32" | .s48 => "48" | .s64 => "64" | .notSet => "N"
def PSize.str : PSize → String | .size n => toString n | .auto => "A" | .notSet => "N"
def listStr (l : List Nat) : String := ",".intercalate (l.map toString)

def Instr.str : Instr → String
  | .org n => s!"ORG {n}" | .byte n => s!"BYTE {n}" | .db l => s!"DB {listStr l}" | .dw l => s!"DW {listStr l}"
  | .equ l n => s!"EQU {l} {n}" | .stacksize s => s!"STACKSIZE {s.str}" | .programsize p => s!"PROGRAMSIZE {p.str}"
  | .clr r => s!"CLR {r.str}" | .add a b => s!"ADD {a.str} {b.str}" | .adc a b => s!"ADC {a.str} {b.str}"
  | .sub a b => s!"SUB {a.str} {b.str}" | .mul a b => s!"MUL {a.str} {b.str}" | .div a b => s!"DIV {a.str} {b.str}"
  | .inc r => s!"INC {r.str}" | .dec s => s!"DEC {s.str}" | .neg r => s!"NEG {r.str}"
  | .and a b => s!"AND {a.str} {b.str}" | .or a b => s!"OR {a.str} {b.str}" | .xor a b => s!"XOR {a.str} {b.str}"
  | .com r => s!"COM {r.str}" | .bits d s => s!"BITS {d.str} {s.str}" | .bitc d s => s!"BITC {d.str} {s.str}"
  | .tst r => s!"TST {r.str}" | .cmp d s => s!"CMP {d.str} {s.str}" | .bitt d s => s!"BITT {d.str} {s.str}"
  | .lsr r => s!"LSR {r.str}" | .asr r => s!"ASR {r.str}" | .lsl r => s!"LSL {r.str}" | .rrc r => s!"RRC {r.str}"
  | .rlc r => s!"RLC {r.str}" | .mov d s => s!"MOV {d.str} {s.str}" | .ldConst r c => s!"LDC {r.str} {c.str}"
  | .ldMem r m => s!"LDM {r.str} {m.str}" | .st m r => s!"ST {m.str} {r.str}" | .push r => s!"PUSH {r.str}"
  | .pop r => s!"POP {r.str}" | .pushf => "PUSHF" | .popf => "POPF" | .ldsp s => s!"LDSP {s.str}"
  | .ldfr s => s!"LDFR {s.str}" | .jmp l => s!"JMP {l}" | .jcs l => s!"JCS {l}" | .jcc l => s!"JCC {l}"
  | .jzs l => s!"JZS {l}" | .jzc l => s!"JZC {l}" | .jns l => s!"JNS {l}" | .jnc l => s!"JNC {l}"
  | .jr l => s!"JR {l}" | .call l => s!"CALL {l}" | .ret => "RET" | .reti => "RETI" | .stop => "STOP"
  | .nop => "NOP" | .ei => "EI" | .di => "DI"

def Line.str : Line → String
  | .empty c => s!"E {cmtStr c}"
  | .label l c => s!"L {cmtStr c} {l}"
  | .instr i c => s!"I {cmtStr c} {i.str}"

def Program.str (p : Program) : String := " | ".intercalate (cmtStr p.header :: p.lines.map Line.str)

def bytesHex (l : List Nat) : String := l.foldl (fun acc b => acc ++ hex2 (BitVec.ofNat 8 b)) ""

def Panic.str : Panic → String
  | .orgBackwards => "orgBackwards" | .addrOverflow => "addrOverflow" | .undefinedLabel => "undefinedLabel"
  | .imageTooLarge => "imageTooLarge"

def ByteCode.str (b : ByteCode) : String :=
  s!"ok ss={b.ss.str} ps={b.ps.str} " ++ ",".intercalate (b.lines.map fun l => bytesHex l.2)

end Emu2a.Asm
