/-
Bit-exact model of the few IEEE-754 binary32 operations board.rs uses, on integers only
(no Lean `Float`, which is opaque to the kernel).  A value is its 32-bit pattern as `Nat`.

Supported: classification, ordered comparisons (`<`, `<=`, `>`, `>=`, `max`) with NaN
semantics, `u8 as f32`, `usize as f32` for small values, correctly rounded (round-to-nearest-even)
`*` and `/` of non-negative finite values, and the saturating `as usize` / `as u8` casts.
-/
namespace Emu2a.F32

abbrev Bits := Nat

def sign (x : Bits) : Bool := x / 2 ^ 31 % 2 == 1
def expo (x : Bits) : Nat := x / 2 ^ 23 % 256
def mant (x : Bits) : Nat := x % 2 ^ 23

def isNaN (x : Bits) : Bool := expo x == 255 && mant x != 0
def isInf (x : Bits) : Bool := expo x == 255 && mant x == 0
def isZero (x : Bits) : Bool := expo x == 0 && mant x == 0

def posZero : Bits := 0
def five : Bits := 0x40A00000
def posInf : Bits := 0x7F800000

/-- Key for the total order of non-NaN values: negative values map below `2^31`, +0 and -0 coincide. -/
def key (x : Bits) : Nat :=
  let mag := x % 2 ^ 31
  if sign x then 2 ^ 31 - mag else 2 ^ 31 + mag

/-- `a < b` (false if either is NaN). -/
def lt (a b : Bits) : Bool := !isNaN a && !isNaN b && key a < key b
def le (a b : Bits) : Bool := !isNaN a && !isNaN b && key a ≤ key b
def gt (a b : Bits) : Bool := lt b a
def ge (a b : Bits) : Bool := le b a

/-- `f32::max`: if one argument is NaN the other is returned. For equal keys (±0) the first is
returned; the board only compares the result, where the sign of zero is irrelevant. -/
def max (a b : Bits) : Bits :=
  if isNaN a then b else if isNaN b then a else if key a < key b then b else a

/-- Decompose a finite non-negative value into `(m, e)` with value `= m * 2^(e - 149)`, i.e.
`e` is the biased exponent of a normal number (1 for subnormals). -/
def decomp (x : Bits) : Nat × Nat :=
  if expo x == 0 then (mant x, 1) else (mant x + 2 ^ 23, expo x)

/-- Number of bits of `n` (0 for 0). -/
def bitLen (n : Nat) : Nat := if n = 0 then 0 else Nat.log2 n + 1

/-- Round the exact non-negative rational `num / den * 2^(e2)` (value exponent, unbiased, applied to
an integer significand) to binary32, round-to-nearest-even.  `den > 0`.
The result is the bit pattern; overflow gives +inf. -/
def roundRat (num den : Nat) (e2 : Int) : Bits :=
  if num = 0 then 0 else
  -- find q = floor(num * 2^s / den) with 24 or 25 significant bits by choosing s
  let ln := bitLen num
  let ld := bitLen den
  -- we want num*2^s/den ≈ 2^25  → s = 26 + ld - ln (≥ so that q has ≥ 25 bits)
  let s : Int := 26 + (ld : Int) - (ln : Int)
  let (n', d') := if s ≥ 0 then (num * 2 ^ s.toNat, den) else (num, den * 2 ^ (-s).toNat)
  let q := n' / d'
  let r := n' % d'
  -- value = (q + r/d') * 2^(e2 - s);  q has 25..27 bits
  let lq := bitLen q
  -- target: 24-bit significand; the unbiased exponent of the lsb of a normal result with msb at
  -- position lq-1 is (e2 - s) + (lq - 24); subnormal results have lsb exponent -149.
  let lsbExp : Int := (e2 - s) + ((lq : Int) - 24)
  let lsbExp' : Int := if lsbExp < -149 then -149 else lsbExp
  let shift : Nat := (lsbExp' - (e2 - s)).toNat   -- ≥ lq - 24 ≥ 1
  let keep := q / 2 ^ shift
  let remBits := q % 2 ^ shift
  let half := 2 ^ (shift - 1)
  let sticky := r != 0
  let roundUp := remBits > half || (remBits == half && (sticky || keep % 2 == 1))
  let m := if roundUp then keep + 1 else keep
  -- renormalise if rounding carried out
  let (m, lsbE) := if m ≥ 2 ^ 24 then (m / 2, lsbExp' + 1) else (m, lsbExp')
  if m < 2 ^ 23 then m            -- subnormal (lsbE = -149) or zero
  else
    let be : Int := lsbE + 150      -- biased exponent
    if be ≥ 255 then posInf else be.toNat * 2 ^ 23 + (m - 2 ^ 23)

/-- Correctly rounded product of two finite non-negative values. -/
def mul (a b : Bits) : Bits :=
  let (ma, ea) := decomp a
  let (mb, eb) := decomp b
  roundRat (ma * mb) 1 ((ea : Int) - 150 + ((eb : Int) - 150))

/-- Correctly rounded quotient of two finite non-negative values, divisor non-zero. -/
def div (a b : Bits) : Bits :=
  let (ma, ea) := decomp a
  let (mb, eb) := decomp b
  roundRat ma mb ((ea : Int) - (eb : Int))

/-- `n as f32` for `n < 2^24` (exact). -/
def ofNat (n : Nat) : Bits := roundRat n 1 0

/-- Saturating `as usize`/`as u8`-style cast of a value: truncation toward zero, NaN ↦ 0,
negative ↦ 0, values ≥ `bound` ↦ `bound - 1`. -/
def toNatSat (x : Bits) (bound : Nat) : Nat :=
  if isNaN x then 0
  else if sign x then 0
  else if isInf x then bound - 1
  else
    let (m, e) := decomp x
    let v := if e ≥ 150 then m * 2 ^ (e - 150) else m / 2 ^ (150 - e)
    if v ≥ bound then bound - 1 else v

end Emu2a.F32
