/-
The one-pass translator (compiler.rs): address counter, label placeholders, final substitution.
Rust panics are explicit outcomes.
-/
import Emu2a.Model.Ast
namespace Emu2a.Asm

/-- `ByteOrLabel`. `rel l at` is the `LabelFn` closure of a relative jump created at address `at`. -/
inductive BOL
  | byte (n : Nat)
  | label (l : String)
  | rel (l : String) (at_ : Nat)
  deriving DecidableEq, Repr

inductive Panic
  | orgBackwards        -- `panic!("Compilation aborted")`
  | addrOverflow        -- `self.next_addr += …` overflows u8 (checked arithmetic)
  | undefinedLabel      -- `.expect("infallible. Labels must be defined")`
  | imageTooLarge       -- RAM index out of bounds in `Machine::load`
  deriving DecidableEq, Repr


def srcMode : Src → Nat
  | .reg _ => 0 | .const _ => 2 | .di _ => 2 | .ddi _ => 3
  | .mem (.reg _) => 1 | .mem (.const _) => 3
def srcReg : Src → Nat
  | .reg r => r.num | .di r => r.num | .ddi r => r.num | .const _ => 3
  | .mem (.reg r) => r.num | .mem (.const _) => 3
def dstMode : Dst → Nat
  | .reg _ => 0 | .di _ => 2 | .ddi _ => 3 | .mem (.reg _) => 1 | .mem (.const _) => 3
def dstReg : Dst → Nat
  | .reg r => r.num | .di r => r.num | .ddi r => r.num | .mem (.reg r) => r.num | .mem (.const _) => 3

def constBOL : Const → BOL
  | .num n => .byte n
  | .label l => .label l

/-- Operand byte that follows a source (constant or absolute address), if any. -/
def srcExtra : Src → List BOL
  | .const c => [constBOL c]
  | .mem (.const c) => [constBOL c]
  | _ => []
def dstExtra : Dst → List BOL
  | .mem (.const c) => [constBOL c]
  | _ => []

/-- `from_bases_dst_and_src`. -/
def twoOp (b1 b2 : Nat) (d : Dst) (s : Src) : List BOL :=
  [.byte (b1 + srcMode s * 4 + srcReg s)] ++ srcExtra s ++ [.byte (b2 + dstMode d * 4 + dstReg d)] ++ dstExtra d
/-- `from_bases_and_src`. -/
def srcOp (b1 b2 : Nat) (s : Src) : List BOL :=
  [.byte (b1 + srcMode s * 4 + srcReg s)] ++ srcExtra s ++ [.byte b2]
def twoReg (base : Nat) (d s : Reg) : List BOL := [.byte (base + s.num * 4 + d.num)]
def relJump (cond : Nat) (l : String) (cur : Nat) : List BOL := [.byte (0x20 + cond), .rel l cur]

/-- Bytes / placeholders of an instruction that is not an assembler directive with side effects. -/
def bols (i : Instr) (cur : Nat) : List BOL :=
  match i with
  | .org a => List.replicate (a - cur) (.byte 0)
  | .byte n => List.replicate n (.byte 0)
  | .db bs => bs.map .byte
  | .dw ws => ws.flatMap fun w => [.byte (w / 256), .byte (w % 256)]
  | .equ _ _ => []
  | .stacksize _ => []
  | .programsize _ => []
  | .clr r => [.byte (0x04 + r.num)]
  | .add d s => twoReg 0x60 d s
  | .adc d s => twoReg 0x70 d s
  | .sub d s => twoReg 0x80 d s
  | .mul d s => twoReg 0xB0 d s
  | .div d s => twoReg 0xC0 d s
  | .inc r => [.byte (0x44 + r.num)]
  | .dec s => [.byte (0x50 + srcMode s * 4 + srcReg s)] ++ srcExtra s
  | .neg r => [.byte (0x34 + r.num)]
  | .and d s => twoReg 0x90 d s
  | .or d s => twoReg 0xA0 d s
  | .xor d s => twoReg 0xD0 d s
  | .com r => [.byte (0x30 + r.num)]
  | .bits d s => twoOp 0xF0 0x50 d s
  | .bitc d s => twoOp 0xF0 0x60 d s
  | .tst r => [.byte (0x48 + r.num)]
  | .cmp d s => twoOp 0xF0 0x20 d s
  | .bitt d s => twoOp 0xF0 0x30 d s
  | .lsr r => [.byte (0x38 + r.num)]
  | .asr r => [.byte (0x3C + r.num)]
  | .lsl r => [.byte (0x60 + r.num * 4 + r.num)]
  | .rrc r => [.byte (0x40 + r.num)]
  | .rlc r => [.byte (0x70 + r.num * 4 + r.num)]
  | .mov d s => twoOp 0xF0 0x10 d s
  | .ldConst r c => twoOp 0xF0 0x10 (.reg r) (.const c)
  | .ldMem r m => twoOp 0xF0 0x10 (.reg r) (.mem m)
  | .st m r => twoOp 0xF0 0x10 (.mem m) (.reg r)
  | .push r => [.byte (0x10 + r.num)]
  | .pop r => [.byte (0x14 + r.num)]
  | .pushf => [.byte 0x18]
  | .popf => [.byte 0x1C]
  | .ldsp s => srcOp 0xF0 0x40 s
  | .ldfr s => srcOp 0xF0 0x44 s
  | .jmp l => [.byte 0xFB, .label l, .byte 0x13]
  | .jcs l => relJump 1 l cur
  | .jcc l => relJump 5 l cur
  | .jzs l => relJump 2 l cur
  | .jzc l => relJump 6 l cur
  | .jns l => relJump 3 l cur
  | .jnc l => relJump 7 l cur
  | .jr l => relJump 0 l cur
  | .call l => [.byte 0x28, .label l]
  | .ret => [.byte 0x17]
  | .reti => [.byte 0x2C]
  | .stop => [.byte 0x01]
  | .nop => [.byte 0x02]
  | .ei => [.byte 0x08]
  | .di => [.byte 0x0C]

/-- Label table: later insertions shadow earlier ones (`HashMap::insert`). -/
abbrev Labels := List (String × Nat)
def Labels.find (t : Labels) (k : String) : Option Nat := (t.find? fun e => e.1 == k).map (·.2)

structure TState where
  next : Nat                       -- `next_addr : u8`
  labels : Labels
  out : List (Line × List BOL)     -- in order
  ss : SSize
  ps : PSize
  deriving Repr

def TState.init : TState := ⟨0, [], [], .s16, .auto⟩

/-- Directives that change the translator state. -/
def sideEffect (t : TState) : Instr → TState
  | .equ l n => { t with labels := (lower l, n) :: t.labels }
  | .stacksize s => { t with ss := s }
  | .programsize p => { t with ps := p }
  | _ => t

/-- `.ORG` below the current address. -/
def orgBack (t : TState) : Instr → Bool
  | .org a => decide (a < t.next)
  | _ => false

/-- `Translator::push`. -/
def push (t : TState) (line : Line) : Except Panic TState :=
  match line with
  | .empty _ => .ok { t with out := t.out ++ [(line, [])] }
  | .label l _ => .ok { t with labels := (lower l, t.next) :: t.labels, out := t.out ++ [(line, [])] }
  | .instr i _ =>
    if orgBack t i then .error .orgBackwards
    -- `self.next_addr += bols.len() as u8` (the cast truncates, the addition is checked)
    else if t.next + (bols i t.next).length % 256 ≥ 256 then .error .addrOverflow
    else .ok { sideEffect t i with next := t.next + (bols i t.next).length % 256,
                                   out := t.out ++ [(line, bols i t.next)] }

/-- Substitute one placeholder (`finish`); `none` = the `expect("Labels must be defined")` panic. -/
def resolve (t : Labels) : BOL → Option Nat
  | .byte n => some n
  | .label l => t.find (lower l)
  | .rel l cur => (t.find (lower l)).map fun target => (target + 256 - (cur + 2) % 256) % 256

def resolveAll (t : Labels) : List BOL → Option (List Nat)
  | [] => some []
  | b :: bs =>
    match resolve t b, resolveAll t bs with
    | some v, some vs => some (v :: vs)
    | _, _ => none

def resolveLines (t : Labels) : List (Line × List BOL) → Option (List (Line × List Nat))
  | [] => some []
  | (l, bs) :: rest =>
    match resolveAll t bs, resolveLines t rest with
    | some v, some vs => some ((l, v) :: vs)
    | _, _ => none

structure ByteCode where
  lines : List (Line × List Nat)
  ss : SSize
  ps : PSize
  deriving Repr, DecidableEq

def ByteCode.bytes (b : ByteCode) : List Nat := b.lines.flatMap (·.2)

def finish (t : TState) : Except Panic ByteCode :=
  match resolveLines t.labels t.out with
  | some ls => .ok ⟨ls, t.ss, t.ps⟩
  | none => .error .undefinedLabel

/-- `Translator::compile`. -/
def compile (p : Program) : Except Panic ByteCode :=
  match p.lines.foldlM push TState.init with
  | .ok t => finish t
  | .error e => .error e

/-- Compile and check that `Machine::load` would not index out of bounds. -/
def compileAndLoadable (p : Program) : Except Panic ByteCode :=
  match compile p with
  | .ok b => if b.bytes.length > 240 then .error .imageTooLarge else .ok b
  | .error e => .error e

end Emu2a.Asm
