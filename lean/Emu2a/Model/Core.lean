/-
The micro-programmed CPU core: signals (signals.rs) and one clock edge of the data path
(`trigger_clock_edge` pipeline in raw/mod.rs) over the generated control store.
-/
import Emu2a.Model.Alu
import Emu2a.Model.Bus
import Emu2a.Gen.Ucode
namespace Emu2a
open Gen

structure Regs where
  r0 : Byte
  r1 : Byte
  r2 : Byte
  r3 : Byte
  r4 : Byte
  r5 : Byte
  r6 : Byte
  r7 : Byte
  deriving DecidableEq, Repr, Inhabited

namespace Regs
def zero : Regs := ⟨0, 0, 0, 0, 0, 0, 0, 0⟩

/-- `Register::get`; the index comes from 3 bits (`RegisterNumber::from_u8`), so it is below 8. -/
def get (r : Regs) : Nat → Byte
  | 0 => r.r0 | 1 => r.r1 | 2 => r.r2 | 3 => r.r3
  | 4 => r.r4 | 5 => r.r5 | 6 => r.r6 | _ => r.r7

def set (r : Regs) (i : Nat) (v : Byte) : Regs :=
  match i with
  | 0 => { r with r0 := v } | 1 => { r with r1 := v } | 2 => { r with r2 := v } | 3 => { r with r3 := v }
  | 4 => { r with r4 := v } | 5 => { r with r5 := v } | 6 => { r with r6 := v } | _ => { r with r7 := v }
end Regs

/-- One flag of the flag register (`Flags::from_bits_truncate(content[4]).contains`). -/
def flagBit (fr : Byte) (mask : Nat) : Bool := (fr &&& BitVec.ofNat 8 mask) != 0#8

/-- `set_carry_flag` / `set_zero_flag` / `set_negative_flag`. -/
def setFlag (fr : Byte) (mask : Nat) (v : Bool) : Byte :=
  if v then fr ||| BitVec.ofNat 8 mask else fr &&& ~~~(BitVec.ofNat 8 mask)

/-- The three flag updates of `apply_pending_register_writes`. -/
def setCZN (fr : Byte) (a : AluOut) : Byte :=
  setFlag (setFlag (setFlag fr C.flagC a.c) C.flagZ a.z) C.flagN a.n

/-- A bit of the instruction register (`Instruction::contains`). -/
def irBit (ir : Nat) (mask : Nat) : Bool := ir / mask % 2 == 1
def b2n (b : Bool) : Nat := if b then 1 else 0

namespace Sig
/-- `selected_register_a`. -/
def selA (w : UWord) (ir : Nat) : Nat :=
  if w.aa3 then 2 * b2n (irBit ir C.ir_op01) + b2n (irBit ir C.ir_op00) else w.aa
/-- `selected_register_b`. -/
def selB (w : UWord) (ir : Nat) : Nat :=
  if w.ab3 then 2 * b2n (irBit ir C.ir_op11) + b2n (irBit ir C.ir_op10) else w.ab
/-- `selected_register_for_writing`. -/
def selW (w : UWord) (ir : Nat) : Nat := if w.mrgws then selB w ir else selA w ir
/-- `alu_input_b_constant`. -/
def bConst (w : UWord) : Byte := BitVec.ofNat 8 ((if w.ab3 then 0xF8 else 0) + w.ab)

def am2 (ir : Nat) (fr : Byte) : Bool :=
  match irBit ir C.ir_op01, irBit ir C.ir_op00 with
  | false, false => true
  | false, true => flagBit fr C.flagC
  | true, false => flagBit fr C.flagZ
  | true, true => flagBit fr C.flagN

def al3 (ir : Nat) (fr : Byte) : Bool := irBit ir C.ir_op10 ^^ am2 ir fr
/-- `address_logic_2` with the level interrupt constantly absent (`Bus::get_level_interrupt` is `None`). -/
def al2 (fr : Byte) (pend : Bool) : Bool := flagBit fr C.flagIE && pend

def am1 (w : UWord) (ir : Nat) (fr : Byte) (a : AluOut) (pend : Bool) : Bool :=
  match w.mac1, w.mac0, w.na % 2 == 1 with
  | false, false, false => false
  | false, false, true => true
  | false, true, false => al3 ir fr
  | false, true, true => flagBit fr C.flagC
  | true, false, false => a.c
  | true, false, true => a.z
  | true, true, false => a.n
  | true, true, true => al2 fr pend

def am4 (w : UWord) (ir : Nat) : Bool := if w.mac2 then irBit ir C.ir_op11 else w.na / 2 % 2 == 1
def am3 (w : UWord) (ir : Nat) (fr : Byte) (a : AluOut) (pend : Bool) : Bool :=
  if w.mac2 then irBit ir C.ir_op10 else am1 w ir fr a pend

/-- `next_microprogram_address`. -/
def nextAddr (w : UWord) (ir : Nat) (fr : Byte) (a : AluOut) (pend : Bool) : Nat :=
  256 * b2n (irBit ir C.ir_a8) + 128 * b2n (irBit ir C.ir_a7) + 64 * b2n (irBit ir C.ir_a6)
  + 32 * b2n (irBit ir C.ir_a5) + 4 * (w.na / 4) + 2 * b2n (am4 w ir) + b2n (am3 w ir fr a pend)

/-- `interrupt_logic_1`: the flip-flop is cleared when sampled. -/
def il1 (w : UWord) (pend : Bool) : Bool := pend && w.mac1 && w.mac0 && (w.na % 2 == 1)
end Sig

structure Core where
  addr : Nat
  regs : Regs
  ir : Nat
  bus : Bus
  pendReg : Option Nat
  pendFlag : Bool
  pendInt : Bool
  alu : AluOut
  lastBus : Byte
  deriving DecidableEq, Repr

namespace Core

def new : Core :=
  { addr := 0, regs := Regs.zero, ir := C.irReset, bus := Bus.new, pendReg := none, pendFlag := false,
    pendInt := false, alu := AluOut.default, lastBus := 0 }

instance : Inhabited Core := ⟨new⟩

/-- Phase 1, `apply_pending_register_writes` without the supervision (which only touches `state`). -/
def applyPending (c : Core) : Core :=
  let regs := if c.pendFlag then { c.regs with r4 := setCZN c.regs.r4 c.alu } else c.regs
  let regs := match c.pendReg with
    | some r => regs.set r c.alu.out
    | none => regs
  { c with regs := regs, pendFlag := false, pendReg := none }

/-- What phase 2 (`update_instruction_from_bus`) does with the instruction register. -/
inductive IrAct | keep | reset | load
  deriving DecidableEq, Repr

def irAct (w : UWord) : IrAct :=
  if w.mac1 && w.mac2 then .reset else if w.mac0 && w.mac2 then .load else .keep

/-- Phase 2 without the halt detection. -/
def updateIr (c : Core) : Core :=
  match irAct (word c.addr) with
  | .keep => c
  | .reset => { c with ir := C.irReset }
  | .load =>
    let bus := if c.lastBus.toNat = C.opReti ∧ (word c.addr).mac3
      then { c.bus with misr := c.bus.misr &&& ~~~(BitVec.ofNat 8 C.misrKeyPending) &&& ~~~(BitVec.ofNat 8 C.misrKeyActive) }
      else c.bus
    { c with bus := bus, ir := c.lastBus.toNat }

/-- Phase 4 (`update_word`): next micro-address and interrupt flip-flop. -/
def updateWord (c : Core) : Core :=
  let w := word c.addr
  let next := Sig.nextAddr w c.ir c.regs.r4 c.alu c.pendInt
  { c with addr := next, pendInt := if Sig.il1 w c.pendInt then false else c.pendInt }

/-- Phases 5-7 under the new word: bus read, ALU, latch writes, bus write.
Returns the new core and whether a memory wait cycle is generated. -/
def execWord (c : Core) : Core × Bool :=
  let w := word c.addr
  let a := c.regs.get (Sig.selA w c.ir)
  let lastBus := if w.busen then c.bus.read a else 0#8
  let waitR := w.busen && decide (a.toNat ≤ C.waitTopR)
  let inA := if w.maluia then lastBus else a
  let inB := if w.maluib then Sig.bConst w else c.regs.get (Sig.selB w c.ir)
  let out := Emu2a.alu w.alus inA inB (flagBit c.regs.r4 C.flagC)
  let pendReg := if w.mrgwe then some (Sig.selW w c.ir) else c.pendReg
  let pendFlag := if w.mchflg then true else c.pendFlag
  let bus := if w.buswr then c.bus.write a out.out else c.bus
  let waitW := w.buswr && decide (a.toNat ≤ C.waitTopW)
  ({ c with lastBus := lastBus, alu := out, pendReg := pendReg, pendFlag := pendFlag, bus := bus },
   waitR || waitW)

/-- One executed clock edge of the data path (no halt state, no wait skipping). -/
def step (c : Core) : Core × Bool := execWord (updateWord (updateIr (applyPending c)))

/-- `is_instruction_done`. -/
def done (c : Core) : Bool := (word c.addr).mac3

end Core
end Emu2a
