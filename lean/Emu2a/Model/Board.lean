/-
The MR2DA2 extension board (board.rs), field by field, with f32 values as bit patterns.
-/
import Emu2a.Model.UWord
import Emu2a.Model.F32
import Emu2a.Gen.Consts
namespace Emu2a
open Gen

structure Board where
  di1 : Byte
  do1 : Byte
  do2 : Byte
  temp : F32.Bits
  dasr : Byte
  daisr : Byte
  daicr : Byte
  ai1 : F32.Bits
  ai2 : F32.Bits
  ao1 : F32.Bits
  ao2 : F32.Bits
  fanRpm : Nat
  dir1 : Bool
  dir2 : Bool
  dir3 : Bool
  deriving DecidableEq, Repr, Inhabited

namespace Board

def new : Board :=
  { di1 := 0, do1 := 0, do2 := 0, temp := 0, dasr := 0, daisr := 0, daicr := 0,
    ai1 := 0, ai2 := 0, ao1 := 0, ao2 := 0, fanRpm := 0, dir1 := false, dir2 := false, dir3 := false }

@[inline] def has (reg : Byte) (mask : Nat) : Bool := (reg &&& BitVec.ofNat 8 mask) != 0#8
@[inline] def ins (reg : Byte) (mask : Nat) : Byte := reg ||| BitVec.ofNat 8 mask
@[inline] def rem (reg : Byte) (mask : Nat) : Byte := reg &&& ~~~(BitVec.ofNat 8 mask)
@[inline] def setBit (reg : Byte) (mask : Nat) (v : Bool) : Byte := if v then ins reg mask else rem reg mask

/-- `DAICR::interrupt_source` as the number of the enum variant. -/
def intSource (b : Board) : Nat :=
  4 * (if has b.daicr C.daicr_int_source2 then 1 else 0)
  + 2 * (if has b.daicr C.daicr_int_source1 then 1 else 0)
  + (if has b.daicr C.daicr_int_source0 then 1 else 0)

/-- The clamp of `set_temp` / `set_analog_input*`: identity on `0.0..=5.0`, `>= 0` ↦ 5.0, else 0.0. -/
def clamp (v : F32.Bits) : F32.Bits :=
  if F32.le F32.posZero v && F32.le v F32.five then v
  else if F32.ge v F32.posZero then F32.five
  else F32.posZero

/-- The edge-detection block that board.rs repeats for jumper 1, UIO1-3 and both comparators:
when `src` is the selected source and DASR bit `bit` changes to `newv` in the configured
direction, SOURCE and INTERRUPT_FF are raised.  Returns the new DAISR. -/
def edgeBlock (b : Board) (src : Nat) (bit : Nat) (newv : Bool) : Byte :=
  if intSource b = src then
    if has b.dasr bit && !newv then
      if has b.daicr C.daicr_falling then ins (ins b.daisr C.daisr_source) C.daisr_interrupt_ff else b.daisr
    else if !has b.dasr bit && newv && !has b.daicr C.daicr_falling then
      ins (ins b.daisr C.daisr_source) C.daisr_interrupt_ff
    else b.daisr
  else b.daisr

/-- `value as f32 / 100.0`. -/
def dacVolt (v : Byte) : F32.Bits := F32.div (F32.ofNat v.toNat) (F32.ofNat 100)

def updateComp1 (b : Board) : Board :=
  let analog := dacVolt b.do1
  let newv := F32.gt b.ai1 analog
  let daisr := edgeBlock b C.srcComp1 C.dasr_comp_dac1 newv
  { b with daisr := daisr, dasr := setBit b.dasr C.dasr_comp_dac1 newv }

def updateComp2 (b : Board) : Board :=
  let analog := dacVolt b.do2
  let compIn := F32.max b.temp b.ai2
  let newv := F32.gt compIn analog
  let daisr := edgeBlock b C.srcComp2 C.dasr_comp_dac2 newv
  { b with daisr := daisr, dasr := setBit b.dasr C.dasr_comp_dac2 newv }

def setDi1 (b : Board) (v : Byte) : Board := { b with di1 := v }
def setTemp (b : Board) (v : F32.Bits) : Board := updateComp2 { b with temp := clamp v }
def setAi1 (b : Board) (v : F32.Bits) : Board := updateComp1 { b with ai1 := clamp v }
def setAi2 (b : Board) (v : F32.Bits) : Board := updateComp2 { b with ai2 := clamp v }

def setJ1 (b : Board) (p : Bool) : Board :=
  let daisr := edgeBlock b C.srcJumper1 C.dasr_j1 p
  { b with daisr := daisr, dasr := setBit b.dasr C.dasr_j1 p }
def setJ2 (b : Board) (p : Bool) : Board := { b with dasr := setBit b.dasr C.dasr_j2 p }

def setUio1 (b : Board) (v : Bool) : Board :=
  if b.dir1 then b else
  let daisr := edgeBlock b C.srcUio1 C.dasr_uio_1 v
  { b with daisr := daisr, dasr := setBit b.dasr C.dasr_uio_1 v }
def setUio2 (b : Board) (v : Bool) : Board :=
  if b.dir2 then b else
  let daisr := edgeBlock b C.srcUio2 C.dasr_uio_2 v
  { b with daisr := daisr, dasr := setBit b.dasr C.dasr_uio_2 v }
def setUio3 (b : Board) (v : Bool) : Board :=
  if b.dir3 then b else
  let daisr := edgeBlock b C.srcUio3 C.dasr_uio_3 v
  { b with daisr := daisr, dasr := setBit b.dasr C.dasr_uio_3 v }

/-- The f32 literal `2.55`. -/
def f255 : F32.Bits := 0x40233333

def setDo1 (b : Board) (v : Byte) : Board :=
  let analog := dacVolt v
  let b := updateComp1 { b with do1 := v, ao1 := analog }
  { b with fanRpm := F32.toNatSat (F32.div (F32.mul (F32.ofNat C.maxFanRpm) analog) f255) (2 ^ 64),
           dasr := ins b.dasr C.dasr_fan }

def setDo2 (b : Board) (v : Byte) : Board :=
  updateComp2 { b with do2 := v, ao2 := dacVolt v }

def setUor (b : Board) (v : Byte) : Board :=
  let d := setBit b.dasr C.dasr_uio_1 ((v &&& 1#8) == 1#8)
  let d := setBit d C.dasr_uio_2 ((v &&& 2#8) == 2#8)
  let d := setBit d C.dasr_uio_3 ((v &&& 4#8) == 4#8)
  { b with dasr := d }

def setUdr (b : Board) (v : Byte) : Board :=
  { b with dir1 := (v &&& 1#8) == 1#8, dir2 := (v &&& 2#8) == 2#8, dir3 := (v &&& 4#8) == 4#8 }

def setIcr (b : Board) (v : Byte) : Board :=
  { b with daisr := rem b.daisr (C.daisr_interrupt_pending + C.daisr_interrupt_requested + C.daisr_interrupt_ff),
           daicr := v &&& BitVec.ofNat 8 C.daicrMask }

def deleteIntFf (b : Board) : Board := { b with daisr := rem b.daisr C.daisr_interrupt_ff }

/-- `get_fan_period`: `u8::MAX - (255f32 * rpm as f32 / 4200f32) as u8`. -/
def fanPeriod (b : Board) : Byte :=
  BitVec.ofNat 8 (255 - F32.toNatSat (F32.div (F32.mul (F32.ofNat 255) (F32.ofNat b.fanRpm)) (F32.ofNat C.maxFanRpm)) 256)

def masterReset (b : Board) : Board :=
  { b with do1 := 0, do2 := 0, ao1 := 0, ao2 := 0, daicr := 0, fanRpm := 0,
           dir1 := false, dir2 := false, dir3 := false }

end Board
end Emu2a
