/-
Canonical text rendering of model states for the line protocol (must match harness/src/dump.rs).
-/
import Emu2a.Model.Machine
namespace Emu2a

def hexDigit (n : Nat) : Char :=
  if n < 10 then Char.ofNat (48 + n) else Char.ofNat (87 + n)

def hex2 (b : Byte) : String :=
  String.ofList [hexDigit (b.toNat / 16), hexDigit (b.toNat % 16)]

def b01 (b : Bool) : String := if b then "1" else "0"

def fnvStep (h : UInt64) (b : Byte) : UInt64 := (h ^^^ b.toNat.toUInt64) * 0x100000001b3
def fnvInit : UInt64 := 0xcbf29ce484222325

def ramHash (r : Vector Byte 240) : UInt64 := r.foldl fnvStep fnvInit

def Stacksize.str : Stacksize → String
  | .s0 => "0" | .s16 => "16" | .s32 => "32" | .s48 => "48" | .s64 => "64" | .notSet => "N"
def Programsize.str : Programsize → String
  | .size n => toString n | .auto => "A" | .notSet => "N"
def RunState.str : RunState → String
  | .running => "R" | .stopped => "S" | .error => "E"

def Regs.str (r : Regs) : String :=
  hex2 r.r0 ++ hex2 r.r1 ++ hex2 r.r2 ++ hex2 r.r3 ++ hex2 r.r4 ++ hex2 r.r5 ++ hex2 r.r6 ++ hex2 r.r7

def Board.str (b : Board) : String :=
  s!"{hex2 b.di1}{hex2 b.do1}{hex2 b.do2},{b.temp},{hex2 b.dasr}{hex2 b.daisr}{hex2 b.daicr},{b.ai1},{b.ai2},{b.ao1},{b.ao2},{b.fanRpm},{b01 b.dir1}{b01 b.dir2}{b01 b.dir3}"

def Bus.str (b : Bus) : String :=
  s!"out={hex2 b.outFE}{hex2 b.outFF} in={hex2 b.inFC}{hex2 b.inFD}{hex2 b.inFE}{hex2 b.inFF} micr={hex2 b.micr} misr={hex2 b.misr} ucr={hex2 b.ucr} usr={hex2 b.usr} us={hex2 b.uartSend} ur={hex2 b.uartRecv} t={b01 b.timer.enabled},{b.timer.div1},{b.timer.div2},{b.timer.div3} bd={b.board.str} ram={ramHash b.ram}"

def Machine.str (m : Machine) : String :=
  let c := m.core
  let pr := match c.pendReg with | some r => toString r | none => "-"
  s!"a={c.addr} ir={c.ir} r={c.regs.str} pr={pr} pf={b01 c.pendFlag} pi={b01 c.pendInt} alu={hex2 c.alu.out}{b01 c.alu.c}{b01 c.alu.z}{b01 c.alu.n} lb={hex2 c.lastBus} run={m.run.str} w={b01 m.wait} ss={m.ss.str} ps={m.ps.str} md={match m.mode with | .real => "R" | .assembly => "A"} {c.bus.str}"

def ramStr (r : Vector Byte 240) : String := r.foldl (fun s b => s ++ hex2 b) ""

def hexVal (c : Char) : Option Nat :=
  if '0' ≤ c ∧ c ≤ '9' then some (c.toNat - 48)
  else if 'a' ≤ c ∧ c ≤ 'f' then some (c.toNat - 87)
  else if 'A' ≤ c ∧ c ≤ 'F' then some (c.toNat - 55)
  else none

def parseHexBytes : List Char → Option (List Byte)
  | [] => some []
  | [_] => none
  | a :: b :: rest => do
    let x ← hexVal a
    let y ← hexVal b
    let r ← parseHexBytes rest
    pure (BitVec.ofNat 8 (16 * x + y) :: r)

end Emu2a
