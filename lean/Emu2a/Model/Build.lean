/-
From token trees to the AST (parser/implementation/mod.rs): `parse_*` functions, with every
`expect` / `unwrap` / `unreachable!` / `panic!` of the Rust code as an explicit `panic` outcome.
-/
import Emu2a.Model.Peg
import Emu2a.Model.Ast
import Emu2a.Gen.Grammar
import Emu2a.Gen.Consts
namespace Emu2a.Parse
open Emu2a.Peg Emu2a.Asm

inductive Err
  | panic (site : String)
  deriving Repr, DecidableEq

abbrev M := Except Err

def str (cs : List Char) : String := String.ofList cs
def lowerS (cs : List Char) : String := String.ofList (cs.map lowerC)

/-- `inner_tuple!`: the i-th inner token must exist and carry one of the expected rules. -/
def kid (t : Tree) (i : Nat) (expected : List String) : M Tree :=
  match t.children[i]? with
  | none => .error (.panic s!"inner_tuple: no inner rule {i} in {t.rule}")
  | some k => if expected.contains k.rule then .ok k else .error (.panic s!"inner_tuple: wrong rule {k.rule} inside {t.rule}")

def digitVal (c : Char) : Option Nat :=
  if '0' ≤ c ∧ c ≤ '9' then some (c.toNat - 48)
  else if 'a' ≤ c ∧ c ≤ 'f' then some (c.toNat - 87)
  else if 'A' ≤ c ∧ c ≤ 'F' then some (c.toNat - 55)
  else none

/-- `uN::from_str_radix(s, base)` on a digit string (no sign), `none` on invalid digit / empty / overflow. -/
def fromRadix (base limit : Nat) (cs : List Char) : Option Nat :=
  if cs.isEmpty then none else
  cs.foldl (fun acc c =>
    match acc, digitVal c with
    | some a, some d => if d < base ∧ a * base + d < limit then some (a * base + d) else none
    | _, _ => none) (some 0)

def unwrapNum (o : Option Nat) (site : String) : M Nat :=
  match o with | some n => .ok n | none => .error (.panic site)

/-- Number token of one of the `*_bin / *_hex / *_dec` rules. -/
def number (t : Tree) (limit : Nat) : M Nat :=
  let r := t.rule
  if r.endsWith "_bin" then unwrapNum (fromRadix 2 limit (t.text.drop 2)) "from_str_radix(2).unwrap()"
  else if r.endsWith "_hex" then unwrapNum (fromRadix 16 limit (t.text.drop 2)) "from_str_radix(16).unwrap()"
  else if r.endsWith "_dec" then unwrapNum (fromRadix 10 limit t.text) "parse().unwrap()"
  else .error (.panic "unreachable!() number rule")

def parseRegister (t : Tree) : M Reg :=
  match lowerS t.text with
  | "r0" => .ok .r0 | "r1" => .ok .r1 | "r2" => .ok .r2 | "r3" => .ok .r3 | "pc" => .ok .r3
  | _ => .error (.panic "unreachable!() parse_register")

def parseConstant (t : Tree) : M Const := do
  let k ← kid t 0 ["constant_bin", "constant_hex", "constant_dec", "raw_label"]
  if k.rule == "raw_label" then pure (.label (str k.text))
  else do let n ← number k 256; pure (.num n)

def parseConstantBhd (t : Tree) : M Nat := do
  let k ← kid t 0 ["constant_bin", "constant_hex", "constant_dec"]
  number k 256

def parseWordBhd (t : Tree) : M Nat := do
  let k ← kid t 0 ["word_bin", "word_hex", "word_dec"]
  number k 65536

def parseRegisterDi (t : Tree) : M Reg := do
  let _ ← kid t 0 ["oparen"]
  let r ← kid t 1 ["register"]
  let _ ← kid t 2 ["plus"]
  let _ ← kid t 3 ["cparen"]
  parseRegister r

def parseRegisterDdi (t : Tree) : M Reg := do
  let _ ← kid t 0 ["oparen"]
  let r ← kid t 1 ["registerdi"]
  let _ ← kid t 2 ["cparen"]
  parseRegisterDi r

def parseMemory (t : Tree) : M MemAddr := do
  let _ ← kid t 0 ["oparen"]
  let k ← kid t 1 ["register", "registerdi", "registerddi", "memory", "constant"]
  let _ ← kid t 2 ["cparen"]
  if k.rule == "constant" then do let c ← parseConstant k; pure (.const c)
  else if k.rule == "register" then do let r ← parseRegister k; pure (.reg r)
  else .error (.panic "unreachable!() parse_memory")

def firstKid (t : Tree) (site : String) : M Tree :=
  match t.children[0]? with
  | some k => .ok k
  | none => .error (.panic site)

def parseSource (t : Tree) : M Src := do
  let k ← firstKid t "source needs an inner element"
  match k.rule with
  | "register" => do let r ← parseRegister k; pure (.reg r)
  | "registerdi" => do let r ← parseRegisterDi k; pure (.di r)
  | "registerddi" => do let r ← parseRegisterDdi k; pure (.ddi r)
  | "memory" => do let m ← parseMemory k; pure (.mem m)
  | "constant" => do let c ← parseConstant k; pure (.const c)
  | _ => .error (.panic "unreachable!() parse_source")

def parseDestination (t : Tree) : M Dst := do
  let k ← firstKid t "source needs an inner element"
  match k.rule with
  | "register" => do let r ← parseRegister k; pure (.reg r)
  | "registerdi" => do let r ← parseRegisterDi k; pure (.di r)
  | "registerddi" => do let r ← parseRegisterDdi k; pure (.ddi r)
  | "memory" => do let m ← parseMemory k; pure (.mem m)
  | _ => .error (.panic "unreachable!() parse_destination")

def one (t : Tree) (f : Reg → Instr) : M Instr := do
  let _ ← kid t 0 ["sep_ip"]
  let r ← kid t 1 ["register"]
  let x ← parseRegister r
  pure (f x)

def two (t : Tree) (f : Reg → Reg → Instr) : M Instr := do
  let _ ← kid t 0 ["sep_ip"]
  let a ← kid t 1 ["register"]
  let _ ← kid t 2 ["sep_pp"]
  let b ← kid t 3 ["register"]
  let x ← parseRegister a
  let y ← parseRegister b
  pure (f x y)

def dstSrc (t : Tree) (f : Dst → Src → Instr) : M Instr := do
  let _ ← kid t 0 ["sep_ip"]
  let d ← kid t 1 ["destination"]
  let _ ← kid t 2 ["sep_pp"]
  let s ← kid t 3 ["source"]
  let x ← parseDestination d
  let y ← parseSource s
  pure (f x y)

def srcOnly (t : Tree) (f : Src → Instr) : M Instr := do
  let _ ← kid t 0 ["sep_ip"]
  let s ← kid t 1 ["source"]
  let y ← parseSource s
  pure (f y)

def labOnly (t : Tree) (f : String → Instr) : M Instr := do
  let _ ← kid t 0 ["sep_ip"]
  let l ← kid t 1 ["raw_label"]
  pure (f (str l.text))

def parseStacksize (t : Tree) : M SSize :=
  match lowerS t.text with
  | "0" => .ok .s0 | "16" => .ok .s16 | "32" => .ok .s32 | "48" => .ok .s48 | "64" => .ok .s64
  | "noset" => .ok .notSet
  | _ => .error (.panic "unreachable!() parse_raw_stacksize")

def parseProgramsize (t : Tree) : M PSize :=
  match lowerS t.text with
  | "auto" => .ok .auto
  | "noset" => .ok .notSet
  | _ => do
    let k ← kid t 0 ["constant_dec"]
    let n ← number k 256
    pure (.size n)

def parseInstruction (t : Tree) : M Instr := do
  let i ← firstKid t "an instruction rule should have an actual instruction"
  match i.rule with
  | "org" => do
    let _ ← kid i 0 ["sep_ip"]
    let n ← kid i 1 ["constant_bin", "constant_hex", "constant_dec"]
    let v ← number n 256
    pure (.org v)
  | "byte" => do
    let _ ← kid i 0 ["sep_ip"]
    let n ← kid i 1 ["constant_bin", "constant_hex", "constant_dec"]
    let v ← number n 256
    pure (.byte v)
  | "db" => do
    let vs ← (i.children.filter fun k => k.rule == "constant_bhd").mapM parseConstantBhd
    pure (.db vs)
  | "dw" => do
    let vs ← (i.children.filter fun k => k.rule == "word_bhd").mapM parseWordBhd
    pure (.dw vs)
  | "equ" => do
    let _ ← kid i 0 ["sep_ip"]
    let l ← kid i 1 ["raw_label"]
    let _ ← kid i 2 ["sep_ip"]
    let c ← kid i 3 ["constant_dec"]
    let v ← number c 256
    pure (.equ (str l.text) v)
  | "stacksize" => do
    let _ ← kid i 0 ["sep_ip"]
    let s ← kid i 1 ["raw_stacksize"]
    let v ← parseStacksize s
    pure (.stacksize v)
  | "programsize" => do
    let _ ← kid i 0 ["sep_ip"]
    let s ← kid i 1 ["raw_programsize"]
    let v ← parseProgramsize s
    pure (.programsize v)
  | "clr" => one i .clr | "add" => two i .add | "adc" => two i .adc | "sub" => two i .sub
  | "mul" => two i .mul | "div" => two i .div | "inc" => one i .inc | "dec" => srcOnly i .dec
  | "neg" => one i .neg | "and" => two i .and | "or" => two i .or | "xor" => two i .xor | "com" => one i .com
  | "bits" => dstSrc i .bits | "bitc" => dstSrc i .bitc | "tst" => one i .tst | "cmp" => dstSrc i .cmp
  | "bitt" => dstSrc i .bitt | "lsr" => one i .lsr | "asr" => one i .asr | "lsl" => one i .lsl
  | "rrc" => one i .rrc | "rlc" => one i .rlc | "mov" => dstSrc i .mov
  | "ld_const" => do
    let _ ← kid i 0 ["sep_ip"]
    let r ← kid i 1 ["register"]
    let _ ← kid i 2 ["sep_pp"]
    let c ← kid i 3 ["constant"]
    let x ← parseRegister r
    let y ← parseConstant c
    pure (.ldConst x y)
  | "ld_memory" => do
    let _ ← kid i 0 ["sep_ip"]
    let r ← kid i 1 ["register"]
    let _ ← kid i 2 ["sep_pp"]
    let m ← kid i 3 ["memory"]
    let x ← parseRegister r
    let y ← parseMemory m
    pure (.ldMem x y)
  | "st" => do
    let _ ← kid i 0 ["sep_ip"]
    let m ← kid i 1 ["memory"]
    let _ ← kid i 2 ["sep_pp"]
    let r ← kid i 3 ["register"]
    let y ← parseMemory m
    let x ← parseRegister r
    pure (.st y x)
  | "push" => one i .push | "pop" => one i .pop | "pushf" => pure .pushf | "popf" => pure .popf
  | "ldsp" => srcOnly i .ldsp | "ldfr" => srcOnly i .ldfr
  | "jmp" => labOnly i .jmp | "jcs" => labOnly i .jcs | "jcc" => labOnly i .jcc | "jzs" => labOnly i .jzs
  | "jzc" => labOnly i .jzc | "jns" => labOnly i .jns | "jnc" => labOnly i .jnc | "jr" => labOnly i .jr
  | "call" => labOnly i .call
  | "ret" => pure .ret | "reti" => pure .reti | "stop" => pure .stop | "nop" => pure .nop
  | "ei" => pure .ei | "di" => pure .di
  | _ => .error (.panic "unreachable!() parse_instruction")

/-- `trim_matches(|c| " \t;".contains(c))`. -/
def trimComment (cs : List Char) : List Char :=
  let p := fun c => c == ' ' || c == '\t' || c == ';'
  ((cs.dropWhile p).reverse.dropWhile p).reverse

def parseComment (t : Tree) : M String := do
  let _ ← kid t 0 ["semicolon"]
  let r ← kid t 1 ["rest"]
  pure (str (trimComment r.text))

def parseLabel (t : Tree) : M String := do
  let l ← kid t 0 ["raw_label"]
  let _ ← kid t 1 ["colon"]
  pure (str l.text)

def parseLine (t : Tree) : M Line :=
  t.children.foldlM (fun (acc : Line) (e : Tree) =>
    match e.rule with
    | "space" => pure acc
    | "label" => do let l ← parseLabel e; pure (.label l none)
    | "instruction" => do let i ← parseInstruction e; pure (.instr i none)
    | "comment" => do
      let c ← parseComment e
      pure (match acc with
        | .empty _ => .empty (some c)
        | .instr i _ => .instr i (some c)
        | .label l _ => .label l (some c))
    | _ => .error (.panic "unreachable!() parse_line")) (.empty none)

/-! ### validate_lines -/

def constRefs : Const → List String | .label l => [l] | .num _ => []
def memRefs : MemAddr → List String | .const c => constRefs c | .reg _ => []
def srcRefs : Src → List String | .mem m => memRefs m | .const c => constRefs c | _ => []
def dstRefs : Dst → List String | .mem m => memRefs m | _ => []

/-- Labels an instruction refers to (the list `validate_lines` extracts). -/
def refs : Instr → List String
  | .jmp l | .jcs l | .jcc l | .jzs l | .jzc l | .jns l | .jnc l | .jr l | .call l => [l]
  | .ldConst _ c => constRefs c
  | .ldMem _ m | .st m _ => memRefs m
  | .dec s | .ldsp s | .ldfr s => srcRefs s
  | .bits d s | .bitc d s | .cmp d s | .bitt d s | .mov d s => dstRefs d ++ srcRefs s
  | _ => []

def lineRefs : Line → List String | .instr i _ => refs i | _ => []

def definedLabels (ls : List Line) : List String :=
  ls.flatMap fun l => match l with
    | .label n _ => [lower n]
    | .instr (.equ n _) _ => [lower n]
    | _ => []

inductive Result
  | ok (p : Program)
  | syntaxError
  | undefinedLabels (ls : List String)
  | tooManyLabels
  | panic (site : String)
  deriving Repr, DecidableEq

def validate (ls : List Line) : Option Result :=
  let labels := definedLabels ls
  let undefined := (ls.flatMap lineRefs).filter fun l => !labels.contains (lower l)
  if labels.length > Gen.C.maxLabels then some .tooManyLabels
  else if undefined.isEmpty then none
  else some (.undefinedLabels undefined)

/-- `AsmParser::parse`. -/
def parse (fuel : Nat) (input : String) : Result :=
  match run Gen.mrasm fuel (.rule "file") true input.toList with
  | .fail => .syntaxError
  | .oof => .syntaxError   -- not reached with `defaultFuel` (theorem `C03.parse_decides`)
  | .ok ts _ =>
    match ts with
    | [] => .panic "Infallible: Header must exist"
    | header :: rest =>
      let hc : M (Option String) := header.children.foldlM (fun acc el =>
        if el.rule == "comment" then do let c ← parseComment el; pure (some c) else pure acc) none
      match hc with
      | .error (.panic s) => .panic s
      | .ok hcomment =>
        match (rest.filter fun t => t.rule == "line").mapM parseLine with
        | .error (.panic s) => .panic s
        | .ok lines =>
          match validate lines with
          | some r => r
          | none => .ok ⟨hcomment, lines⟩

/-- Fuel the driver uses: enough for every input (`C03.parse_decides`: with it the interpreter never
answers "out of fuel"; 80 is the static height of the `file` rule, the input length pays for the
iterations of repetitions). -/
def defaultFuel (input : String) : Nat := 80 + 4 * input.toList.length

end Emu2a.Parse
