/-
The bus with RAM, I/O registers, interrupt/UART/timer registers and the board (bus.rs).
-/
import Emu2a.Model.Board
namespace Emu2a
open Gen

structure Timer where
  enabled : Bool
  div1 : Nat
  div2 : Nat
  div3 : Nat
  deriving DecidableEq, Repr, Inhabited

structure Bus where
  ram : Vector Byte 240
  inFC : Byte
  inFD : Byte
  inFE : Byte
  inFF : Byte
  outFE : Byte
  outFF : Byte
  micr : Byte
  misr : Byte
  ucr : Byte
  usr : Byte
  uartSend : Byte
  uartRecv : Byte
  timer : Timer
  board : Board
  deriving DecidableEq, Repr

namespace Bus

def Timer.new : Timer := ⟨false, 0, 0, 0⟩

def new : Bus :=
  { ram := Vector.replicate 240 0#8, inFC := 0, inFD := 0, inFE := 0, inFF := 0, outFE := 0, outFF := 0,
    micr := 0, misr := 0, ucr := 0, usr := 0, uartSend := 0, uartRecv := 0, timer := Timer.new,
    board := Board.new }

instance : Inhabited Bus := ⟨new⟩

def cpuReset (b : Bus) : Bus := { b with outFE := 0, outFF := 0, micr := 0, ucr := 0 }

def masterReset (b : Bus) : Bus :=
  let b := cpuReset b
  { b with inFC := 0, inFD := 0, inFE := 0, inFF := 0, timer := Timer.new, board := b.board.masterReset }

def resetRam (b : Bus) : Bus := { b with ram := Vector.replicate 240 0#8 }

/-- `Bus::read`. -/
def read (b : Bus) (addr : Byte) : Byte :=
  let a := addr.toNat
  if h : a ≤ C.ramTop then b.ram[a]'(by simp [C.ramTop] at h; omega)
  else if a = 0xF0 then b.board.di1
  else if a = 0xF1 then b.board.dasr
  else if a = 0xF2 then b.board.fanPeriod
  else if a = 0xF3 then b.board.daisr
  else if a = 0xF4 then 0
  else if a = 0xF5 then 0
  else if a = 0xF6 then 0
  else if a = 0xF7 then 0
  else if a = 0xF8 then 0
  else if a = 0xF9 then b.misr
  else if a = 0xFA then b.uartRecv
  else if a = 0xFB then b.usr
  else  -- `self.input_reg[addr - 0xFC]`
    match a - 0xFC with
    | 0 => b.inFC
    | 1 => b.inFD
    | 2 => b.inFE
    | _ => b.inFF

/-- `Bus::write`. -/
def write (b : Bus) (addr : Byte) (v : Byte) : Bus :=
  let a := addr.toNat
  if h : a ≤ C.ramTop then { b with ram := b.ram.set a v (by simp [C.ramTop] at h; omega) }
  else if a = 0xF0 then { b with board := b.board.setDo1 v }
  else if a = 0xF1 then { b with board := b.board.setDo2 v }
  else if a = 0xF2 then
    match (v &&& 0xC0#8).toNat / 64 with
    | 0 => { b with board := b.board.setUor v }
    | 1 => b
    | 2 => { b with board := b.board.setUdr v }
    | _ => { b with board := b.board.setIcr v }
  else if a = 0xF3 then { b with board := b.board.deleteIntFf }
  else if a = 0xF4 then b
  else if a = 0xF5 then b
  else if a = 0xF6 then b
  else if a = 0xF7 then b
  else if a = 0xF8 then b
  else if a = 0xF9 then { b with micr := v &&& BitVec.ofNat 8 C.micrMask }
  else if a = 0xFA then { b with uartSend := v }
  else if a = 0xFB then { b with ucr := v &&& BitVec.ofNat 8 C.ucrMask }
  else if a = 0xFC then
    { b with timer := { b.timer with div3 := (b.timer.div3 &&& 0xFF00) + v.toNat } }
  else if a = 0xFD then
    if (v &&& 0x80#8) == 0x80#8 then
      let en := (v &&& 0x10#8) == 0x10#8
      -- NB: the source assigns div2 twice (the second `match` on div1_select also writes div2)
      let d2 := match (v &&& 0x03#8).toNat with
        | 0 => 1 | 1 => 16 | 2 => 256 | _ => 4096
      { b with timer := { b.timer with enabled := en, div2 := d2 } }
    else
      let upper := (v.toNat &&& 0x7F) <<< 7
      { b with timer := { b.timer with div3 := upper + (b.timer.div3 &&& 0x7F) } }
  else if a = 0xFE then { b with outFE := v }
  else { b with outFF := v }

def keyEdgeEnabled (b : Bus) : Bool := (b.micr &&& BitVec.ofNat 8 C.micrKeyEdge) != 0#8

end Bus
end Emu2a
