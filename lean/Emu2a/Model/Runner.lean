/-
The runner (emulator-2a-lib/src/runner/mod.rs), the CLI glue around it (emulator-2a/src/runner/mod.rs,
args.rs `parse_u8_auto_radix`, main.rs exit status) and `Machine::new_with_program` /
`apply_configuration` (machine/mod.rs).
-/
import Emu2a.Model.Ops
import Emu2a.Model.Build
import Emu2a.Model.Compile
import Emu2a.Model.AstIO
namespace Emu2a.Runner
open Emu2a

/-- `MachineConfig`. -/
structure Config where
  fc : Byte := 0
  fd : Byte := 0
  fe : Byte := 0
  ff : Byte := 0
  di1 : Byte := 0
  temp : F32.Bits := 0
  j1 : Bool := false
  j2 : Bool := false
  ai1 : F32.Bits := 0
  ai2 : F32.Bits := 0
  uio1 : Bool := false
  uio2 : Bool := false
  uio3 : Bool := false
  deriving Repr, DecidableEq, Inhabited

/-- `apply_configuration`: the setters in source order (the order matters for the board: temp and
ai2 write the same comparator input). -/
def applyConfig (c : Config) (m : Machine) : Machine :=
  let m := m.mapBus (·.setInputReg 0 c.fc)
  let m := m.mapBus (·.setInputReg 1 c.fd)
  let m := m.mapBus (·.setInputReg 2 c.fe)
  let m := m.mapBus (·.setInputReg 3 c.ff)
  let m := m.mapBoard (·.setDi1 c.di1)
  let m := m.mapBoard (·.setTemp c.temp)
  let m := m.mapBoard (·.setJ1 c.j1)
  let m := m.mapBoard (·.setJ2 c.j2)
  let m := m.mapBoard (·.setAi1 c.ai1)
  let m := m.mapBoard (·.setAi2 c.ai2)
  let m := m.mapBoard (·.setUio1 c.uio1)
  let m := m.mapBoard (·.setUio2 c.uio2)
  m.mapBoard (·.setUio3 c.uio3)

def ssOf : Asm.SSize → Stacksize
  | .s0 => .s0 | .s16 => .s16 | .s32 => .s32 | .s48 => .s48 | .s64 => .s64 | .notSet => .notSet
def psOf : Asm.PSize → Programsize
  | .auto => .auto | .notSet => .notSet | .size n => .size n

/-- `Machine::new_with_program`: load first, configuration afterwards. `none` = `load` panics. -/
def newWithProgram (c : Config) (b : Asm.ByteCode) : Option Machine :=
  (Machine.new.load (b.bytes.map (BitVec.ofNat 8)) (ssOf b.ss) (psOf b.ps)).map (applyConfig c)

/-- One iteration of the `while` body for cycle number `k`. -/
def cycle (ints resets : List Nat) (k : Nat) (m : Machine) : Machine :=
  let m := if ints.contains k then m.keyInterrupt else m
  let m := if resets.contains k then m.cpuReset else m
  m.clockEdge        -- `trigger_key_clock` of a machine in `StepMode::Real`

/-- The `while emulated_cycles < max_cycles` loop, transcribed (fuel = remaining budget). -/
def loop (ints resets : List Nat) (max : Nat) : Nat → Nat → Machine → Machine × Nat
  | 0, k, m => (m, k)
  | fuel + 1, k, m =>
    if k < max then
      let m1 := cycle ints resets k m
      if m1.run ≠ .running then (m1, k + 1) else loop ints resets max fuel (k + 1) m1
    else (m, k)

/-- `RunnerConfig::run` after the machine was built: final machine and `emulated_cycles`. -/
def run (max : Nat) (ints resets : List Nat) (m : Machine) : Machine × Nat := loop ints resets max max 0 m

inductive RunError | syntaxError | panic (site : String)
  deriving Repr, DecidableEq

/-- The whole `RunnerConfig::run`: parse, translate, build the machine, run. -/
def runProgram (src : String) (c : Config) (max : Nat) (ints resets : List Nat) : Except RunError (Machine × Nat) :=
  match Parse.parse (Parse.defaultFuel src) src with
  | .ok p =>
    match Asm.compile p with
    | .ok b =>
      match newWithProgram c b with
      | some m => .ok (run max ints resets m)
      | none => .error (.panic "load")
    | .error e => .error (.panic e.str)
  | .panic s => .error (.panic s)
  | _ => .error .syntaxError

/-! ### Expectations -/

structure Expect where
  state : Option RunState := none
  fe : Option Byte := none
  ff : Option Byte := none
  deriving Repr, DecidableEq

inductive VErr | state | fe | ff
  deriving Repr, DecidableEq

/-- `RunExpectations::verify` (`none` = `Ok(())`). -/
def verify (e : Expect) (m : Machine) : Option VErr :=
  if e.state.isSome && e.state != some m.run then some .state
  else if e.fe.isSome && e.fe != some m.core.bus.outFE then some .fe
  else if e.ff.isSome && e.ff != some m.core.bus.outFF then some .ff
  else none

/-! ### Command line -/

/-- `u8::from_str_radix(s, radix)` / `s.parse::<u8>()`: one optional leading `+` (not alone), then
one or more digits of the radix (letters in either case), value at most 255. -/
def u8FromStrRadix (radix : Nat) (cs : List Char) : Option Nat :=
  let ds := match cs with
    | '+' :: rest => rest
    | _ => cs
  Parse.fromRadix radix 256 ds

/-- `parse_u8_auto_radix`. -/
def parseU8 (cs : List Char) : Option Nat :=
  match cs with
  | '0' :: 'b' :: rest => u8FromStrRadix 2 rest
  | '0' :: 'x' :: rest => u8FromStrRadix 16 rest
  | _ => u8FromStrRadix 10 cs

/-- What the process shows: the exit status and, when the run got as far as printing, the values. -/
structure CliOut where
  exit : Nat
  printed : Option (Nat × Nat × RunState × Byte × Byte)   -- cycles, max, state, FE, FF
  deriving Repr, DecidableEq

/-- `execute_runner_with_args_and_print_results` + the exit status of `main`, for arguments the CLI
accepted: `src = none` when the program file cannot be read. -/
def cli (src : Option String) (c : Config) (max : Nat) (ints resets : List Nat) (e : Option Expect) : CliOut :=
  match src with
  | none => ⟨1, none⟩
  | some s =>
    match runProgram s c max ints resets with
    | .ok (m, k) =>
      let st := match e with | some e => verify e m | none => none
      ⟨if st.isSome then 1 else 0, some (k, max, m.run, m.core.bus.outFE, m.core.bus.outFF)⟩
    | .error .syntaxError => ⟨1, none⟩
    | .error (.panic _) => ⟨101, none⟩

end Emu2a.Runner
