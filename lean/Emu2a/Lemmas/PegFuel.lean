/-
Fuel sufficiency of the PEG interpreter: a static height `H g d e` of an expression (rule references
unfolded; `d` bounds the unfolding so that the definition is structural) such that
`H g d e = some k` and `fuel ≥ k + |input|` imply that the run does not end "out of fuel".
The input length pays for the iterations of repetitions (each iteration strictly shortens the input).
-/
import Emu2a.Lemmas.PegMono
import Emu2a.Lemmas.PegDen
namespace Emu2a.Peg

/-- Static height: an upper bound of the recursion depth of `run` on `e`, not counting the iterations
of `*` / `+` (paid for by the input length). `none`: the unfolding bound `d` was too small, or a rule
is missing. -/
def H (g : Grammar) : Nat → Expr → Option Nat
  | 0, _ => none
  | d + 1, e =>
    match e with
    | .str _ => some 1
    | .istr _ => some 1
    | .range _ _ => some 1
    | .builtin _ => some 1
    | .seq a b => match H g d a, H g d b with
      | some x, some y => some (1 + max x y)
      | _, _ => none
    | .choice a b => match H g d a, H g d b with
      | some x, some y => some (1 + max x y)
      | _, _ => none
    | .opt a => (H g d a).map (· + 1)
    | .star a => (H g d a).map (· + 1)
    | .plus a => (H g d a).map (· + 2)
    | .rep a _ mx => (H g d a).map (· + mx + 1)
    | .notP a => (H g d a).map (· + 1)
    | .rule n => match g.find n with
      | some rd => (H g d rd.body).map (· + 1)
      | none => some 1

/-- The rest of the input after a successful run is not longer than the input. -/
theorem run_ok_len (g : Grammar) (fuel : Nat) (e : Expr) (s : Bool) (inp : List Char) (ts : List Tree)
    (r : List Char) (h : run g fuel e s inp = .ok ts r) : r.length ≤ inp.length := by
  obtain ⟨c, hc, _, _⟩ := run_sound g (fun _ _ => True) (fun _ _ _ _ _ _ _ _ _ => trivial) fuel e s inp ts r h
  rw [hc]; simp

/-- **Fuel sufficiency.** -/
theorem run_not_oof (g : Grammar) : ∀ (d : Nat) (e : Expr) (k : Nat), H g d e = some k →
    ∀ (fuel : Nat) (s : Bool) (inp : List Char), k + inp.length ≤ fuel → run g fuel e s inp ≠ .oof := by
  intro d
  induction d with
  | zero => intro e k h; simp [H] at h
  | succ d ih =>
    intro e k hk fuel s inp hf
    cases e with
    | str t =>
      simp only [H, Option.some.injEq] at hk; subst hk
      obtain ⟨f, rfl⟩ : ∃ f, fuel = f + 1 := ⟨fuel - 1, by omega⟩
      rw [run_succ]; simp only [Res.ofOpt]; split <;> simp
    | istr t =>
      simp only [H, Option.some.injEq] at hk; subst hk
      obtain ⟨f, rfl⟩ : ∃ f, fuel = f + 1 := ⟨fuel - 1, by omega⟩
      rw [run_succ]; simp only [Res.ofOpt]; split <;> simp
    | range lo hi =>
      simp only [H, Option.some.injEq] at hk; subst hk
      obtain ⟨f, rfl⟩ : ∃ f, fuel = f + 1 := ⟨fuel - 1, by omega⟩
      rw [run_succ]; simp only [oneChar]; split <;> (try split) <;> simp
    | builtin b =>
      simp only [H, Option.some.injEq] at hk; subst hk
      obtain ⟨f, rfl⟩ : ∃ f, fuel = f + 1 := ⟨fuel - 1, by omega⟩
      rw [run_succ]
      cases b <;> simp only [oneChar] <;> (repeat' split) <;> simp
    | seq a b =>
      simp only [H] at hk
      split at hk
      · rename_i x y hx hy
        simp only [Option.some.injEq] at hk; subst hk
        obtain ⟨f, rfl⟩ : ∃ f, fuel = f + 1 := ⟨fuel - 1, by omega⟩
        rw [run_succ]; simp only
        have ha := ih a x hx f s inp (by omega)
        cases hra : run g f a s inp with
        | oof => exact absurd hra ha
        | fail => simp
        | ok ta r1 =>
          simp only
          have hl := run_ok_len g f a s inp ta r1 hra
          have hb := ih b y hy f (s && r1.length == inp.length) r1 (by omega)
          cases hrb : run g f b (s && r1.length == inp.length) r1 with
          | oof => exact absurd hrb hb
          | fail => simp
          | ok tb r2 => simp
      · cases hk
    | choice a b =>
      simp only [H] at hk
      split at hk
      · rename_i x y hx hy
        simp only [Option.some.injEq] at hk; subst hk
        obtain ⟨f, rfl⟩ : ∃ f, fuel = f + 1 := ⟨fuel - 1, by omega⟩
        rw [run_succ]; simp only
        have ha := ih a x hx f s inp (by omega)
        cases hra : run g f a s inp with
        | oof => exact absurd hra ha
        | fail => simp only; exact ih b y hy f s inp (by omega)
        | ok ta r1 => simp
      · cases hk
    | opt a =>
      simp only [H, Option.map_eq_some_iff] at hk
      obtain ⟨x, hx, rfl⟩ := hk
      obtain ⟨f, rfl⟩ : ∃ f, fuel = f + 1 := ⟨fuel - 1, by omega⟩
      rw [run_succ]; simp only
      have ha := ih a x hx f s inp (by omega)
      cases hra : run g f a s inp with
      | oof => exact absurd hra ha
      | fail => simp
      | ok ta r1 => simp
    | notP a =>
      simp only [H, Option.map_eq_some_iff] at hk
      obtain ⟨x, hx, rfl⟩ := hk
      obtain ⟨f, rfl⟩ : ∃ f, fuel = f + 1 := ⟨fuel - 1, by omega⟩
      rw [run_succ]; simp only
      have ha := ih a x hx f s inp (by omega)
      cases hra : run g f a s inp with
      | oof => exact absurd hra ha
      | fail => simp
      | ok ta r1 => simp
    | rule n =>
      simp only [H] at hk
      obtain ⟨f, rfl⟩ : ∃ f, fuel = f + 1 := ⟨fuel - 1, by
        cases hfind : g.find n <;> simp [hfind] at hk <;> omega⟩
      rw [run_succ]; simp only
      cases hfind : g.find n with
      | none => simp
      | some rd =>
        simp only [hfind, Option.map_eq_some_iff] at hk
        obtain ⟨x, hx, rfl⟩ := hk
        simp only
        have ha := ih rd.body x hx f s inp (by omega)
        cases hra : run g f rd.body s inp with
        | oof => exact absurd hra ha
        | fail => simp
        | ok ta r1 => simp only; split <;> simp
    | star a =>
      simp only [H, Option.map_eq_some_iff] at hk
      obtain ⟨x, hx, rfl⟩ := hk
      -- iterations are paid for by the input length: induction on the input length
      suffices hs : ∀ (m : Nat) (fuel : Nat) (s : Bool) (inp : List Char), inp.length ≤ m → x + 1 + inp.length ≤ fuel →
          run g fuel (.star a) s inp ≠ .oof from hs inp.length fuel s inp (Nat.le_refl _) hf
      intro m
      induction m with
      | zero =>
        intro fuel s inp hm hf
        obtain ⟨f, rfl⟩ : ∃ f, fuel = f + 1 := ⟨fuel - 1, by omega⟩
        rw [run_succ]; simp only
        have ha := ih a x hx f s inp (by omega)
        cases hra : run g f a s inp with
        | oof => exact absurd hra ha
        | fail => simp
        | ok ta r1 =>
          simp only
          have hl := run_ok_len g f a s inp ta r1 hra
          have : ¬ r1.length < inp.length := by omega
          simp [this]
      | succ m ihm =>
        intro fuel s inp hm hf
        obtain ⟨f, rfl⟩ : ∃ f, fuel = f + 1 := ⟨fuel - 1, by omega⟩
        rw [run_succ]; simp only
        have ha := ih a x hx f s inp (by omega)
        cases hra : run g f a s inp with
        | oof => exact absurd hra ha
        | fail => simp
        | ok ta r1 =>
          simp only
          split
          · rename_i hlt
            have hrec := ihm f false r1 (by omega) (by omega)
            cases hrb : run g f (.star a) false r1 with
            | oof => exact absurd hrb hrec
            | fail => simp
            | ok tb r2 => simp
          · simp
    | plus a =>
      simp only [H, Option.map_eq_some_iff] at hk
      obtain ⟨x, hx, rfl⟩ := hk
      obtain ⟨f, rfl⟩ : ∃ f, fuel = f + 1 := ⟨fuel - 1, by omega⟩
      rw [run_succ]; simp only
      have ha := ih a x hx f s inp (by omega)
      cases hra : run g f a s inp with
      | oof => exact absurd hra ha
      | fail => simp
      | ok ta r1 =>
        simp only
        have hl := run_ok_len g f a s inp ta r1 hra
        -- the `*` part: the same argument as in the star case, via the height of `.star a` at depth d+1
        have hstar : H g (d + 1) (.star a) = some (x + 1) := by simp [H, hx]
        -- we cannot use `ih` at depth d+1; redo the star induction
        have hs : ∀ (m : Nat) (fuel : Nat) (s : Bool) (inp : List Char), inp.length ≤ m → x + 1 + inp.length ≤ fuel →
            run g fuel (.star a) s inp ≠ .oof := by
          intro m
          induction m with
          | zero =>
            intro fuel s inp hm hf
            obtain ⟨f, rfl⟩ : ∃ f, fuel = f + 1 := ⟨fuel - 1, by omega⟩
            rw [run_succ]; simp only
            have ha := ih a x hx f s inp (by omega)
            cases hra : run g f a s inp with
            | oof => exact absurd hra ha
            | fail => simp
            | ok ta r1 =>
              simp only
              have hl := run_ok_len g f a s inp ta r1 hra
              have : ¬ r1.length < inp.length := by omega
              simp [this]
          | succ m ihm =>
            intro fuel s inp hm hf
            obtain ⟨f, rfl⟩ : ∃ f, fuel = f + 1 := ⟨fuel - 1, by omega⟩
            rw [run_succ]; simp only
            have ha := ih a x hx f s inp (by omega)
            cases hra : run g f a s inp with
            | oof => exact absurd hra ha
            | fail => simp
            | ok ta r1 =>
              simp only
              split
              · rename_i hlt
                have hrec := ihm f false r1 (by omega) (by omega)
                cases hrb : run g f (.star a) false r1 with
                | oof => exact absurd hrb hrec
                | fail => simp
                | ok tb r2 => simp
              · simp
        have hb := hs r1.length f (s && r1.length == inp.length) r1 (Nat.le_refl _) (by omega)
        cases hrb : run g f (.star a) (s && r1.length == inp.length) r1 with
        | oof => exact absurd hrb hb
        | fail => simp
        | ok tb r2 => simp
    | rep a mn mx =>
      simp only [H, Option.map_eq_some_iff] at hk
      obtain ⟨x, hx, rfl⟩ := hk
      -- induction on the remaining repetition count
      suffices hs : ∀ (mx mn : Nat) (fuel : Nat) (s : Bool) (inp : List Char), x + mx + 1 + inp.length ≤ fuel →
          run g fuel (.rep a mn mx) s inp ≠ .oof from hs mx mn fuel s inp hf
      intro mx
      induction mx with
      | zero =>
        intro mn fuel s inp hf
        obtain ⟨f, rfl⟩ : ∃ f, fuel = f + 1 := ⟨fuel - 1, by omega⟩
        rw [run_succ]; simp
      | succ mx ihm =>
        intro mn fuel s inp hf
        obtain ⟨f, rfl⟩ : ∃ f, fuel = f + 1 := ⟨fuel - 1, by omega⟩
        rw [run_succ]; simp only [Nat.succ_ne_zero, ↓reduceIte, Nat.add_sub_cancel]
        have ha := ih a x hx f s inp (by omega)
        cases hra : run g f a s inp with
        | oof => exact absurd hra ha
        | fail => simp only; split <;> simp
        | ok ta r1 =>
          simp only
          have hl := run_ok_len g f a s inp ta r1 hra
          have hrec := ihm (mn - 1) f (s && r1.length == inp.length) r1 (by omega)
          cases hrb : run g f (.rep a (mn - 1) mx) (s && r1.length == inp.length) r1 with
          | oof => exact absurd hrb hrec
          | fail => simp only; split <;> simp
          | ok tb r2 => simp

end Emu2a.Peg
