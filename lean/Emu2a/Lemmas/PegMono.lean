/-
Fuel monotonicity of the PEG interpreter: an answer other than "out of fuel" does not change when
more fuel is given.  Hence a *failed* match is a real failure (no fuel artefact), which is what an
ordered choice relies on when it falls through to its next alternative.
-/
import Emu2a.Model.Peg
namespace Emu2a.Peg

theorem run_succ (g : Grammar) (f : Nat) (e : Expr) (s : Bool) (inp : List Char) :
    run g (f + 1) e s inp =
    match e with
    | .str s' => Res.ofOpt (stripPrefix (· == ·) s' inp)
    | .istr s' => Res.ofOpt (stripPrefix (fun p c => lowerC p == lowerC c) s' inp)
    | .range lo hi => oneChar (fun c => decide (lo ≤ c ∧ c ≤ hi)) inp
    | .builtin b =>
      match b with
      | .soi => if s then .ok [] inp else .fail
      | .eoi => if inp.isEmpty then .ok [.node "EOI" [] []] inp else .fail
      | .any => oneChar (fun _ => true) inp
      | .newline =>
        match inp with
        | '\n' :: cs => .ok [] cs
        | '\r' :: '\n' :: cs => .ok [] cs
        | '\r' :: cs => .ok [] cs
        | _ => .fail
      | .ascii_bin_digit => oneChar (fun c => c == '0' || c == '1') inp
      | .ascii_hex_digit => oneChar isHex inp
      | .ascii_alpha => oneChar isAlpha inp
      | .ascii_alphanumeric => oneChar (fun c => isAlpha c || isDigit c) inp
    | .seq a b =>
      match run g f a s inp with
      | .ok ta r1 =>
        match run g f b (s && r1.length == inp.length) r1 with
        | .ok tb r2 => .ok (ta ++ tb) r2
        | .fail => .fail
        | .oof => .oof
      | .fail => .fail
      | .oof => .oof
    | .choice a b =>
      match run g f a s inp with
      | .ok ts r => .ok ts r
      | .fail => run g f b s inp
      | .oof => .oof
    | .opt a =>
      match run g f a s inp with
      | .ok ts r => .ok ts r
      | .fail => .ok [] inp
      | .oof => .oof
    | .star a =>
      match run g f a s inp with
      | .ok ta r1 =>
        if r1.length < inp.length then
          match run g f (.star a) false r1 with
          | .ok tb r2 => .ok (ta ++ tb) r2
          | .fail => .ok ta r1
          | .oof => .oof
        else .ok ta r1
      | .fail => .ok [] inp
      | .oof => .oof
    | .plus a =>
      match run g f a s inp with
      | .ok ta r1 =>
        match run g f (.star a) (s && r1.length == inp.length) r1 with
        | .ok tb r2 => .ok (ta ++ tb) r2
        | .fail => .ok ta r1
        | .oof => .oof
      | .fail => .fail
      | .oof => .oof
    | .rep a mn mx =>
      if mx = 0 then .ok [] inp else
      match run g f a s inp with
      | .ok ta r1 =>
        match run g f (.rep a (mn - 1) (mx - 1)) (s && r1.length == inp.length) r1 with
        | .ok tb r2 => .ok (ta ++ tb) r2
        | .fail => if mn ≤ 1 then .ok ta r1 else .fail
        | .oof => .oof
      | .fail => if mn = 0 then .ok [] inp else .fail
      | .oof => .oof
    | .notP a =>
      match run g f a s inp with
      | .ok _ _ => .fail
      | .fail => .ok [] inp
      | .oof => .oof
    | .rule n =>
      match g.find n with
      | none => .fail
      | some rd =>
        match run g f rd.body s inp with
        | .ok ts r =>
          if rd.silent then .ok ts r
          else .ok [.node n (inp.take (inp.length - r.length)) ts] r
        | .fail => .fail
        | .oof => .oof := by
  cases e with
  | builtin b => cases b <;> simp only [run] <;> rfl
  | _ => simp only [run] <;> rfl

/-- Rewrite a sub-call at the larger fuel to its value at the smaller fuel (which is not `oof`). -/
theorem sub_mono (g : Grammar) (n : Nat)
    (ih : ∀ (e : Expr) (s : Bool) (inp : List Char), run g n e s inp ≠ .oof → run g (n + 1) e s inp = run g n e s inp)
    (e : Expr) (s : Bool) (inp : List Char) (v : Res) (hv : run g n e s inp = v) (hne : v ≠ .oof) :
    run g (n + 1) e s inp = v := by
  rw [ih e s inp (by rw [hv]; exact hne), hv]

/-- **Fuel monotonicity**: whenever the interpreter answers (match or real failure), it gives the
same answer with one more unit of fuel — hence with any larger amount (`run_mono_le`). -/
theorem run_mono (g : Grammar) : ∀ (fuel : Nat) (e : Expr) (s : Bool) (inp : List Char),
    run g fuel e s inp ≠ .oof → run g (fuel + 1) e s inp = run g fuel e s inp := by
  intro fuel
  induction fuel with
  | zero => intro e s inp h; simp [run] at h
  | succ n ih =>
    intro e s inp h
    rw [run_succ g (n + 1), run_succ g n] at *
    cases e with
    | str s' => rfl
    | istr s' => rfl
    | range lo hi => rfl
    | builtin b => rfl
    | seq a b =>
      simp only at h ⊢
      cases ha : run g n a s inp with
      | oof => simp [ha] at h
      | fail => rw [sub_mono g n ih a s inp _ ha (by simp)]
      | ok ta r1 =>
        rw [sub_mono g n ih a s inp _ ha (by simp)]
        simp only [ha] at h ⊢
        cases hb : run g n b (s && r1.length == inp.length) r1 with
        | oof => simp [hb] at h
        | fail => rw [sub_mono g n ih b _ r1 _ hb (by simp)]
        | ok tb r2 => rw [sub_mono g n ih b _ r1 _ hb (by simp)]
    | choice a b =>
      simp only at h ⊢
      cases ha : run g n a s inp with
      | oof => simp [ha] at h
      | ok ts r => rw [sub_mono g n ih a s inp _ ha (by simp)]
      | fail =>
        rw [sub_mono g n ih a s inp _ ha (by simp)]
        simp only [ha] at h ⊢
        exact ih b s inp h
    | opt a =>
      simp only at h ⊢
      cases ha : run g n a s inp with
      | oof => simp [ha] at h
      | ok ts r => rw [sub_mono g n ih a s inp _ ha (by simp)]
      | fail => rw [sub_mono g n ih a s inp _ ha (by simp)]
    | star a =>
      simp only at h ⊢
      cases ha : run g n a s inp with
      | oof => simp [ha] at h
      | fail => rw [sub_mono g n ih a s inp _ ha (by simp)]
      | ok ta r1 =>
        rw [sub_mono g n ih a s inp _ ha (by simp)]
        simp only [ha] at h ⊢
        split
        · rename_i hlt
          simp only [hlt, ↓reduceIte] at h
          cases hb : run g n (.star a) false r1 with
          | oof => simp [hb] at h
          | fail => rw [sub_mono g n ih (.star a) _ r1 _ hb (by simp)]
          | ok tb r2 => rw [sub_mono g n ih (.star a) _ r1 _ hb (by simp)]
        · rfl
    | plus a =>
      simp only at h ⊢
      cases ha : run g n a s inp with
      | oof => simp [ha] at h
      | fail => rw [sub_mono g n ih a s inp _ ha (by simp)]
      | ok ta r1 =>
        rw [sub_mono g n ih a s inp _ ha (by simp)]
        simp only [ha] at h ⊢
        cases hb : run g n (.star a) (s && r1.length == inp.length) r1 with
        | oof => simp [hb] at h
        | fail => rw [sub_mono g n ih (.star a) _ r1 _ hb (by simp)]
        | ok tb r2 => rw [sub_mono g n ih (.star a) _ r1 _ hb (by simp)]
    | rep a mn mx =>
      simp only at h ⊢
      split
      · rfl
      · rename_i hmx
        simp only [hmx, ↓reduceIte] at h
        cases ha : run g n a s inp with
        | oof => simp [ha] at h
        | fail => rw [sub_mono g n ih a s inp _ ha (by simp)]
        | ok ta r1 =>
          rw [sub_mono g n ih a s inp _ ha (by simp)]
          simp only [ha] at h ⊢
          cases hb : run g n (.rep a (mn - 1) (mx - 1)) (s && r1.length == inp.length) r1 with
          | oof => simp [hb] at h
          | fail => rw [sub_mono g n ih _ _ r1 _ hb (by simp)]
          | ok tb r2 => rw [sub_mono g n ih _ _ r1 _ hb (by simp)]
    | notP a =>
      simp only at h ⊢
      cases ha : run g n a s inp with
      | oof => simp [ha] at h
      | fail => rw [sub_mono g n ih a s inp _ ha (by simp)]
      | ok ts r => rw [sub_mono g n ih a s inp _ ha (by simp)]
    | rule name =>
      simp only at h ⊢
      split
      · rfl
      · rename_i rd hf
        simp only [hf] at h
        cases ha : run g n rd.body s inp with
        | oof => simp [ha] at h
        | fail => rw [sub_mono g n ih _ s inp _ ha (by simp)]
        | ok ts r => rw [sub_mono g n ih _ s inp _ ha (by simp)]

theorem run_mono_le (g : Grammar) (e : Expr) (s : Bool) (inp : List Char) (f : Nat) (h : run g f e s inp ≠ .oof) :
    ∀ k, run g (f + k) e s inp = run g f e s inp := by
  intro k
  induction k with
  | zero => rfl
  | succ k ih =>
    have : run g (f + k) e s inp ≠ .oof := by rw [ih]; exact h
    rw [← Nat.add_assoc, run_mono g (f + k) e s inp this, ih]

/-- Two runs of the same expression on the same input that both answer agree, whatever their fuel. -/
theorem run_agree (g : Grammar) (e : Expr) (s : Bool) (inp : List Char) (f1 f2 : Nat)
    (h1 : run g f1 e s inp ≠ .oof) (h2 : run g f2 e s inp ≠ .oof) : run g f1 e s inp = run g f2 e s inp := by
  have a := run_mono_le g e s inp f1 h1 f2
  have b := run_mono_le g e s inp f2 h2 f1
  rw [Nat.add_comm] at b
  rw [← a, b]

/-! ### Inversion lemmas for runs of composite expressions -/

theorem ok_pos {g : Grammar} {f : Nat} {e : Expr} {s : Bool} {inp : List Char} {ts : List Tree} {r : List Char}
    (h : run g f e s inp = .ok ts r) : ∃ f', f = f' + 1 := by
  cases f with
  | zero => simp [run] at h
  | succ f' => exact ⟨f', rfl⟩

theorem fail_pos {g : Grammar} {f : Nat} {e : Expr} {s : Bool} {inp : List Char}
    (h : run g f e s inp = .fail) : ∃ f', f = f' + 1 := by
  cases f with
  | zero => simp [run] at h
  | succ f' => exact ⟨f', rfl⟩

theorem seq_ok {g : Grammar} {f : Nat} {a b : Expr} {s : Bool} {inp : List Char} {ts : List Tree} {r : List Char}
    (h : run g (f + 1) (.seq a b) s inp = .ok ts r) :
    ∃ ta r1 tb, run g f a s inp = .ok ta r1 ∧ run g f b (s && r1.length == inp.length) r1 = .ok tb r ∧ ts = ta ++ tb := by
  rw [run_succ] at h
  simp only at h
  cases ha : run g f a s inp with
  | oof => simp [ha] at h
  | fail => simp [ha] at h
  | ok ta r1 =>
    simp only [ha] at h
    cases hb : run g f b (s && r1.length == inp.length) r1 with
    | oof => simp [hb] at h
    | fail => simp [hb] at h
    | ok tb r2 =>
      simp only [hb, Res.ok.injEq] at h
      exact ⟨ta, r1, tb, rfl, by rw [← h.2]; exact hb, h.1.symm⟩

theorem choice_ok {g : Grammar} {f : Nat} {a b : Expr} {s : Bool} {inp : List Char} {ts : List Tree} {r : List Char}
    (h : run g (f + 1) (.choice a b) s inp = .ok ts r) :
    run g f a s inp = .ok ts r ∨ (run g f a s inp = .fail ∧ run g f b s inp = .ok ts r) := by
  rw [run_succ] at h
  simp only at h
  cases ha : run g f a s inp with
  | oof => simp [ha] at h
  | fail => simp only [ha] at h; exact Or.inr ⟨rfl, h⟩
  | ok ta r1 => simp only [ha] at h; exact Or.inl h

theorem choice_fail {g : Grammar} {f : Nat} {a b : Expr} {s : Bool} {inp : List Char}
    (h : run g (f + 1) (.choice a b) s inp = .fail) : run g f a s inp = .fail ∧ run g f b s inp = .fail := by
  rw [run_succ] at h
  simp only at h
  cases ha : run g f a s inp with
  | oof => simp [ha] at h
  | fail => simp only [ha] at h; exact ⟨rfl, h⟩
  | ok ta r1 => simp [ha] at h

theorem rule_fail {g : Grammar} {f : Nat} {n : String} {rd : RuleDef} {s : Bool} {inp : List Char}
    (hf : g.find n = some rd) (h : run g (f + 1) (.rule n) s inp = .fail) : run g f rd.body s inp = .fail := by
  rw [run_succ] at h
  simp only [hf] at h
  cases ha : run g f rd.body s inp with
  | oof => simp [ha] at h
  | fail => rfl
  | ok ts r => simp only [ha] at h; split at h <;> cases h

theorem rule_ok_names {g : Grammar} {f : Nat} {n : String} {rd : RuleDef} {s : Bool} {inp : List Char}
    {ts : List Tree} {r : List Char} (hf : g.find n = some rd) (hs : rd.silent = false)
    (h : run g f (.rule n) s inp = .ok ts r) : ts.map Tree.rule = [n] := by
  obtain ⟨f', rfl⟩ := ok_pos h
  rw [run_succ] at h
  simp only [hf] at h
  cases ha : run g f' rd.body s inp with
  | oof => simp [ha] at h
  | fail => simp [ha] at h
  | ok ts' r' =>
    simp only [ha, hs, Bool.false_eq_true, ↓reduceIte, Res.ok.injEq] at h
    rw [← h.1]
    simp [Tree.rule]

theorem rule_silent_ok {g : Grammar} {f : Nat} {n : String} {rd : RuleDef} {s : Bool} {inp : List Char}
    {ts : List Tree} {r : List Char} (hf : g.find n = some rd) (hs : rd.silent = true)
    (h : run g f (.rule n) s inp = .ok ts r) : ∃ f', run g f' rd.body s inp = .ok ts r := by
  obtain ⟨f', rfl⟩ := ok_pos h
  rw [run_succ] at h
  simp only [hf] at h
  cases ha : run g f' rd.body s inp with
  | oof => simp [ha] at h
  | fail => simp [ha] at h
  | ok ts' r' =>
    simp only [ha, hs, ↓reduceIte, Res.ok.injEq] at h
    exact ⟨f', by rw [ha, h.1, h.2]⟩

end Emu2a.Peg
