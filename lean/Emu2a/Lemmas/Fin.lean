/-
Finite-domain helpers: statements over all bytes reduce to `Fin 256`, which `decide` enumerates.
-/
import Emu2a.Model.UWord
namespace Emu2a

theorem byte_cases {p : Byte → Prop} (h : ∀ i : Fin 256, p (BitVec.ofFin i)) : ∀ b : Byte, p b := by
  intro b
  have := h b.toFin
  simpa using this

/-- `allBelow n f = true` iff `f i` for every `i < n` (kernel-friendly bounded universal). -/
def allBelow : Nat → (Nat → Bool) → Bool
  | 0, _ => true
  | n + 1, f => f n && allBelow n f

theorem allBelow_spec {n : Nat} {f : Nat → Bool} (h : allBelow n f = true) : ∀ i, i < n → f i = true := by
  induction n with
  | zero => intro i hi; omega
  | succ n ih =>
    simp only [allBelow, Bool.and_eq_true] at h
    intro i hi
    by_cases hin : i = n
    · subst hin; exact h.1
    · exact ih h.2 i (by omega)

theorem byte_toNat_cases {p : Byte → Bool} (h : allBelow 256 (fun i => p (BitVec.ofNat 8 i)) = true) :
    ∀ b : Byte, p b = true := by
  intro b
  have := allBelow_spec h b.toNat b.isLt
  simpa using this

end Emu2a
