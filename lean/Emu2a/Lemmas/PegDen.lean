/-
Metatheory of the PEG interpreter (`Model/Peg.lean`): a denotation `Den g e c n` that
over-approximates what a successful match of expression `e` can consume (`c`) and which tokens it
can produce (`n`, the rule names of the top-level tokens, in order), a well-formedness predicate
`WF g t` on token trees (every node's text and children lie in the denotation of its rule body,
recursively), and the soundness theorem `run_sound`: whatever the interpreter returns is in the
denotation and well-formed — for every grammar, expression, input and fuel.

Ordered choice and negative lookahead are over-approximated (`choice` = union, `!e` = empty match):
enough to show that the AST builders never meet a tree they cannot handle (C03 `build_total`).
-/
import Emu2a.Model.Peg
namespace Emu2a.Peg

/-- Concatenation of finitely many matches of `P`. -/
inductive StarP (P : List Char → List String → Prop) : List Char → List String → Prop
  | nil : StarP P [] []
  | cons (c1 : List Char) (n1 : List String) (c2 : List Char) (n2 : List String) :
      P c1 n1 → StarP P c2 n2 → StarP P (c1 ++ c2) (n1 ++ n2)

/-- Concatenation of at most `k` matches of `P`. -/
inductive RepP (P : List Char → List String → Prop) : Nat → List Char → List String → Prop
  | nil (k : Nat) : RepP P k [] []
  | cons (k : Nat) (c1 : List Char) (n1 : List String) (c2 : List Char) (n2 : List String) :
      P c1 n1 → RepP P k c2 n2 → RepP P (k + 1) (c1 ++ c2) (n1 ++ n2)

def DenB : Builtin → List Char → List String → Prop
  | .soi, c, n => c = [] ∧ n = []
  | .eoi, c, n => c = [] ∧ n = ["EOI"]
  | .any, c, n => (∃ ch, c = [ch]) ∧ n = []
  | .newline, c, n => (c = ['\n'] ∨ c = ['\r', '\n'] ∨ c = ['\r']) ∧ n = []
  | .ascii_bin_digit, c, n => (∃ ch, c = [ch] ∧ (ch = '0' ∨ ch = '1')) ∧ n = []
  | .ascii_hex_digit, c, n => (∃ ch, c = [ch] ∧ isHex ch = true) ∧ n = []
  | .ascii_alpha, c, n => (∃ ch, c = [ch] ∧ isAlpha ch = true) ∧ n = []
  | .ascii_alphanumeric, c, n => (∃ ch, c = [ch] ∧ (isAlpha ch = true ∨ isDigit ch = true)) ∧ n = []

/-- What a successful match of `e` can consume and which top-level tokens it can produce. -/
def Den (g : Grammar) : Expr → List Char → List String → Prop
  | .str s, c, n => c = s ∧ n = []
  | .istr s, c, n => c.map lowerC = s.map lowerC ∧ n = []
  | .range lo hi, c, n => (∃ ch, c = [ch] ∧ lo ≤ ch ∧ ch ≤ hi) ∧ n = []
  | .builtin b, c, n => DenB b c n
  | .seq a b, c, n => ∃ c1 n1 c2 n2, Den g a c1 n1 ∧ Den g b c2 n2 ∧ c = c1 ++ c2 ∧ n = n1 ++ n2
  | .choice a b, c, n => Den g a c n ∨ Den g b c n
  | .opt a, c, n => (c = [] ∧ n = []) ∨ Den g a c n
  | .star a, c, n => StarP (Den g a) c n
  | .plus a, c, n => ∃ c1 n1 c2 n2, Den g a c1 n1 ∧ StarP (Den g a) c2 n2 ∧ c = c1 ++ c2 ∧ n = n1 ++ n2
  | .rep a mn mx, c, n => RepP (Den g a) mx c n ∧
      (mn ≠ 0 → mx ≠ 0 → ∃ c1 n1 c2 n2, Den g a c1 n1 ∧ RepP (Den g a) (mx - 1) c2 n2 ∧ c = c1 ++ c2 ∧ n = n1 ++ n2)
  | .notP _, c, n => c = [] ∧ n = []
  | .rule name, _, n =>
    match g.find name with
    | some rd => if rd.silent then True else n = [name]
    | none => False

/-- A token tree as the interpreter builds them: the `EOI` token, or a token of a grammar rule whose
text and inner tokens lie in the denotation of the rule's body, with well-formed inner tokens.
`X` is any further property of (rule name, inner token names) that successful runs of rule bodies have
(used for facts that depend on *ordered* choice, which the denotation over-approximates). -/
inductive WF (g : Grammar) (X : String → List String → Prop) : Tree → Prop
  | eoi : WF g X (.node "EOI" [] [])
  | node (name : String) (text : List Char) (kids : List Tree) (rd : RuleDef) :
      g.find name = some rd → Den g rd.body text (kids.map Tree.rule) → X name (kids.map Tree.rule) →
      (∀ k, k ∈ kids → WF g X k) → WF g X (.node name text kids)

theorem stripPrefix_eq (p inp r : List Char) (h : stripPrefix (· == ·) p inp = some r) : inp = p ++ r := by
  induction p generalizing inp with
  | nil => simp [stripPrefix] at h; simp [h]
  | cons x xs ih =>
    cases inp with
    | nil => simp [stripPrefix] at h
    | cons y ys =>
      simp only [stripPrefix] at h
      split at h
      · rename_i hxy
        have := ih ys h
        simp at hxy
        simp [hxy, this]
      · cases h

theorem stripPrefix_lower (p inp r : List Char)
    (h : stripPrefix (fun p c => lowerC p == lowerC c) p inp = some r) :
    ∃ c, inp = c ++ r ∧ c.map lowerC = p.map lowerC := by
  induction p generalizing inp with
  | nil => simp [stripPrefix] at h; exact ⟨[], by simp [h], rfl⟩
  | cons x xs ih =>
    cases inp with
    | nil => simp [stripPrefix] at h
    | cons y ys =>
      simp only [stripPrefix] at h
      split at h
      · rename_i hxy
        obtain ⟨c, hc, hm⟩ := ih ys h
        simp at hxy
        exact ⟨y :: c, by simp [hc], by simp [hm, hxy]⟩
      · cases h

theorem take_of_append (c r : List Char) : (c ++ r).take ((c ++ r).length - r.length) = c := by
  simp

theorem RepP.mono {P : List Char → List String → Prop} {k : Nat} {c : List Char} {n : List String}
    (h : RepP P k c n) : RepP P (k + 1) c n := by
  induction h with
  | nil k => exact .nil _
  | cons k c1 n1 c2 n2 hp _ ih => exact .cons _ c1 n1 c2 n2 hp ih

theorem ofOpt_ok (o : Option (List Char)) (ts : List Tree) (r : List Char) (h : Res.ofOpt o = .ok ts r) :
    ts = [] ∧ o = some r := by
  cases o with
  | none => simp [Res.ofOpt] at h
  | some x => simp only [Res.ofOpt, Res.ok.injEq] at h; exact ⟨h.1.symm, by rw [h.2]⟩

theorem oneChar_ok (p : Char → Bool) (inp : List Char) (ts : List Tree) (r : List Char)
    (h : oneChar p inp = .ok ts r) : ∃ ch, inp = ch :: r ∧ p ch = true ∧ ts = [] := by
  cases inp with
  | nil => simp [oneChar] at h
  | cons c cs =>
    simp only [oneChar] at h
    split at h
    · rename_i hp
      simp only [Res.ok.injEq] at h
      exact ⟨c, by rw [h.2], hp, h.1.symm⟩
    · cases h

/-- **Soundness of the interpreter with respect to the denotation**: every successful run consumes
a prefix `c` of the input that lies in `Den g e`, with exactly the listed top-level tokens, and all
tokens it returns are well-formed. -/
theorem run_sound (g : Grammar) (X : String → List String → Prop)
    (hX : ∀ name rd fuel s inp ts r, g.find name = some rd → run g fuel rd.body s inp = .ok ts r →
      X name (ts.map Tree.rule)) :
    ∀ (fuel : Nat) (e : Expr) (atStart : Bool) (inp : List Char)
    (ts : List Tree) (r : List Char), run g fuel e atStart inp = .ok ts r →
    ∃ c, inp = c ++ r ∧ Den g e c (ts.map Tree.rule) ∧ ∀ t, t ∈ ts → WF g X t := by
  intro fuel
  induction fuel with
  | zero => intro e atStart inp ts r h; simp [run] at h
  | succ fuel ih =>
    intro e atStart inp ts r h
    cases e with
    | str s =>
      simp only [run] at h
      obtain ⟨rfl, hr⟩ := ofOpt_ok _ _ _ h
      exact ⟨s, stripPrefix_eq s inp _ hr, by simp [Den], by simp⟩
    | istr s =>
      simp only [run] at h
      obtain ⟨rfl, hr⟩ := ofOpt_ok _ _ _ h
      obtain ⟨c, hc, hm⟩ := stripPrefix_lower s inp _ hr
      exact ⟨c, hc, by simp [Den, hm], by simp⟩
    | range lo hi =>
      simp only [run] at h
      obtain ⟨ch, rfl, hp, rfl⟩ := oneChar_ok _ _ _ _ h
      simp only [decide_eq_true_eq] at hp
      exact ⟨[ch], by simp, by simp [Den, hp.1, hp.2], by simp⟩
    | builtin b =>
      cases b with
      | soi =>
        simp only [run] at h
        split at h
        · simp only [Res.ok.injEq] at h
          obtain ⟨rfl, rfl⟩ := h
          exact ⟨[], by simp, by simp [Den, DenB], by simp⟩
        · cases h
      | eoi =>
        simp only [run] at h
        split at h
        · simp only [Res.ok.injEq] at h
          obtain ⟨rfl, rfl⟩ := h
          refine ⟨[], by simp, by simp [Den, DenB, Tree.rule], ?_⟩
          intro t ht; simp at ht; subst ht; exact .eoi
        · cases h
      | any =>
        simp only [run] at h
        obtain ⟨ch, rfl, _, rfl⟩ := oneChar_ok _ _ _ _ h
        exact ⟨[ch], by simp, by simp [Den, DenB], by simp⟩
      | newline =>
        simp only [run] at h
        split at h
        · simp only [Res.ok.injEq] at h
          obtain ⟨rfl, rfl⟩ := h
          exact ⟨['\n'], by simp, by simp [Den, DenB], by simp⟩
        · simp only [Res.ok.injEq] at h
          obtain ⟨rfl, rfl⟩ := h
          exact ⟨['\r', '\n'], by simp, by simp [Den, DenB], by simp⟩
        · simp only [Res.ok.injEq] at h
          obtain ⟨rfl, rfl⟩ := h
          exact ⟨['\r'], by simp, by simp [Den, DenB], by simp⟩
        · cases h
      | ascii_bin_digit =>
        simp only [run] at h
        obtain ⟨ch, rfl, hp, rfl⟩ := oneChar_ok _ _ _ _ h
        refine ⟨[ch], by simp, ?_, by simp⟩
        simp only [Den, DenB, List.map_nil, and_true]
        exact ⟨ch, rfl, by simpa using hp⟩
      | ascii_hex_digit =>
        simp only [run] at h
        obtain ⟨ch, rfl, hp, rfl⟩ := oneChar_ok _ _ _ _ h
        exact ⟨[ch], by simp, by simp [Den, DenB, hp], by simp⟩
      | ascii_alpha =>
        simp only [run] at h
        obtain ⟨ch, rfl, hp, rfl⟩ := oneChar_ok _ _ _ _ h
        exact ⟨[ch], by simp, by simp [Den, DenB, hp], by simp⟩
      | ascii_alphanumeric =>
        simp only [run] at h
        obtain ⟨ch, rfl, hp, rfl⟩ := oneChar_ok _ _ _ _ h
        refine ⟨[ch], by simp, ?_, by simp⟩
        simp only [Den, DenB, List.map_nil, and_true]
        exact ⟨ch, rfl, by simpa using hp⟩
    | seq a b =>
      simp only [run] at h
      split at h
      · rename_i ta r1 ha
        split at h
        · rename_i tb r2 hb
          simp only [Res.ok.injEq] at h
          obtain ⟨rfl, rfl⟩ := h
          obtain ⟨c1, e1, d1, w1⟩ := ih a _ _ _ _ ha
          obtain ⟨c2, e2, d2, w2⟩ := ih b _ _ _ _ hb
          refine ⟨c1 ++ c2, by rw [e1, e2]; simp, ?_, ?_⟩
          · simp only [Den, List.map_append]
            exact ⟨c1, _, c2, _, d1, d2, rfl, rfl⟩
          · intro t ht; rw [List.mem_append] at ht
            rcases ht with ht | ht
            · exact w1 t ht
            · exact w2 t ht
        · cases h
        · cases h
      · cases h
      · cases h
    | choice a b =>
      simp only [run] at h
      split at h
      · rename_i ts' r' ha
        simp only [Res.ok.injEq] at h
        obtain ⟨rfl, rfl⟩ := h
        obtain ⟨c, e1, d1, w1⟩ := ih a _ _ _ _ ha
        exact ⟨c, e1, by simp only [Den]; exact Or.inl d1, w1⟩
      · obtain ⟨c, e1, d1, w1⟩ := ih b _ _ _ _ h
        exact ⟨c, e1, by simp only [Den]; exact Or.inr d1, w1⟩
      · cases h
    | opt a =>
      simp only [run] at h
      split at h
      · rename_i ts' r' ha
        simp only [Res.ok.injEq] at h
        obtain ⟨rfl, rfl⟩ := h
        obtain ⟨c, e1, d1, w1⟩ := ih a _ _ _ _ ha
        exact ⟨c, e1, by simp only [Den]; exact Or.inr d1, w1⟩
      · simp only [Res.ok.injEq] at h
        obtain ⟨rfl, rfl⟩ := h
        exact ⟨[], by simp, by simp [Den], by simp⟩
      · cases h
    | star a =>
      simp only [run] at h
      split at h
      · rename_i ta r1 ha
        obtain ⟨c1, e1, d1, w1⟩ := ih a _ _ _ _ ha
        have hsingle : Den g (.star a) c1 (ta.map Tree.rule) := by
          simp only [Den]
          have := StarP.cons c1 (ta.map Tree.rule) [] [] d1 (.nil (P := Den g a))
          simpa using this
        split at h
        · split at h
          · rename_i tb r2 hb
            simp only [Res.ok.injEq] at h
            obtain ⟨rfl, rfl⟩ := h
            obtain ⟨c2, e2, d2, w2⟩ := ih (.star a) _ _ _ _ hb
            refine ⟨c1 ++ c2, by rw [e1, e2]; simp, ?_, ?_⟩
            · simp only [Den, List.map_append] at d2 ⊢
              exact .cons c1 _ c2 _ d1 d2
            · intro t ht; rw [List.mem_append] at ht
              rcases ht with ht | ht
              · exact w1 t ht
              · exact w2 t ht
          · simp only [Res.ok.injEq] at h
            obtain ⟨rfl, rfl⟩ := h
            exact ⟨c1, e1, hsingle, w1⟩
          · cases h
        · simp only [Res.ok.injEq] at h
          obtain ⟨rfl, rfl⟩ := h
          exact ⟨c1, e1, hsingle, w1⟩
      · simp only [Res.ok.injEq] at h
        obtain ⟨rfl, rfl⟩ := h
        exact ⟨[], by simp, by simp only [Den, List.map_nil]; exact .nil, by simp⟩
      · cases h
    | plus a =>
      simp only [run] at h
      split at h
      · rename_i ta r1 ha
        obtain ⟨c1, e1, d1, w1⟩ := ih a _ _ _ _ ha
        split at h
        · rename_i tb r2 hb
          simp only [Res.ok.injEq] at h
          obtain ⟨rfl, rfl⟩ := h
          obtain ⟨c2, e2, d2, w2⟩ := ih (.star a) _ _ _ _ hb
          refine ⟨c1 ++ c2, by rw [e1, e2]; simp, ?_, ?_⟩
          · simp only [Den, List.map_append] at d2 ⊢
            exact ⟨c1, _, c2, _, d1, d2, rfl, rfl⟩
          · intro t ht; rw [List.mem_append] at ht
            rcases ht with ht | ht
            · exact w1 t ht
            · exact w2 t ht
        · simp only [Res.ok.injEq] at h
          obtain ⟨rfl, rfl⟩ := h
          refine ⟨c1, e1, ?_, w1⟩
          simp only [Den]
          exact ⟨c1, _, [], [], d1, .nil, by simp, by simp⟩
        · cases h
      · cases h
      · cases h
    | rep a mn mx =>
      simp only [run] at h
      split at h
      · rename_i hmx
        simp only [Res.ok.injEq] at h
        obtain ⟨rfl, rfl⟩ := h
        exact ⟨[], by simp, by simp only [Den, List.map_nil]; exact ⟨.nil _, fun _ h0 => absurd hmx h0⟩, by simp⟩
      · rename_i hmx
        obtain ⟨k, hk⟩ : ∃ k, mx = k + 1 := ⟨mx - 1, by omega⟩
        split at h
        · rename_i ta r1 ha
          obtain ⟨c1, e1, d1, w1⟩ := ih a _ _ _ _ ha
          have hsingle : Den g (.rep a mn mx) c1 (ta.map Tree.rule) := by
            simp only [Den]
            subst hk
            simp only [Nat.add_sub_cancel]
            have := RepP.cons k c1 (ta.map Tree.rule) [] [] d1 (.nil (P := Den g a) k)
            exact ⟨by simpa using this, fun _ _ => ⟨c1, _, [], [], d1, .nil _, by simp, by simp⟩⟩
          split at h
          · rename_i tb r2 hb
            simp only [Res.ok.injEq] at h
            obtain ⟨rfl, rfl⟩ := h
            obtain ⟨c2, e2, d2, w2⟩ := ih (.rep a (mn - 1) (mx - 1)) _ _ _ _ hb
            refine ⟨c1 ++ c2, by rw [e1, e2]; simp, ?_, ?_⟩
            · simp only [Den, List.map_append] at d2 ⊢
              subst hk
              simp only [Nat.add_sub_cancel] at d2 ⊢
              exact ⟨.cons k c1 _ c2 _ d1 d2.1, fun _ _ => ⟨c1, _, c2, _, d1, d2.1, rfl, rfl⟩⟩
            · intro t ht; rw [List.mem_append] at ht
              rcases ht with ht | ht
              · exact w1 t ht
              · exact w2 t ht
          · split at h
            · simp only [Res.ok.injEq] at h
              obtain ⟨rfl, rfl⟩ := h
              exact ⟨c1, e1, hsingle, w1⟩
            · cases h
          · cases h
        · split at h
          · rename_i hmn
            simp only [Res.ok.injEq] at h
            obtain ⟨rfl, rfl⟩ := h
            exact ⟨[], by simp, by simp only [Den, List.map_nil]; exact ⟨.nil _, fun h0 => absurd hmn h0⟩, by simp⟩
          · cases h
        · cases h
    | notP a =>
      simp only [run] at h
      split at h
      · cases h
      · simp only [Res.ok.injEq] at h
        obtain ⟨rfl, rfl⟩ := h
        exact ⟨[], by simp, by simp [Den], by simp⟩
      · cases h
    | rule name =>
      simp only [run] at h
      split at h
      · cases h
      · rename_i rd hfind
        split at h
        · rename_i kids r' hb
          obtain ⟨c, e1, d1, w1⟩ := ih rd.body _ _ _ _ hb
          split at h
          · rename_i hs
            simp only [Res.ok.injEq] at h
            obtain ⟨rfl, rfl⟩ := h
            exact ⟨c, e1, by simp [Den, hfind, hs], w1⟩
          · rename_i hs
            simp only [Res.ok.injEq] at h
            obtain ⟨rfl, rfl⟩ := h
            refine ⟨c, e1, by simp [Den, hfind, hs, Tree.rule], ?_⟩
            intro t ht
            simp only [List.mem_singleton] at ht
            subst ht
            subst e1
            rw [take_of_append]
            exact .node name c kids rd hfind d1 (hX name rd fuel _ _ _ _ hfind hb) w1
        · cases h
        · cases h

end Emu2a.Peg
