/-
Generic facts about the end of an instruction: what follows an end word (fetch of the next
instruction, or the interrupt entry routine).  Used by C01 (boundary-to-boundary lemmas) and C04.
-/
import Emu2a.Lemmas.Close
import Emu2a.Lemmas.Fin
namespace Emu2a.IntEntry
open Emu2a Gen Isa

/-! ### What follows an end word -/

/-- After an end word the sequencer goes to the fetch word of its page (`no int:`) or, with the
interrupt enabled and pending, to the `int:` word — checked for every end word of the control store. -/
theorem end_successors : ∀ a, a < 512 → (word a).isEnd = true →
    (word (32 * (a / 32) + 4 * ((word a).na / 4) + 2 * ((word a).na / 2 % 2))).same (word 6) = true ∧
    ((a / 32 = 0 ∧ (word (32 * (a / 32) + 4 * ((word a).na / 4) + 2 * ((word a).na / 2 % 2) + 1)).same (word 7) = true) ∨
     (word (32 * (a / 32) + 4 * ((word a).na / 4) + 2 * ((word a).na / 2 % 2) + 1)).same (word 0x29) = true) := by
  have h : allBelow 512 (fun a => !(word a).isEnd ||
      ((word (32 * (a / 32) + 4 * ((word a).na / 4) + 2 * ((word a).na / 2 % 2))).same (word 6) &&
       ((decide (a / 32 = 0) && (word (32 * (a / 32) + 4 * ((word a).na / 4) + 2 * ((word a).na / 2 % 2) + 1)).same (word 7)) ||
        (word (32 * (a / 32) + 4 * ((word a).na / 4) + 2 * ((word a).na / 2 % 2) + 1)).same (word 0x29)))) = true := by
    decide +kernel
  intro a ha he
  have := allBelow_spec h a ha
  simpa [he] using this


theorem page_bits (ir : Nat) (h : ir < 256) :
    256 * b2n (irBit ir C.ir_a8) + 128 * b2n (irBit ir C.ir_a7) + 64 * b2n (irBit ir C.ir_a6)
      + 32 * b2n (irBit ir C.ir_a5) = 32 * (ir / 16) := by
  have e8 : b2n (irBit ir C.ir_a8) = ir / 128 % 2 := by
    unfold irBit b2n; simp only [C.ir_a8]; split <;> simp_all <;> omega
  have e7 : b2n (irBit ir C.ir_a7) = ir / 64 % 2 := by
    unfold irBit b2n; simp only [C.ir_a7]; split <;> simp_all <;> omega
  have e6 : b2n (irBit ir C.ir_a6) = ir / 32 % 2 := by
    unfold irBit b2n; simp only [C.ir_a6]; split <;> simp_all <;> omega
  have e5 : b2n (irBit ir C.ir_a5) = ir / 16 % 2 := by
    unfold irBit b2n; simp only [C.ir_a5]; split <;> simp_all <;> omega
  rw [e8, e7, e6, e5]; omega

/-- Next micro-address after an end word. -/
theorem end_next (w : UWord) (ir : Nat) (fr : Byte) (al : AluOut) (p : Bool) (he : w.isEnd = true) (hir : ir < 256) :
    Sig.nextAddr w ir fr al p = 32 * (ir / 16) + 4 * (w.na / 4) + 2 * (w.na / 2 % 2) + b2n (flagBit fr C.flagIE && p) := by
  simp only [UWord.isEnd, Bool.and_eq_true, Bool.not_eq_true'] at he
  obtain ⟨⟨⟨⟨h3, h2⟩, h1⟩, h0⟩, hn⟩ := he
  unfold Sig.nextAddr
  rw [page_bits ir hir]
  simp only [Sig.am4, Sig.am3, Sig.am1, h2, h1, h0, hn, Sig.al2, Bool.false_eq_true, ↓reduceIte]
  have : b2n (w.na / 2 % 2 == 1) = w.na / 2 % 2 := by
    unfold b2n; split <;> simp_all <;> omega
  rw [this]

/-- Executing the fetch word. -/
theorem execWord_fetch (c : Core) (hw : word c.addr = word 6) :
    (Core.execWord c).1 = { c with lastBus := c.bus.read c.regs.r3,
                                   alu := alu 4 c.regs.r3 1#8 (flagBit c.regs.r4 C.flagC),
                                   pendReg := some 3 } := by
  simp [Core.execWord, hw, Sig.selA, Sig.selB, Sig.selW, Sig.bConst, Regs.get]

theorem updateIr_keep (c : Core) (h : (word c.addr).mac2 = false) : Core.updateIr c = c := by
  simp [Core.updateIr, Core.irAct, h]

theorem applyPending_fields (c : Core) :
    c.applyPending.addr = c.addr ∧ c.applyPending.ir = c.ir ∧ c.applyPending.bus = c.bus ∧
    c.applyPending.alu = c.alu ∧ c.applyPending.pendInt = c.pendInt ∧ c.applyPending.lastBus = c.lastBus ∧
    c.applyPending.pendReg = none ∧ c.applyPending.pendFlag = false := by
  simp [Core.applyPending]

/-- **No interrupt taken**: after an end word, with no request pending or with interrupts disabled,
the next micro-step is the fetch of the next instruction; a pending request is dropped there (this is
how the hardware's interrupt logic works, and the emulator reproduces it). -/
theorem end_to_fetch (c : Core) (a : Arch) (h : AtEnd c a) (hno : (flagBit a.fr C.flagIE && c.pendInt) = false) :
    AtFetch (Core.step c).1 a ∧ (Core.step c).1.pendInt = false := by
  obtain ⟨he, hlt, hpage, hirlt, h0, h1, h2, h3, h4, h5, hbus⟩ := h
  obtain ⟨fa, fi, fb, fal, fp, fl, fpr, fpf⟩ := applyPending_fields c
  have hw := he
  simp only [UWord.isEnd, Bool.and_eq_true, Bool.not_eq_true'] at hw
  obtain ⟨⟨⟨⟨hm3, hm2⟩, hm1⟩, hm0⟩, hn0⟩ := hw
  have hkeep : Core.updateIr c.applyPending = c.applyPending := updateIr_keep _ (by rw [fa]; exact hm2)
  have hnext : Sig.nextAddr (word c.addr) c.ir c.applyPending.regs.r4 c.alu c.pendInt
      = 32 * (c.addr / 32) + 4 * ((word c.addr).na / 4) + 2 * ((word c.addr).na / 2 % 2) := by
    rw [end_next _ _ _ _ _ he hirlt, h4, hno, hpage]; simp [b2n]
  have hw6 : word (32 * (c.addr / 32) + 4 * ((word c.addr).na / 4) + 2 * ((word c.addr).na / 2 % 2)) = word 6 :=
    (UWord.same_iff _ _).mp (end_successors c.addr hlt he).1
  have hstep : (Core.step c).1 = (Core.execWord (Core.updateWord c.applyPending)).1 := by
    simp [Core.step, hkeep]
  have hupd : Core.updateWord c.applyPending =
      { c.applyPending with addr := 32 * (c.addr / 32) + 4 * ((word c.addr).na / 4) + 2 * ((word c.addr).na / 2 % 2),
                            pendInt := false } := by
    simp only [Core.updateWord, fa, fi, fal, fp, hnext, Sig.il1, hm1, hm0, hn0, Bool.and_true]
    cases c.pendInt <;> simp
  rw [hstep, hupd, execWord_fetch _ (by simpa using hw6)]
  refine ⟨⟨by simpa using hw6, h0, h1, h2, h3, h4, h5, by simpa [fb] using hbus, rfl, by simpa using fpf, ?_, ?_⟩, rfl⟩
  · simp [alu_ADD_out, h3]
  · simp [fb, hbus, h3]


/-- The interrupt-entry routine proper (0x10-0x17), executed from the state right after word 0x10
(`DEC SP`), for any instruction register content of page 0. -/
theorem di_mask : ∀ fr : Byte, ~~~(~~~fr ||| 248#8) = fr &&& 7#8 := by
  apply byte_cases; decide +kernel

theorem entry_from_10 (r0 r1 r2 r3 r4 r5 r6 r7 : Byte) (i : Nat) (hi : i < 16) (bus : Bus) (cf : Bool) :
    AtFetch (Core.iter 7 { addr := 16, regs := ⟨r0, r1, r2, r3, r4, r5, r6, r7⟩, ir := i, bus := bus,
                           pendReg := some 5, pendFlag := false, pendInt := false,
                           alu := alu 4 r5 255#8 cf, lastBus := 0#8 })
      (Isa.intEntry ⟨r0, r1, r2, r3, r4, r5, bus⟩) := by
  have e8 : irBit i 128 = false := by unfold irBit; simp; omega
  have e7 : irBit i 64 = false := by unfold irBit; simp; omega
  have e6 : irBit i 32 = false := by unfold irBit; simp; omega
  have e5 : irBit i 16 = false := by unfold irBit; simp; omega
  iterate 7 ustepIr
  constructor <;>
    simp [Isa.intEntry, Isa.push, Isa.Arch.wr, alu_ADD_out, alu_B_out, alu_NOR_out, add_255, and_via_nor, di_mask]


theorem step_pendInt (c : Core) (h : c.pendInt = false) : (Core.step c).1.pendInt = false := by
  simp [Core.step, Core.execWord, Core.updateWord, Core.applyPending, h]
  unfold Core.updateIr
  split <;> simp [h]

theorem iter_pendInt (n : Nat) (c : Core) (h : c.pendInt = false) : (Core.iter n c).pendInt = false := by
  induction n generalizing c with
  | zero => simpa using h
  | succ k ih => rw [Core.iter_succ]; exact ih _ (step_pendInt c h)

theorem iter_add (n m : Nat) (c : Core) : Core.iter (n + m) c = Core.iter m (Core.iter n c) := by
  induction n generalizing c with
  | zero => simp
  | succ k ih => rw [Nat.succ_add]; simp [Core.iter_succ, ih]

/-- Executing an `int:` word (both variants carry the same data fields: no write, no bus access). -/
theorem execWord_int (c : Core) (hw : word c.addr = word 7 ∨ word c.addr = word 0x29) :
    (Core.execWord c).1 = { c with lastBus := 0#8, alu := alu 12 c.regs.r0 c.regs.r0 (flagBit c.regs.r4 C.flagC) } := by
  rcases hw with hw | hw <;> simp [Core.execWord, hw, Sig.selA, Sig.selB, Sig.selW, Sig.bConst, Regs.get]

/-- Executing word 0x10 (`DEC SP`). -/
theorem execWord_10 (c : Core) (hw : c.addr = 16) :
    (Core.execWord c).1 = { c with lastBus := 0#8, alu := alu 4 c.regs.r5 255#8 (flagBit c.regs.r4 C.flagC),
                                   pendReg := some 5 } := by
  simp [Core.execWord, hw, Sig.selA, Sig.selB, Sig.selW, Sig.bConst, Regs.get]

/-- **Interrupt taken**: after an end word with the request pending and interrupts enabled, nine
micro-steps later the machine is at the first instruction boundary of the interrupt routine, in the
architectural state `intEntry a` (flag register and the address of the next instruction pushed,
interrupts disabled, PC = 2), and the flip-flop is clear — so the routine cannot be entered a second
time without a second key press. -/
theorem end_to_int (c : Core) (a : Arch) (h : AtEnd c a) (hp : c.pendInt = true)
    (hie : flagBit a.fr C.flagIE = true) :
    AtFetch (Core.iter 9 c) (Isa.intEntry a) ∧ (Core.iter 9 c).pendInt = false := by
  obtain ⟨he, hlt, hpage, hirlt, h0, h1, h2, h3, h4, h5, hbus⟩ := h
  obtain ⟨fa, fi, fb, fal, fp, fl, fpr, fpf⟩ := applyPending_fields c
  have hw := he
  simp only [UWord.isEnd, Bool.and_eq_true, Bool.not_eq_true'] at hw
  obtain ⟨⟨⟨⟨hm3, hm2⟩, hm1⟩, hm0⟩, hn0⟩ := hw
  have hkeep : Core.updateIr c.applyPending = c.applyPending := updateIr_keep _ (by rw [fa]; exact hm2)
  -- step 1: to the `int:` word
  have hnext : Sig.nextAddr (word c.addr) c.ir c.applyPending.regs.r4 c.alu true
      = 32 * (c.addr / 32) + 4 * ((word c.addr).na / 4) + 2 * ((word c.addr).na / 2 % 2) + 1 := by
    have hn := end_next (word c.addr) c.ir c.applyPending.regs.r4 c.alu true he hirlt
    rw [hn, h4, hie, hpage]; rfl
  have hsucc := (end_successors c.addr hlt he).2
  have hwi : (c.addr / 32 = 0 ∧ word (32 * (c.addr / 32) + 4 * ((word c.addr).na / 4) + 2 * ((word c.addr).na / 2 % 2) + 1) = word 7) ∨
      word (32 * (c.addr / 32) + 4 * ((word c.addr).na / 4) + 2 * ((word c.addr).na / 2 % 2) + 1) = word 0x29 := by
    rcases hsucc with ⟨hz, hs⟩ | hs
    · exact Or.inl ⟨hz, (UWord.same_iff _ _).mp hs⟩
    · exact Or.inr ((UWord.same_iff _ _).mp hs)
  have hupd : Core.updateWord c.applyPending =
      { c.applyPending with addr := 32 * (c.addr / 32) + 4 * ((word c.addr).na / 4) + 2 * ((word c.addr).na / 2 % 2) + 1,
                            pendInt := false } := by
    simp only [Core.updateWord, fa, fi, fal, fp, hp, hnext, Sig.il1, hm1, hm0, hn0, Bool.and_true]
    simp
  have hs1 : (Core.step c).1 =
      { c.applyPending with addr := 32 * (c.addr / 32) + 4 * ((word c.addr).na / 4) + 2 * ((word c.addr).na / 2 % 2) + 1,
                            pendInt := false, lastBus := 0#8,
                            alu := alu 12 c.applyPending.regs.r0 c.applyPending.regs.r0 (flagBit c.applyPending.regs.r4 C.flagC) } := by
    have : (Core.step c).1 = (Core.execWord (Core.updateWord c.applyPending)).1 := by simp [Core.step, hkeep]
    rw [this, hupd, execWord_int _ (by rcases hwi with ⟨_, hw⟩ | hw; exact Or.inl (by simpa using hw); exact Or.inr (by simpa using hw))]
  -- step 2: to word 0x10, instruction register in page 0
  have hs2 : ∃ i, i < 16 ∧ (Core.step (Core.step c).1).1 =
      { addr := 16, regs := c.applyPending.regs, ir := i, bus := c.bus, pendReg := some 5, pendFlag := false,
        pendInt := false, alu := alu 4 c.applyPending.regs.r5 255#8 (flagBit c.applyPending.regs.r4 C.flagC),
        lastBus := 0#8 } := by
    rw [hs1]
    rcases hwi with ⟨hz, hw⟩ | hw
    · -- page 0: `int:` at address 7 keeps the instruction register, which is in page 0 already
      refine ⟨c.ir, by omega, ?_⟩
      have hz' : c.ir < 16 := by omega
      have e8 : irBit c.ir 128 = false := by unfold irBit; simp; omega
      have e7 : irBit c.ir 64 = false := by unfold irBit; simp; omega
      have e6 : irBit c.ir 32 = false := by unfold irBit; simp; omega
      have e5 : irBit c.ir 16 = false := by unfold irBit; simp; omega
      simp only [Core.step, Core.applyPending, fpr, fpf, fa, fi, fb, fal, fl]
      simp [Core.updateIr, Core.irAct, Core.updateWord, Core.execWord, hw, Sig.nextAddr, Sig.am4, Sig.am3, Sig.am1,
        Sig.il1, e8, e7, e6, e5, b2n, Sig.selA, Sig.selB, Sig.selW, Sig.bConst, Regs.get]
    · refine ⟨C.irReset, by decide, ?_⟩
      simp only [Core.step, Core.applyPending, fpr, fpf, fa, fi, fb, fal, fl]
      simp [Core.updateIr, Core.irAct, Core.updateWord, Core.execWord, hw, Sig.nextAddr, Sig.am4, Sig.am3, Sig.am1,
        Sig.il1, irBit, b2n, Sig.selA, Sig.selB, Sig.selW, Sig.bConst, Regs.get, alu_B_c]
  obtain ⟨i, hi, hs2⟩ := hs2
  have h9 : Core.iter 9 c = Core.iter 7 (Core.step (Core.step c).1).1 := rfl
  rw [h9, hs2]
  have hregs : c.applyPending.regs = ⟨a.r0, a.r1, a.r2, a.pc, a.fr, a.sp, c.applyPending.regs.r6, c.applyPending.regs.r7⟩ := by
    rw [← h0, ← h1, ← h2, ← h3, ← h4, ← h5]
  rw [hregs, hbus]
  have := entry_from_10 a.r0 a.r1 a.r2 a.pc a.fr a.sp c.applyPending.regs.r6 c.applyPending.regs.r7 i hi a.bus
    (flagBit a.fr C.flagC)
  refine ⟨this, ?_⟩
  exact iter_pendInt 7 _ rfl


end Emu2a.IntEntry
