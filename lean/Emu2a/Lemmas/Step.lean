/-
Symbolic execution support for the micro-machine: iteration, boundary predicate, normal forms.
-/
import Emu2a.Model.Core
import Emu2a.Spec.Isa
namespace Emu2a
open Gen

/-- Iterate the data path `n` times (memory-wait edges are not part of the data path). -/
def Core.iter : Nat → Core → Core
  | 0, c => c
  | n + 1, c => Core.iter n (Core.step c).1

@[simp] theorem Core.iter_zero (c : Core) : Core.iter 0 c = c := rfl
theorem Core.iter_succ (n : Nat) (c : Core) : Core.iter (n + 1) c = Core.iter n (Core.step c).1 := rfl

/-- The core is at an instruction boundary of architectural state `a`: the fetch word has just been
executed (opcode on the bus latch, PC+1 in the ALU latch with a pending write to PC). Scratch
registers, instruction register and ALU flags are arbitrary. -/
structure AtFetch (c : Core) (a : Isa.Arch) : Prop where
  fetch : word c.addr = word 6
  r0 : c.regs.r0 = a.r0
  r1 : c.regs.r1 = a.r1
  r2 : c.regs.r2 = a.r2
  r3 : c.regs.r3 = a.pc
  r4 : c.regs.r4 = a.fr
  r5 : c.regs.r5 = a.sp
  bus : c.bus = a.bus
  pendReg : c.pendReg = some 3
  pendFlag : c.pendFlag = false
  aluOut : c.alu.out = a.pc + 1
  lastBus : c.lastBus = a.bus.read a.pc

end Emu2a

namespace Emu2a
open Gen

/-- Unfold one data-path step on a state whose control part is concrete. -/
macro "ustep" : tactic =>
  `(tactic| (rw [Core.iter_succ];
             simp [Core.step, Core.applyPending, Core.updateIr, Core.irAct, Core.updateWord, Core.execWord,
                   Regs.set, Regs.get, Sig.nextAddr, Sig.am4, Sig.am3, Sig.am1, Sig.am2, Sig.al3, Sig.al2,
                   Sig.selA, Sig.selB, Sig.selW, Sig.il1, irBit, b2n, Sig.bConst, *]))

end Emu2a

namespace Emu2a
open Gen

/-- Destructure a boundary hypothesis into a state literal with symbolic data. -/
macro "uopen" c:ident a:ident h:ident hint:ident : tactic =>
  `(tactic| (obtain ⟨addr, ⟨r0, r1, r2, r3, r4, r5, r6, r7⟩, ir, bus, pr, pf, pi, al, lb⟩ := $c;
             obtain ⟨a0, a1, a2, apc, afr, asp, abus⟩ := $a;
             obtain ⟨hf, h0, h1, h2, h3, h4, h5, hb, hpr, hpf, hal, hlb⟩ := $h;
             simp only at hf h0 h1 h2 h3 h4 h5 hb hpr hpf hal hlb $hint:ident;
             subst h0 h1 h2 h3 h4 h5 hb hpr hpf $hint:ident hlb))

end Emu2a

namespace Emu2a
open Gen

/-- The core has just executed the second-opcode word (0x1E6) of a two-byte instruction: the source
operand `v` is in R6, the second byte is on the bus latch, PC+1 pending. -/
structure AtSecond (c : Core) (a : Isa.Arch) (v : Byte) : Prop where
  addr : c.addr = 0x1E6
  r0 : c.regs.r0 = a.r0
  r1 : c.regs.r1 = a.r1
  r2 : c.regs.r2 = a.r2
  r3 : c.regs.r3 = a.pc
  r4 : c.regs.r4 = a.fr
  r5 : c.regs.r5 = a.sp
  r6 : c.regs.r6 = v
  bus : c.bus = a.bus
  pendReg : c.pendReg = some 3
  pendFlag : c.pendFlag = false
  aluOut : c.alu.out = a.pc + 1
  lastBus : c.lastBus = a.bus.read a.pc

end Emu2a

namespace Emu2a
open Gen

/-- An end word: the last micro-step of an instruction that samples the interrupt request
(MAC = 0011, NA0 = 1): the next address is `no int:` (fetch) or `int:`. -/
def UWord.isEnd (w : UWord) : Bool := !w.mac3 && !w.mac2 && w.mac1 && w.mac0 && (w.na % 2 == 1)

/-- The core has just executed the end word of an instruction whose architectural result is `a`:
the pending register/flag writes, once committed, give `a`'s registers; the bus is final. -/
structure AtEnd (c : Core) (a : Isa.Arch) : Prop where
  isEnd : (word c.addr).isEnd = true
  addrLt : c.addr < 512
  page : c.ir / 16 = c.addr / 32
  irLt : c.ir < 256
  r0 : c.applyPending.regs.r0 = a.r0
  r1 : c.applyPending.regs.r1 = a.r1
  r2 : c.applyPending.regs.r2 = a.r2
  r3 : c.applyPending.regs.r3 = a.pc
  r4 : c.applyPending.regs.r4 = a.fr
  r5 : c.applyPending.regs.r5 = a.sp
  bus : c.bus = a.bus

end Emu2a

namespace Emu2a
open Gen
/-- `ustep` for a symbolic instruction register whose relevant bits are given by hypotheses
(`irBit i m = …` in the context). -/
macro "ustepIr" : tactic =>
  `(tactic| (rw [Core.iter_succ];
             simp [Core.step, Core.applyPending, Core.updateIr, Core.irAct, Core.updateWord, Core.execWord,
                   Regs.set, Regs.get, Sig.nextAddr, Sig.am4, Sig.am3, Sig.am1, Sig.am2, Sig.al3, Sig.al2,
                   Sig.selA, Sig.selB, Sig.selW, Sig.il1, b2n, Sig.bConst, *]))
end Emu2a
