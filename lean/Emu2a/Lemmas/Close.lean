import Emu2a.Lemmas.Step
import Emu2a.Lemmas.AluNF
namespace Emu2a
open Gen

/-- Evaluate the specification side on a concrete opcode. -/
macro "uspec" : tactic =>
  `(tactic| (simp [Isa.step, Isa.exec, Isa.second, Isa.operand, Isa.rmw, Isa.push, Isa.Arch.rd, Isa.Arch.wr,
                   Isa.rrOp, Isa.Arch.reg, Isa.Arch.setReg, *]))

theorem xor_alt (a b : Byte) : (a ||| b) &&& ~~~(a &&& b) = a ^^^ b := by
  apply BitVec.eq_of_getLsbD_eq; intro i
  simp
  cases a.getLsbD i <;> cases b.getLsbD i <;> simp

/-- Arithmetic facts about Booleans built from byte comparisons. -/
macro "boolarith" : tactic =>
  `(tactic| first
     | (rw [Bool.eq_iff_iff];
        simp only [Bool.not_eq_true', decide_eq_true_eq, decide_eq_false_iff_not, beq_iff_eq, bne_iff_ne,
                   Bool.not_eq_true, ne_eq, Bool.false_eq_true, Bool.true_eq_false, iff_false, iff_true,
                   false_iff, true_iff, Decidable.not_not];
        bv_omega)
     | (simp; done)
     | (simp; bv_omega))

theorem withCZN_congr {fr : Byte} {c1 c2 z1 z2 n1 n2 : Bool} (hc : c1 = c2) (hz : z1 = z2) (hn : n1 = n2) :
    Isa.withCZN fr c1 z1 n1 = Isa.withCZN fr c2 z2 n2 := by subst hc hz hn; rfl

/-- Close the boundary goal after symbolic execution: compare field by field in ISA normal form. -/
macro "uclose" : tactic =>
  `(tactic| (constructor <;>
      (simp only [setCZN_withCZN, alu_z, alu_n, alu_ADD_out, alu_ADD_c, alu_A_out, alu_A_c, alu_B_out, alu_B_c,
            alu_NOR_out, alu_NOR_c, alu_SETC_out, alu_SETC_c, alu_BH_out, alu_BH_c, alu_LSR_out, alu_LSR_c,
            alu_ASR_out, alu_ASR_c, alu_RRC_out, alu_RRC_c, alu_ADC_out, alu_ADC_c, alu_ADDS_out, alu_ADDS_c,
            alu_ADDH_out, alu_ADDH_c, flagBit_C, flagBit_Z, flagBit_N, add_not_one, nor_self,
            and_via_nor, or_via_nor, xor_via_nor, andn_via_nor, add_254_1, add_255, neg_via_not,
            BitVec.not_not, BitVec.or_self];
       try simp [Isa.flagsOf, Isa.operand, Isa.push, Isa.Arch.wr, Isa.Arch.rd, Isa.Arch.reg, Isa.Arch.setReg, borrow_iff,
                 dec_borrow, inc_carry, neg_carry, xor_alt, *];
       try (first | rfl | (simp only [BitVec.and_comm, Nat.land_comm, BitVec.or_comm, Nat.lor_comm]; done) | (apply withCZN_congr <;> first | rfl | boolarith | bv_omega) | bv_omega | (congr 3 <;> first | rfl | boolarith | bv_omega) | (congr 2 <;> first | rfl | boolarith | bv_omega) | (congr 1 <;> first | rfl | boolarith | bv_omega)))))

/-- Close an `AtEnd` goal after symbolic execution up to the end word. -/
macro "ucloseEnd" : tactic =>
  `(tactic| (constructor <;>
      (first
        | decide
        | (simp only [Core.applyPending, Regs.set, setCZN_withCZN, alu_z, alu_n, alu_ADD_out, alu_ADD_c, alu_A_out,
            alu_A_c, alu_B_out, alu_B_c,
            alu_NOR_out, alu_NOR_c, alu_SETC_out, alu_SETC_c, alu_BH_out, alu_BH_c, alu_LSR_out, alu_LSR_c,
            alu_ASR_out, alu_ASR_c, alu_RRC_out, alu_RRC_c, alu_ADC_out, alu_ADC_c, alu_ADDS_out, alu_ADDS_c,
            alu_ADDH_out, alu_ADDH_c, flagBit_C, flagBit_Z, flagBit_N, add_not_one, nor_self,
            and_via_nor, or_via_nor, xor_via_nor, andn_via_nor, add_254_1, add_255, neg_via_not,
            BitVec.not_not, BitVec.or_self];
           try simp [Isa.flagsOf, Isa.operand, Isa.push, Isa.Arch.wr, Isa.Arch.rd, Isa.Arch.reg, Isa.Arch.setReg, borrow_iff,
                 dec_borrow, inc_carry, neg_carry, xor_alt, *];
           try (first | rfl | (simp only [BitVec.and_comm, Nat.land_comm, BitVec.or_comm, Nat.lor_comm]; done) | (apply withCZN_congr <;> first | rfl | boolarith | bv_omega) | bv_omega | (congr 1 <;> first | rfl | boolarith | bv_omega))))))

end Emu2a
