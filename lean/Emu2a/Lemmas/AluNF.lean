/-
Normal forms that connect what symbolic execution of the micro-machine leaves behind (ALU terms,
flag-register updates, NOR chains) with the arithmetic of the ISA specification.
-/
import Emu2a.Model.Core
import Emu2a.Spec.Isa
import Emu2a.Lemmas.Fin
namespace Emu2a
open Gen

/-! ### Flag register -/

theorem setCZN_aux (c z n : Bool) :
    ∀ fr : Byte, setFlag (setFlag (setFlag fr 1 c) 2 z) 4 n = Isa.withCZN fr c z n := by
  cases c <;> cases z <;> cases n <;> (apply byte_cases; decide +kernel)

theorem setCZN_withCZN (fr : Byte) (a : AluOut) : setCZN fr a = Isa.withCZN fr a.c a.z a.n :=
  setCZN_aux a.c a.z a.n fr

theorem flagBit_C (fr : Byte) : flagBit fr 1 = Isa.flagC fr := rfl
theorem flagBit_Z (fr : Byte) : flagBit fr 2 = Isa.flagZ fr := rfl
theorem flagBit_N (fr : Byte) : flagBit fr 4 = Isa.flagN fr := rfl

/-! ### Zero / negative outputs of the ALU are functions of the result -/

theorem byte_beq_zero : ∀ o : Byte, (o == 0#8) = decide (o.toNat = 0) := by
  apply byte_cases; decide +kernel
theorem byte_msb : ∀ o : Byte, ((o &&& 0x80#8) != 0#8) = decide (o.toNat ≥ 128) := by
  apply byte_cases; decide +kernel

theorem alu_z (f : Nat) (a b : Byte) (c : Bool) : (alu f a b c).z = ((alu f a b c).out == 0#8) := rfl
theorem alu_n (f : Nat) (a b : Byte) (c : Bool) : (alu f a b c).n = decide ((alu f a b c).out.toNat ≥ 128) := by
  simp only [alu, byte_msb]

/-! ### Results and carries per ALU function -/

theorem alu_ADD_out (a b : Byte) (c : Bool) : (alu 4 a b c).out = a + b := by simp [alu, aluRaw, ovAdd]
theorem alu_ADD_c (a b : Byte) (c : Bool) : (alu 4 a b c).c = decide (a.toNat + b.toNat ≥ 256) := by
  simp [alu, aluRaw, ovAdd]
theorem alu_A_out (a b : Byte) (c : Bool) : (alu 1 a b c).out = a := by simp [alu, aluRaw]
theorem alu_A_c (a b : Byte) (c : Bool) : (alu 1 a b c).c = false := by simp [alu, aluRaw]
theorem alu_B_out (a b : Byte) (c : Bool) : (alu 12 a b c).out = b := by simp [alu, aluRaw]
theorem alu_B_c (a b : Byte) (c : Bool) : (alu 12 a b c).c = false := by simp [alu, aluRaw]
theorem alu_NOR_out (a b : Byte) (c : Bool) : (alu 2 a b c).out = ~~~(a ||| b) := by simp [alu, aluRaw]
theorem alu_NOR_c (a b : Byte) (c : Bool) : (alu 2 a b c).c = false := by simp [alu, aluRaw]
theorem alu_SETC_out (a b : Byte) (c : Bool) : (alu 13 a b c).out = b := by simp [alu, aluRaw]
theorem alu_SETC_c (a b : Byte) (c : Bool) : (alu 13 a b c).c = true := by simp [alu, aluRaw]
theorem alu_BH_out (a b : Byte) (c : Bool) : (alu 14 a b c).out = b := by simp [alu, aluRaw]
theorem alu_BH_c (a b : Byte) (c : Bool) : (alu 14 a b c).c = c := by simp [alu, aluRaw]
theorem alu_LSR_out (a b : Byte) (c : Bool) : (alu 8 a b c).out = a >>> 1 := by simp [alu, aluRaw]
theorem alu_LSR_c (a b : Byte) (c : Bool) : (alu 8 a b c).c = ((a &&& 1#8) != 0#8) := by simp [alu, aluRaw]
theorem alu_ASR_out (a b : Byte) (c : Bool) : (alu 11 a b c).out = (a >>> 1) ||| (a &&& 0x80#8) := by simp [alu, aluRaw]
theorem alu_ASR_c (a b : Byte) (c : Bool) : (alu 11 a b c).c = ((a &&& 1#8) != 0#8) := by simp [alu, aluRaw]
theorem alu_RRC_out (a b : Byte) (c : Bool) :
    (alu 10 a b c).out = (a >>> 1) ||| (if c then 0x80#8 else 0#8) := by
  cases c <;> simp [alu, aluRaw, boolByte]
theorem alu_RRC_c (a b : Byte) (c : Bool) : (alu 10 a b c).c = ((a &&& 1#8) != 0#8) := by simp [alu, aluRaw]
theorem alu_ADC_out (a b : Byte) (c : Bool) : (alu 6 a b c).out = a + b + (if c then 1#8 else 0#8) := by
  cases c <;> simp [alu, aluRaw, ovAdd, boolByte]
theorem alu_ADDS_out (a b : Byte) (c : Bool) : (alu 5 a b c).out = a + b + 1#8 := by simp [alu, aluRaw, ovAdd]
theorem alu_ADDH_out (a b : Byte) (c : Bool) : (alu 0 a b c).out = a + b := by simp [alu, aluRaw, ovAdd]
theorem alu_ADDH_c (a b : Byte) (c : Bool) : (alu 0 a b c).c = (decide (a.toNat + b.toNat ≥ 256) || c) := by
  simp [alu, aluRaw, ovAdd]

theorem carry2 (a b : Byte) (k : Nat) (hk : k ≤ 1) :
    (decide (a.toNat + b.toNat ≥ 256) || decide ((a + b).toNat + k ≥ 256))
      = decide (a.toNat + b.toNat + k ≥ 256) := by
  have ha := a.isLt; have hb := b.isLt
  rw [BitVec.toNat_add]
  by_cases h : a.toNat + b.toNat ≥ 256
  · have : (a.toNat + b.toNat) % 2 ^ 8 = a.toNat + b.toNat - 256 := by omega
    simp [h, this]; omega
  · have : (a.toNat + b.toNat) % 2 ^ 8 = a.toNat + b.toNat := by omega
    simp [h, this]

theorem alu_ADC_c (a b : Byte) (c : Bool) :
    (alu 6 a b c).c = decide (a.toNat + b.toNat + (if c then 1 else 0) ≥ 256) := by
  cases c
  · have := carry2 a b 0 (by omega); simp [alu, aluRaw, ovAdd, boolByte] at this ⊢
    first | simpa using this | (intros; omega)
  · have := carry2 a b 1 (by omega); simp [alu, aluRaw, ovAdd, boolByte] at this ⊢
    first | simpa using this | (rw [← this]; simp) | (intros; omega)

theorem alu_ADDS_c (a b : Byte) (c : Bool) : (alu 5 a b c).c = !decide (a.toNat + b.toNat + 1 ≥ 256) := by
  have := carry2 a b 1 (by omega); simp [alu, aluRaw, ovAdd] at this ⊢
  first | simpa using this | (rw [← this]; simp) | (intros; omega)

/-! ### Subtraction through complement-and-add, NOR chains -/

theorem not_toNat (b : Byte) : (~~~b).toNat = 255 - b.toNat := by
  simp [BitVec.toNat_not]

theorem add_not_one (a b : Byte) : a + ~~~b + 1#8 = a - b := by
  apply BitVec.eq_of_toNat_eq
  have ha := a.isLt; have hb := b.isLt
  simp only [BitVec.toNat_add, BitVec.toNat_sub, not_toNat, BitVec.toNat_ofNat]
  omega

theorem borrow_iff (a b : Byte) : (!decide (a.toNat + (~~~b).toNat + 1 ≥ 256)) = decide (a.toNat < b.toNat) := by
  have ha := a.isLt; have hb := b.isLt
  rw [not_toNat]
  by_cases h : a.toNat < b.toNat <;> simp [h] <;> omega

theorem nor_self (a : Byte) : ~~~(a ||| a) = ~~~a := by simp
theorem and_via_nor (a b : Byte) : ~~~(~~~a ||| ~~~b) = a &&& b := by
  apply BitVec.eq_of_getLsbD_eq; intro i; simp
  intro hi; simp [hi]
theorem or_via_nor (a b : Byte) : ~~~(~~~(a ||| b)) = a ||| b := by simp
theorem xor_via_nor (a b : Byte) : ~~~(~~~(a ||| b) ||| (a &&& b)) = a ^^^ b := by
  apply BitVec.eq_of_getLsbD_eq; intro i
  simp
  cases a.getLsbD i <;> cases b.getLsbD i <;> simp
theorem andn_via_nor (a b : Byte) : ~~~(~~~a ||| b) = a &&& ~~~b := by
  apply BitVec.eq_of_getLsbD_eq; intro i; simp
  intro hi; simp [hi]

/-- Decrement through `ADDS x, #254`. -/
theorem add_254_1 (a : Byte) : a + 254#8 + 1#8 = a - 1#8 := by
  apply BitVec.eq_of_toNat_eq
  have ha := a.isLt
  simp only [BitVec.toNat_add, BitVec.toNat_sub, BitVec.toNat_ofNat]
  omega
theorem dec_borrow (a : Byte) : (!decide (a.toNat + 254 + 1 ≥ 256)) = (a == 0#8) := by
  have ha := a.isLt
  rw [byte_beq_zero]
  by_cases h : a.toNat = 0 <;> simp [h]; omega
theorem add_255 (a : Byte) : a + 255#8 = a - 1#8 := by
  apply BitVec.eq_of_toNat_eq
  have ha := a.isLt
  simp only [BitVec.toNat_add, BitVec.toNat_sub, BitVec.toNat_ofNat]
  omega
theorem inc_carry (a : Byte) : decide (a.toNat + 1 ≥ 256) = (a == 0xFF#8) := by
  have ha := a.isLt
  have : (a == 0xFF#8) = decide (a.toNat = 255) := by
    revert a; apply byte_cases; decide +kernel
  rw [this]
  by_cases h : a.toNat = 255 <;> simp [h]; omega
theorem neg_via_not (a : Byte) : ~~~a + 1#8 = 0#8 - a := by
  apply BitVec.eq_of_toNat_eq
  have ha := a.isLt
  simp only [BitVec.toNat_add, BitVec.toNat_sub, not_toNat, BitVec.toNat_ofNat]
  omega
theorem neg_carry (a : Byte) : decide ((~~~a).toNat + 1 ≥ 256) = (a == 0#8) := by
  have ha := a.isLt
  rw [not_toNat, byte_beq_zero]
  by_cases h : a.toNat = 0 <;> simp [h]; omega

end Emu2a
