/-
The data-dependent micro-loops of MUL (words 0x165-0x168) and DIV (0x187-0x188) as pure functions,
and the lemmas symbolic execution needs around them.
-/
import Emu2a.Lemmas.IntEntry
import Emu2a.Lemmas.Close
namespace Emu2a.C01
open Emu2a Gen Isa

theorem iter_add' (n m : Nat) (c : Core) : Core.iter (n + m) c = Core.iter m (Core.iter n c) := by
  induction n generalizing c with
  | zero => simp
  | succ k ih => rw [Nat.succ_add]; simp [Core.iter_succ, ih]

/-! ### Flag-register algebra -/

theorem withCZN_idem (fr : Byte) (c z n c' z' n' : Bool) :
    withCZN (withCZN fr c z n) c' z' n' = withCZN fr c' z' n' := by
  revert fr
  cases c <;> cases z <;> cases n <;> cases c' <;> cases z' <;> cases n' <;> (apply byte_cases; decide +kernel)

theorem flagC_withCZN (fr : Byte) (c z n : Bool) : flagC (withCZN fr c z n) = c := by
  revert fr
  cases c <;> cases z <;> cases n <;> (apply byte_cases; decide +kernel)

/-! ### MUL -/

/-- One pass of the MUL micro-loop on (multiplier rest `d`, shifted multiplicand `x`, accumulator,
sticky carry): shift `d` right; if the bit shifted out is set add `x` to the accumulator (the carry
sticks); stop when `d` is exhausted, otherwise double `x` (the carry sticks) and repeat. -/
def mulLoop : Nat → Byte → Byte → Byte → Bool → Byte × Bool
  | fuel, d, x, acc, cf =>
    let c0 := (d &&& 1#8) != 0#8
    let d' := d >>> 1
    let acc' := if c0 then acc + x else acc
    let cf' := if c0 then (decide (acc.toNat + x.toNat ≥ 256) || cf) else cf
    if d' == 0#8 then (acc', cf')
    else match fuel with
      | 0 => (acc', cf')
      | f + 1 => mulLoop f d' (x + x) acc' (decide (x.toNat + x.toNat ≥ 256) || cf')

theorem mulLoop_exit (fuel : Nat) (d x acc : Byte) (cf : Bool) (h : d >>> 1 = 0#8) :
    mulLoop fuel d x acc cf = (if (d &&& 1#8) != 0#8 then acc + x else acc,
      if (d &&& 1#8) != 0#8 then (decide (acc.toNat + x.toNat ≥ 256) || cf) else cf) := by
  unfold mulLoop; simp [h]

theorem mulLoop_cont (f : Nat) (d x acc : Byte) (cf : Bool) (h : ¬ d >>> 1 = 0#8) :
    mulLoop (f + 1) d x acc cf = mulLoop f (d >>> 1) (x + x) (if (d &&& 1#8) != 0#8 then acc + x else acc)
      (decide (x.toNat + x.toNat ≥ 256) || (if (d &&& 1#8) != 0#8 then (decide (acc.toNat + x.toNat ≥ 256) || cf) else cf)) := by
  conv => lhs; unfold mulLoop
  simp [h]

theorem shr_lt (d : Byte) (f : Nat) (hd : d.toNat < 2 ^ (f + 1 + 1)) : (d >>> 1).toNat < 2 ^ (f + 1) := by
  have : (d >>> 1).toNat = d.toNat / 2 := by simp [BitVec.toNat_ushiftRight, Nat.shiftRight_eq_div_pow]
  rw [this]; rw [Nat.pow_succ] at hd; omega

/-- Kernel-checkable statement of "the loop multiplies": result byte and carry for one operand pair. -/
def mulOk (d s : Nat) : Bool :=
  let r := mulLoop 7 (BitVec.ofNat 8 d) (BitVec.ofNat 8 s) 0#8 false
  r.1 == BitVec.ofNat 8 (d * s) && r.2 == decide (d * s > 255)

/-- Symbolic step with an instruction register known only through its bits, normalising ALU and
flag terms on the way (so that branch conditions of the next step are decided). -/
macro "ustepM" : tactic =>
  `(tactic| (rw [Core.iter_succ];
             simp [Core.step, Core.applyPending, Core.updateIr, Core.irAct, Core.updateWord, Core.execWord,
                   Regs.set, Regs.get, Sig.nextAddr, Sig.am4, Sig.am3, Sig.am1, Sig.am2, Sig.al3, Sig.al2,
                   Sig.selA, Sig.selB, Sig.selW, Sig.il1, b2n, Sig.bConst,
                   setCZN_withCZN, withCZN_idem, flagC_withCZN, flagBit_C, alu_z, alu_A_out, alu_A_c, alu_LSR_out, alu_LSR_c,
                   alu_ADDH_out, alu_ADDH_c, alu_BH_out, alu_BH_c, alu_B_out, alu_B_c, alu_ADD_out, alu_ADD_c,
                   alu_ADDS_out, alu_ADDS_c, alu_NOR_out, alu_NOR_c, alu_SETC_out, alu_SETC_c, alu_n, *]))

/-- The four instruction-register bits that select the micro-program page. -/
theorem page_of_bits (ir p : Nat) (hir : ir < 256) (h8 : irBit ir 128 = (p / 8 % 2 == 1)) (h7 : irBit ir 64 = (p / 4 % 2 == 1))
    (h6 : irBit ir 32 = (p / 2 % 2 == 1)) (h5 : irBit ir 16 = (p % 2 == 1)) (hp : p < 16) : ir / 16 = p := by
  simp only [irBit] at h8 h7 h6 h5
  have e8 : ir / 128 % 2 = p / 8 % 2 := by
    have := Nat.mod_two_eq_zero_or_one (ir / 128); have := Nat.mod_two_eq_zero_or_one (p / 8)
    rcases Nat.mod_two_eq_zero_or_one (ir / 128) with a | a <;> rcases Nat.mod_two_eq_zero_or_one (p / 8) with b | b <;>
      simp [a, b] at h8 ⊢
  have e7 : ir / 64 % 2 = p / 4 % 2 := by
    rcases Nat.mod_two_eq_zero_or_one (ir / 64) with a | a <;> rcases Nat.mod_two_eq_zero_or_one (p / 4) with b | b <;>
      simp [a, b] at h7 ⊢
  have e6 : ir / 32 % 2 = p / 2 % 2 := by
    rcases Nat.mod_two_eq_zero_or_one (ir / 32) with a | a <;> rcases Nat.mod_two_eq_zero_or_one (p / 2) with b | b <;>
      simp [a, b] at h6 ⊢
  have e5 : ir / 16 % 2 = p % 2 := by
    rcases Nat.mod_two_eq_zero_or_one (ir / 16) with a | a <;> rcases Nat.mod_two_eq_zero_or_one p with b | b <;>
      simp [a, b] at h5 ⊢
  omega

end Emu2a.C01
