/-
C02 / C01 link, instructions with operand bytes: when memory at PC holds the bytes the reference
encoder emits, one `Isa.step` performs the operation the mnemonic names and leaves PC behind the
instruction (or at the jump target).  Covers the constant, absolute and relative forms:
LD Rd, const / LD Rd, (addr) / ST (addr), Rs / JMP / JR and the conditional jumps / CALL / RET.
-/
import Emu2a.Props.C02x.Decode
import Emu2a.Props.C10
namespace Emu2a.C02
open Emu2a Emu2a.Asm Emu2a.Isa Gen

/-- Memory from PC on holds the bytes `bs` (byte `k` of the list at address PC + k). -/
def Holds (a : Arch) : Nat → List Nat → Prop
  | _, [] => True
  | k, b :: bs => a.rd (a.pc + BitVec.ofNat 8 k) = BitVec.ofNat 8 b ∧ Holds a (k + 1) bs

/-- General registers (everything but PC, whose use as a destination is a jump). -/
def general : Reg → Bool | .r3 => false | _ => true

/-- A write leaves every other RAM cell alone (from the address-map refinement of C10). -/
theorem read_write_ram (b : Bus) (x y v : Byte) (hy : y.toNat < 240) (hne : x ≠ y) :
    (b.write x v).read y = b.read y := by
  have h1 := C10.abs_write b x v
  have h2 := C10.spec_read_write_other b.abs y x v hy hne
  have hr : ∀ c : Bus, c.abs.read y = some (c.read y) := by
    intro c
    simp [BusSpec.read, Bus.abs, hy, Bus.read, C.ramTop]
    omega
  apply C10.abs_read
  rw [h1, h2, hr]

theorem add12 (x : Byte) : x + 1#8 + 1#8 = x + 2#8 := by rw [BitVec.add_assoc]; rfl
theorem add21 (x : Byte) : x + 2#8 + 1#8 = x + 3#8 := by rw [BitVec.add_assoc]; rfl

/-- `LD Rd, const` loads the constant and continues behind the three bytes. -/
theorem ld_const_semantics (a : Arch) (tbl : Labels) (cur : Nat) (r : Reg) (v : Nat) (bs : List Nat)
    (hr : general r = true)
    (he : Ref.encode tbl cur (.ldConst r (.num v)) = some bs) (hm : Holds a 0 bs) :
    Isa.step a = some { (a.setReg r.num (BitVec.ofNat 8 v)) with pc := a.pc + 3 } := by
  cases r <;> simp [general] at hr <;>
    simp [Ref.encode, Ref.twoOperand, Ref.extraBytes, Ref.ofSrc, Ref.ofDst, Ref.value, Ref.Operand.field, Reg.num] at he <;>
    subst he <;> simp only [Holds] at hm <;> obtain ⟨h0, h1, h2, -⟩ := hm <;>
    simp at h0 h1 h2 <;>
    (have e0 : Isa.step a = Isa.exec { a with pc := a.pc + 1 } 251 := by unfold Isa.step; rw [h0]; rfl) <;>
    rw [e0] <;> simp only [Arch.rd] at h1 h2 <;>
    simp [Isa.exec, Isa.operand, Arch.reg, Arch.setReg, Arch.rd, add12, add21, h1, h2, Isa.second, Reg.num]

/-- `LD Rd, (addr)` loads the byte at the absolute address. -/
theorem ld_mem_semantics (a : Arch) (tbl : Labels) (cur : Nat) (r : Reg) (m : Nat) (bs : List Nat)
    (hr : general r = true)
    (he : Ref.encode tbl cur (.ldMem r (.const (.num m))) = some bs) (hm : Holds a 0 bs) :
    Isa.step a = some { (a.setReg r.num (a.rd (BitVec.ofNat 8 m))) with pc := a.pc + 3 } := by
  cases r <;> simp [general] at hr <;>
    simp [Ref.encode, Ref.twoOperand, Ref.extraBytes, Ref.ofSrc, Ref.ofDst, Ref.value, Ref.Operand.field, Reg.num] at he <;>
    subst he <;> simp only [Holds] at hm <;> obtain ⟨h0, h1, h2, -⟩ := hm <;>
    simp at h0 h1 h2 <;>
    (have e0 : Isa.step a = Isa.exec { a with pc := a.pc + 1 } 255 := by unfold Isa.step; rw [h0]; rfl) <;>
    rw [e0] <;> simp only [Arch.rd] at h1 h2 <;>
    simp [Isa.exec, Isa.operand, Arch.reg, Arch.setReg, Arch.rd, add12, add21, h1, h2, Isa.second, Reg.num]

/-- `ST (addr), Rs` stores the register at the absolute address. -/
theorem st_semantics (a : Arch) (tbl : Labels) (cur : Nat) (r : Reg) (m : Nat) (bs : List Nat)
    (hr : general r = true)
    (he : Ref.encode tbl cur (.st (.const (.num m)) r) = some bs) (hm : Holds a 0 bs) :
    Isa.step a = some { (a.wr (BitVec.ofNat 8 m) (a.reg r.num)) with pc := a.pc + 3 } := by
  cases r <;> simp [general] at hr <;>
    simp [Ref.encode, Ref.twoOperand, Ref.extraBytes, Ref.ofSrc, Ref.ofDst, Ref.value, Ref.Operand.field, Reg.num] at he <;>
    subst he <;> simp only [Holds] at hm <;> obtain ⟨h0, h1, h2, -⟩ := hm <;>
    simp at h0 h1 h2 <;>
    (have e0 : Isa.step a = Isa.exec { a with pc := a.pc + 1 } (a.rd a.pc).toNat := rfl) <;>
    rw [e0, h0] <;> simp only [Arch.rd] at h1 h2 <;>
    simp [Isa.exec, Isa.operand, Arch.reg, Arch.setReg, Arch.rd, Arch.wr, add12, add21, h1, h2, Isa.second, Reg.num]

/-- `JMP label` continues at the label's address. -/
theorem jmp_semantics (a : Arch) (tbl : Labels) (cur : Nat) (l : String) (t : Nat) (bs : List Nat)
    (ht : tbl.find (lower l) = some t)
    (he : Ref.encode tbl cur (.jmp l) = some bs) (hm : Holds a 0 bs) :
    Isa.step a = some { a with pc := BitVec.ofNat 8 t } := by
  simp [Ref.encode, ht] at he
  subst he; simp only [Holds] at hm; obtain ⟨h0, h1, h2, -⟩ := hm
  simp at h0 h1 h2
  have e0 : Isa.step a = Isa.exec { a with pc := a.pc + 1 } 251 := by unfold Isa.step; rw [h0]; rfl
  rw [e0]; simp only [Arch.rd] at h1 h2
  simp [Isa.exec, Isa.operand, Arch.reg, Arch.setReg, Arch.rd, add12, add21, h1, h2, Isa.second]

/-- `CALL label` pushes the address behind the instruction and continues at the label - provided the
pushed byte does not land on the instruction's own address byte (the target is read after the push,
in the microprogram as in `Isa.exec`). -/
theorem call_semantics (a : Arch) (tbl : Labels) (cur : Nat) (l : String) (t : Nat) (bs : List Nat)
    (ht : tbl.find (lower l) = some t) (hram : (a.pc + 1#8).toNat < 240) (hsp : a.sp - 1#8 ≠ a.pc + 1#8)
    (he : Ref.encode tbl cur (.call l) = some bs) (hm : Holds a 0 bs) :
    Isa.step a = some { (push a (a.pc + 2)) with pc := BitVec.ofNat 8 t } := by
  simp [Ref.encode, ht] at he
  subst he; simp only [Holds] at hm; obtain ⟨h0, h1, -⟩ := hm
  simp at h0 h1
  have e0 : Isa.step a = Isa.exec { a with pc := a.pc + 1 } 40 := by unfold Isa.step; rw [h0]; rfl
  rw [e0]; simp only [Arch.rd] at h1
  simp [Isa.exec, Isa.push, Arch.rd, Arch.wr, add12]
  rw [read_write_ram _ _ _ _ hram hsp, h1]

/-- `RET` pops the program counter. -/
theorem ret_semantics (a : Arch) (bs : List Nat) (he : Ref.encode [] 0 .ret = some bs) (hm : Holds a 0 bs) :
    Isa.step a = some { a with pc := a.rd a.sp, sp := a.sp + 1 } := by
  simp [Ref.encode] at he
  subst he; simp only [Holds] at hm; obtain ⟨h0, -⟩ := hm
  simp at h0
  have e0 : Isa.step a = Isa.exec { a with pc := a.pc + 1 } 23 := by unfold Isa.step; rw [h0]; rfl
  rw [e0]
  simp [Isa.exec, Arch.rd, Arch.setReg]

theorem rel_target (t cur : Nat) (ht : t < 256) :
    BitVec.ofNat 8 ((t + 256 - (cur + 2) % 256) % 256) + (BitVec.ofNat 8 cur + 1#8) + 1#8 = BitVec.ofNat 8 t := by
  apply BitVec.eq_of_toNat_eq
  simp only [BitVec.toNat_add, BitVec.toNat_ofNat]
  simp
  omega

/-- The relative jumps: taken exactly under the named condition, to the label's address;
otherwise execution continues behind the two bytes. -/
theorem relative_semantics (a : Arch) (tbl : Labels) (cur : Nat) (l : String) (t : Nat)
    (ht : tbl.find (lower l) = some t) (ht8 : t < 256) (hpc : a.pc = BitVec.ofNat 8 cur) :
    let jump (i : Instr) (taken : Bool) := ∀ bs, Ref.encode tbl cur i = some bs → Holds a 0 bs →
      Isa.step a = some { a with pc := if taken then BitVec.ofNat 8 t else a.pc + 2 }
    jump (.jr l) true ∧ jump (.jcs l) (flagC a.fr) ∧ jump (.jcc l) (!flagC a.fr) ∧
    jump (.jzs l) (flagZ a.fr) ∧ jump (.jzc l) (!flagZ a.fr) ∧
    jump (.jns l) (flagN a.fr) ∧ jump (.jnc l) (!flagN a.fr) := by
  intro jump
  refine ⟨?_, ?_, ?_, ?_, ?_, ?_, ?_⟩ <;> intro bs he hm <;>
    simp [Ref.encode, Ref.relative, ht] at he <;> subst he <;>
    simp only [Holds] at hm <;> obtain ⟨h0, h1, -⟩ := hm <;> simp at h0 h1 <;>
    (have e0 : Isa.step a = Isa.exec { a with pc := a.pc + 1 } (a.rd a.pc).toNat := rfl) <;>
    rw [e0, h0] <;> simp only [Arch.rd] at h1 <;>
    simp [Isa.exec, Arch.rd, h1, add12] <;>
    (have hT := rel_target t cur ht8; rw [← hpc] at hT) <;>
    first
      | exact hT
      | (split <;> simp_all)

/-- `LD Rd, (Rp)` loads the byte the pointer register addresses. -/
theorem ld_ind_semantics (a : Arch) (tbl : Labels) (cur : Nat) (r p : Reg) (bs : List Nat)
    (hr : general r = true) (hp : general p = true)
    (he : Ref.encode tbl cur (.ldMem r (.reg p)) = some bs) (hm : Holds a 0 bs) :
    Isa.step a = some { (a.setReg r.num (a.rd (a.reg p.num))) with pc := a.pc + 2 } := by
  cases r <;> simp [general] at hr <;> cases p <;> simp [general] at hp <;>
    simp [Ref.encode, Ref.twoOperand, Ref.extraBytes, Ref.ofSrc, Ref.ofDst, Ref.Operand.field, Reg.num] at he <;>
    subst he <;> simp only [Holds] at hm <;> obtain ⟨h0, h1, -⟩ := hm <;>
    simp at h0 h1 <;>
    (have e0 : Isa.step a = Isa.exec { a with pc := a.pc + 1 } (a.rd a.pc).toNat := rfl) <;>
    rw [e0, h0] <;> simp only [Arch.rd] at h1 <;>
    simp [Isa.exec, Isa.operand, Arch.reg, Arch.setReg, Arch.rd, add12, h1, Isa.second, Reg.num]

/-- `ST (Rp), Rs` stores the register where the pointer register points. -/
theorem st_ind_semantics (a : Arch) (tbl : Labels) (cur : Nat) (r p : Reg) (bs : List Nat)
    (hr : general r = true) (hp : general p = true)
    (he : Ref.encode tbl cur (.st (.reg p) r) = some bs) (hm : Holds a 0 bs) :
    Isa.step a = some { (a.wr (a.reg p.num) (a.reg r.num)) with pc := a.pc + 2 } := by
  cases r <;> simp [general] at hr <;> cases p <;> simp [general] at hp <;>
    simp [Ref.encode, Ref.twoOperand, Ref.extraBytes, Ref.ofSrc, Ref.ofDst, Ref.Operand.field, Reg.num] at he <;>
    subst he <;> simp only [Holds] at hm <;> obtain ⟨h0, h1, -⟩ := hm <;>
    simp at h0 h1 <;>
    (have e0 : Isa.step a = Isa.exec { a with pc := a.pc + 1 } (a.rd a.pc).toNat := rfl) <;>
    rw [e0, h0] <;> simp only [Arch.rd] at h1 <;>
    simp [Isa.exec, Isa.operand, Arch.reg, Arch.setReg, Arch.rd, Arch.wr, add12, h1, Isa.second, Reg.num]

/-- `MOV Rd, (Rp+)` loads the byte the pointer addresses and then increments the pointer. -/
theorem mov_postinc_semantics (a : Arch) (tbl : Labels) (cur : Nat) (r p : Reg) (bs : List Nat)
    (hr : general r = true) (hp : general p = true)
    (he : Ref.encode tbl cur (.mov (.reg r) (.di p)) = some bs) (hm : Holds a 0 bs) :
    Isa.step a = some { ((a.setReg p.num (a.reg p.num + 1)).setReg r.num (a.rd (a.reg p.num))) with pc := a.pc + 2 } := by
  cases r <;> simp [general] at hr <;> cases p <;> simp [general] at hp <;>
    simp [Ref.encode, Ref.twoOperand, Ref.extraBytes, Ref.ofSrc, Ref.ofDst, Ref.Operand.field, Reg.num] at he <;>
    subst he <;> simp only [Holds] at hm <;> obtain ⟨h0, h1, -⟩ := hm <;>
    simp at h0 h1 <;>
    (have e0 : Isa.step a = Isa.exec { a with pc := a.pc + 1 } (a.rd a.pc).toNat := rfl) <;>
    rw [e0, h0] <;> simp only [Arch.rd] at h1 <;>
    simp [Isa.exec, Isa.operand, Arch.reg, Arch.setReg, Arch.rd, add12, h1, Isa.second, Reg.num]

/-- `CMP Rd, const` sets the flags of `Rd - const` (carry = borrow) and changes nothing else. -/
theorem cmp_const_semantics (a : Arch) (tbl : Labels) (cur : Nat) (r : Reg) (v : Nat) (bs : List Nat)
    (hr : general r = true)
    (he : Ref.encode tbl cur (.cmp (.reg r) (.const (.num v))) = some bs) (hm : Holds a 0 bs) :
    Isa.step a = some { a with
      pc := a.pc + 3
      fr := flagsOf a.fr (decide ((a.reg r.num).toNat < (BitVec.ofNat 8 v).toNat)) (a.reg r.num - BitVec.ofNat 8 v) } := by
  cases r <;> simp [general] at hr <;>
    simp [Ref.encode, Ref.twoOperand, Ref.extraBytes, Ref.ofSrc, Ref.ofDst, Ref.value, Ref.Operand.field, Reg.num] at he <;>
    subst he <;> simp only [Holds] at hm <;> obtain ⟨h0, h1, h2, -⟩ := hm <;>
    simp at h0 h1 h2 <;>
    (have e0 : Isa.step a = Isa.exec { a with pc := a.pc + 1 } 251 := by unfold Isa.step; rw [h0]; rfl) <;>
    rw [e0] <;> simp only [Arch.rd] at h1 h2 <;>
    simp [Isa.exec, Isa.operand, Arch.reg, Arch.setReg, Arch.rd, add12, add21, h1, h2, Isa.second, Reg.num]

/-- Non-vacuity: a machine whose RAM starts with `LD R1, 0x2A` (FB 2A 11) meets `Holds`. -/
example : Ref.encode [] 0 (.ldConst .r1 (.num 42)) = some [0xFB, 42, 0x11] := by decide

end Emu2a.C02
