/-
C02 / C01 link — the reference encoding of the one-byte register instructions is what the instruction-set
specification decodes: executing the byte the assembler emits for a mnemonic performs the operation the
mnemonic names, on the registers it names (destination in bits 1..0, source in bits 3..2).
Both sides are specifications (Spec/EncodeRef.lean from the assembler's documentation, Spec/Isa.lean from
the CPU's); the theorems check that they agree on opcode pages and register fields.
-/
import Emu2a.Spec.EncodeRef
import Emu2a.Spec.Isa
namespace Emu2a.C02
open Emu2a Emu2a.Asm Emu2a.Isa

/-- The single byte the reference encoder emits for a one-byte instruction. -/
def byte1 (i : Instr) : Option Nat :=
  match Ref.encode [] 0 i with
  | some [b] => some b
  | _ => none

/-- Register-register arithmetic / logic: `OP Rd, Rs` computes `Rd := Rd op Rs` with the flag rule of
its page; the page is the mnemonic's, the register fields are the named registers. -/
theorem rr_semantics (a : Arch) (d s : Reg) :
    (∀ b, byte1 (.add d s) = some b → Isa.exec a b = some { (a.setReg d.num (a.reg d.num + a.reg s.num)) with
        fr := flagsOf a.fr (decide ((a.reg d.num).toNat + (a.reg s.num).toNat ≥ 256)) (a.reg d.num + a.reg s.num) }) ∧
    (∀ b, byte1 (.sub d s) = some b → Isa.exec a b = some { (a.setReg d.num (a.reg d.num - a.reg s.num)) with
        fr := flagsOf a.fr (decide ((a.reg d.num).toNat < (a.reg s.num).toNat)) (a.reg d.num - a.reg s.num) }) ∧
    (∀ b, byte1 (.and d s) = some b → Isa.exec a b = some { (a.setReg d.num (a.reg d.num &&& a.reg s.num)) with
        fr := flagsOf a.fr false (a.reg d.num &&& a.reg s.num) }) ∧
    (∀ b, byte1 (.or d s) = some b → Isa.exec a b = some { (a.setReg d.num (a.reg d.num ||| a.reg s.num)) with
        fr := flagsOf a.fr false (a.reg d.num ||| a.reg s.num) }) ∧
    (∀ b, byte1 (.xor d s) = some b → Isa.exec a b = some { (a.setReg d.num (a.reg d.num ^^^ a.reg s.num)) with
        fr := flagsOf a.fr false (a.reg d.num ^^^ a.reg s.num) }) := by
  refine ⟨?_, ?_, ?_, ?_, ?_⟩ <;> intro b hb <;> cases d <;> cases s <;>
    simp only [byte1, Ref.encode, Reg.num, Option.some.injEq] at hb <;> subst hb <;> rfl

/-- MUL and DIV: product modulo 256 with carry iff it exceeds 255; quotient, or 0xFF with carry for a
zero divisor. -/
theorem muldiv_semantics (a : Arch) (d s : Reg) :
    (∀ b, byte1 (.mul d s) = some b → Isa.exec a b = some { (a.setReg d.num (BitVec.ofNat 8 ((a.reg d.num).toNat * (a.reg s.num).toNat))) with
        fr := flagsOf a.fr (decide ((a.reg d.num).toNat * (a.reg s.num).toNat > 255)) (BitVec.ofNat 8 ((a.reg d.num).toNat * (a.reg s.num).toNat)) }) ∧
    (∀ b, byte1 (.div d s) = some b → a.reg s.num = 0#8 →
        Isa.exec a b = some { (a.setReg d.num 0xFF#8) with fr := flagsOf a.fr true 0xFF#8 }) := by
  refine ⟨?_, ?_⟩
  · intro b hb
    cases d <;> cases s <;> simp only [byte1, Ref.encode, Reg.num, Option.some.injEq] at hb <;> subst hb <;> rfl
  · intro b hb hz
    cases d <;> cases s <;> simp only [byte1, Ref.encode, Reg.num, Option.some.injEq] at hb <;> subst hb <;>
      simp only [Reg.num] at hz ⊢ <;> simp [Isa.exec, Isa.rrOp, hz]

/-- Unary register instructions, stack instructions and CLR. -/
theorem unary_semantics (a : Arch) (r : Reg) :
    (∀ b, byte1 (.clr r) = some b → Isa.exec a b = some (a.setReg r.num 0#8)) ∧
    (∀ b, byte1 (.com r) = some b → Isa.exec a b = some { (a.setReg r.num (~~~(a.reg r.num))) with fr := flagsOf a.fr false (~~~(a.reg r.num)) }) ∧
    (∀ b, byte1 (.inc r) = some b → Isa.exec a b = some { (a.setReg r.num (a.reg r.num + 1)) with
        fr := flagsOf a.fr (a.reg r.num == 0xFF#8) (a.reg r.num + 1) }) ∧
    (∀ b, byte1 (.tst r) = some b → Isa.exec a b = some { a with fr := flagsOf a.fr false (a.reg r.num) }) ∧
    (∀ b, byte1 (.push r) = some b → Isa.exec a b = some (push a (a.reg r.num))) ∧
    (∀ b, byte1 (.pop r) = some b → Isa.exec a b = some ({ (a.setReg r.num (a.rd a.sp)) with sp := a.sp + 1 })) := by
  refine ⟨?_, ?_, ?_, ?_, ?_, ?_⟩ <;> intro b hb <;> cases r <;>
    simp only [byte1, Ref.encode, Reg.num, Option.some.injEq] at hb <;> subst hb <;> rfl

/-- `LSL r` and `RLC r` are assembled as `ADD r, r` and `ADC r, r`: doubling (with carry-in for RLC). -/
theorem shift_left_semantics (a : Arch) (r : Reg) :
    (∀ b, byte1 (.lsl r) = some b → byte1 (.add r r) = some b) ∧ (∀ b, byte1 (.rlc r) = some b → byte1 (.adc r r) = some b) := by
  refine ⟨?_, ?_⟩ <;> intro b hb <;> cases r <;> simpa [byte1, Ref.encode, Reg.num] using hb

/-- Non-vacuity: `ADD R1, R2` is the byte 0x69. -/
example : byte1 (.add .r1 .r2) = some 0x69 := rfl

end Emu2a.C02
