/-
Assembler + microprogram, end to end: when memory at PC holds the bytes the reference assembler emits
for an instruction, the micro-machine - the regenerated control store driving the data path - goes from
this instruction boundary to a later one in exactly the state the mnemonic describes.
Composition of C02 (`compile_eq_ref`: the translator emits the reference bytes), the decode theorems of
Props/C02x and C01 (`isa_refines`: the microprogram implements `Isa.step`).
-/
import Emu2a.Props.C02x.DecodeMem
import Emu2a.Props.C01
import Emu2a.Props.C07
namespace Emu2a.C02
open Emu2a Emu2a.Asm Emu2a.Isa Gen Emu2a.C01

/-- `LD Rd, const`, as assembled, loads the constant on the micro-machine. -/
theorem ld_const_runs (c : Core) (a : Arch) (h : AtFetch c a) (hint : c.pendInt = false)
    (tbl : Labels) (cur : Nat) (r : Reg) (v : Nat) (bs : List Nat) (hr : general r = true)
    (he : Ref.encode tbl cur (.ldConst r (.num v)) = some bs) (hm : Holds a 0 bs) :
    ∃ n, 0 < n ∧ AtFetch (Core.iter n c) { (a.setReg r.num (BitVec.ofNat 8 v)) with pc := a.pc + 3 } := by
  have hs := ld_const_semantics a tbl cur r v bs hr he hm
  have hc : Covered a := by
    cases r <;> simp [general] at hr <;>
      simp [Ref.encode, Ref.twoOperand, Ref.extraBytes, Ref.ofSrc, Ref.ofDst, Ref.value, Ref.Operand.field, Reg.num] at he <;>
      subst he <;> simp only [Holds] at hm <;> obtain ⟨h0, h1, h2, -⟩ := hm <;>
      simp [Arch.rd] at h0 h1 h2 <;>
      (right; simp [h0, Isa.operand, Arch.reg, Arch.setReg, Arch.rd, add12, h2, definedSecond])
  obtain ⟨n, a', hn, hstep, hf, _⟩ := isa_refines c a h hint hc
  rw [hs] at hstep
  cases hstep
  exact ⟨n, hn, hf⟩

/-- `ADD Rd, Rs`, as assembled, adds on the micro-machine (register values as seen by the instruction:
PC already points behind the opcode byte). -/
theorem add_runs (c : Core) (a : Arch) (h : AtFetch c a) (hint : c.pendInt = false) (d s : Reg) (b : Nat)
    (he : byte1 (.add d s) = some b) (hm : a.rd a.pc = BitVec.ofNat 8 b) :
    let a1 : Arch := { a with pc := a.pc + 1 }
    ∃ n, 0 < n ∧ AtFetch (Core.iter n c)
      { (a1.setReg d.num (a1.reg d.num + a1.reg s.num)) with
        fr := flagsOf a1.fr (decide ((a1.reg d.num).toNat + (a1.reg s.num).toNat ≥ 256)) (a1.reg d.num + a1.reg s.num) } := by
  intro a1
  have hs := (rr_semantics a1 d s).1 b he
  have hb : b < 240 ∧ covered1 b = true := by
    cases d <;> cases s <;> simp only [byte1, Ref.encode, Reg.num, Option.some.injEq] at he <;> subst he <;> decide
  have hc : Covered a := by
    left
    simp only [Arch.rd] at hm
    rw [hm]
    simpa [Nat.mod_eq_of_lt (show b < 256 by omega)] using hb.2
  obtain ⟨n, a', hn, hstep, hf, _⟩ := isa_refines c a h hint hc
  have : Isa.step a = Isa.exec a1 b := by
    unfold Isa.step
    rw [hm]
    simp [Nat.mod_eq_of_lt (show b < 256 by omega), a1]
  rw [this, hs] at hstep
  cases hstep
  exact ⟨n, hn, hf⟩

/-- `JMP label`, as assembled, continues at the label on the micro-machine. -/
theorem jmp_runs (c : Core) (a : Arch) (h : AtFetch c a) (hint : c.pendInt = false)
    (tbl : Labels) (cur : Nat) (l : String) (t : Nat) (bs : List Nat) (ht : tbl.find (lower l) = some t)
    (he : Ref.encode tbl cur (.jmp l) = some bs) (hm : Holds a 0 bs) :
    ∃ n, 0 < n ∧ AtFetch (Core.iter n c) { a with pc := BitVec.ofNat 8 t } := by
  have hs := jmp_semantics a tbl cur l t bs ht he hm
  have hc : Covered a := by
    simp [Ref.encode, ht] at he
    subst he; simp only [Holds] at hm; obtain ⟨h0, h1, h2, -⟩ := hm
    simp [Arch.rd] at h0 h1 h2
    right; simp [h0, Isa.operand, Arch.reg, Arch.setReg, Arch.rd, add12, h2, definedSecond]
  obtain ⟨n, a', hn, hstep, hf, _⟩ := isa_refines c a h hint hc
  rw [hs] at hstep
  cases hstep
  exact ⟨n, hn, hf⟩

theorem holds_of_reads (a : Arch) (bs : List Nat) (k0 : Nat)
    (h : ∀ k (hk : k < bs.length), a.rd (a.pc + BitVec.ofNat 8 (k0 + k)) = BitVec.ofNat 8 bs[k]) : Holds a k0 bs := by
  induction bs generalizing k0 with
  | nil => trivial
  | cons b bs ih =>
    refine ⟨?_, ih (k0 + 1) ?_⟩
    · have := h 0 (by simp)
      simp only [Nat.add_zero, List.getElem_cons_zero] at this
      exact this
    · intro k hk
      have := h (k + 1) (by simp; omega)
      simp only [List.getElem_cons_succ] at this
      rw [show k0 + 1 + k = k0 + (k + 1) by omega]
      exact this

/-- After a program has been loaded, memory from address 0 holds the first bytes of its image: the
hypothesis `Holds` of the decode theorems is what `Machine.load` establishes. -/
theorem holds_after_load (m m' : Machine) (img : List Byte) (ss : Stacksize) (ps : Programsize)
    (h : m.load img ss ps = some m') (bs : List Nat) (rest : List Byte)
    (himg : img = bs.map (BitVec.ofNat 8) ++ rest) (a : Arch) (hb : a.bus = m'.core.bus) (hpc : a.pc = 0#8) :
    Holds a 0 bs := by
  obtain ⟨hlen, hram, -⟩ := C07.load_eq m m' img ss ps h
  apply holds_of_reads
  intro k hk
  have hk' : k < 240 := by
    have : bs.length ≤ img.length := by rw [himg]; simp
    omega
  have hget : img.getD k 0#8 = BitVec.ofNat 8 bs[k] := by
    rw [himg]
    simp [List.getD, List.getElem?_append_left, hk]
  rw [hpc, Arch.rd, hb]
  have hk8 : (0#8 + BitVec.ofNat 8 (0 + k)).toNat = k := by simp; omega
  unfold Bus.read
  simp only [hk8]
  have : k ≤ C.ramTop := by simp [C.ramTop]; omega
  simp only [this, ↓reduceDIte]
  rw [hram k hk', hget]

/-- **Assemble, load, run**: a program image that begins with the reference encoding of `LD Rd, const`,
loaded into any machine (whatever it did before), makes the micro-machine - from its first instruction
boundary at address 0 - arrive at a later boundary with `Rd = const`, PC = 3 and nothing else changed. -/
theorem loaded_ld_const_runs (m m' : Machine) (img : List Byte) (ss : Stacksize) (ps : Programsize)
    (hl : m.load img ss ps = some m') (tbl : Labels) (r : Reg) (v : Nat) (bs : List Nat) (rest : List Byte)
    (hr : general r = true) (he : Ref.encode tbl 0 (.ldConst r (.num v)) = some bs)
    (himg : img = bs.map (BitVec.ofNat 8) ++ rest)
    (c : Core) (a : Arch) (hf : AtFetch c a) (hint : c.pendInt = false) (hb : a.bus = m'.core.bus) (hpc : a.pc = 0#8) :
    ∃ n, 0 < n ∧ AtFetch (Core.iter n c) { (a.setReg r.num (BitVec.ofNat 8 v)) with pc := a.pc + 3 } :=
  ld_const_runs c a hf hint tbl 0 r v bs hr he (holds_after_load m m' img ss ps hl bs rest himg a hb hpc)


/-- `CALL label`, as assembled, pushes the return address and continues at the label on the micro-machine. -/
theorem call_runs (c : Core) (a : Arch) (h : AtFetch c a) (hint : c.pendInt = false)
    (tbl : Labels) (cur : Nat) (l : String) (t : Nat) (bs : List Nat) (ht : tbl.find (lower l) = some t)
    (hram : (a.pc + 1#8).toNat < 240) (hsp : a.sp - 1#8 ≠ a.pc + 1#8)
    (he : Ref.encode tbl cur (.call l) = some bs) (hm : Holds a 0 bs) :
    ∃ n, 0 < n ∧ AtFetch (Core.iter n c) { (push a (a.pc + 2)) with pc := BitVec.ofNat 8 t } := by
  have hs := call_semantics a tbl cur l t bs ht hram hsp he hm
  have hc : Covered a := by
    simp [Ref.encode, ht] at he
    subst he; simp only [Holds] at hm; obtain ⟨h0, -⟩ := hm
    simp [Arch.rd] at h0
    left; rw [h0]; decide
  obtain ⟨n, a', hn, hstep, hf, _⟩ := isa_refines c a h hint hc
  rw [hs] at hstep
  cases hstep
  exact ⟨n, hn, hf⟩

/-- `JR label`, as assembled at address `cur`, continues at the label on the micro-machine. -/
theorem jr_runs (c : Core) (a : Arch) (h : AtFetch c a) (hint : c.pendInt = false)
    (tbl : Labels) (cur : Nat) (l : String) (t : Nat) (bs : List Nat) (ht : tbl.find (lower l) = some t)
    (ht8 : t < 256) (hpc : a.pc = BitVec.ofNat 8 cur)
    (he : Ref.encode tbl cur (.jr l) = some bs) (hm : Holds a 0 bs) :
    ∃ n, 0 < n ∧ AtFetch (Core.iter n c) { a with pc := BitVec.ofNat 8 t } := by
  have hs := (relative_semantics a tbl cur l t ht ht8 hpc).1 bs he hm
  simp only [↓reduceIte] at hs
  have hc : Covered a := by
    simp [Ref.encode, Ref.relative, ht] at he
    subst he; simp only [Holds] at hm; obtain ⟨h0, -⟩ := hm
    simp [Arch.rd] at h0
    left; rw [h0]; decide
  obtain ⟨n, a', hn, hstep, hf, _⟩ := isa_refines c a h hint hc
  rw [hs] at hstep
  cases hstep
  exact ⟨n, hn, hf⟩

end Emu2a.C02
