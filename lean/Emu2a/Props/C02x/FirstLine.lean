/-
C02: the image of a program begins with the encoding of its first instruction - the link between the
per-line statement of `compile_eq_ref` and the memory hypothesis (`Holds`) of the decode theorems.
-/
import Emu2a.Props.C02
namespace Emu2a.C02
open Emu2a Emu2a.Asm

/-- The image of an assembled program begins with the encoding of its first instruction at address 0
(with the program's own symbol table). -/
theorem first_line_bytes (p : Program) (bc : ByteCode) (i : Instr) (c : Option String) (ls : List Line)
    (hp : p.lines = .instr i c :: ls) (h : Ref.assemble p = some bc) :
    ∃ bs rest, Ref.encode (Ref.pass1 0 p.lines).2 0 i = some bs ∧ bc.bytes = bs ++ rest := by
  unfold Ref.assemble at h
  rw [hp] at h ⊢
  simp only [Ref.pass1] at h ⊢
  generalize (Ref.pass1 (0 + Ref.lineSize 0 (Line.instr i c)) ls).snd ++ Ref.defs 0 (Line.instr i c) = tbl at h ⊢
  generalize (Ref.pass1 (0 + Ref.lineSize 0 (Line.instr i c)) ls).fst = as at h
  simp only [Ref.encodeLines, Ref.encodeLine] at h
  cases he : Ref.encode tbl 0 i with
  | none => simp [he] at h
  | some bs =>
    cases hr : Ref.encodeLines tbl ls as with
    | none => simp [he, hr] at h
    | some rest =>
      simp only [he, hr, Option.some.injEq] at h
      subst h
      exact ⟨bs, rest.flatMap (·.2), rfl, by simp [ByteCode.bytes]⟩

/-- ... and so does the image the translator model produces (by `compile_eq_ref`). -/
theorem compiled_first_line_bytes (p : Program) (bc : ByteCode) (i : Instr) (c : Option String) (ls : List Line)
    (hp : p.lines = .instr i c :: ls) (hs : SizesOK 0 p.lines) (h : compile p = .ok bc) :
    ∃ bs rest, Ref.encode (Ref.pass1 0 p.lines).2 0 i = some bs ∧ bc.bytes = bs ++ rest :=
  first_line_bytes p bc i c ls hp (compile_eq_ref p bc hs h)

end Emu2a.C02
