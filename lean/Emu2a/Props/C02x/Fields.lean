/-
C02 / C01 link for EVERY two-operand form (MOV, LD, ST, CMP, BITT, BITS, BITC, LDSP, LDFR, DEC with
any operand shape): the encoder places the addressing mode and the register of each operand exactly
where the instruction-set specification reads them, and the page of the second opcode byte is the
mnemonic's.  `Isa.exec` / `Isa.second` are functions of these three numbers only, so this is the whole
decoding of the operand fields.
-/
import Emu2a.Props.C02x.Decode
namespace Emu2a.C02
open Emu2a Emu2a.Asm Emu2a.Isa

theorem ofSrc_bounds (s : Src) : (Ref.ofSrc s).mode < 4 ∧ (Ref.ofSrc s).reg < 4 := by
  cases s with
  | reg r => cases r <;> simp [Ref.ofSrc, Reg.num]
  | mem m => cases m with
    | const c => simp [Ref.ofSrc]
    | reg r => cases r <;> simp [Ref.ofSrc, Reg.num]
  | const c => simp [Ref.ofSrc]
  | di r => cases r <;> simp [Ref.ofSrc, Reg.num]
  | ddi r => cases r <;> simp [Ref.ofSrc, Reg.num]

theorem ofDst_bounds (d : Dst) : (Ref.ofDst d).mode < 4 ∧ (Ref.ofDst d).reg < 4 := by
  cases d with
  | reg r => cases r <;> simp [Ref.ofDst, Reg.num]
  | mem m => cases m with
    | const c => simp [Ref.ofDst]
    | reg r => cases r <;> simp [Ref.ofDst, Reg.num]
  | di r => cases r <;> simp [Ref.ofDst, Reg.num]
  | ddi r => cases r <;> simp [Ref.ofDst, Reg.num]

/-- The prefix byte `0xF0 + field` is on page 15 and carries the source's mode and register. -/
theorem first_byte_decodes (o : Ref.Operand) (h : o.mode < 4 ∧ o.reg < 4) :
    0xF0 + o.field < 256 ∧ (0xF0 + o.field) / 16 = 15 ∧ (0xF0 + o.field) / 4 % 4 = o.mode ∧ (0xF0 + o.field) % 4 = o.reg := by
  unfold Ref.Operand.field; omega

/-- The second byte `b2 + field` stays on the page of `b2` and carries the destination's mode and register. -/
theorem second_byte_decodes (b2 : Nat) (hb : b2 % 16 = 0) (o : Ref.Operand) (h : o.mode < 4 ∧ o.reg < 4) :
    (b2 + o.field) / 16 = b2 / 16 ∧ (b2 + o.field) / 4 % 4 = o.mode ∧ (b2 + o.field) % 4 = o.reg := by
  unfold Ref.Operand.field; omega

/-- Executing the prefix byte of any two-operand form fetches the source operand with the encoded mode
and register and hands its value to the second opcode byte found behind it. -/
theorem exec_prefix (a1 : Arch) (o : Ref.Operand) (h : o.mode < 4 ∧ o.reg < 4) :
    Isa.exec a1 (0xF0 + o.field) =
      Isa.second { (Isa.operand a1 o.mode o.reg).1 with pc := (Isa.operand a1 o.mode o.reg).1.pc + 1 }
        ((Isa.operand a1 o.mode o.reg).1.rd (Isa.operand a1 o.mode o.reg).1.pc).toNat (Isa.operand a1 o.mode o.reg).2.1 := by
  obtain ⟨m, r, e⟩ := o
  obtain ⟨hm, hr⟩ := h
  simp only at hm hr
  have : m = 0 ∨ m = 1 ∨ m = 2 ∨ m = 3 := by omega
  have : r = 0 ∨ r = 1 ∨ r = 2 ∨ r = 3 := by omega
  rcases ‹m = 0 ∨ _› with rfl | rfl | rfl | rfl <;> rcases ‹r = 0 ∨ _› with rfl | rfl | rfl | rfl <;>
    simp [Ref.Operand.field, Isa.exec, Isa.operand]

/-- Every two-operand encoding has the shape prefix byte, source byte (if any), second byte, destination
byte (if any), with the mnemonic's page in the second byte. -/
theorem twoOperand_shape (tbl : Labels) (b2 : Nat) (d s : Ref.Operand) (bs : List Nat)
    (he : Ref.twoOperand tbl b2 d s = some bs) :
    ∃ se de, Ref.extraBytes tbl s = some se ∧ Ref.extraBytes tbl d = some de ∧
      bs = [0xF0 + s.field] ++ se ++ [b2 + d.field] ++ de := by
  unfold Ref.twoOperand at he
  cases hs : Ref.extraBytes tbl s with
  | none => simp [hs] at he
  | some se =>
    cases hd : Ref.extraBytes tbl d with
    | none => simp [hs, hd] at he
    | some de =>
      simp [hs, hd] at he
      exact ⟨se, de, rfl, rfl, by simp [← he]⟩

end Emu2a.C02
