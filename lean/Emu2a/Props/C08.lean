/-
C08 — the ALU computes its documented function and flags for every input.
`alu_eq_spec` covers all 16 functions × all operands × carry-in.
-/
import Emu2a.Spec.AluSpec
import Emu2a.Lemmas.Fin
namespace Emu2a.C08
open Emu2a

theorem z_iff : ∀ o : Byte, (o == 0#8) = decide (o.toNat = 0) := by
  apply byte_cases; decide +kernel

theorem n_iff : ∀ o : Byte, ((o &&& 0x80#8) != 0#8) = decide (o.toNat ≥ 128) := by
  apply byte_cases; decide +kernel

/-- Flags are a function of the result: it suffices to compare result and carry. -/
theorem alu_eq_of_raw {f : Nat} {a b : Byte} {c : Bool} (h : aluRaw f a b c = aluSpecRaw f a b c) :
    alu f a b c = aluSpec f a b c := by
  simp only [alu, aluSpec, h, z_iff, n_iff]

theorem ofNat_add (a b : Byte) : BitVec.ofNat 8 (a.toNat + b.toNat) = a + b := by
  apply BitVec.eq_of_toNat_eq; simp [BitVec.toNat_add]

theorem ofNat_add3 (a b : Byte) (k : Nat) (hk : k < 256) :
    BitVec.ofNat 8 (a.toNat + b.toNat + k) = a + b + BitVec.ofNat 8 k := by
  apply BitVec.eq_of_toNat_eq; simp [BitVec.toNat_add, Nat.mod_eq_of_lt hk]

/-- Carry of a chained `overflowing_add`: at most one of the two additions overflows, and one does
exactly when the three-term sum exceeds 255. -/
theorem carry_chain (a b : Byte) (k : Nat) (hk : k ≤ 1) :
    (decide (a.toNat + b.toNat ≥ 256) || decide ((a + b).toNat + k ≥ 256))
      = decide (a.toNat + b.toNat + k ≥ 256) := by
  have ha := a.isLt; have hb := b.isLt
  rw [BitVec.toNat_add]
  by_cases h : a.toNat + b.toNat ≥ 256
  · have : (a.toNat + b.toNat) % 2 ^ 8 = a.toNat + b.toNat - 256 := by omega
    simp [h, this]; omega
  · have : (a.toNat + b.toNat) % 2 ^ 8 = a.toNat + b.toNat := by omega
    simp [h, this]

theorem shifts (f : Nat) (hf : f = 8 ∨ f = 9 ∨ f = 10 ∨ f = 11) (c : Bool) :
    ∀ a : Byte, ∀ b : Byte, aluRaw f a b c = aluSpecRaw f a b c := by
  intro a b
  have key : ∀ a : Byte, aluRaw f a 0#8 c = aluSpecRaw f a 0#8 c := by
    rcases hf with h | h | h | h <;> subst h <;> cases c <;> (apply byte_cases; decide +kernel)
  have indep : ∀ b : Byte, aluRaw f a b c = aluRaw f a 0#8 c ∧ aluSpecRaw f a b c = aluSpecRaw f a 0#8 c := by
    intro b
    rcases hf with h | h | h | h <;> subst h <;> simp [aluRaw, aluSpecRaw]
  rw [(indep b).1, (indep b).2, key]

theorem nor_eq (a b : Byte) : ~~~(a ||| b) = BitVec.ofNat 8 (255 - (a.toNat ||| b.toNat)) := by
  apply BitVec.eq_of_toNat_eq
  have h : (a.toNat ||| b.toNat) < 2 ^ 8 := Nat.or_lt_two_pow a.isLt b.isLt
  simp only [BitVec.toNat_not, BitVec.toNat_or, BitVec.toNat_ofNat]
  omega

/-- **C08**: for each of the 16 ALU functions, every operand pair and carry-in, the model of
`AluOutput::from_input` equals the documented arithmetic function, including carry, zero and negative. -/
theorem alu_eq_spec (f : Nat) (hf : f < 16) (a b : Byte) (c : Bool) : alu f a b c = aluSpec f a b c := by
  apply alu_eq_of_raw
  have hcases : f = 0 ∨ f = 1 ∨ f = 2 ∨ f = 3 ∨ f = 4 ∨ f = 5 ∨ f = 6 ∨ f = 7 ∨ f = 8 ∨ f = 9 ∨ f = 10
      ∨ f = 11 ∨ f = 12 ∨ f = 13 ∨ f = 14 ∨ f = 15 := by omega
  rcases hcases with h | h | h | h | h | h | h | h | h | h | h | h | h | h | h | h
  · -- ADDH
    subst h; simp [aluRaw, aluSpecRaw, ovAdd, ofNat_add, Bool.or_comm]
  · subst h; simp [aluRaw, aluSpecRaw]
  · subst h; simp [aluRaw, aluSpecRaw, nor_eq]
  · subst h; simp [aluRaw, aluSpecRaw]
  · subst h; simp [aluRaw, aluSpecRaw, ovAdd, ofNat_add]
  · -- ADDS
    subst h
    have := carry_chain a b 1 (by omega)
    simp [aluRaw, aluSpecRaw, ovAdd, ofNat_add3 a b 1 (by omega)] at this ⊢
    first | simpa using this | (rw [← this]; simp) | (intros; omega)
  · -- ADC
    subst h
    cases c
    · have := carry_chain a b 0 (by omega)
      simp [aluRaw, aluSpecRaw, ovAdd, boolByte, ofNat_add] at this ⊢
      first | simpa using this | (rw [← this]; simp) | (intros; omega)
    · have := carry_chain a b 1 (by omega)
      simp [aluRaw, aluSpecRaw, ovAdd, boolByte, ofNat_add3 a b 1 (by omega)] at this ⊢
      first | simpa using this | (rw [← this]; simp) | (intros; omega)
  · -- ADCS
    subst h
    cases c
    · have := carry_chain a b 1 (by omega)
      simp [aluRaw, aluSpecRaw, ovAdd, boolByte, ofNat_add3 a b 1 (by omega)] at this ⊢
      first | simpa using this | (rw [← this]; simp) | (intros; omega)
    · have := carry_chain a b 0 (by omega)
      simp [aluRaw, aluSpecRaw, ovAdd, boolByte, ofNat_add] at this ⊢
      first | simpa using this | (rw [← this]; simp) | (intros; omega)
  · exact shifts f (by omega) c a b
  · exact shifts f (by omega) c a b
  · exact shifts f (by omega) c a b
  · exact shifts f (by omega) c a b
  · subst h; simp [aluRaw, aluSpecRaw]
  · subst h; simp [aluRaw, aluSpecRaw]
  · subst h; simp [aluRaw, aluSpecRaw]
  · subst h; simp [aluRaw, aluSpecRaw]

end Emu2a.C08
