/-
C02 — the assembler output equals the reference encoding, layout and label resolution.
The one-pass translator with placeholders (model of compiler.rs) refines the two-pass reference.
-/
import Emu2a.Spec.EncodeRef
namespace Emu2a.C02
open Emu2a.Asm Emu2a.Asm.Ref

abbrev res := resolve
abbrev resAll := resolveAll

theorem resAll_nil (tbl : Labels) : resAll tbl [] = some [] := rfl
theorem resAll_cons (tbl : Labels) (b : BOL) (bs : List BOL) :
    resAll tbl (b :: bs) = (res tbl b).bind fun v => (resAll tbl bs).map fun vs => v :: vs := by
  simp only [resAll, res, resolveAll]
  cases resolve tbl b <;> cases resolveAll tbl bs <;> rfl

theorem resAll_append (tbl : Labels) (xs ys : List BOL) :
    resAll tbl (xs ++ ys) = (resAll tbl xs).bind fun a => (resAll tbl ys).map fun b => a ++ b := by
  induction xs with
  | nil => simp [resAll_nil]
  | cons x xs ih =>
    simp only [List.cons_append, resAll_cons, ih]
    cases res tbl x <;> simp
    cases resAll tbl xs <;> simp
    cases resAll tbl ys <;> simp

theorem res_byte (tbl : Labels) (n : Nat) : res tbl (.byte n) = some n := rfl
theorem res_label (tbl : Labels) (l : String) : res tbl (.label l) = tbl.find (lower l) := rfl
theorem res_rel (tbl : Labels) (l : String) (cur : Nat) :
    res tbl (.rel l cur) = (tbl.find (lower l)).map fun t => (t + 256 - (cur + 2) % 256) % 256 := rfl

theorem resAll_bytes (tbl : Labels) (ns : List Nat) : resAll tbl (ns.map .byte) = some ns := by
  induction ns with
  | nil => rfl
  | cons n ns ih => simp [resAll_cons, res_byte, ih]

theorem resAll_words (tbl : Labels) (ws : List Nat) :
    resAll tbl (ws.flatMap fun w => [BOL.byte (w / 256), BOL.byte (w % 256)]) =
      some (ws.flatMap fun w => [w / 256, w % 256]) := by
  induction ws with
  | nil => rfl
  | cons w ws ih => simp [List.flatMap_cons, resAll_cons, res_byte, ih]

theorem resAll_replicate (tbl : Labels) (k : Nat) : resAll tbl (List.replicate k (.byte 0)) = some (List.replicate k 0) := by
  have := resAll_bytes tbl (List.replicate k 0)
  simpa using this

theorem res_const (tbl : Labels) (c : Const) : res tbl (constBOL c) = value tbl c := by
  cases c <;> simp [constBOL, value, res_byte, res_label]

theorem srcExtra_res (tbl : Labels) (s : Src) : resAll tbl (srcExtra s) = extraBytes tbl (ofSrc s) := by
  cases s with
  | mem m => cases m <;> simp [srcExtra, ofSrc, extraBytes, resAll_cons, resAll_nil, res_const] <;>
      (cases value tbl _ <;> simp)
  | const c => simp [srcExtra, ofSrc, extraBytes, resAll_cons, resAll_nil, res_const]; cases value tbl c <;> simp
  | _ => simp [srcExtra, ofSrc, extraBytes, resAll_nil]

theorem dstExtra_res (tbl : Labels) (d : Dst) : resAll tbl (dstExtra d) = extraBytes tbl (ofDst d) := by
  cases d with
  | mem m => cases m <;> simp [dstExtra, ofDst, extraBytes, resAll_cons, resAll_nil, res_const] <;>
      (cases value tbl _ <;> simp)
  | _ => simp [dstExtra, ofDst, extraBytes, resAll_nil]

theorem src_field (s : Src) : srcMode s * 4 + srcReg s = (ofSrc s).field := by
  cases s with
  | mem m => cases m <;> simp [srcMode, srcReg, ofSrc, Operand.field] <;> omega
  | _ => simp [srcMode, srcReg, ofSrc, Operand.field] <;> omega
theorem dst_field (d : Dst) : dstMode d * 4 + dstReg d = (ofDst d).field := by
  cases d with
  | mem m => cases m <;> simp [dstMode, dstReg, ofDst, Operand.field] <;> omega
  | _ => simp [dstMode, dstReg, ofDst, Operand.field] <;> omega

theorem twoOp_res (tbl : Labels) (b2 : Nat) (d : Dst) (s : Src) :
    resAll tbl (twoOp 0xF0 b2 d s) = twoOperand tbl b2 (ofDst d) (ofSrc s) := by
  simp only [twoOp, resAll_append, resAll_cons, resAll_nil, res_byte, srcExtra_res, dstExtra_res, twoOperand,
    src_field, dst_field]
  have h1 := src_field s
  have h2 := dst_field d
  cases extraBytes tbl (ofSrc s) <;> cases extraBytes tbl (ofDst d) <;> simp <;> omega

/-- **Encoding**: substituting the symbol table into the translator's placeholders gives exactly the
reference encoding of the instruction at that address, for every instruction form and operand shape. -/
theorem bols_encode (tbl : Labels) (cur : Nat) (i : Instr) : resAll tbl (bols i cur) = encode tbl cur i := by
  cases i <;>
    simp [bols, encode, twoReg, relJump, srcOp, resAll_cons, resAll_nil, resAll_append, res_byte, res_label, res_rel,
      resAll_bytes, resAll_replicate, twoOp_res, srcExtra_res, src_field, relative, Nat.mul_comm]
  all_goals first
    | rfl
    | exact resAll_words tbl _
    | (cases (Labels.find tbl _) <;> simp)
    | (rename_i s; have h1 := src_field s; cases extraBytes tbl _ <;> simp <;> omega)
    | skip


theorem words_len (ws : List Nat) :
    (ws.flatMap fun w => [BOL.byte (w / 256), BOL.byte (w % 256)]).length = 2 * ws.length := by
  induction ws with
  | nil => rfl
  | cons w ws ih => simp only [List.flatMap_cons, List.length_append, ih, List.length_cons, List.length_nil]; omega

/-- **Layout**: every instruction form occupies exactly the documented number of bytes. -/
theorem bols_length (cur : Nat) (i : Instr) : (bols i cur).length = size cur i := by
  cases i
  case dw ws => exact words_len ws
  all_goals simp [bols, size, twoReg, relJump, srcOp, twoOp, Operand.len]
  all_goals first
    | (rename_i s; cases s <;> simp [srcExtra, ofSrc] <;> (rename_i m; cases m <;> simp [srcExtra, ofSrc]))
    | (rename_i d s; cases s <;> cases d <;> simp [srcExtra, dstExtra, ofSrc, ofDst] <;>
        (try (rename_i m; cases m <;> simp [srcExtra, dstExtra, ofSrc, ofDst])) <;>
        (try (rename_i m1 m2; cases m1 <;> cases m2 <;> simp [srcExtra, dstExtra, ofSrc, ofDst])) <;> omega)
    | (rename_i c; simp [srcExtra, ofSrc])
    | (rename_i m; cases m <;> simp [srcExtra, dstExtra, ofSrc, ofDst])
    | (rename_i m r; cases m <;> simp [srcExtra, dstExtra, ofSrc, ofDst])
    | (rename_i r m; cases m <;> simp [srcExtra, dstExtra, ofSrc, ofDst])
    | omega
    | skip


/-! ### The one-pass fold against the two-pass layout -/

def lineBols (cur : Nat) : Line → List BOL
  | .instr i _ => bols i cur
  | _ => []

/-- Lines with their placeholders at the addresses pass 1 assigns. -/
def bolLines : Nat → List Line → List (Line × List BOL)
  | _, [] => []
  | cur, l :: ls => (l, lineBols cur l) :: bolLines (cur + lineSize cur l) ls

def setStep (sp : SSize × PSize) (l : Line) : SSize × PSize :=
  match l with
  | .instr (.stacksize x) _ => (x, sp.2)
  | .instr (.programsize x) _ => (sp.1, x)
  | _ => sp

theorem lineBols_length (cur : Nat) (l : Line) : (lineBols cur l).length = lineSize cur l := by
  cases l <;> simp [lineBols, lineSize, bols_length]

theorem sideEffect_fields (t : TState) (i : Instr) :
    (sideEffect t i).next = t.next ∧ (sideEffect t i).out = t.out ∧
    (sideEffect t i).labels = defs t.next (.instr i none) ++ t.labels ∧
    ((sideEffect t i).ss, (sideEffect t i).ps) = setStep (t.ss, t.ps) (.instr i none) := by
  cases i <;> simp [sideEffect, defs, setStep]

theorem defs_cmt (cur : Nat) (i : Instr) (c : Option String) : defs cur (.instr i c) = defs cur (.instr i none) := by
  cases i <;> rfl
theorem setStep_cmt (sp : SSize × PSize) (i : Instr) (c : Option String) :
    setStep sp (.instr i c) = setStep sp (.instr i none) := by
  cases i <;> rfl

/-- What one successful `push` does (for a line shorter than 256 bytes). -/
theorem push_ok (t t' : TState) (l : Line) (hsz : lineSize t.next l < 256) (h : push t l = .ok t') :
    t'.next = t.next + lineSize t.next l ∧ t'.labels = defs t.next l ++ t.labels ∧
    t'.out = t.out ++ [(l, lineBols t.next l)] ∧ (t'.ss, t'.ps) = setStep (t.ss, t.ps) l := by
  cases l with
  | empty c => simp [push] at h; subst h; simp [lineSize, defs, lineBols, setStep]
  | label n c => simp [push] at h; subst h; simp [lineSize, defs, lineBols, setStep]
  | instr i c =>
    simp only [push] at h
    have hlen := bols_length t.next i
    simp only [lineSize] at hsz
    have hmod : (bols i t.next).length % 256 = size t.next i := by rw [hlen]; exact Nat.mod_eq_of_lt hsz
    by_cases h1 : orgBack t i = true
    · simp [h1] at h
    · simp only [h1, Bool.false_eq_true, ↓reduceIte] at h
      by_cases h2 : t.next + (bols i t.next).length % 256 ≥ 256
      · simp [h2] at h
      · simp only [h2, ↓reduceIte] at h
        injection h with h
        subst h
        obtain ⟨e1, e2, e3, e4⟩ := sideEffect_fields t i
        refine ⟨by simp [lineSize, hmod], by simp [e3, defs_cmt], by simp [lineBols], ?_⟩
        simp only [setStep_cmt _ i c]
        exact e4

/-- The pushes fail exactly on a backward `.ORG` or an overflow of the 8-bit address counter. -/
theorem push_error (t : TState) (l : Line) (e : Panic) (h : push t l = .error e) :
    e = .orgBackwards ∨ e = .addrOverflow := by
  cases l with
  | empty c => simp [push] at h
  | label n c => simp [push] at h
  | instr i c =>
    simp only [push] at h
    by_cases h1 : orgBack t i = true
    · simp [h1] at h; exact Or.inl h.symm
    · simp only [h1, Bool.false_eq_true, ↓reduceIte] at h
      by_cases h2 : t.next + (bols i t.next).length % 256 ≥ 256
      · simp [h2] at h; exact Or.inr h.symm
      · simp [h2] at h


/-- Every line is shorter than 256 bytes along the layout (true for every image that fits the RAM). -/
def SizesOK : Nat → List Line → Prop
  | _, [] => True
  | cur, l :: ls => lineSize cur l < 256 ∧ SizesOK (cur + lineSize cur l) ls

theorem fold_ok (ls : List Line) (t t' : TState) (hs : SizesOK t.next ls) (h : ls.foldlM push t = .ok t') :
    t'.labels = (pass1 t.next ls).2 ++ t.labels ∧ t'.out = t.out ++ bolLines t.next ls ∧
    (t'.ss, t'.ps) = ls.foldl setStep (t.ss, t.ps) := by
  induction ls generalizing t with
  | nil => simp [List.foldlM] at h; cases h; simp [pass1, bolLines]
  | cons l ls ih =>
    simp only [List.foldlM_cons] at h
    cases hp : push t l with
    | error e => simp [hp] at h; cases h
    | ok t1 =>
      simp only [hp] at h
      obtain ⟨e1, e2, e3, e4⟩ := push_ok t t1 l hs.1 hp
      have := ih t1 (by rw [e1]; exact hs.2) h
      obtain ⟨i1, i2, i3⟩ := this
      refine ⟨?_, ?_, ?_⟩
      · rw [i1, e1, e2]; simp [pass1]
      · rw [i2, e1, e3]; simp [bolLines]
      · rw [i3, e4]; simp

/-- Resolving all lines of the translator's output = encoding all lines in pass 2. -/
theorem resolve_lines (tbl : Labels) (cur : Nat) (ls : List Line) :
    resolveLines tbl (bolLines cur ls) = encodeLines tbl ls (pass1 cur ls).1 := by
  induction ls generalizing cur with
  | nil => rfl
  | cons l ls ih =>
    have henc : resolveAll tbl (lineBols cur l) = encodeLine tbl cur l := by
      cases l <;> simp [lineBols, encodeLine, resolveAll]
      exact bols_encode tbl cur _
    simp only [bolLines, pass1, resolveLines, encodeLines, ih, henc]
    cases encodeLine tbl cur l <;> cases encodeLines tbl ls (pass1 (cur + lineSize cur l) ls).1 <;> rfl

theorem settings_eq (ls : List Line) : settings ls = ls.foldl setStep (.s16, .auto) := by
  unfold settings
  congr 1

/-- **C02**: whenever the translator produces byte code for a program whose lines are shorter than
256 bytes, it is exactly the reference assembly: every source line with exactly the bytes of its
documented encoding at the address given by the layout from 0, every label / .EQU reference replaced
by the (last) definition of that name compared case-insensitively, relative jumps carrying
target - (address of the next instruction) mod 256, and the last *STACKSIZE / *PROGRAMSIZE settings. -/
theorem compile_eq_ref (p : Program) (bc : ByteCode) (hs : SizesOK 0 p.lines) (h : compile p = .ok bc) :
    assemble p = some bc := by
  unfold compile at h
  cases hf : p.lines.foldlM push TState.init with
  | error e => simp [hf] at h
  | ok t =>
    simp only [hf] at h
    obtain ⟨e1, e2, e3⟩ := fold_ok p.lines TState.init t hs hf
    simp only [TState.init, List.append_nil, List.nil_append] at e1 e2 e3
    unfold finish at h
    rw [e2, e1, resolve_lines] at h
    unfold assemble
    simp only
    cases hm : encodeLines (pass1 0 p.lines).2 p.lines (pass1 0 p.lines).1 with
    | none => simp [hm] at h
    | some r =>
      simp only [hm] at h
      injection h with h
      subst h
      have hset := settings_eq p.lines
      rw [← e3] at hset
      simp [hset]

/-- The byte image is the concatenation of the lines' encodings from address 0. -/
theorem image_concat (bc : ByteCode) : bc.bytes = bc.lines.flatMap (·.2) := rfl

/-- Translation fails only by one of the three panics. -/
theorem compile_error (p : Program) (e : Panic) (h : compile p = .error e) :
    e = .orgBackwards ∨ e = .addrOverflow ∨ e = .undefinedLabel := by
  unfold compile at h
  cases hf : p.lines.foldlM push TState.init with
  | error e' =>
    simp only [hf] at h
    injection h with h; subst h
    have : ∀ (ls : List Line) (t : TState), ls.foldlM push t = .error e' → e' = .orgBackwards ∨ e' = .addrOverflow := by
      intro ls
      induction ls with
      | nil => intro t ht; simp [List.foldlM] at ht; cases ht
      | cons l ls ih =>
        intro t ht
        simp only [List.foldlM_cons] at ht
        cases hp : push t l with
        | error e2 => simp only [hp] at ht; injection ht with ht; subst ht; exact push_error t l _ hp
        | ok t1 => simp only [hp] at ht; exact ih t1 ht
    rcases this _ _ hf with h1 | h1
    · exact Or.inl h1
    · exact Or.inr (Or.inl h1)
  | ok t =>
    simp only [hf] at h
    unfold finish at h
    split at h
    · cases h
    · injection h with h; right; right; exact h.symm

end Emu2a.C02
