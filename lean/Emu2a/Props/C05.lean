/-
C05 — stack/PC supervision and the halt states are exact and absorbing.
All statements are about `Machine.clockEdge` / the op alphabet, for every stack size, every program
size, every control store content (the proofs never look at a concrete control word).
-/
import Emu2a.Model.Ops
import Emu2a.Spec.Supervision
import Emu2a.Lemmas.Fin
namespace Emu2a.C05
open Emu2a Machine

/-- The supervised registers are valid. -/
def Valid (m : Machine) : Prop :=
  spValid m.ss m.core.regs.r5 = true ∧ pcValid m.ps m.core.regs.r3 = true

/-- Invariant: a machine that is not error-stopped (Running, or Stopped and able to continue) has a
valid stack pointer and program counter. -/
def Inv (m : Machine) : Prop := m.run ≠ .error → Valid m

/-! ### Band lemmas: the forbidden band of every stack size, with the numbers of the source -/

theorem spValid_s0 (sp : Byte) : spValid .s0 sp = true ↔ sp.toNat < 0xF0 := by
  simp [spValid]
theorem spValid_s16 (sp : Byte) : spValid .s16 sp = true ↔ sp.toNat < 0xF0 ∧ ¬ (0xD1 ≤ sp.toNat ∧ sp.toNat ≤ 0xDE) := by
  simp [spValid]; omega
theorem spValid_s32 (sp : Byte) : spValid .s32 sp = true ↔ sp.toNat < 0xF0 ∧ ¬ (0xC1 ≤ sp.toNat ∧ sp.toNat ≤ 0xCE) := by
  simp [spValid]; omega
theorem spValid_s48 (sp : Byte) : spValid .s48 sp = true ↔ sp.toNat < 0xF0 ∧ ¬ (0xB1 ≤ sp.toNat ∧ sp.toNat ≤ 0xBE) := by
  simp [spValid]; omega
theorem spValid_s64 (sp : Byte) : spValid .s64 sp = true ↔ sp.toNat < 0xF0 ∧ ¬ (0xA1 ≤ sp.toNat ∧ sp.toNat ≤ 0xAE) := by
  simp [spValid]; omega
theorem pcValid_size (n : Nat) (pc : Byte) : pcValid (.size n) pc = true ↔ pc.toNat ≤ n := by
  simp [pcValid]

theorem spValid_zero (ss : Stacksize) : spValid ss 0#8 = true := by
  cases ss <;> simp [spValid]
theorem pcValid_zero (ps : Programsize) : pcValid ps 0#8 = true := by
  cases ps <;> simp [pcValid]

/-! ### Halt states are absorbing for clock edges -/

/-- Once stopped or error-stopped, a clock edge changes nothing at all. -/
theorem halt_absorbing (m : Machine) (h : m.run ≠ .running) : clockEdge m = m := by
  simp [clockEdge, h]

theorem halt_absorbing_iter (m : Machine) (h : m.run ≠ .running) (n : Nat) :
    Nat.rec (motive := fun _ => Machine) m (fun _ acc => clockEdge acc) n = m := by
  induction n with
  | zero => rfl
  | succ n ih => simp only [ih]; exact halt_absorbing m h

/-- A pending memory wait only consumes the edge. -/
theorem wait_edge (m : Machine) (h : m.run = .running) (hw : m.wait = true) :
    clockEdge m = { m with wait := false } := by
  simp [clockEdge, h, hw]

/-! ### Exactness of the error stop and the regular stop -/

/-- The register write committed at the start of this edge breaks a supervision rule. -/
def writeBreaks (m : Machine) : Prop :=
  m.core.pendReg.isSome = true ∧
    (spValid m.ss m.core.applyPending.regs.r5 = false ∨ pcValid m.ps m.core.applyPending.regs.r3 = false)

/-- This edge loads the instruction register with byte `b`. -/
def loads (m : Machine) (b : Nat) : Prop :=
  Core.irAct (Gen.word m.core.addr) = .load ∧ m.core.lastBus.toNat = b

theorem applyPending_addr (c : Core) : c.applyPending.addr = c.addr := by
  simp [Core.applyPending]
theorem applyPending_lastBus (c : Core) : c.applyPending.lastBus = c.lastBus := by
  simp [Core.applyPending]

theorem exec_run (m : Machine) :
    (exec m).run = superviseFetch m.core.applyPending (superviseWrite m m.core.applyPending) := by
  simp [exec]

/-- **Error stop, exactly**: a running machine error-stops at an edge iff that edge is executed
(no wait pending) and commits a register write that breaks a rule, or loads opcode 0x00. -/
theorem error_iff (m : Machine) (hr : m.run = .running) :
    (clockEdge m).run = .error ↔ (m.wait = false ∧ (writeBreaks m ∨ loads m 0)) := by
  unfold clockEdge
  simp only [hr, ne_eq, not_true_eq_false, ↓reduceIte]
  by_cases hw : m.wait = true
  · simp [hw]
  · have hw' : m.wait = false := by simpa using hw
    simp only [hw', Bool.false_eq_true, ↓reduceIte, true_and, exec_run]
    unfold superviseFetch superviseWrite writeBreaks loads
    rw [applyPending_addr, applyPending_lastBus, hr]
    cases hact : Core.irAct (Gen.word m.core.addr) <;> cases hp : m.core.pendReg.isSome <;>
      cases hsp : spValid m.ss m.core.applyPending.regs.r5 <;>
      cases hpc : pcValid m.ps m.core.applyPending.regs.r3 <;>
      simp [Gen.C.opError, Gen.C.opStop] <;> (try omega) <;>
      (by_cases h0 : m.core.lastBus.toNat = 0 <;> by_cases h1 : m.core.lastBus.toNat = 1 <;> simp [h0, h1] <;> omega)

/-- **Regular stop, exactly**: a running machine stops regularly at an edge iff that edge is executed,
loads opcode 0x01 and does not at the same time commit a rule-breaking register write. -/
theorem stop_iff (m : Machine) (hr : m.run = .running) :
    (clockEdge m).run = .stopped ↔ (m.wait = false ∧ loads m 1 ∧ ¬ writeBreaks m) := by
  unfold clockEdge
  simp only [hr, ne_eq, not_true_eq_false, ↓reduceIte]
  by_cases hw : m.wait = true
  · simp [hw]
  · have hw' : m.wait = false := by simpa using hw
    simp only [hw', Bool.false_eq_true, ↓reduceIte, true_and, exec_run]
    unfold superviseFetch superviseWrite writeBreaks loads
    rw [applyPending_addr, applyPending_lastBus, hr]
    cases hact : Core.irAct (Gen.word m.core.addr) <;> cases hp : m.core.pendReg.isSome <;>
      cases hsp : spValid m.ss m.core.applyPending.regs.r5 <;>
      cases hpc : pcValid m.ps m.core.applyPending.regs.r3 <;>
      simp [Gen.C.opError, Gen.C.opStop] <;> (try omega) <;>
      (by_cases h0 : m.core.lastBus.toNat = 0 <;> by_cases h1 : m.core.lastBus.toNat = 1 <;> simp [h0, h1] <;> omega)


/-! ### The invariant: Running (or Stopped) implies valid SP and PC -/

theorem execWord_regs (c : Core) : (Core.execWord c).1.regs = c.regs := by
  simp [Core.execWord]
theorem updateWord_regs (c : Core) : (Core.updateWord c).regs = c.regs := by
  simp [Core.updateWord]
theorem updateIr_regs (c : Core) : (Core.updateIr c).regs = c.regs := by
  unfold Core.updateIr; split <;> simp

theorem exec_regs (m : Machine) : (exec m).core.regs = m.core.applyPending.regs := by
  simp [exec, execWord_regs, updateWord_regs, updateIr_regs]

theorem exec_ss_ps (m : Machine) : (exec m).ss = m.ss ∧ (exec m).ps = m.ps := by
  simp [exec]

theorem superviseFetch_error (c : Core) : superviseFetch c .error = .error := by
  unfold superviseFetch; split <;> simp

theorem superviseFetch_ne_error (c : Core) (r : RunState) (h : superviseFetch c r ≠ .error) : r ≠ .error := by
  intro e; subst e; exact h (superviseFetch_error c)

/-- Registers 3 and 5 only change through a committed register write. -/
theorem applyPending_no_write (c : Core) (h : c.pendReg.isSome = false) :
    c.applyPending.regs.r5 = c.regs.r5 ∧ c.applyPending.regs.r3 = c.regs.r3 := by
  have : c.pendReg = none := by cases hp : c.pendReg <;> simp_all
  unfold Core.applyPending
  simp only [this]
  split <;> simp

theorem inv_exec (m : Machine) (hi : Inv m) (hr : m.run = .running) : Inv (exec m) := by
  intro hne
  have hrun := exec_run m
  rw [hrun] at hne
  have h1 := superviseFetch_ne_error _ _ hne
  unfold Valid
  rw [exec_regs, (exec_ss_ps m).1, (exec_ss_ps m).2]
  unfold superviseWrite at h1
  cases hp : m.core.pendReg.isSome
  · have := applyPending_no_write m.core hp
    rw [this.1, this.2]
    exact hi (by rw [hr]; decide)
  · simp only [hp, ↓reduceIte] at h1
    cases hsp : spValid m.ss m.core.applyPending.regs.r5 <;>
      cases hpc : pcValid m.ps m.core.applyPending.regs.r3 <;> simp_all

/-- The invariant is preserved by a clock edge … -/
theorem inv_clockEdge (m : Machine) (hi : Inv m) : Inv (clockEdge m) := by
  unfold clockEdge
  split
  · exact hi
  · split
    · exact hi
    · rename_i h _
      exact inv_exec m hi (by simpa using h)

theorem inv_stepA (fuel : Nat) (m m' : Machine) (hi : Inv m) (h : stepA fuel m = some m') : Inv m' := by
  induction fuel generalizing m with
  | zero => simp [stepA] at h
  | succ n ih =>
    simp only [stepA] at h
    split at h
    · exact ih _ (inv_clockEdge m hi) h
    · injection h with h; subst h; exact hi

theorem inv_stepB (fuel : Nat) (m m' : Machine) (hi : Inv m) (h : stepB fuel m = some m') : Inv m' := by
  induction fuel generalizing m with
  | zero => simp [stepB] at h
  | succ n ih =>
    simp only [stepB] at h
    split at h
    · split at h
      · injection h with h; subst h; exact inv_clockEdge m hi
      · exact ih _ (inv_clockEdge m hi) h
    · injection h with h; subst h; exact hi

theorem inv_new : Inv Machine.new := by
  intro _; exact ⟨by decide, by decide⟩

theorem inv_cpuReset (m : Machine) : Inv (cpuReset m) := by
  intro _
  exact ⟨spValid_zero _, pcValid_zero _⟩

theorem inv_masterReset (m : Machine) : Inv (masterReset m) := by
  intro _
  exact ⟨spValid_zero _, pcValid_zero _⟩

theorem inv_load (m m' : Machine) (img : List Byte) (ss : Stacksize) (ps : Programsize)
    (h : m.load img ss ps = some m') : Inv m' := by
  intro _
  unfold Machine.load at h
  split at h
  · simp at h
  · injection h with h
    subst h
    constructor
    · simp only [mapBus]
      split <;> (split <;> exact spValid_zero _)
    · simp only [mapBus]
      split <;> (split <;> exact pcValid_zero _)

/-- … and by every other operation of the alphabet (keys, resets, loads, inputs, direct bus calls). -/
theorem inv_applyOp (fuel : Nat) (m m' : Machine) (op : MOp) (hi : Inv m) (h : m.applyOp fuel op = some m') :
    Inv m' := by
  cases op <;> simp only [applyOp, Option.some.injEq] at h
  case edge => subst h; exact inv_clockEdge m hi
  case clock =>
    unfold keyClock at h
    split at h
    · injection h with h; subst h; exact inv_clockEdge m hi
    · cases ha : stepA fuel m with
      | none => simp [ha] at h
      | some ma =>
        simp only [ha, Option.bind_some] at h
        exact inv_stepB fuel ma m' (inv_stepA fuel m ma hi ha) h
  case irq => subst h; exact hi
  case cont =>
    subst h; unfold keyContinue
    split
    · rename_i hs; intro _; exact hi (by rw [hs]; decide)
    · exact hi
  case cpuReset => subst h; exact inv_cpuReset m
  case masterReset => subst h; exact inv_masterReset m
  case load img ss ps => exact inv_load m m' img ss ps h
  all_goals (subst h; exact hi)

/-- **C05 (invariant)**: in every state reachable from a new machine by any sequence of operations,
a machine that reports Running (or Stopped) has its stack pointer outside the forbidden band and
below 0xF0, and its program counter within the program size. -/
theorem inv_reachable (fuel : Nat) (ops : List MOp) (m : Machine) (hi : Inv m) :
    ∀ m', ops.foldlM (fun s op => s.applyOp fuel op) m = some m' → Inv m' := by
  induction ops generalizing m with
  | nil => intro m' h; simp at h; subst h; exact hi
  | cons op ops ih =>
    intro m' h
    simp only [List.foldlM_cons] at h
    cases h1 : m.applyOp fuel op with
    | none => simp [h1] at h
    | some m1 =>
      simp only [h1, Option.bind_some] at h
      exact ih m1 (inv_applyOp fuel m m1 op hi h1) m' h

theorem running_valid (fuel : Nat) (ops : List MOp) (m' : Machine)
    (h : ops.foldlM (fun s op => s.applyOp fuel op) Machine.new = some m') (hr : m'.run = .running) :
    Valid m' :=
  inv_reachable fuel ops Machine.new inv_new m' h (by rw [hr]; decide)

/-! ### Leaving a halt state -/

/-- The run state after an op that is not a clock edge, `continue`, a reset or a load is unchanged;
`continue` leaves an error stop alone and turns a regular stop into Running without touching the
core (so execution resumes with the micro-step after the STOP fetch, i.e. the next instruction). -/
theorem leave_halt (fuel : Nat) (m m' : Machine) (op : MOp) (hh : m.run ≠ .running)
    (h : m.applyOp fuel op = some m') :
    (m'.run = m.run) ∨ (op matches .cont) ∨ (op matches .cpuReset) ∨ (op matches .masterReset) ∨ (op matches .load ..) := by
  cases op <;> simp only [applyOp, Option.some.injEq] at h
  case edge => subst h; left; rw [halt_absorbing m hh]
  case clock =>
    left
    unfold keyClock at h
    split at h
    · injection h with h; subst h; rw [halt_absorbing m hh]
    · have ha : stepA fuel m = some m ∨ stepA fuel m = none := by
        cases fuel with
        | zero => right; rfl
        | succ n => left; simp [stepA, hh]
      rcases ha with ha | ha
      · simp only [ha, Option.bind_some] at h
        cases fuel with
        | zero => simp [stepB] at h
        | succ n => simp [stepB, hh] at h; subst h; rfl
      · simp [ha] at h
  case cont => right; left; trivial
  case cpuReset => right; right; left; trivial
  case masterReset => right; right; right; left; trivial
  case load => right; right; right; right; trivial
  all_goals (subst h; left; rfl)

theorem continue_spec (m : Machine) :
    (keyContinue m).core = m.core ∧
    (m.run = .stopped → (keyContinue m).run = .running) ∧
    (m.run ≠ .stopped → keyContinue m = m) := by
  unfold keyContinue
  refine ⟨?_, ?_, ?_⟩
  · split <;> rfl
  · intro h; simp [h]
  · intro h; simp [h]

theorem spOK_eq (ss : Stacksize) (sp : Byte) : SupSpec.spOK ss sp.toNat = spValid ss sp := by
  revert sp
  cases ss <;> (apply byte_cases; decide +kernel)

theorem pcOK_eq (ps : Programsize) (pc : Byte) : SupSpec.pcOK ps pc.toNat = pcValid ps pc := by
  cases ps <;> simp [SupSpec.pcOK, pcValid]

/-- **C05 (exactness)**: the run state after any clock edge is the one the specification prescribes
from the observations around the edge. -/
theorem run_eq_spec (m : Machine) :
    (clockEdge m).run =
      SupSpec.runAfter m.run m.wait m.core.pendReg.isSome (clockEdge m).core.regs.r5.toNat
        (clockEdge m).core.regs.r3.toNat m.ss m.ps
        (decide (Core.irAct (Gen.word m.core.addr) = .load)) m.core.lastBus.toNat := by
  unfold SupSpec.runAfter
  by_cases hr : m.run = .running
  · by_cases hw : m.wait = true
    · simp [clockEdge, hr, hw]
    · have hw' : m.wait = false := by simpa using hw
      have hce : clockEdge m = exec m := by simp [clockEdge, hr, hw']
      rw [hce, exec_run, exec_regs, spOK_eq, pcOK_eq]
      simp only [hr, ne_eq, not_true_eq_false, ↓reduceIte, hw', Bool.false_eq_true]
      unfold superviseFetch superviseWrite
      rw [applyPending_addr, applyPending_lastBus, hr]
      cases hact : Core.irAct (Gen.word m.core.addr) <;> cases hp : m.core.pendReg.isSome <;>
        cases hsp : spValid m.ss m.core.applyPending.regs.r5 <;>
        cases hpc : pcValid m.ps m.core.applyPending.regs.r3 <;>
        simp [Gen.C.opError, Gen.C.opStop] <;>
        (by_cases h0 : m.core.lastBus.toNat = 0 <;> by_cases h1 : m.core.lastBus.toNat = 1 <;> simp [h0, h1] <;> omega)
  · simp [clockEdge, hr]

/-- Non-vacuity: a concrete running machine with a pending write that breaks the stack rule. -/
example : ∃ m : Machine, m.run = .running ∧ m.wait = false ∧ writeBreaks m :=
  ⟨{ Machine.new with core := { Core.new with pendReg := some 5, alu := ⟨0xD5#8, false, false, false⟩ } },
    by decide, by decide, ⟨by decide, Or.inl (by decide)⟩⟩

end Emu2a.C05
