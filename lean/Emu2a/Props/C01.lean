/-
C01 — the CPU executes every emittable instruction exactly per the instruction set.

Per-opcode refinement lemmas are generated (tools/gen_c01.py → Props/C01x/*.lean): for every defined
first byte outside MUL/DIV (186 lemmas `op_XX`), every prefix 0xF0-0xFF (`pre_XX`) and every defined
second byte (`sec_XX`) the data path of the micro-machine, started at an instruction boundary with
ARBITRARY registers (incl. the scratch registers R6/R7), flags, ALU latch and bus, reaches the next
boundary in the architectural state that `Isa.step` prescribes.  The proofs are symbolic execution of
the control store regenerated from the source.  This file assembles them.

FULL STATEMENT (goal):   `isa_refines` for every defined instruction.
PROVED HERE:             `isa_refines_partial` — every defined instruction EXCEPT MUL (0xB0-0xBF) and
                         DIV (0xC0-0xCF), whose data-dependent micro-loops are not yet covered by a
                         theorem; for those the property is carried by the search (thorough tier:
                         all 65 536 operand pairs x carry-in on the real machine against `Isa.step`).
-/
import Emu2a.Props.C01x.All
import Emu2a.Model.Machine
namespace Emu2a.C01
open Emu2a Gen Isa

theorem iter_add (n m : Nat) (c : Core) : Core.iter (n + m) c = Core.iter m (Core.iter n c) := by
  induction n generalizing c with
  | zero => simp
  | succ k ih => rw [Nat.succ_add]; simp [Core.iter_succ, ih]

/-- The interrupt flip-flop is only ever set from outside (`trigger_key_edge_interrupt`). -/
theorem step_pendInt (c : Core) (h : c.pendInt = false) : (Core.step c).1.pendInt = false := by
  simp [Core.step, Core.execWord, Core.updateWord, Core.applyPending, h]
  unfold Core.updateIr
  split <;> simp [h]

theorem iter_pendInt (n : Nat) (c : Core) (h : c.pendInt = false) : (Core.iter n c).pendInt = false := by
  induction n generalizing c with
  | zero => simpa using h
  | succ k ih => rw [Core.iter_succ]; exact ih _ (step_pendInt c h)

/-- First bytes covered by the one-byte lemmas. -/
def covered1 (op : Nat) : Bool := definedFirst op && !isMul op && !isDiv op && decide (op < 0xF0)

theorem one_byte_refines (c : Core) (a : Arch) (h : AtFetch c a) (hint : c.pendInt = false) (op : Nat)
    (hcov : covered1 op = true) (hop : a.bus.read a.pc = BitVec.ofNat 8 op) :
    ∃ n a', Isa.step a = some a' ∧ AtFetch (Core.iter n c) a' := by
  simp only [covered1, definedFirst, isMul, isDiv, Bool.and_eq_true, Bool.not_eq_true', Bool.or_eq_false_iff,
    Bool.and_eq_false_iff, decide_eq_true_eq, decide_eq_false_iff_not] at hcov
  have hpage : op ≤ 15 ∨ (16 ≤ op ∧ op ≤ 31) ∨ (32 ≤ op ∧ op ≤ 47) ∨ (48 ≤ op ∧ op ≤ 63) ∨ (64 ≤ op ∧ op ≤ 75) ∨
      (80 ≤ op ∧ op ≤ 95) ∨ (96 ≤ op ∧ op ≤ 111) ∨ (112 ≤ op ∧ op ≤ 127) ∨ (128 ≤ op ∧ op ≤ 143) ∨
      (144 ≤ op ∧ op ≤ 159) ∨ (160 ≤ op ∧ op ≤ 175) ∨ (208 ≤ op ∧ op ≤ 223) := by omega
  rcases hpage with hp | hp | hp | hp | hp | hp | hp | hp | hp | hp | hp | hp
  · exact page_0 c a h hint op ⟨by omega, hp⟩ hop
  · exact page_1 c a h hint op hp hop
  · exact page_2 c a h hint op hp hop
  · exact page_3 c a h hint op hp hop
  · exact page_4 c a h hint op hp hop
  · exact page_5 c a h hint op hp hop
  · exact page_6 c a h hint op hp hop
  · exact page_7 c a h hint op hp hop
  · exact page_8 c a h hint op hp hop
  · exact page_9 c a h hint op hp hop
  · exact page_A c a h hint op hp hop
  · exact page_D c a h hint op hp hop

theorem second_any (c : Core) (a : Arch) (v : Byte) (h : AtSecond c a v) (hint : c.pendInt = false) (b : Nat)
    (hd : definedSecond b = true) (hop : a.bus.read a.pc = BitVec.ofNat 8 b) :
    ∃ n a', Isa.second { a with pc := a.pc + 1 } b v = some a' ∧ AtFetch (Core.iter n c) a' := by
  simp only [definedSecond, Bool.or_eq_true, Bool.and_eq_true, decide_eq_true_eq, beq_iff_eq] at hd
  have hpage : (16 ≤ b ∧ b ≤ 31) ∨ (32 ≤ b ∧ b ≤ 47) ∨ (48 ≤ b ∧ b ≤ 63) ∨ (b = 64 ∨ b = 68) ∨
      (80 ≤ b ∧ b ≤ 95) ∨ (96 ≤ b ∧ b ≤ 111) := by omega
  rcases hpage with hp | hp | hp | hp | hp | hp
  · exact second_1 c a v h hint b (by omega) hop
  · exact second_2 c a v h hint b (by omega) hop
  · exact second_3 c a v h hint b (by omega) hop
  · exact second_4 c a v h hint b hp hop
  · exact second_5 c a v h hint b (by omega) hop
  · exact second_6 c a v h hint b (by omega) hop

/-- The two-byte forms: prefix (general source operand) followed by any defined second byte. -/
theorem two_byte_refines (c : Core) (a : Arch) (h : AtFetch c a) (hint : c.pendInt = false) (op b : Nat)
    (hr : 240 ≤ op ∧ op ≤ 255) (hop : a.bus.read a.pc = BitVec.ofNat 8 op) (hd : definedSecond b = true)
    (hb : (Isa.operand { a with pc := a.pc + 1 } (op / 4 % 4) (op % 4)).1.bus.read
            (Isa.operand { a with pc := a.pc + 1 } (op / 4 % 4) (op % 4)).1.pc = BitVec.ofNat 8 b) :
    ∃ n a', Isa.step a = some a' ∧ AtFetch (Core.iter n c) a' := by
  obtain ⟨n1, hs, hpi⟩ := prefix_any c a h op hr hop
  obtain ⟨n2, a', hsec, hf⟩ := second_any _ _ _ hs (by rw [hpi]; exact hint) b hd hb
  refine ⟨n1 + n2, a', ?_, by rw [iter_add]; exact hf⟩
  have hlt : op < 256 := by omega
  have htn : (BitVec.ofNat 8 op).toNat = op := by simp [Nat.mod_eq_of_lt hlt]
  have hbn : (BitVec.ofNat 8 b).toNat = b := by
    have : b < 256 := by
      simp only [definedSecond, Bool.or_eq_true, Bool.and_eq_true, decide_eq_true_eq, beq_iff_eq] at hd; omega
    simp [Nat.mod_eq_of_lt this]
  have h15 : op / 16 = 15 := by omega
  unfold Isa.step
  simp only [Arch.rd, hop, htn]
  unfold Isa.exec
  simp only [h15]
  simp only [Arch.rd] at hb ⊢
  rw [hb, hbn]
  exact hsec

/-- An instruction is covered: a one-byte form outside MUL/DIV, or a prefix with a defined second byte. -/
def Covered (a : Arch) : Prop :=
  let op := (a.bus.read a.pc).toNat
  covered1 op = true ∨
    (240 ≤ op ∧ definedSecond
      ((Isa.operand { a with pc := a.pc + 1 } (op / 4 % 4) (op % 4)).1.bus.read
        (Isa.operand { a with pc := a.pc + 1 } (op / 4 % 4) (op % 4)).1.pc).toNat = true)

/-- **C01 (partial: everything but the MUL and DIV loops)**: from an instruction boundary with
arbitrary R0-R2, PC, SP, flag register, RAM/I-O contents *and arbitrary scratch registers, instruction
register and ALU latch*, the micro-machine reaches the next instruction boundary in exactly the
architectural state the instruction-set specification prescribes — registers, flags incl. the upper
bits, stack pointer, and the whole bus (RAM, output registers, board) — and nothing else. -/
theorem isa_refines_partial (c : Core) (a : Arch) (h : AtFetch c a) (hint : c.pendInt = false) (hc : Covered a) :
    ∃ n a', Isa.step a = some a' ∧ AtFetch (Core.iter n c) a' ∧ (Core.iter n c).pendInt = false := by
  have hlt := (a.bus.read a.pc).isLt
  have hop : a.bus.read a.pc = BitVec.ofNat 8 (a.bus.read a.pc).toNat := by simp
  rcases hc with h1 | ⟨h2, h3⟩
  · obtain ⟨n, a', hs, hf⟩ := one_byte_refines c a h hint _ h1 hop
    exact ⟨n, a', hs, hf, iter_pendInt n c hint⟩
  · obtain ⟨n, a', hs, hf⟩ := two_byte_refines c a h hint _ _ ⟨h2, by omega⟩ hop h3 (by simp)
    exact ⟨n, a', hs, hf, iter_pendInt n c hint⟩

/-- `k` instructions at the specification level. -/
def run : Nat → Arch → Option Arch
  | 0, a => some a
  | k + 1, a => (Isa.step a).bind (run k)

/-- All of the next `k` instructions are covered ones. -/
def CoveredRun : Nat → Arch → Prop
  | 0, _ => True
  | k + 1, a => Covered a ∧ ∀ a', Isa.step a = some a' → CoveredRun k a'

/-- **Instruction sequences**: state left behind by earlier instructions — stale scratch registers,
self-modified code, a PC that ran into the I/O area — is carried into later ones; the refinement
holds for every sequence of covered instructions. -/
theorem isa_refines_seq (k : Nat) (c : Core) (a : Arch) (h : AtFetch c a) (hint : c.pendInt = false)
    (hc : CoveredRun k a) :
    ∃ n a', run k a = some a' ∧ AtFetch (Core.iter n c) a' := by
  induction k generalizing c a with
  | zero => exact ⟨0, a, rfl, h⟩
  | succ k ih =>
    obtain ⟨n, a1, hs, hf, hp⟩ := isa_refines_partial c a h hint hc.1
    obtain ⟨m, a', hr, hf'⟩ := ih _ a1 hf hp (hc.2 a1 hs)
    exact ⟨n + m, a', by simp [run, hs, hr], by rw [iter_add]; exact hf'⟩

/-- The machine's executed edge is the data-path step (supervision only touches the halt state, a
memory wait only delays): this is what ties `Core.iter` to `Machine.clockEdge`. -/
theorem exec_core (m : Machine) : (Machine.exec m).core = (Core.step m.core).1 := rfl

/-- Non-vacuity: a boundary state exists for every architectural state. -/
def boundaryOf (a : Arch) : Core :=
  Core.mk 6 ⟨a.r0, a.r1, a.r2, a.pc, a.fr, a.sp, 0, 0⟩ 2 a.bus (some 3) false false ⟨a.pc + 1, false, false, false⟩
    (a.bus.read a.pc)

example (a : Arch) : AtFetch (boundaryOf a) a := by
  constructor <;> rfl

end Emu2a.C01
