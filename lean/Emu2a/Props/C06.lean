/-
C06 — every accepted program compiles: the label panic of the translator is unreachable.

The parser's validation (`validate_lines`) extracts the labels an instruction refers to and demands a
case-insensitive definition for each; the translator's placeholders (`ByteOrLabel::Label`, the
relative-jump closures) are looked up at the end (`expect("Labels must be defined")`).  The theorem
shows that the placeholder set is contained in the validated reference set and that every definition
the parser counts enters the translator's table under the same (lower-cased) key.
-/
import Emu2a.Props.C02
import Emu2a.Props.C03
namespace Emu2a.C06
open Emu2a Emu2a.Asm Emu2a.Parse

/-- The label a placeholder stands for. -/
def bolLabel : BOL → Option String
  | .byte _ => none
  | .label l => some l
  | .rel l _ => some l

theorem constBOL_ref (c : Const) (l : String) (h : bolLabel (constBOL c) = some l) : l ∈ constRefs c := by
  cases c <;> simp_all [constBOL, bolLabel, constRefs]

theorem srcExtra_ref (s : Src) (b : BOL) (hb : b ∈ srcExtra s) (l : String) (h : bolLabel b = some l) : l ∈ srcRefs s := by
  rcases s with r | m | c | r | r
  · simp [srcExtra] at hb
  · rcases m with c | r
    · simp only [srcExtra, List.mem_singleton] at hb; subst hb
      simpa [srcRefs, memRefs] using constBOL_ref c l h
    · simp [srcExtra] at hb
  · simp only [srcExtra, List.mem_singleton] at hb; subst hb
    simpa [srcRefs] using constBOL_ref c l h
  · simp [srcExtra] at hb
  · simp [srcExtra] at hb

theorem dstExtra_ref (d : Dst) (b : BOL) (hb : b ∈ dstExtra d) (l : String) (h : bolLabel b = some l) : l ∈ dstRefs d := by
  rcases d with r | m | r | r
  · simp [dstExtra] at hb
  · rcases m with c | r
    · simp only [dstExtra, List.mem_singleton] at hb; subst hb
      simpa [dstRefs, memRefs] using constBOL_ref c l h
    · simp [dstExtra] at hb
  · simp [dstExtra] at hb
  · simp [dstExtra] at hb

theorem twoOp_ref (b1 b2 : Nat) (d : Dst) (s : Src) (b : BOL) (hb : b ∈ twoOp b1 b2 d s) (l : String)
    (h : bolLabel b = some l) : l ∈ dstRefs d ++ srcRefs s := by
  simp only [twoOp, List.mem_append, List.mem_singleton] at hb
  rcases hb with ((hb | hb) | hb) | hb
  · subst hb; simp [bolLabel] at h
  · exact List.mem_append_right _ (srcExtra_ref s b hb l h)
  · subst hb; simp [bolLabel] at h
  · exact List.mem_append_left _ (dstExtra_ref d b hb l h)

theorem srcOp_ref (b1 b2 : Nat) (s : Src) (b : BOL) (hb : b ∈ srcOp b1 b2 s) (l : String)
    (h : bolLabel b = some l) : l ∈ srcRefs s := by
  simp only [srcOp, List.mem_append, List.mem_singleton] at hb
  rcases hb with (hb | hb) | hb
  · subst hb; simp [bolLabel] at h
  · exact srcExtra_ref s b hb l h
  · subst hb; simp [bolLabel] at h

/-- **Every placeholder the translator creates for an instruction names a label the parser's
validation looked at.** -/
theorem bols_ref (i : Instr) (cur : Nat) (b : BOL) (hb : b ∈ bols i cur) (l : String) (h : bolLabel b = some l) :
    l ∈ refs i := by
  cases i <;> simp only [bols, refs] at hb ⊢
  all_goals first
    | (exact twoOp_ref _ _ _ _ b hb l h)
    | (exact srcOp_ref _ _ _ b hb l h)
    | (simp only [relJump, List.mem_cons, List.mem_nil_iff, or_false] at hb
       rcases hb with hb | hb <;> subst hb <;> simp_all [bolLabel])
    | (simp only [twoReg, List.mem_singleton] at hb; subst hb; simp [bolLabel] at h)
    | (simp only [List.mem_singleton] at hb; subst hb; simp [bolLabel] at h)
    | skip
  · -- .ORG
    obtain ⟨_, rfl⟩ := List.mem_replicate.mp hb; simp [bolLabel] at h
  · -- .BYTE
    obtain ⟨_, rfl⟩ := List.mem_replicate.mp hb; simp [bolLabel] at h
  · -- .DB
    obtain ⟨n, _, rfl⟩ := List.mem_map.mp hb; simp [bolLabel] at h
  · -- .DW
    obtain ⟨w, _, hw⟩ := List.mem_flatMap.mp hb
    simp only [List.mem_cons, List.mem_nil_iff, or_false] at hw
    rcases hw with rfl | rfl <;> simp [bolLabel] at h
  · simp at hb
  · simp at hb
  · simp at hb
  · -- DEC
    rename_i s
    simp only [List.mem_append, List.mem_singleton] at hb
    rcases hb with hb | hb
    · subst hb; simp [bolLabel] at h
    · exact srcExtra_ref s b hb l h
  · -- ST
    rename_i m r
    have := twoOp_ref _ _ _ _ b hb l h
    simpa [dstRefs, srcRefs] using this
  · -- JMP
    simp only [List.mem_cons, List.mem_nil_iff, or_false] at hb
    rcases hb with rfl | rfl | rfl <;> simp_all [bolLabel]


/-! ### The translator's table knows every name the parser counts as defined -/

theorem find_cons (k' k : String) (v : Nat) (t : Labels) :
    Labels.find ((k', v) :: t) k = if k' == k then some v else Labels.find t k := by
  unfold Labels.find
  simp only [List.find?_cons]
  split <;> simp_all

theorem find_mono (k' : String) (v : Nat) (t : Labels) (k : String) (h : (Labels.find t k).isSome = true) :
    (Labels.find ((k', v) :: t) k).isSome = true := by
  rw [find_cons]; split <;> simp_all

theorem find_head (k : String) (v : Nat) (t : Labels) : (Labels.find ((k, v) :: t) k).isSome = true := by
  rw [find_cons]; simp

/-- What one `push` does to the table and the output, as far as labels are concerned. -/
theorem push_inv (t t' : TState) (line : Line) (h : push t line = .ok t') :
    (∀ k, (t.labels.find k).isSome = true → (t'.labels.find k).isSome = true) ∧
    (∀ k ∈ definedLabels [line], (t'.labels.find k).isSome = true) ∧
    ∃ bs, t'.out = t.out ++ [(line, bs)] ∧ ∀ b ∈ bs, ∀ l, bolLabel b = some l → l ∈ lineRefs line := by
  cases line with
  | empty c =>
    simp only [push] at h; injection h with h; subst h
    exact ⟨fun k hk => hk, by simp [definedLabels], [], rfl, by simp⟩
  | label n c =>
    simp only [push] at h; injection h with h; subst h
    refine ⟨fun k hk => find_mono _ _ _ _ hk, ?_, [], rfl, by simp⟩
    intro k hk
    simp only [definedLabels, List.flatMap_cons, List.flatMap_nil, List.append_nil, List.mem_singleton] at hk
    subst hk; exact find_head _ _ _
  | instr i c =>
    simp only [push] at h
    split at h
    · cases h
    · split at h
      · cases h
      · injection h with h; subst h
        refine ⟨?_, ?_, bols i t.next, rfl, ?_⟩
        · intro k hk
          cases i <;> simp only [sideEffect] <;> first | exact hk | exact find_mono _ _ _ _ hk
        · intro k hk
          cases i <;> simp only [definedLabels, List.flatMap_cons, List.flatMap_nil, List.append_nil,
            List.mem_singleton, List.not_mem_nil] at hk
          · subst hk; simp only [sideEffect]; exact find_head _ _ _
        · intro b hb l hl
          exact bols_ref i t.next b hb l hl

theorem fold_inv (ls : List Line) : ∀ (t t' : TState), ls.foldlM push t = .ok t' →
    (∀ k, (t.labels.find k).isSome = true → (t'.labels.find k).isSome = true) ∧
    (∀ k ∈ definedLabels ls, (t'.labels.find k).isSome = true) ∧
    (∀ e ∈ t'.out, e ∈ t.out ∨ (e.1 ∈ ls ∧ ∀ b ∈ e.2, ∀ l, bolLabel b = some l → l ∈ lineRefs e.1)) := by
  induction ls with
  | nil =>
    intro t t' h
    simp only [List.foldlM, pure, Except.pure] at h; injection h with h; subst h
    exact ⟨fun k hk => hk, by simp [definedLabels], fun e he => Or.inl he⟩
  | cons line ls ih =>
    intro t t' h
    simp only [List.foldlM_cons] at h
    cases hp : push t line with
    | error e => simp [hp, bind, Except.bind] at h
    | ok t1 =>
      simp only [hp, bind, Except.bind] at h
      obtain ⟨m1, d1, bs, ho, hb⟩ := push_inv t t1 line hp
      obtain ⟨m2, d2, o2⟩ := ih t1 t' h
      refine ⟨fun k hk => m2 k (m1 k hk), ?_, ?_⟩
      · intro k hk
        have : k ∈ definedLabels [line] ∨ k ∈ definedLabels ls := by
          simp only [definedLabels, List.flatMap_cons, List.mem_append, List.flatMap_nil, List.append_nil] at hk ⊢
          exact hk
        rcases this with h1 | h2
        · exact m2 k (d1 k h1)
        · exact d2 k h2
      · intro e he
        rcases o2 e he with h1 | ⟨h2, h3⟩
        · rw [ho] at h1
          simp only [List.mem_append, List.mem_singleton] at h1
          rcases h1 with h1 | h1
          · exact Or.inl h1
          · subst h1; exact Or.inr ⟨by simp, hb⟩
        · exact Or.inr ⟨by simp [h2], h3⟩

theorem resolveAll_some (t : Labels) (bs : List BOL) (h : ∀ b ∈ bs, (resolve t b).isSome = true) :
    (resolveAll t bs).isSome = true := by
  induction bs with
  | nil => rfl
  | cons b bs ih =>
    have h1 := h b (by simp)
    have h2 := ih (fun b hb => h b (by simp [hb]))
    simp only [resolveAll]
    cases hr : resolve t b <;> cases hs : resolveAll t bs <;> simp_all

theorem resolveLines_some (t : Labels) (out : List (Line × List BOL))
    (h : ∀ e ∈ out, ∀ b ∈ e.2, (resolve t b).isSome = true) : (resolveLines t out).isSome = true := by
  induction out with
  | nil => rfl
  | cons e out ih =>
    obtain ⟨l, bs⟩ := e
    have h1 := resolveAll_some t bs (fun b hb => h (l, bs) (by simp) b hb)
    have h2 := ih (fun e he b hb => h e (by simp [he]) b hb)
    simp only [resolveLines]
    cases hr : resolveAll t bs <;> cases hs : resolveLines t out <;> simp_all

/-- **An accepted program never reaches the translator's label panic**: if the parser's validation
passes (every referenced name has a case-insensitive definition), translation does not fail with
`expect("Labels must be defined")` - whatever else the program contains. -/
theorem accepted_no_label_panic (p : Program) (hv : validate p.lines = none) :
    compile p ≠ .error .undefinedLabel := by
  obtain ⟨_, hall⟩ := (C03.validate_spec p.lines).2.mp hv
  unfold compile
  cases hf : p.lines.foldlM push TState.init with
  | error e =>
    intro h; simp only at h
    have : e = .orgBackwards ∨ e = .addrOverflow := by
      have := C02.compile_error p e (by unfold compile; simp [hf])
      rcases this with h1 | h1 | h1
      · exact Or.inl h1
      · exact Or.inr h1
      · subst h1
        -- a push never fails with the label panic
        exfalso
        have key : ∀ (ls : List Line) (t : TState), ls.foldlM push t ≠ .error .undefinedLabel := by
          intro ls
          induction ls with
          | nil => intro t ht; simp [List.foldlM, pure, Except.pure] at ht
          | cons l ls ih =>
            intro t ht
            simp only [List.foldlM_cons] at ht
            cases hp : push t l with
            | error e2 =>
              simp only [hp, bind, Except.bind] at ht
              injection ht with ht; subst ht
              rcases C02.push_error t l _ hp with h2 | h2 <;> cases h2
            | ok t1 => simp only [hp, bind, Except.bind] at ht; exact ih t1 ht
        exact key _ _ hf
    injection h with h; subst h
    rcases this with h1 | h1 <;> cases h1
  | ok t =>
    simp only
    obtain ⟨_, hdef, hout⟩ := fold_inv p.lines TState.init t hf
    have hres : (resolveLines t.labels t.out).isSome = true := by
      apply resolveLines_some
      intro e he b hb
      rcases hout e he with h0 | ⟨hl, hb2⟩
      · simp [TState.init] at h0
      · cases b with
        | byte n => simp [resolve]
        | label l =>
          have hl' : l ∈ p.lines.flatMap lineRefs := List.mem_flatMap.mpr ⟨e.1, hl, hb2 _ hb l rfl⟩
          simpa [resolve] using hdef _ (hall l hl')
        | rel l c =>
          have hl' : l ∈ p.lines.flatMap lineRefs := List.mem_flatMap.mpr ⟨e.1, hl, hb2 _ hb l rfl⟩
          have := hdef _ (hall l hl')
          simp only [resolve, Option.isSome_map]
          exact this
    unfold finish
    cases hr : resolveLines t.labels t.out with
    | none => rw [hr] at hres; cases hres
    | some ls => intro h; cases h

end Emu2a.C06
