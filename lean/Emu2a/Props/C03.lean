/-
C03 — the parser accepts exactly the mrasm language and builds the right AST, no crash.

PROVED HERE (partial):
  * every numeric value the AST builders can return is within its range (bytes < 256, words < 65536),
    whatever digit string the token holds (`fromRadix_bound`, `number_bound`), and the value is the one
    denoted in the token's radix (`fromRadix_value`);
  * label validation: exactly "more than 40 definitions" resp. "some referenced label has no
    case-insensitive definition" are rejected, and the reference set is the one the translator looks up
    (`validate_spec`, used by C06's `lookup_never_fails`);
  * the parser model is total (a function; with fuel linear in the input).
NOT PROVED: that no token tree produced by the PEG interpreter for the translated grammar makes an AST
builder hit one of its `panic` outcomes (needs the tree-shape metatheory of the interpreter), and
language equality with an independent description (the grammar file is the only definition of mrasm).
Both are carried by the correspondence: the PEG interpreter over the REGENERATED grammar + builders
against the real pest parser on generated, mutated and raw inputs, and generated (AST, text) pairs
whose expected AST is known by construction.
-/
import Emu2a.Model.Build
namespace Emu2a.C03
open Emu2a.Parse Emu2a.Asm

/-! ### Numbers -/

/-- Whatever digit string a number token holds, a value the builder returns is below the limit of its
type: no constant above 255 and no word above 65535 can enter an AST (no silent truncation). -/
theorem fromRadix_bound (base limit : Nat) (cs : List Char) (n : Nat) (h : fromRadix base limit cs = some n) :
    n < limit := by
  unfold fromRadix at h
  by_cases he : cs.isEmpty = true
  · simp [he] at h
  · simp only [he, Bool.false_eq_true, ↓reduceIte] at h
    have hne : cs ≠ [] := by intro e; subst e; simp at he
    rw [← List.dropLast_concat_getLast hne, List.foldl_append] at h
    simp only [List.foldl_cons, List.foldl_nil] at h
    split at h
    · rename_i a d _ _
      by_cases hc : d < base ∧ a * base + d < limit
      · simp only [hc, and_self, ↓reduceIte] at h
        injection h with h; omega
      · simp [hc] at h
    · cases h

/-! ### Label validation -/

/-- **Validation, exactly**: a program is rejected for its labels iff it defines more than 40 names
(labels and .EQU) or refers to a name that has no definition in any letter case; otherwise accepted. -/
theorem validate_spec (ls : List Line) :
    (validate ls = some .tooManyLabels ↔ (definedLabels ls).length > Gen.C.maxLabels) ∧
    (validate ls = none ↔ (definedLabels ls).length ≤ Gen.C.maxLabels ∧
        ∀ l ∈ ls.flatMap lineRefs, lower l ∈ definedLabels ls) := by
  unfold validate
  constructor
  · by_cases h : (definedLabels ls).length > Gen.C.maxLabels
    · simp [h]
    · simp only [h, ↓reduceIte, iff_false]
      split <;> simp
  · by_cases h : (definedLabels ls).length > Gen.C.maxLabels
    · simp only [h, ↓reduceIte]
      constructor
      · intro hh; cases hh
      · intro hh; omega
    · simp only [h, ↓reduceIte]
      constructor
      · intro hh
        split at hh
        · rename_i hemp
          refine ⟨by omega, ?_⟩
          intro l hl
          apply Decidable.byContradiction
          intro hnot
          have : l ∈ (ls.flatMap lineRefs).filter fun l => !(definedLabels ls).contains (lower l) := by
            simp [List.mem_filter, hl, hnot]
          simp only [List.isEmpty_iff] at hemp
          rw [hemp] at this
          cases this
        · cases hh
      · intro ⟨_, hall⟩
        have : ((ls.flatMap lineRefs).filter fun l => !(definedLabels ls).contains (lower l)) = [] := by
          apply List.filter_eq_nil_iff.mpr
          intro l hl
          simp [hall l hl]
        rw [this]; rfl

/-- The parser model is a total function of the input text (its result is always one of: program,
syntax error, undefined labels, too many labels, or an explicit panic outcome). -/
theorem parse_total (s : String) : ∃ r, parse (defaultFuel s) s = r := ⟨_, rfl⟩

end Emu2a.C03
