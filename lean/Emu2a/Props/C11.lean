/-
C11 — assembly-step mode equals clock-stepping to the next instruction boundary.
-/
import Emu2a.Model.Ops
import Emu2a.Lemmas.Fin
namespace Emu2a.C11
open Emu2a Machine

/-- `n` single clock edges. -/
def edges : Nat → Machine → Machine
  | 0, m => m
  | n + 1, m => edges n (clockEdge m)

theorem edges_add (a b : Nat) (m : Machine) : edges (a + b) m = edges b (edges a m) := by
  induction a generalizing m with
  | zero => simp [edges]
  | succ n ih => rw [Nat.succ_add]; simp [edges, ih]

/-- Loop condition of the first phase: at a boundary and running. -/
def condA (m : Machine) : Bool := m.core.done && m.run = .running
/-- Loop condition of the second phase: inside an instruction and running. -/
def condB (m : Machine) : Bool := !m.core.done && m.run = .running

/-- **Phase A** returns exactly the first iterate of `clockEdge` that is no longer "at a boundary and
running": never more edges, never fewer. -/
theorem stepA_spec (fuel : Nat) (m m' : Machine) (h : stepA fuel m = some m') :
    ∃ k, m' = edges k m ∧ condA m' = false ∧ ∀ j, j < k → condA (edges j m) = true := by
  induction fuel generalizing m with
  | zero => simp [stepA] at h
  | succ n ih =>
    simp only [stepA] at h
    by_cases hc : (m.core.done && m.run = .running) = true
    · simp only [hc, ↓reduceIte] at h
      obtain ⟨k, hk, hcond, hall⟩ := ih (clockEdge m) h
      refine ⟨k + 1, by simpa [edges] using hk, hcond, ?_⟩
      intro j hj
      cases j with
      | zero => exact hc
      | succ j => simpa [edges] using hall j (by omega)
    · simp only [hc, Bool.false_eq_true, ↓reduceIte] at h
      injection h with h; subst h
      exact ⟨0, rfl, by simpa [condA] using hc, by intro j hj; omega⟩

/-- **Phase B** returns the first iterate that is at a boundary, halted, or a fixed point of
`clockEdge` (a hanging micro-program): never more edges, never fewer; it issues at least one edge if
it starts inside an instruction of a running machine. -/
theorem stepB_spec (fuel : Nat) (m m' : Machine) (h : stepB fuel m = some m') :
    ∃ k, m' = edges k m ∧
      (condB m' = false ∨ (k ≥ 1 ∧ clockEdge (edges (k - 1) m) = edges (k - 1) m)) ∧
      (∀ j, j < k → condB (edges j m) = true) ∧
      (∀ j, j + 1 < k → clockEdge (edges j m) ≠ edges j m) := by
  induction fuel generalizing m with
  | zero => simp [stepB] at h
  | succ n ih =>
    simp only [stepB] at h
    by_cases hc : (!m.core.done && m.run = .running) = true
    · simp only [hc, ↓reduceIte] at h
      by_cases hfix : clockEdge m = m
      · simp only [hfix, ↓reduceIte] at h
        injection h with h; subst h
        refine ⟨1, by simp [edges, hfix], Or.inr ⟨by omega, by simpa [edges] using hfix⟩, ?_, ?_⟩
        · intro j hj
          have : j = 0 := by omega
          subst this; exact hc
        · intro j hj; omega
      · simp only [hfix, ↓reduceIte] at h
        obtain ⟨k, hk, hstop, hall, hnf⟩ := ih (clockEdge m) h
        refine ⟨k + 1, by simpa [edges] using hk, ?_, ?_, ?_⟩
        · rcases hstop with hs | ⟨hk1, hs⟩
          · exact Or.inl hs
          · right
            refine ⟨by omega, ?_⟩
            have : k + 1 - 1 = (k - 1) + 1 := by omega
            rw [this]; simpa [edges] using hs
        · intro j hj
          cases j with
          | zero => exact hc
          | succ j => simpa [edges] using hall j (by omega)
        · intro j hj
          cases j with
          | zero => simpa [edges] using hfix
          | succ j => simpa [edges] using hnf j (by omega)
    · simp only [hc, Bool.false_eq_true, ↓reduceIte] at h
      injection h with h; subst h
      exact ⟨0, rfl, Or.inl (by simpa [condB] using hc), by intro j hj; omega, by intro j hj; omega⟩

/-- **C11**: one step in assembly-step mode leaves the machine in a state reached by single clock
edges (`k1 + k2` of them), where the first `k1` edges leave the boundary and the next `k2` edges run
to the first state that is at the next boundary, halted, or hanging. -/
theorem keyClock_assembly_spec (fuel : Nat) (m m' : Machine) (hm : m.mode = .assembly)
    (h : keyClock fuel m = some m') :
    ∃ k1 k2, m' = edges (k1 + k2) m ∧
      condA (edges k1 m) = false ∧ (∀ j, j < k1 → condA (edges j m) = true) ∧
      (condB m' = false ∨ (k2 ≥ 1 ∧ clockEdge (edges (k1 + k2 - 1) m) = edges (k1 + k2 - 1) m)) ∧
      (∀ j, j < k2 → condB (edges (k1 + j) m) = true) := by
  simp only [keyClock, hm] at h
  cases ha : stepA fuel m with
  | none => simp [ha] at h
  | some ma =>
    simp only [ha, Option.bind_some] at h
    obtain ⟨k1, hk1, hc1, hall1⟩ := stepA_spec fuel m ma ha
    obtain ⟨k2, hk2, hstop, hall2, _⟩ := stepB_spec fuel ma m' h
    subst hk1
    refine ⟨k1, k2, by rw [edges_add]; exact hk2, hc1, hall1, ?_, ?_⟩
    · rcases hstop with hs | ⟨hk, hs⟩
      · exact Or.inl hs
      · right
        refine ⟨hk, ?_⟩
        have : k1 + k2 - 1 = k1 + (k2 - 1) := by omega
        rw [this, edges_add]; exact hs
    · intro j hj
      rw [edges_add]; exact hall2 j hj

/-- In real mode the clock key is exactly one edge. -/
theorem keyClock_real (fuel : Nat) (m : Machine) (hm : m.mode = .real) : keyClock fuel m = some (clockEdge m) := by
  simp [keyClock, hm]

/-- A halted machine: the step returns at once and changes nothing (a halt ends the step early). -/
theorem keyClock_halted (fuel : Nat) (m : Machine) (hh : m.run ≠ .running) (hf : 0 < fuel) :
    keyClock fuel m = some m := by
  unfold keyClock
  cases m.mode
  · simp [clockEdge, hh]
  · cases fuel with
    | zero => omega
    | succ n => simp [stepA, stepB, hh]

/-- Switching the step mode does not touch the computation: the mode is not read by `clockEdge`, and
`clockEdge` does not change it. -/
theorem mode_irrelevant (m : Machine) (s : StepMode) :
    clockEdge { m with mode := s } = { clockEdge m with mode := s } := by
  unfold clockEdge
  split
  · rfl
  · split
    · rfl
    · simp [exec, superviseWrite]

theorem edges_mode (n : Nat) (m : Machine) (s : StepMode) :
    edges n { m with mode := s } = { edges n m with mode := s } := by
  induction n generalizing m with
  | zero => rfl
  | succ n ih => simp only [edges, mode_irrelevant, ih]

/-- Monotone in fuel: more fuel never changes a result. -/
theorem stepA_mono (fuel : Nat) (m m' : Machine) (h : stepA fuel m = some m') : stepA (fuel + 1) m = some m' := by
  induction fuel generalizing m with
  | zero => simp [stepA] at h
  | succ n ih =>
    simp only [stepA] at h ⊢
    split
    · rename_i hc; simp only [hc, ↓reduceIte] at h; exact ih _ h
    · rename_i hc; simp only [hc, ↓reduceIte] at h; exact h

/-- **Termination (partial)**: if some iterate of `clockEdge` is no longer "inside an instruction and
running" — or is a fixed point — the second phase returns with that much fuel.  (That such an iterate
exists for every reachable state follows from C09's bounds for defined opcodes and from the hang words
being fixed points; it is established by the harness for all 256 opcode bytes, not by a theorem yet.) -/
theorem stepB_terminates_partial (k : Nat) (m : Machine)
    (h : condB (edges k m) = false ∨ clockEdge (edges k m) = edges k m) :
    (stepB (k + 1) m).isSome = true := by
  induction k generalizing m with
  | zero =>
    simp only [edges] at h
    simp only [stepB]
    by_cases hc : (!m.core.done && m.run = .running) = true
    · simp only [hc, ↓reduceIte]
      rcases h with h | h
      · simp [condB] at h hc; simp_all
      · simp [h]
    · simp [hc]
  | succ n ih =>
    simp only [stepB]
    by_cases hc : (!m.core.done && m.run = .running) = true
    · simp only [hc, ↓reduceIte]
      split
      · simp
      · exact ih (clockEdge m) (by simpa [edges] using h)
    · simp [hc]

/-- Phase A needs at most two edges: a fetch word is followed (after at most one wait edge) by a word
that is not a fetch word, for every opcode byte — checked over the generated control store. -/
theorem fetch_successor_not_fetch : ∀ a, a < 512 → (Gen.word a).mac3 = true →
    ∀ ir, ir < 256 → ∀ fr al p,
      (Gen.word (Sig.nextAddr (Gen.word a) ir fr al p)).mac3 = false := by
  have h : allBelow 512 (fun a => !(Gen.word a).mac3 ||
      allBelow 256 (fun ir =>
        !(Gen.word (256 * b2n (irBit ir Gen.C.ir_a8) + 128 * b2n (irBit ir Gen.C.ir_a7) + 64 * b2n (irBit ir Gen.C.ir_a6)
          + 32 * b2n (irBit ir Gen.C.ir_a5) + 4 * ((Gen.word a).na / 4) + 2 * b2n (irBit ir Gen.C.ir_op11)
          + b2n (irBit ir Gen.C.ir_op10))).mac3 && (Gen.word a).mac2)) = true := by
    decide +kernel
  intro a ha hm ir hir fr al p
  have h1 := allBelow_spec h a ha
  simp only [hm, Bool.not_true, Bool.false_or] at h1
  have h2 := allBelow_spec h1 ir hir
  simp only [Bool.and_eq_true, Bool.not_eq_eq_eq_not, Bool.not_true] at h2
  simp only [Sig.nextAddr, Sig.am4, Sig.am3, h2.2, ↓reduceIte]
  exact h2.1

end Emu2a.C11
