/-
C13 — no program and no external stimulus can crash the emulator core.
Rust panics are explicit in the model: `edgePanics` (the `unreachable!` in `is_stackpointer_valid`),
`load = none` (RAM index out of bounds), and the per-site lemmas below which show that every other
`expect` / index / subtraction in machine code is dead for all states.
-/
import Emu2a.Model.Ops
import Emu2a.Lemmas.Fin
namespace Emu2a.C13
open Emu2a Machine Gen

/-! ### Per-site lemmas (each discharges one panic-capable site of the Rust code) -/

/-- Decoded fields of every control word are in range: `AluSelect::from_u8(..).expect` (4 bits),
`RegisterNumber::from_u8(..).expect` (3 bits). -/
theorem word_fields : ∀ a, a < 512 →
    ((word a).na < 32 ∧ (word a).aa < 8 ∧ (word a).ab < 8 ∧ (word a).alus < 16) := by
  have h : allBelow 512 (fun a => decide ((word a).na < 32 ∧ (word a).aa < 8 ∧ (word a).ab < 8 ∧ (word a).alus < 16)) = true := by
    decide +kernel
  intro a ha
  simpa using allBelow_spec h a ha

theorem b2n_le (b : Bool) : b2n b ≤ 1 := by cases b <;> simp [b2n]

/-- `selected_register_a/b/for_writing`: the index handed to `RegisterNumber::from_u8` is below 8. -/
theorem selA_lt (w : UWord) (ir : Nat) (h : w.aa < 8) : Sig.selA w ir < 8 := by
  unfold Sig.selA; split
  · have := b2n_le (irBit ir C.ir_op01); have := b2n_le (irBit ir C.ir_op00); omega
  · exact h
theorem selB_lt (w : UWord) (ir : Nat) (h : w.ab < 8) : Sig.selB w ir < 8 := by
  unfold Sig.selB; split
  · have := b2n_le (irBit ir C.ir_op11); have := b2n_le (irBit ir C.ir_op10); omega
  · exact h
theorem selW_lt (w : UWord) (ir : Nat) (ha : w.aa < 8) (hb : w.ab < 8) : Sig.selW w ir < 8 := by
  unfold Sig.selW; split
  · exact selB_lt w ir hb
  · exact selA_lt w ir ha

/-- `MicroprogramRam::CONTENT[current_index]`: the next micro-address is a 9-bit number. -/
theorem nextAddr_lt (w : UWord) (ir : Nat) (fr : Byte) (a : AluOut) (p : Bool) (h : w.na < 32) :
    Sig.nextAddr w ir fr a p < 512 := by
  unfold Sig.nextAddr
  have := b2n_le (irBit ir C.ir_a8); have := b2n_le (irBit ir C.ir_a7); have := b2n_le (irBit ir C.ir_a6)
  have := b2n_le (irBit ir C.ir_a5); have := b2n_le (Sig.am4 w ir); have := b2n_le (Sig.am3 w ir fr a p)
  omega

/-- `self.input_reg[addr - 0xFC]`: reached only for addresses 0xFC-0xFF, so the index is below 4. -/
theorem input_index (a : Byte) (h : ¬ a.toNat ≤ 0xFB) : a.toNat - 0xFC < 4 := by
  have := a.isLt; omega

/-- `self.ram[addr]` is reached only under `addr <= 0xEF` (the model's `Bus.read`/`Bus.write` carry this
proof in their definition: the index expression type-checks only with it). -/
theorem ram_index (a : Byte) (h : a.toNat ≤ C.ramTop) : a.toNat < C.ramSize := by
  simp [C.ramTop, C.ramSize] at *; omega

theorem sat_lt (v bound : Nat) (hb : 0 < bound) : (if v ≥ bound then bound - 1 else v) < bound := by
  split <;> omega

/-- Float → integer casts saturate: `(… as u8)` is at most 255, so `u8::MAX - …` cannot underflow. -/
theorem toNatSat_lt (x : F32.Bits) (bound : Nat) (hb : 0 < bound) : F32.toNatSat x bound < bound := by
  unfold F32.toNatSat
  split
  · exact hb
  · split
    · exact hb
    · split
      · omega
      · dsimp only
        split <;> exact sat_lt _ _ hb

/-- Timer register arithmetic stays far below `usize::MAX`. -/
theorem timer_fc (d3 : Nat) (v : Byte) : (d3 &&& 0xFF00) + v.toNat < 2 ^ 17 := by
  have : d3 &&& 0xFF00 ≤ 0xFF00 := Nat.and_le_right
  have := v.isLt; omega
theorem timer_fd (d3 : Nat) (v : Byte) : ((v.toNat &&& 0x7F) <<< 7) + (d3 &&& 0x7F) < 2 ^ 15 := by
  have h1 : v.toNat &&& 0x7F ≤ 0x7F := Nat.and_le_right
  have h2 : d3 &&& 0x7F ≤ 0x7F := Nat.and_le_right
  rw [Nat.shiftLeft_eq]; omega

/-! ### Well-formed machines never panic, and stay well-formed -/

/-- What `Machine::new`/`load` establish and every operation keeps: a real stack size and a
micro-address inside the control store. -/
def WF (m : Machine) : Prop := m.ss ≠ .notSet ∧ m.core.addr < 512

theorem wf_new : WF Machine.new := by
  constructor <;> decide

theorem edge_no_panic (m : Machine) (h : WF m) : m.edgePanics = false := by
  simp [edgePanics, h.1]

theorem exec_addr (m : Machine) :
    (exec m).core.addr = Sig.nextAddr (word m.core.addr) (Core.updateIr m.core.applyPending).ir
      (Core.updateIr m.core.applyPending).regs.r4 (Core.updateIr m.core.applyPending).alu
      (Core.updateIr m.core.applyPending).pendInt := by
  have h1 : (Core.updateIr m.core.applyPending).addr = m.core.addr := by
    unfold Core.updateIr; split <;> simp [Core.applyPending]
  simp [exec, Core.execWord, Core.updateWord, h1]

theorem wf_clockEdge (m : Machine) (h : WF m) : WF (clockEdge m) := by
  unfold clockEdge
  split
  · exact h
  · split
    · exact h
    · refine ⟨by simpa [exec] using h.1, ?_⟩
      rw [exec_addr]
      exact nextAddr_lt _ _ _ _ _ (word_fields _ h.2).1

theorem wf_stepA (fuel : Nat) (m m' : Machine) (h : WF m) (hs : stepA fuel m = some m') : WF m' := by
  induction fuel generalizing m with
  | zero => simp [stepA] at hs
  | succ n ih =>
    simp only [stepA] at hs
    split at hs
    · exact ih _ (wf_clockEdge m h) hs
    · injection hs with hs; subst hs; exact h

theorem wf_stepB (fuel : Nat) (m m' : Machine) (h : WF m) (hs : stepB fuel m = some m') : WF m' := by
  induction fuel generalizing m with
  | zero => simp [stepB] at hs
  | succ n ih =>
    simp only [stepB] at hs
    split at hs
    · split at hs
      · injection hs with hs; subst hs; exact wf_clockEdge m h
      · exact ih _ (wf_clockEdge m h) hs
    · injection hs with hs; subst hs; exact h

theorem stepA_no_panic (fuel : Nat) (m : Machine) (h : WF m) : stepAPanics fuel m = false := by
  induction fuel generalizing m with
  | zero => rfl
  | succ n ih =>
    simp only [stepAPanics]
    split
    · simp [edge_no_panic m h, ih _ (wf_clockEdge m h)]
    · rfl

theorem stepB_no_panic (fuel : Nat) (m : Machine) (h : WF m) : stepBPanics fuel m = false := by
  induction fuel generalizing m with
  | zero => rfl
  | succ n ih =>
    simp only [stepBPanics]
    split
    · simp only [edge_no_panic m h, Bool.false_or]
      split
      · rfl
      · exact ih _ (wf_clockEdge m h)
    · rfl

/-- Images that fit the RAM (the property quantifies over RAM images, i.e. at most 240 bytes). -/
def OpOK : MOp → Prop
  | .load img _ _ => img.length ≤ C.ramSize
  | _ => True

theorem wf_load (m m' : Machine) (img : List Byte) (ss : Stacksize) (ps : Programsize) (h : WF m)
    (hl : m.load img ss ps = some m') : WF m' := by
  unfold Machine.load at hl
  split at hl
  · simp at hl
  · injection hl with hl
    subst hl
    constructor
    · by_cases hs : ss = .notSet
      · subst hs
        simp only [mapBus, ne_eq, not_true_eq_false, ↓reduceIte]
        split <;> simpa [masterReset, cpuReset] using h.1
      · simp only [mapBus, ne_eq, hs, not_false_eq_true, ↓reduceIte]
        split <;> exact hs
    · simp only [mapBus]
      split <;> (split <;> simp [masterReset, cpuReset])

/-- **C13 (one step)**: in a well-formed machine no operation panics, and the result is well-formed
(so its state can be read and stepped further). -/
theorem no_panic_step (fuel : Nat) (m : Machine) (op : MOp) (h : WF m) (hop : OpOK op) :
    opPanics fuel m op = false ∧ ∀ m', m.applyOp fuel op = some m' → WF m' := by
  cases op
  case edge =>
    exact ⟨edge_no_panic m h, fun m' hm => by simp [applyOp] at hm; subst hm; exact wf_clockEdge m h⟩
  case clock =>
    constructor
    · simp only [opPanics]
      cases hmode : m.mode
      · exact edge_no_panic m h
      · simp only [stepA_no_panic fuel m h, Bool.false_or]
        cases hs : stepA fuel m with
        | none => rfl
        | some m1 => simp [stepB_no_panic fuel m1 (wf_stepA fuel m m1 h hs)]
    · intro m' hm
      simp only [applyOp, keyClock] at hm
      split at hm
      · injection hm with hm; subst hm; exact wf_clockEdge m h
      · cases hs : stepA fuel m with
        | none => simp [hs] at hm
        | some m1 =>
          simp only [hs, Option.bind_some] at hm
          exact wf_stepB fuel m1 m' (wf_stepA fuel m m1 h hs) hm
  case load img ss ps =>
    constructor
    · simp only [opPanics, OpOK] at *
      simp; omega
    · intro m' hm
      exact wf_load m m' img ss ps h (by simpa [applyOp] using hm)
  case cpuReset =>
    exact ⟨rfl, fun m' hm => by simp [applyOp] at hm; subst hm; exact ⟨by simpa [cpuReset] using h.1, by simp [cpuReset]⟩⟩
  case masterReset =>
    exact ⟨rfl, fun m' hm => by simp [applyOp] at hm; subst hm; exact ⟨by simpa [masterReset, cpuReset] using h.1, by simp [masterReset, cpuReset]⟩⟩
  case cont =>
    refine ⟨rfl, fun m' hm => ?_⟩
    simp [applyOp] at hm; subst hm
    unfold keyContinue; split <;> exact h
  all_goals
    refine ⟨rfl, fun m' hm => ?_⟩
    simp [applyOp] at hm; subst hm
    first
      | exact h
      | exact ⟨h.1, h.2⟩

/-- A load that fits always succeeds (the only `load` panic is the oversized image). -/
theorem load_ok (m : Machine) (img : List Byte) (ss : Stacksize) (ps : Programsize)
    (h : img.length ≤ C.ramSize) : (m.load img ss ps).isSome = true := by
  unfold Machine.load fillRam
  simp [h]

/-- **C13**: for every sequence of operations (every RAM image, setting, interleaving) starting from
a well-formed machine, no call panics and every intermediate machine is well-formed. -/
theorem no_panic (fuel : Nat) (ops : List MOp) (m : Machine) (h : WF m) (hops : ∀ op ∈ ops, OpOK op) :
    ∀ (pre : List MOp) (op : MOp) (post : List MOp) (m1 : Machine), ops = pre ++ op :: post →
      pre.foldlM (fun s o => s.applyOp fuel o) m = some m1 → (WF m1 ∧ opPanics fuel m1 op = false) := by
  intro pre
  induction pre generalizing m ops with
  | nil =>
    intro op post m1 he hm
    simp at hm; subst hm
    exact ⟨h, (no_panic_step fuel m op h (hops op (by simp [he]))).1⟩
  | cons o pre ih =>
    intro op post m1 he hm
    simp only [List.foldlM_cons] at hm
    cases h1 : m.applyOp fuel o with
    | none => simp [h1] at hm
    | some m2 =>
      simp only [h1, Option.bind_some] at hm
      have ho : OpOK o := hops o (by simp [he])
      have hw2 := (no_panic_step fuel m o h ho).2 m2 h1
      exact ih (pre ++ op :: post) m2 hw2 (fun x hx => hops x (by simp [he]; right; simpa using hx)) op post m1 rfl hm

/-- Non-vacuity: the edge really panics outside `WF` (stack size NotSet, reachable only through the
public `set_stacksize`, which no operation of the alphabet uses). -/
example : ({ Machine.new with ss := .notSet, core := { Core.new with pendReg := some 0 } } : Machine).edgePanics = true := by
  decide

end Emu2a.C13
