/-
C09 — micro-sequencer control flow is well-formed: defined opcodes always complete.
Everything here is evaluated by the kernel over the *generated* control store.
-/
import Emu2a.Model.Flow
import Emu2a.Lemmas.Fin
import Emu2a.Props.C09x.Second
import Emu2a.Props.C09x.First
import Emu2a.Props.C09x.Sound
namespace Emu2a.C09
open Emu2a Flow Isa Gen

/-! ### The graph over-approximates the real sequencer -/

/-- The micro-address always lies in the page selected by the instruction register
(A8..A5 come from the opcode): the sequencer stays within the routine of the fetched opcode. -/
theorem in_page (w : UWord) (ir : Nat) (fr : Byte) (a : AluOut) (p : Bool) (hna : w.na < 32) (hir : ir < 256) :
    Sig.nextAddr w ir fr a p / 32 = ir / 16 := by
  unfold Sig.nextAddr
  have h1 : ∀ b, b2n b ≤ 1 := fun b => by cases b <;> simp [b2n]
  have := h1 (Sig.am4 w ir); have := h1 (Sig.am3 w ir fr a p)
  have e8 : b2n (irBit ir C.ir_a8) = ir / 128 % 2 := by
    unfold irBit b2n; simp only [C.ir_a8]; split <;> simp_all <;> omega
  have e7 : b2n (irBit ir C.ir_a7) = ir / 64 % 2 := by
    unfold irBit b2n; simp only [C.ir_a7]; split <;> simp_all <;> omega
  have e6 : b2n (irBit ir C.ir_a6) = ir / 32 % 2 := by
    unfold irBit b2n; simp only [C.ir_a6]; split <;> simp_all <;> omega
  have e5 : b2n (irBit ir C.ir_a5) = ir / 16 % 2 := by
    unfold irBit b2n; simp only [C.ir_a5]; split <;> simp_all <;> omega
  rw [e8, e7, e6, e5]
  omega

/-- All instruction-fetch words (MAC3) are the same word, so the exploration may start from any. -/
theorem fetch_words_equal : ∀ a, a < 512 → (word a).mac3 = true → word a = word 6 := by
  have h : allBelow 512 (fun a => !(word a).mac3 || (word a).same (word 6)) = true := by decide +kernel
  intro a ha hm
  have h2 : (!(word a).mac3 || (word a).same (word 6)) = true := allBelow_spec h a ha
  rw [hm] at h2
  exact (UWord.same_iff _ _).mp (by simpa using h2)

/-! ### Completion, boundedness, loops -/

/-- The only word that loads a second opcode byte is 0x1E6; it is reached exactly by the two-byte
prefixes 0xF0-0xFF. -/
theorem second_word_unique : ∀ a, a < 512 → isSecond (a, 0) = true → a = 0x1E6 := by
  have h : allBelow 512 (fun a => !isSecond (a, 0) || a == 0x1E6) = true := by decide +kernel
  intro a ha hs
  have := allBelow_spec h a ha
  simpa [hs] using this

/-- The prefixes reach the second-opcode fetch within 3 steps, … -/
theorem prefix_bounded : ∀ op, op < 256 → 0xF0 ≤ op →
    completesWithin [] [] 3 (start op) = true ∧
    (visited [] [] 3 (start op)).all (fun n => !isFetch n) = true := by
  have h : allBelow 256 (fun op => decide (op < 0xF0) ||
      (completesWithin [] [] 3 (start op) && (visited [] [] 3 (start op)).all (fun n => !isFetch n))) = true := by
    decide +kernel
  intro op ho hp
  have := allBelow_spec h op ho
  have hn : ¬ op < 0xF0 := by omega
  simpa [hn] using this

/-- MUL and DIV: the only cycles are the data-driven loops — with their single back edge removed
all paths complete within 15 steps. -/
theorem muldiv_complete_cut : ∀ op, op < 256 → (isMul op || isDiv op) = true →
    completesWithin [] (mulBack ++ divBack) 15 (start op) = true := by
  have h : allBelow 256 (fun op => !(isMul op || isDiv op) ||
      completesWithin [] (mulBack ++ divBack) 15 (start op)) = true := by decide +kernel
  intro op ho hm
  have := allBelow_spec h op ho
  simpa [hm] using this

/-- From reset (address 0, instruction register 0x02) the first fetch is reached on every path
(directly, or through the interrupt entry which the over-approximating graph includes). -/
theorem reset_reaches_fetch : completesWithin [] [] 12 [(0, C.irReset)] = true := by decide +kernel

/-- The undefined first bytes never complete: the nodes reachable from their dispatch form a closed
set without any instruction fetch (and without the second-opcode fetch). -/
theorem undefined_never_complete : ∀ op, op < 256 → definedFirst op = false →
    closedNoFetch [] ((visited [] [] 3 (start op)).eraseDups) = true := by
  have h : allBelow 256 (fun op => definedFirst op ||
      closedNoFetch [] ((visited [] [] 3 (start op)).eraseDups)) = true := by decide +kernel
  intro op ho hd
  have := allBelow_spec h op ho
  simpa [hd] using this

/-- **First bytes that cannot complete are exactly the undefined ones.** -/
theorem completes_iff : ∀ op, op < 256 →
    (completesWithin [] (mulBack ++ divBack) 15 (start op) = true ↔ definedFirst op = true) := by
  have h : allBelow 256 (fun op => completesWithin [] (mulBack ++ divBack) 15 (start op) == definedFirst op) = true := by
    decide +kernel
  intro op ho
  have h2 : (completesWithin [] (mulBack ++ divBack) 15 (start op) == definedFirst op) = true := allBelow_spec h op ho
  rw [beq_iff_eq.mp h2]

end Emu2a.C09
