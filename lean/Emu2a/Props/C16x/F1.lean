import Emu2a.Props.C16x.Forms
namespace Emu2a.C16
theorem rt_chunk_1 : (chunk 1).all check = true := by decide +kernel
end Emu2a.C16
