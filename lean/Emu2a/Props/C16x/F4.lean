import Emu2a.Props.C16x.Forms
namespace Emu2a.C16
theorem rt_chunk_4 : (chunk 4).all check = true := by decide +kernel
end Emu2a.C16
