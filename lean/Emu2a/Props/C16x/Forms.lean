/-
C16: the family of program lines on which `parse (format l) = l` is checked by kernel evaluation:
every instruction form, every operand shape, every register, extreme numeric values.
-/
import Emu2a.Model.Build
import Emu2a.Model.Format
namespace Emu2a.C16
open Emu2a Emu2a.Asm

def srcs : List Src := [.reg .r0, .reg .r3, .mem (.reg .r1), .mem (.const (.num 0)), .mem (.const (.num 255)),
  .mem (.const (.label "lab_1")), .const (.num 7), .const (.num 200), .const (.label "X"), .di .r2, .ddi .r3]
def dsts : List Dst := [.reg .r0, .reg .r3, .mem (.reg .r1), .mem (.const (.num 16)), .mem (.const (.label "lab_1")),
  .di .r2, .ddi .r0]
def regs : List Reg := [.r0, .r1, .r2, .r3]

def forms : List Instr :=
  [.org 17, .byte 3, .db [0, 255, 33], .dw [0, 65535, 256], .equ "lab_1" 234, .equ "X" 0, .stacksize .s0, .stacksize .s16,
   .stacksize .s32, .stacksize .s48, .stacksize .s64, .stacksize .notSet, .programsize .auto, .programsize .notSet,
   .programsize (.size 0), .programsize (.size 255), .pushf, .popf, .ret, .reti, .stop, .nop, .ei, .di,
   .jmp "X", .jcs "X", .jcc "X", .jzs "X", .jzc "X", .jns "X", .jnc "X", .jr "lab_1", .call "lab_1"] ++
  regs.flatMap (fun r => [.clr r, .inc r, .neg r, .com r, .tst r, .lsr r, .asr r, .lsl r, .rrc r, .rlc r, .push r, .pop r,
    .ldConst r (.num 9), .ldConst r (.label "X"), .ldMem r (.reg .r1), .ldMem r (.const (.label "X")),
    .st (.const (.num 254)) r, .st (.reg .r2) r]) ++
  regs.flatMap (fun a => regs.map fun b => Instr.add a b) ++
  regs.flatMap (fun a => [.adc a .r1, .sub a .r2, .mul .r3 a, .div a a, .and .r0 a, .or a .r3, .xor a .r1]) ++
  srcs.flatMap (fun s => [.dec s, .ldsp s, .ldfr s]) ++
  dsts.flatMap (fun d => srcs.map fun s => Instr.mov d s) ++
  srcs.flatMap (fun s => [.cmp (.reg .r1) s, .bitt (.mem (.reg .r2)) s, .bits (.di .r0) s, .bitc (.ddi .r3) s]) ++
  dsts.flatMap (fun d => [.cmp d (.const (.num 1)), .bitt d (.reg .r2), .bits d (.ddi .r1), .bitc d (.mem (.const (.label "X")))])

/-- A three-line program around one instruction (the labels it may refer to are defined). -/
def tiny (i : Instr) : Program := ⟨none, [.instr i (some "c"), .label "lab_1" none, .label "X" none]⟩

/-- Format, parse again, compare. -/
def check (i : Instr) : Bool := Parse.parse 400 (Fmt.program (tiny i)) == .ok (tiny i)

def chunk (k : Nat) : List Instr := (forms.drop (40 * k)).take 40

end Emu2a.C16
