/- C09, part: defined second bytes complete. -/
import Emu2a.Model.Flow
import Emu2a.Lemmas.Fin
namespace Emu2a.C09
open Emu2a Flow Isa Gen

/-- … and for every defined second byte all paths from its dispatch reach the next instruction fetch
within 15 further steps (so a two-byte instruction needs at most 3 + 1 + 15 = 19 micro-steps). -/
theorem second_defined_completes : ∀ b, b < 256 → definedSecond b = true →
    completesWithin [] [] 15 (start2 b) = true := by
  have h : allBelow 256 (fun b => !(definedSecond b) || completesWithin [] [] 15 (start2 b)) = true := by
    decide +kernel
  intro b hb hd
  have := allBelow_spec h b hb
  simpa [hd] using this

end Emu2a.C09
