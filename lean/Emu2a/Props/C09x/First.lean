/- C09, part: defined first bytes complete within 15 steps. -/
import Emu2a.Model.Flow
import Emu2a.Lemmas.Fin
namespace Emu2a.C09
open Emu2a Flow Isa Gen

/-- Every defined first byte other than MUL/DIV: all paths from dispatch reach the next instruction
fetch (one-byte forms; interrupt entry included) or the second-opcode fetch (prefixes 0xF0-0xFF) within
15 micro-steps.  In particular the explored graph has no cycle. -/
theorem defined_complete_bounded : ∀ op, op < 256 → definedFirst op = true → isMul op = false → isDiv op = false →
    completesWithin [] [] 15 (start op) = true := by
  have h : allBelow 256 (fun op => !(definedFirst op) || isMul op || isDiv op ||
      completesWithin [] [] 15 (start op)) = true := by decide +kernel
  intro op ho hd hm hv
  have := allBelow_spec h op ho
  simpa [hd, hm, hv] using this

end Emu2a.C09
