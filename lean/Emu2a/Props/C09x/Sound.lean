/-
C09, soundness of the graph exploration: what `completesWithin … = true` (a kernel-evaluated fact
about the generated control store) says about *executions* of the micro-machine — for every
register/flag/memory content, every ALU condition and every state of the interrupt flip-flop.
-/
import Emu2a.Model.Flow
import Emu2a.Lemmas.Step
namespace Emu2a.C09
open Emu2a Flow Gen

/-- Whatever the flags, the ALU condition outputs and the interrupt flip-flop are, the real
next-address function lands in `succs`. -/
theorem next_in_succs (w : UWord) (ir : Nat) (fr : Byte) (a : AluOut) (p : Bool) :
    Sig.nextAddr w ir fr a p ∈ succs w ir := by
  unfold succs Sig.nextAddr nextWith Sig.am3
  cases hm2 : w.mac2
  · simp only [Bool.false_eq_true, ↓reduceIte]
    unfold Sig.am1
    cases w.mac1 <;> cases w.mac0 <;> cases (w.na % 2 == 1) <;> simp <;>
      (first
        | (cases Sig.al3 ir fr <;> simp)
        | (cases flagBit fr C.flagC <;> simp)
        | (cases a.c <;> simp)
        | (cases a.z <;> simp)
        | (cases a.n <;> simp)
        | (cases Sig.al2 fr p <;> simp))
  · simp

/-- The graph node a core state sits on. -/
def node (c : Core) : Node := (c.addr, c.ir)

/-- One executed edge of the data path moves the node along an edge of the graph, provided the
instruction register is not loaded from the bus with a byte outside `loadSet`. -/
theorem step_in_succNodes (c : Core) (loadSet : List Nat)
    (hload : Core.irAct (word c.addr) = .load → c.lastBus.toNat ∈ loadSet) :
    node (Core.step c).1 ∈ succNodes loadSet [] (node c) := by
  have haddr : (Core.updateIr (Core.applyPending c)).addr = c.addr := by
    unfold Core.updateIr; split <;> simp [Core.applyPending]
  have hnode : node (Core.step c).1 =
      (Sig.nextAddr (word c.addr) (Core.updateIr (Core.applyPending c)).ir
        (Core.updateIr (Core.applyPending c)).regs.r4 (Core.updateIr (Core.applyPending c)).alu
        (Core.updateIr (Core.applyPending c)).pendInt, (Core.updateIr (Core.applyPending c)).ir) := by
    simp [node, Core.step, Core.execWord, Core.updateWord, haddr]
  rw [hnode]
  have hir : (Core.updateIr (Core.applyPending c)).ir ∈ irAfter (word c.addr) c.ir loadSet := by
    unfold irAfter Core.updateIr
    have : (Core.applyPending c).addr = c.addr := by simp [Core.applyPending]
    rw [this]
    cases h : Core.irAct (word c.addr) with
    | keep => simp [Core.applyPending]
    | reset => simp
    | load => simpa [Core.applyPending] using hload h
  simp only [succNodes, node, List.mem_flatMap, List.mem_map, List.mem_filter]
  refine ⟨_, hir, _, ⟨next_in_succs _ _ _ _ _, by simp⟩, rfl⟩

/-- A node that is not terminal never loads the instruction register. -/
theorem nonterminal_no_load (n : Node) (h : isTerminal n = false) : Core.irAct (word n.1) ≠ .load := by
  intro hl
  simp only [isTerminal, isFetch, isSecond, Bool.or_eq_false_iff] at h
  have h2 := h.2
  simp [hl, h.1] at h2

theorem mem_level (loadSet : List Nat) (S : List Node) (n m : Node) (hn : n ∈ S) (ht : isTerminal n = false)
    (hm : m ∈ succNodes loadSet [] n) : m ∈ level loadSet [] S := by
  unfold level
  rw [List.mem_eraseDups]
  simp only [List.mem_flatMap, List.mem_filter]
  exact ⟨n, ⟨hn, by simp [ht]⟩, hm⟩

/-- **Soundness of `completesWithin`**: if the exploration from the node set `S` completes within
`fuel` levels, then every execution of the micro-machine that starts on a node of `S` — whatever the
registers, flags, memory, ALU latch and interrupt flip-flop hold — reaches an instruction fetch or the
second-opcode fetch after at most `fuel` executed edges, and every word on the way is programmed. -/
theorem completes_sound (fuel : Nat) : ∀ (S : List Node), completesWithin [] [] fuel S = true →
    ∀ c : Core, node c ∈ S →
    ∃ k, k ≤ fuel ∧ isTerminal (node (Core.iter k c)) = true ∧
      node (Core.iter k c) ∈ visited [] [] fuel S ∧
      ∀ j, j ≤ k → programmedNode (node (Core.iter j c)) = true := by
  induction fuel with
  | zero =>
    intro S h c hc
    simp only [completesWithin, Bool.and_eq_true, List.all_eq_true] at h
    exact ⟨0, by omega, h.2 _ hc, by simpa [visited] using hc, fun j hj => by
      have : j = 0 := by omega
      subst this; exact h.1 _ hc⟩
  | succ fuel ih =>
    intro S h c hc
    simp only [completesWithin, Bool.and_eq_true, Bool.or_eq_true, List.all_eq_true] at h
    obtain ⟨hprog, hrest⟩ := h
    by_cases ht : isTerminal (node c) = true
    · exact ⟨0, by omega, ht, by simp [visited, hc], fun j hj => by
        have : j = 0 := by omega
        subst this; exact hprog _ hc⟩
    · have ht' : isTerminal (node c) = false := by simpa using ht
      rcases hrest with hall | hlev
      · exact absurd (hall _ hc) ht
      · have hstep : node (Core.step c).1 ∈ level [] [] S :=
          mem_level [] S (node c) _ hc ht'
            (step_in_succNodes c [] (fun hl => absurd hl (nonterminal_no_load (node c) ht')))
        obtain ⟨k, hk, hterm, hmem, hp⟩ := ih _ hlev (Core.step c).1 hstep
        refine ⟨k + 1, by omega, by rw [Core.iter_succ]; exact hterm,
          by rw [Core.iter_succ]; simp only [visited, List.mem_append]; exact Or.inr hmem, ?_⟩
        intro j hj
        cases j with
        | zero => exact hprog _ hc
        | succ j => rw [Core.iter_succ]; exact hp j (by omega)

/-- The same for every node the exploration *visits*: a machine caught in the middle of a routine
(any level of the exploration) still reaches a terminal word within the remaining levels. -/
theorem visited_sound (fuel : Nat) : ∀ (S : List Node), completesWithin [] [] fuel S = true →
    ∀ c : Core, node c ∈ visited [] [] fuel S →
    ∃ k, k ≤ fuel ∧ isTerminal (node (Core.iter k c)) = true ∧ node (Core.iter k c) ∈ visited [] [] fuel S := by
  induction fuel with
  | zero =>
    intro S h c hc
    obtain ⟨k, hk, ht, hm, _⟩ := completes_sound 0 S h c (by simpa [visited] using hc)
    exact ⟨k, hk, ht, hm⟩
  | succ fuel ih =>
    intro S h c hc
    simp only [visited, List.mem_append] at hc
    rcases hc with hc | hc
    · obtain ⟨k, hk, ht, hm, _⟩ := completes_sound _ S h c hc
      exact ⟨k, hk, ht, hm⟩
    · have h' := h
      simp only [completesWithin, Bool.and_eq_true, Bool.or_eq_true, List.all_eq_true] at h'
      rcases h'.2 with hall | hlev
      · -- every node of S is terminal: there is no next level
        have hempty : level [] [] S = [] := by
          unfold level
          have : S.filter (fun n => !isTerminal n) = [] := by
            rw [List.filter_eq_nil_iff]; intro n hn; simp [hall n hn]
          simp [this]
        rw [hempty] at hc
        have hv : ∀ f, visited [] [] f [] = [] := by
          intro f; induction f with
          | zero => rfl
          | succ f ihf => simp only [visited, List.nil_append]; rw [show level [] [] [] = [] from rfl]; exact ihf
        rw [hv] at hc; simp at hc
      · obtain ⟨k, hk, ht, hm⟩ := ih _ hlev c hc
        exact ⟨k, by omega, ht, by simp only [visited, List.mem_append]; exact Or.inr hm⟩

end Emu2a.C09
