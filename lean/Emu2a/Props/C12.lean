/-
C12 — run/verify report exactly what the stepped machine does, including the exit status.

`run_spec`: the runner loop ends in state `stateAt k` of the schedule-driven state sequence, where `k`
(the reported cycle count) is the budget or the first cycle index ≥ 1 after which the machine is not
Running, whichever comes first; `run_cycles_unique`: that `k` is unique.  `run_eq_specRun`: the loop
equals an independent definition by recursion on the budget (the driver evaluates that one as the
specification).  `verify_ok_iff`: verification succeeds iff every stated expectation matches;
`cli_exit`: the exit status is non-zero iff reading, parsing or verification fails (101 for the
panics that are C06's known findings), and what is printed is the final machine's values.
`parseU8_*`: the auto-radix byte parser accepts every byte in all three radices, never yields a value
above 255.
-/
import Emu2a.Model.Runner
import Emu2a.Spec.RunSpec
import Emu2a.Model.Format
import Emu2a.Lemmas.Fin
namespace Emu2a.C12
open Emu2a Emu2a.Runner Emu2a.RunSpec

theorem loop_spec (ints resets : List Nat) (N : Nat) (m0 : Machine) :
    ∀ fuel k m, N ≤ k + fuel → m = stateAt ints resets m0 k →
      ((loop ints resets N fuel k m).2 ≤ N ∨ (loop ints resets N fuel k m).2 ≤ k) ∧ k ≤ (loop ints resets N fuel k m).2 ∧
      (loop ints resets N fuel k m).1 = stateAt ints resets m0 (loop ints resets N fuel k m).2 ∧
      (N ≤ (loop ints resets N fuel k m).2 ∨
        (k < (loop ints resets N fuel k m).2 ∧ (stateAt ints resets m0 (loop ints resets N fuel k m).2).run ≠ .running)) ∧
      ∀ j, k < j → j < (loop ints resets N fuel k m).2 → (stateAt ints resets m0 j).run = .running := by
  intro fuel
  induction fuel with
  | zero =>
    intro k m hk hm
    simp only [loop]
    refine ⟨by omega, Nat.le_refl _, hm, Or.inl (by omega), ?_⟩
    intro j h1 h2; omega
  | succ f ih =>
    intro k m hk hm
    simp only [loop]
    by_cases hlt : k < N
    · simp only [hlt, ↓reduceIte]
      have hnext : cycle ints resets k m = stateAt ints resets m0 (k + 1) := by simp [stateAt, hm]
      by_cases hr : (cycle ints resets k m).run = .running
      · simp only [hr, ne_eq, not_true_eq_false, ↓reduceIte]
        obtain ⟨h1, h2, h3, h4, h5⟩ := ih (k + 1) (cycle ints resets k m) (by omega) hnext
        refine ⟨by omega, by omega, h3, ?_, ?_⟩
        · rcases h4 with h4 | h4
          · exact Or.inl h4
          · exact Or.inr ⟨by omega, h4.2⟩
        · intro j hj1 hj2
          by_cases hj : j = k + 1
          · subst hj; rw [← hnext]; exact hr
          · exact h5 j (by omega) hj2
      · simp only [ne_eq, hr, not_false_eq_true, ↓reduceIte]
        refine ⟨by omega, by omega, hnext, Or.inr ⟨by omega, by rw [← hnext]; exact hr⟩, ?_⟩
        intro j h1 h2; omega
    · simp only [hlt, ↓reduceIte]
      refine ⟨by omega, Nat.le_refl _, hm, Or.inl (by omega), ?_⟩
      intro j h1 h2; omega

/-- **The runner, exactly.**  With budget `N` the loop returns `(stateAt k, k)` where `k ≤ N`; either
`k = N`, or `k ≥ 1` and the machine is not Running after cycle `k`; and after every earlier cycle it
was still Running.  (Budget 0: no edge, the initial machine.) -/
theorem run_spec (N : Nat) (ints resets : List Nat) (m0 : Machine) :
    (run N ints resets m0).2 ≤ N ∧ (run N ints resets m0).1 = stateAt ints resets m0 (run N ints resets m0).2 ∧
    ((run N ints resets m0).2 = N ∨ (0 < (run N ints resets m0).2 ∧
        (stateAt ints resets m0 (run N ints resets m0).2).run ≠ .running)) ∧
    ∀ j, 0 < j → j < (run N ints resets m0).2 → (stateAt ints resets m0 j).run = .running := by
  obtain ⟨h1, _, h3, h4, h5⟩ := loop_spec ints resets N m0 N 0 m0 (by omega) rfl
  simp only [run]
  refine ⟨by omega, h3, ?_, h5⟩
  rcases h4 with h4 | h4
  · exact Or.inl (by omega)
  · exact Or.inr h4

/-- The reported cycle count is determined by the state sequence alone. -/
theorem run_cycles_unique (N : Nat) (ints resets : List Nat) (m0 : Machine) (k : Nat)
    (hk : k ≤ N) (hstop : k = N ∨ (0 < k ∧ (stateAt ints resets m0 k).run ≠ .running))
    (hrun : ∀ j, 0 < j → j < k → (stateAt ints resets m0 j).run = .running) :
    (run N ints resets m0).2 = k := by
  obtain ⟨h1, _, h3, h4⟩ := run_spec N ints resets m0
  generalize (run N ints resets m0).2 = r at *
  apply Decidable.byContradiction
  intro hne
  by_cases hlt : r < k
  · rcases h3 with h3 | h3
    · omega
    · exact h3.2 (hrun r h3.1 hlt)
  · have hgt : k < r := by omega
    rcases hstop with hs | hs
    · omega
    · exact hs.2 (h4 k hs.1 hgt)

theorem specRun_spec (ints resets : List Nat) (m0 : Machine) : ∀ N,
    (specRun ints resets m0 N).2 ≤ N ∧
    (specRun ints resets m0 N).1 = stateAt ints resets m0 (specRun ints resets m0 N).2 ∧
    ((specRun ints resets m0 N).2 = N ∨ (0 < (specRun ints resets m0 N).2 ∧
        (stateAt ints resets m0 (specRun ints resets m0 N).2).run ≠ .running)) ∧
    ∀ j, 0 < j → j < (specRun ints resets m0 N).2 → (stateAt ints resets m0 j).run = .running := by
  intro N
  induction N with
  | zero => simp [specRun, stateAt]
  | succ n ih =>
    obtain ⟨h1, h2, h3, h4⟩ := ih
    simp only [specRun]
    generalize specRun ints resets m0 n = r at *
    obtain ⟨m, k⟩ := r
    simp only at h1 h2 h3 h4 ⊢
    by_cases hc : k = n ∧ (k = 0 ∨ m.run = .running)
    · obtain ⟨hk, hr⟩ := hc
      subst hk
      have hc' : (k = k ∧ (k = 0 ∨ m.run = .running)) := ⟨rfl, hr⟩
      rw [if_pos hc']
      refine ⟨Nat.le_refl _, by simp [stateAt, h2], Or.inl rfl, ?_⟩
      intro j hj1 hj2
      by_cases hj : j = k
      · subst hj
        rcases hr with hr | hr
        · omega
        · rw [← h2]; exact hr
      · exact h4 j hj1 (by omega)
    · rw [if_neg hc]
      refine ⟨by omega, h2, ?_, h4⟩
      rcases h3 with h3 | h3
      · subst h3
        right
        have : ¬ (k = 0 ∨ m.run = .running) := fun h => hc ⟨rfl, h⟩
        refine ⟨by omega, ?_⟩
        rw [← h2]; intro h; exact this (Or.inr h)
      · exact Or.inr h3

/-- The loop equals the budget-recursive specification. -/
theorem run_eq_specRun (N : Nat) (ints resets : List Nat) (m0 : Machine) :
    run N ints resets m0 = specRun ints resets m0 N := by
  obtain ⟨s1, s2, s3, s4⟩ := specRun_spec ints resets m0 N
  obtain ⟨_, r2, _, _⟩ := run_spec N ints resets m0
  have hk := run_cycles_unique N ints resets m0 _ s1 s3 s4
  apply Prod.ext
  · rw [r2, s2, hk]
  · exact hk

/-- More budget never changes an outcome that stopped early. -/
theorem run_budget_monotone (N : Nat) (ints resets : List Nat) (m0 : Machine)
    (h : (run N ints resets m0).2 < N) : run (N + 1) ints resets m0 = run N ints resets m0 := by
  rw [run_eq_specRun, run_eq_specRun] at *
  simp only [specRun]
  generalize specRun ints resets m0 N = r at *
  obtain ⟨m, k⟩ := r
  simp only at h
  have : ¬ (k = N ∧ (k = 0 ∨ m.run = .running)) := by omega
  simp [this]

/-- A scheduled cycle at or beyond the budget has no effect. -/
theorem cycle_irrelevant (ints resets : List Nat) (k c : Nat) (m : Machine) (h : k ≠ c) :
    cycle (c :: ints) resets k m = cycle ints resets k m ∧ cycle ints (c :: resets) k m = cycle ints resets k m := by
  simp [cycle, h]

/-- Listing a cycle twice is the same as listing it once. -/
theorem cycle_dup (ints resets : List Nat) (k c : Nat) (m : Machine) :
    cycle (c :: c :: ints) resets k m = cycle (c :: ints) resets k m ∧
    cycle ints (c :: c :: resets) k m = cycle ints (c :: resets) k m := by
  simp [cycle]

/-! ### Verification -/

/-- **Verification succeeds exactly when every stated expectation equals the final machine's value.** -/
theorem verify_ok_iff (e : Expect) (m : Machine) :
    verify e m = none ↔
      (∀ s, e.state = some s → s = m.run) ∧ (∀ v, e.fe = some v → v = m.core.bus.outFE) ∧
      (∀ v, e.ff = some v → v = m.core.bus.outFF) := by
  obtain ⟨st, fe, ff⟩ := e
  unfold verify
  cases st <;> cases fe <;> cases ff <;> simp <;> grind

/-- The reported mismatch is the first one in the order state, FE, FF. -/
theorem verify_err (e : Expect) (m : Machine) :
    (verify e m = some .state ↔ ∃ s, e.state = some s ∧ s ≠ m.run) ∧
    (verify e m = some .fe ↔ (∀ s, e.state = some s → s = m.run) ∧ ∃ v, e.fe = some v ∧ v ≠ m.core.bus.outFE) := by
  obtain ⟨st, fe, ff⟩ := e
  unfold verify
  cases st <;> cases fe <;> cases ff <;> simp <;> grind

/-- The model's `verify` (the `if` chain of runner/mod.rs) is the list formulation the driver
evaluates as the specification: the first stated expectation that does not hold. -/
theorem verify_eq_spec (e : Expect) (m : Machine) : verify e m = verifySpec e m := by
  obtain ⟨st, fe, ff⟩ := e
  unfold verify verifySpec stated
  cases st <;> cases fe <;> cases ff <;> simp [List.find?] <;> grind

/-! ### Command line -/

/-- **Exit status.**  For arguments the CLI accepted, the process exits non-zero exactly when the
program cannot be read, is not accepted by the parser (or hits one of the translator/loader panics
recorded under C06), or the verification fails; and it prints the cycle count and the final
machine's state/FE/FF whenever the run itself succeeded — also when verification then fails. -/
theorem cli_exit (src : Option String) (c : Config) (max : Nat) (ints resets : List Nat) (e : Option Expect) :
    ((cli src c max ints resets e).exit = 0 ↔
      ∃ s r, src = some s ∧ runProgram s c max ints resets = .ok r ∧ (∀ ex, e = some ex → verify ex r.1 = none)) ∧
    (∀ s r, src = some s → runProgram s c max ints resets = .ok r →
      (cli src c max ints resets e).printed = some (r.2, max, r.1.run, r.1.core.bus.outFE, r.1.core.bus.outFF)) := by
  constructor
  · cases src with
    | none => simp [cli]
    | some s =>
      simp only [cli]
      cases hr : runProgram s c max ints resets with
      | ok r =>
        obtain ⟨m, k⟩ := r
        cases e with
        | none => simp [hr]
        | some ex => cases hv : verify ex m <;> simp [hv, hr]
      | error err => cases err <;> simp [hr]
  · intro s r hs hr
    subst hs
    obtain ⟨m, k⟩ := r
    simp [cli, hr]

/-- The byte parser never yields a value above 255 (no truncation of `--fc 300`, `--ff 0x1FF`). -/
theorem parseU8_bound (cs : List Char) (n : Nat) (h : parseU8 cs = some n) : n < 256 := by
  have key : ∀ r ds, u8FromStrRadix r ds = some n → n < 256 := by
    intro r ds h
    unfold u8FromStrRadix at h
    -- `fromRadix _ 256 _ = some n → n < 256`
    have fb : ∀ (base : Nat) (cs : List Char), Parse.fromRadix base 256 cs = some n → n < 256 := by
      intro base cs h
      unfold Parse.fromRadix at h
      by_cases he : cs.isEmpty = true
      · simp [he] at h
      · simp only [he, Bool.false_eq_true, ↓reduceIte] at h
        have hne : cs ≠ [] := by intro e; subst e; simp at he
        rw [← List.dropLast_concat_getLast hne, List.foldl_append] at h
        simp only [List.foldl_cons, List.foldl_nil] at h
        split at h
        · rename_i a d _ _
          by_cases hc : d < base ∧ a * base + d < 256
          · simp only [hc, and_self, ↓reduceIte] at h
            injection h with h; omega
          · simp [hc] at h
        · cases h
    split at h <;> exact fb _ _ h
  unfold parseU8 at h
  split at h <;> exact key _ _ h

def bin8 (n : Nat) : List Char := (List.range 8).reverse.map fun i => if n / 2 ^ i % 2 = 1 then '1' else '0'

/-- Every byte is accepted in decimal, `0x` (upper- and lower-case digits) and `0b` notation. -/
theorem parseU8_accepts : ∀ n, n < 256 →
    parseU8 (toString n).toList = some n ∧
    parseU8 ('0' :: 'x' :: (Fmt.hex2U n).toList) = some n ∧
    parseU8 ('0' :: 'x' :: (Fmt.hex2U n).toList.map Peg.lowerC) = some n ∧
    parseU8 ('0' :: 'b' :: bin8 n) = some n := by
  have h : allBelow 256 (fun n =>
      parseU8 (toString n).toList == some n &&
      parseU8 ('0' :: 'x' :: (Fmt.hex2U n).toList) == some n &&
      parseU8 ('0' :: 'x' :: (Fmt.hex2U n).toList.map Peg.lowerC) == some n &&
      parseU8 ('0' :: 'b' :: bin8 n) == some n) = true := by decide +kernel
  intro n hn
  have := allBelow_spec h n hn
  simpa [Bool.and_eq_true, and_assoc] using this

/-- Values 256..1023 are rejected in every radix rather than truncated. -/
theorem parseU8_rejects_above : ∀ n, n < 768 →
    parseU8 (toString (256 + n)).toList = none := by
  have h : allBelow 768 (fun n => parseU8 (toString (256 + n)).toList == none) = true := by decide +kernel
  intro n hn
  simpa using allBelow_spec h n hn

end Emu2a.C12
