/-
C01 — "every emittable instruction": what the assembler can emit lies inside what `isa_refines` covers.
-/
import Emu2a.Spec.EncodeRef
import Emu2a.Spec.Opcodes
namespace Emu2a.C01
open Emu2a Emu2a.Asm Emu2a.Asm.Ref Isa

def Emittable : List Nat → Bool
  | [] => false
  | b0 :: rest =>
    if b0 < 0xF0 then definedFirst b0
    else b0 < 0x100 && (match (if b0 % 16 = 0xB ∨ b0 % 16 = 0xF then rest.drop 1 else rest) with
      | b2 :: _ => definedSecond b2
      | [] => false)

def isMachine : Instr → Bool
  | .org _ | .byte _ | .db _ | .dw _ | .equ _ _ | .stacksize _ | .programsize _ => false
  | _ => true

/-- A general operand: its field is a nibble, and it is followed by an operand byte exactly for the
fields 0xB `(PC+)` and 0xF `((PC+))`. -/
def OperandOk (o : Operand) : Prop := o.field < 16 ∧ (o.extra.isSome = true ↔ (o.field = 0xB ∨ o.field = 0xF))

/-- The source operand does not name the program counter as an auto-increment register.  (`(PC+)` and
`((PC+))` written out by the programmer are encoded like the constant / absolute forms but WITHOUT an
operand byte, so the CPU takes the next opcode byte for the operand: assembler and CPU then disagree
about where the next instruction starts.  Outside every property; noted in DESIGN.md.) -/
def srcPcFree : Src → Bool
  | .di .r3 | .ddi .r3 => false
  | _ => true

theorem ofSrc_ok (s : Src) (hp : srcPcFree s = true) : OperandOk (ofSrc s) := by
  rcases s with r | m | c | r | r
  · cases r <;> simp [OperandOk, ofSrc, Operand.field, Reg.num]
  · rcases m with c | r
    · simp [OperandOk, ofSrc, Operand.field]
    · cases r <;> simp [OperandOk, ofSrc, Operand.field, Reg.num]
  · simp [OperandOk, ofSrc, Operand.field]
  · cases r <;> simp_all [OperandOk, ofSrc, Operand.field, Reg.num, srcPcFree]
  · cases r <;> simp_all [OperandOk, ofSrc, Operand.field, Reg.num, srcPcFree]

def pcFree : Instr → Bool
  | .dec s | .ldsp s | .ldfr s => srcPcFree s
  | .bits _ s | .bitc _ s | .cmp _ s | .bitt _ s | .mov _ s => srcPcFree s
  | _ => true

theorem ofDst_lt (d : Dst) : (ofDst d).field < 16 := by
  rcases d with r | m | r | r
  · cases r <;> simp [ofDst, Operand.field, Reg.num]
  · rcases m with c | r
    · simp [ofDst, Operand.field]
    · cases r <;> simp [ofDst, Operand.field, Reg.num]
  · cases r <;> simp [ofDst, Operand.field, Reg.num]
  · cases r <;> simp [ofDst, Operand.field, Reg.num]

theorem prefix_emit (tbl : Labels) (s : Operand) (hs : OperandOk s) (b2 : Nat) (tail : List Nat) (e : List Nat)
    (he : extraBytes tbl s = some e) (hb : definedSecond b2 = true) :
    Emittable ([0xF0 + s.field] ++ e ++ (b2 :: tail)) = true := by
  obtain ⟨hlt, hx⟩ := hs
  unfold extraBytes at he
  have h1 : ¬ (0xF0 + s.field < 0xF0) := by omega
  have h2 : 0xF0 + s.field < 0x100 := by omega
  have hm : (0xF0 + s.field) % 16 = s.field := by omega
  cases hex : s.extra with
  | none =>
    rw [hex] at he hx
    injection he with he; subst he
    have : ¬ (s.field = 0xB ∨ s.field = 0xF) := by simpa using hx
    simp [Emittable, h1, h2, hm, this, hb]
  | some c =>
    rw [hex] at he hx
    have hf : s.field = 0xB ∨ s.field = 0xF := by simpa using hx
    cases hv : value tbl c with
    | none => simp [hv] at he
    | some v =>
      simp [hv] at he; subst he
      simp [Emittable, h1, h2, hm, hf, hb]

theorem twoOperand_emit (tbl : Labels) (b2 : Nat) (d s : Operand) (hs : OperandOk s) (hd : d.field < 16)
    (hb : ∀ f, f < 16 → definedSecond (b2 + f) = true) (bs : List Nat) (h : twoOperand tbl b2 d s = some bs) :
    Emittable bs = true := by
  unfold twoOperand at h
  cases hse : extraBytes tbl s with
  | none => simp [hse] at h
  | some se =>
    cases hde : extraBytes tbl d with
    | none => simp [hse, hde] at h
    | some de =>
      simp [hse, hde] at h
      subst h
      have := prefix_emit tbl s hs (b2 + d.field) de se hse (hb _ hd)
      simpa using this

theorem relative_emit (tbl : Labels) (cond : Nat) (l : String) (cur : Nat) (bs : List Nat) (hc : cond < 8)
    (h : relative tbl cond l cur = some bs) : Emittable bs = true := by
  unfold relative at h
  cases hf : tbl.find (lower l) with
  | none => simp [hf] at h
  | some t =>
    simp [hf] at h; subst h
    have : cond = 0 ∨ cond = 1 ∨ cond = 2 ∨ cond = 3 ∨ cond = 4 ∨ cond = 5 ∨ cond = 6 ∨ cond = 7 := by omega
    rcases this with e | e | e | e | e | e | e | e <;> subst e <;> simp [Emittable, definedFirst]

/-- **Every instruction the assembler can emit is one the CPU theorem covers**: the bytes the
reference encoding (= the translator's output, C02 `compile_eq_ref`) produces for any instruction
form, with any registers, constants, labels and addresses, start with a defined one-byte opcode or
with a two-byte prefix whose second opcode byte (behind the operand byte, if the prefix has one) is
a defined one - exactly the shape `C01.Covered` asks for.  Only hypothesis: the source operand does
not spell out `(PC+)` / `((PC+))`. -/
theorem emittable (tbl : Labels) (cur : Nat) (i : Instr) (bs : List Nat) (hm : isMachine i = true)
    (hp : pcFree i = true) (h : encode tbl cur i = some bs) : Emittable bs = true := by
  have b10 : ∀ f, f < 16 → definedSecond (0x10 + f) = true := by decide
  have b20 : ∀ f, f < 16 → definedSecond (0x20 + f) = true := by decide
  have b30 : ∀ f, f < 16 → definedSecond (0x30 + f) = true := by decide
  have b50 : ∀ f, f < 16 → definedSecond (0x50 + f) = true := by decide
  have b60 : ∀ f, f < 16 → definedSecond (0x60 + f) = true := by decide
  cases i <;> simp only [isMachine, Bool.false_eq_true] at hm <;> simp only [encode] at h <;> simp only [pcFree] at hp
  all_goals first
    | (exact twoOperand_emit tbl _ _ _ (ofSrc_ok _ (by first | assumption | rfl)) (ofDst_lt _) (by assumption) bs h)
    | (exact relative_emit tbl _ _ _ bs (by decide) h)
    | (injection h with h; subst h; decide)
    | (rename_i r; cases r <;> (injection h with h; subst h; decide))
    | (rename_i d s; cases d <;> cases s <;> (injection h with h; subst h; decide))
    | skip
  · -- DEC
    rename_i s
    obtain ⟨hlt, _⟩ := ofSrc_ok s hp
    cases he : extraBytes tbl (ofSrc s) with
    | none => simp [he] at h
    | some e =>
      simp [he] at h; subst h
      have : ∀ f, f < 16 → definedFirst (80 + f) = true := by decide
      have h80 : 80 + (ofSrc s).field < 0xF0 := by omega
      simp [Emittable, h80, this _ hlt]
  · -- LDSP
    rename_i s
    cases he : extraBytes tbl (ofSrc s) with
    | none => simp [he] at h
    | some e =>
      simp [he] at h; subst h
      have := prefix_emit tbl (ofSrc s) (ofSrc_ok s hp) 0x40 [] e he (by decide)
      simpa using this
  · -- LDFR
    rename_i s
    cases he : extraBytes tbl (ofSrc s) with
    | none => simp [he] at h
    | some e =>
      simp [he] at h; subst h
      have := prefix_emit tbl (ofSrc s) (ofSrc_ok s hp) 0x44 [] e he (by decide)
      simpa using this
  · -- JMP
    rename_i l
    cases hf : tbl.find (lower l) with
    | none => simp [hf] at h
    | some t => simp [hf] at h; subst h; simp [Emittable]; decide
  · -- CALL
    rename_i l
    cases hf : tbl.find (lower l) with
    | none => simp [hf] at h
    | some t => simp [hf] at h; subst h; simp [Emittable, definedFirst]

end Emu2a.C01
