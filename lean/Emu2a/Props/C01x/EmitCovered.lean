/-
C01 — the shape `Emittable` guarantees (C01x/Emittable.lean) is the shape `Covered` asks for.
-/
import Emu2a.Props.C01x.Emittable
import Emu2a.Props.C01
namespace Emu2a.C01
open Emu2a Isa

theorem operand_pc_bus (a : Arch) (mode r : Nat) :
    (Isa.operand a mode r).1.bus = a.bus ∧
    (Isa.operand a mode r).1.pc = (if (mode = 0 ∨ mode = 1) ∨ r < 3 then a.pc else a.pc + 1) := by
  unfold Isa.operand
  split
  · simp
  · simp
  · match r with
    | 0 | 1 | 2 => simp [Arch.setReg]
    | (k + 3) => simp [Arch.setReg, Arch.reg]
  · rename_i h0 h1 h2
    have hm : ¬ (mode = 0 ∨ mode = 1) := by
      intro h; rcases h with h | h
      · exact h0 h
      · exact h1 h
    match r with
    | 0 | 1 | 2 => simp [Arch.setReg]
    | (k + 3) => simp [Arch.setReg, Arch.reg, hm]

/-- A machine whose memory holds a defined one-byte opcode at PC is at a covered instruction. -/
theorem covered_of_first (a : Arch) (op : Nat) (hop : a.bus.read a.pc = BitVec.ofNat 8 op) (hlt : op < 0xF0)
    (hd : definedFirst op = true) : Covered a := by
  left
  have : (BitVec.ofNat 8 op).toNat = op := by simp; omega
  simp [covered1, hop, this, hd, hlt]

/-- A machine whose memory holds a two-byte prefix at PC and a defined second opcode byte behind it
(behind the prefix's operand byte for the forms 0xFB `(PC+)` / 0xFF `((PC+))`) is at a covered
instruction. -/
theorem covered_of_prefix (a : Arch) (op : Nat) (hop : a.bus.read a.pc = BitVec.ofNat 8 op) (h240 : 240 ≤ op)
    (hlt : op < 256) (k : Byte) (hk : k = if op % 16 = 11 ∨ op % 16 = 15 then 2#8 else 1#8)
    (hsec : definedSecond (a.bus.read (a.pc + k)).toNat = true) : Covered a := by
  right
  have htn : (BitVec.ofNat 8 op).toNat = op := by simp; omega
  simp only [hop, htn]
  refine ⟨h240, ?_⟩
  obtain ⟨hbus, hpc⟩ := operand_pc_bus { a with pc := a.pc + 1 } (op / 4 % 4) (op % 4)
  rw [hbus, hpc]
  by_cases hc : op % 16 = 11 ∨ op % 16 = 15
  · have h1 : ¬ ((op / 4 % 4 = 0 ∨ op / 4 % 4 = 1) ∨ op % 4 < 3) := by omega
    rw [if_neg h1]
    rw [if_pos hc] at hk; subst hk
    have : a.pc + 1#8 + 1#8 = a.pc + 2#8 := by rw [BitVec.add_assoc]; rfl
    rw [show a.pc + 1 + 1 = a.pc + 2#8 from this]
    exact hsec
  · have h1 : (op / 4 % 4 = 0 ∨ op / 4 % 4 = 1) ∨ op % 4 < 3 := by omega
    rw [if_pos h1]
    rw [if_neg hc] at hk; subst hk
    exact hsec
end Emu2a.C01
