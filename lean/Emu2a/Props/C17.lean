/-
C17 — the interactive session survives any key input; commands have their documented effect.
-/
import Emu2a.Model.Tui
import Emu2a.Spec.TuiSpec
import Emu2a.Lemmas.Fin
import Emu2a.Props.C03
namespace Emu2a.C17
open Emu2a Emu2a.Tui

/-! ### The line editor never panics and keeps the cursor inside the text -/

/-- Cursor inside the text, history index inside the history, completion index inside a non-empty
completion list. -/
def Inv (e : Editor) : Prop :=
  e.idx ≤ e.input.length ∧ (∀ i, e.hidx = some i → i < e.hist.length) ∧
  (∀ l i, e.comps = some (l, i) → i < l.length)

theorem inv_new : Inv {} := by simp [Inv]

/-- An outcome is acceptable when it is a new editor satisfying the invariant, or the model's
"unknown" (a path completion without a scripted completer answer) — never a panic. -/
def Good (fc : Option (List String)) : M Editor → Prop
  | .ok e => Inv e
  | .error (.unknown _) => fc = none
  | .error _ => False

theorem nth_ok {α} (l : List α) (i : Nat) (site : String) (h : i < l.length) : nth l i site = .ok l[i] := by
  simp [nth, h]

theorem isBoundary_prefix (s : List Char) (k : Nat) : isBoundary s (((s.take k).map utf8Len).sum) = true := by
  induction s generalizing k with
  | nil => simp [isBoundary]
  | cons c cs ih =>
    cases k with
    | zero => simp [isBoundary]
    | succ k =>
      have hpos : 0 < utf8Len c := by
        unfold utf8Len; have := Char.utf8Size_pos c; omega
      simp only [List.take_succ_cons, List.map_cons, List.sum_cons]
      obtain ⟨n, hn⟩ : ∃ n, utf8Len c + ((cs.take k).map utf8Len).sum = n + 1 := ⟨_, (Nat.succ_pred_eq_of_pos (by omega)).symm⟩
      rw [hn]
      simp only [isBoundary]
      have : utf8Len c ≤ n + 1 := by omega
      simp only [this, ↓reduceIte]
      have : n + 1 - utf8Len c = ((cs.take k).map utf8Len).sum := by omega
      rw [this]; exact ih k

def Good1 (fc : Option (List String)) (e : Editor) : M Editor → Prop
  | .ok e1 => e1.input = e.input ∧ e1.idx = e.idx ∧ e1.hist = e.hist ∧ e1.hidx = e.hidx ∧
      (e1.comps = e.comps ∨ ∃ l, e1.comps = some (l, 0))
  | .error (.unknown _) => fc = none
  | .error _ => False

theorem complete1_good (e : Editor) (fc : Option (List String)) (h : Inv e) : Good1 fc e (complete1 e fc) := by
  unfold complete1
  split
  · -- path completion
    have hidx : ¬ e.idx > e.input.length := by have := h.1; omega
    simp only [hidx, ↓reduceIte]
    have hb : isBoundary (e.input.drop 5) (((e.input.take e.idx).drop 5).map utf8Len).sum = true := by
      rw [List.drop_take]; exact isBoundary_prefix _ _
    simp only [hb, Bool.not_true, Bool.false_eq_true, ↓reduceIte]
    cases fc <;> simp [Good1]
  · split
    · simp [Good1]
    · split
      · simp [Good1]
      · split
        · split <;> simp [Good1]
        · simp [Good1]

theorem complete2_good (e1 : Editor) (h1 : e1.idx ≤ e1.input.length)
    (hh : ∀ i, e1.hidx = some i → i < e1.hist.length)
    (hc : e1.comps = none ∨ ∃ l, e1.comps = some (l, 0)) : ∀ fc, Good fc (complete2 e1) := by
  intro fc
  unfold complete2
  rcases hc with hc | ⟨l, hc⟩
  · simp only [hc]; exact ⟨h1, hh, by simp [hc]⟩
  · simp only [hc]
    have : (l ++ [e1.input])[0]? = some ((l ++ [e1.input])[0]'(by simp)) := by simp
    rw [this]
    refine ⟨by simp, hh, ?_⟩
    intro l' i' h; simp at h; obtain ⟨rfl, rfl⟩ := h; simp

theorem complete_good (e : Editor) (fc : Option (List String)) (h : Inv e) (hc : e.comps = none) :
    Good fc (complete e fc) := by
  unfold complete
  have := complete1_good e fc h
  cases heq : complete1 e fc with
  | ok e1 =>
    rw [heq] at this
    obtain ⟨hi, hx, hh, hhi, hcc⟩ := this
    apply complete2_good _ _ _ _ fc
    · rw [hx, hi]; exact h.1
    · rw [hhi, hh]; exact h.2.1
    · rw [hc] at hcc; exact hcc
  | error f =>
    rw [heq] at this
    cases f <;> simp_all [Good, Good1]

theorem next_good (e : Editor) (fc : Option (List String)) (h : Inv e) : Good fc (nextCompletion e fc) := by
  unfold nextCompletion
  split
  · rename_i comps i hc
    have hlen := h.2.2 comps i hc
    have hne : ¬ comps.length = 0 := by omega
    simp only [hne, ↓reduceIte]
    have hlt : (i + 1) % comps.length < comps.length := Nat.mod_lt _ (by omega)
    rw [List.getElem?_eq_getElem hlt]
    refine ⟨by simp, h.2.1, ?_⟩
    intro l' i' hh; simp at hh; obtain ⟨rfl, rfl⟩ := hh; exact hlt
  · rename_i hc; exact complete_good e fc h hc

theorem prev_good (e : Editor) (fc : Option (List String)) (h : Inv e) : Good fc (prevCompletion e fc) := by
  unfold prevCompletion
  split
  · rename_i comps i hc
    have hlen := h.2.2 comps i hc
    have hne : ¬ comps.length = 0 := by omega
    simp only [hne, ↓reduceIte]
    have hlt : (if i = 0 then usizeMax else i - 1) % comps.length < comps.length := Nat.mod_lt _ (by omega)
    rw [List.getElem?_eq_getElem hlt]
    refine ⟨by simp, h.2.1, ?_⟩
    intro l' i' hh; simp at hh; obtain ⟨rfl, rfl⟩ := hh; exact hlt
  · rename_i hc; exact complete_good e fc h hc

theorem handle1_good (e : Editor) (k : Key) (fc : Option (List String)) (h : Inv e) (hk : k ≠ .other) :
    Good fc (handle1 e k fc) := by
  obtain ⟨h1, h2, h3⟩ := h
  cases k with
  | enter => exact ⟨by simp, by simp, fun l i hc => h3 l i hc⟩
  | tab => exact next_good e fc ⟨h1, h2, h3⟩
  | backtab => exact prev_good e fc ⟨h1, h2, h3⟩
  | char c =>
    simp only [handle1, h1, ↓reduceIte]
    refine ⟨?_, h2, h3⟩
    simp only [List.length_append, List.length_take, List.length_cons, List.length_drop]; omega
  | backspace =>
    simp only [handle1]
    split
    · have : e.idx - 1 < e.input.length := by omega
      simp only [this, ↓reduceIte]
      refine ⟨?_, h2, h3⟩
      simp only [List.length_append, List.length_take, List.length_drop]; omega
    · exact ⟨h1, h2, h3⟩
  | home => exact ⟨by simp, h2, h3⟩
  | «end» => exact ⟨by simp, h2, h3⟩
  | left =>
    simp only [handle1]
    split
    · exact ⟨by simp; omega, h2, h3⟩
    · exact ⟨h1, h2, h3⟩
  | right =>
    simp only [handle1]
    split
    · exact ⟨by simp; omega, h2, h3⟩
    · exact ⟨h1, h2, h3⟩
  | up =>
    simp only [handle1]
    split
    · rename_i i hi
      have hlt := h2 i hi
      split
      · have : i - 1 < e.hist.length := by omega
        rw [List.getElem?_eq_getElem this]
        refine ⟨by simp, ?_, h3⟩
        intro j hj; simp at hj; subst hj; show i - 1 < e.hist.length; omega
      · exact ⟨h1, h2, h3⟩
    · split
      · rename_i hl hlast
        have hne : e.hist ≠ [] := by intro hh; simp [hh] at hlast
        have : 0 < e.hist.length := List.length_pos_iff.mpr hne
        refine ⟨by simp, ?_, h3⟩
        intro j hj; simp at hj; subst hj; show e.hist.length - 1 < e.hist.length; omega
      · exact ⟨h1, h2, h3⟩
  | down =>
    simp only [handle1]
    split
    · rename_i i hi
      have hlt := h2 i hi
      have hne : ¬ e.hist.length = 0 := by omega
      simp only [hne, ↓reduceIte]
      split
      · have : i + 1 < e.hist.length := by omega
        rw [List.getElem?_eq_getElem this]
        refine ⟨by simp, ?_, h3⟩
        intro j hj; simp at hj; subst hj; show i + 1 < e.hist.length; omega
      · split
        · exact ⟨by simp, by simp, h3⟩
        · exact ⟨h1, h2, h3⟩
    · exact ⟨h1, h2, h3⟩
  | delete =>
    simp only [handle1]
    split
    · refine ⟨?_, h2, h3⟩
      simp only [List.length_append, List.length_take, List.length_drop]; omega
    · exact ⟨h1, h2, h3⟩
  | other => exact absurd rfl hk

/-- **The line editor never panics** and keeps the cursor inside the text, the history index inside
the history and the completion index inside the completion list — for every key it can receive and
every answer of the path completer (`unknown` only when no completer answer is supplied). -/
theorem handle_good (e : Editor) (k : Key) (fc : Option (List String)) (h : Inv e) (hk : k ≠ .other) :
    Good fc (e.handle k fc) := by
  unfold Editor.handle
  have := handle1_good e k fc h hk
  cases heq : handle1 e k fc with
  | ok e' =>
    rw [heq] at this
    show Good fc (.ok (if k ≠ .tab ∧ k ≠ .backtab then { e' with comps := none } else e'))
    by_cases hkk : k ≠ .tab ∧ k ≠ .backtab
    · rw [if_pos hkk]; exact ⟨this.1, this.2.1, by simp⟩
    · rw [if_neg hkk]; exact this
  | error f => rw [heq] at this; exact this

/-- With a scripted completer answer for every key the outcome is always a well-formed editor. -/
theorem handle_ok (e : Editor) (k : Key) (l : List String) (h : Inv e) (hk : k ≠ .other) :
    ∃ e', e.handle k (some l) = .ok e' ∧ Inv e' := by
  have hg := handle_good e k (some l) h hk
  cases heq : e.handle k (some l) with
  | ok e' => rw [heq] at hg; exact ⟨e', rfl, hg⟩
  | error f =>
    rw [heq] at hg
    cases f with
    | unknown w => exact absurd hg (by simp [Good])
    | panic s => exact absurd hg (by simp [Good])
    | nofuel => exact absurd hg (by simp [Good])

/-- Every key sequence: fold over `(key, completer answer)` pairs. -/
def run : Editor → List (Key × List String) → M Editor
  | e, [] => .ok e
  | e, (k, l) :: ks => match e.handle k (some l) with | .ok e' => run e' ks | .error f => .error f

theorem run_ok (ks : List (Key × List String)) (hks : ∀ p ∈ ks, p.1 ≠ .other) :
    ∀ e, Inv e → ∃ e', run e ks = .ok e' ∧ Inv e' := by
  induction ks with
  | nil => intro e h; exact ⟨e, rfl, h⟩
  | cons p ks ih =>
    intro e h
    obtain ⟨k, l⟩ := p
    obtain ⟨e1, h1, hi1⟩ := handle_ok e k l h (hks (k, l) (by simp))
    simp only [run, h1]
    exact ih (fun p hp => hks p (by simp [hp])) e1 hi1

/-- Non-vacuity: a state with history, a history index and a running completion. -/
example : Inv { input := "load a".toList, idx := 6, hist := ["x", "y"], hidx := some 1,
                comps := some (["load a.asm".toList, "load a".toList], 1) } := by
  refine ⟨by decide, ?_, ?_⟩
  · intro i h; simp at h; subst h; decide
  · intro l i h; simp at h; obtain ⟨rfl, rfl⟩ := h; decide

/-! ### Drawing the input line never fails -/

theorem putCell_ok (row : List Cell) (x maxw : Nat) (c : Cell) (h : x < row.length) :
    ∃ row', putCell row x maxw c = .ok row' ∧ row'.length = row.length := by
  unfold putCell
  have : ¬ x ≥ row.length := by omega
  simp only [this, ↓reduceIte]
  split
  · exact ⟨row, rfl, rfl⟩
  · exact ⟨_, rfl, by simp⟩

theorem winStart_le (maxw len idx : Nat) (hi : idx ≤ len) : winStart maxw len idx ≤ idx := by
  unfold winStart; split <;> omega

theorem visible_ok (w : Nat) (input : List Char) (idx : Nat) (hw : 8 ≤ w) (_hi : idx ≤ input.length) :
    ∃ s, visible w input idx = .ok s ∧ s.length ≤ w - 3 := by
  unfold visible
  have h3 : ¬ w < 3 := by omega
  simp only [h3, ↓reduceIte]
  have hs : ¬ (winStart (w - 3) input.length idx > 0 ∧ winStart (w - 3) input.length idx + 3 > input.length) := by
    unfold winStart; split <;> omega
  simp only [hs, ↓reduceIte]
  generalize (if winStart (w - 3) input.length idx > 0 then
    "...".toList ++ input.drop (winStart (w - 3) input.length idx + 3) else input) = s1
  by_cases hlong : s1.length > w - 3
  · have : ¬ w - 3 < 3 := by omega
    simp only [hlong, this, ↓reduceIte]
    refine ⟨_, rfl, ?_⟩
    simp only [List.length_append, List.length_take]
    have : "...".toList.length = 3 := by decide
    omega
  · simp only [hlong, ↓reduceIte]
    exact ⟨_, rfl, by omega⟩

theorem drawChars_ok (w hl : Nat) : ∀ (cs : List Char) (row : List Cell) (i : Nat), row.length = w → 2 + i + cs.length ≤ w →
    ∃ row', drawChars w hl row i cs = .ok row' ∧ row'.length = w := by
  intro cs
  induction cs with
  | nil => intro row i hr _; exact ⟨row, rfl, hr⟩
  | cons c cs ih =>
    intro row i hr hlen
    simp only [List.length_cons] at hlen
    unfold drawChars
    have : ¬ w < 2 + i := by omega
    simp only [this, ↓reduceIte]
    obtain ⟨row', h1, h2⟩ := putCell_ok row (2 + i) (w - 2 - i) ⟨c, if i = hl then 'b' else '.'⟩ (by omega)
    rw [h1]
    exact ih row' (i + 1) (by omega) (by omega)

/-- **Drawing the input line never fails** in a field at least eight cells wide, wherever the cursor
is inside the text and however long the text is; every cell written lies inside the row. -/
theorem render_ok (w : Nat) (input : List Char) (idx : Nat) (hw : 8 ≤ w) (hi : idx ≤ input.length) :
    ∃ row, renderRow w input idx = .ok row ∧ row.length = w := by
  unfold renderRow
  obtain ⟨s, hs, hsl⟩ := visible_ok w input idx hw hi
  rw [hs]
  obtain ⟨r1, h1, l1⟩ := putCell_ok (List.replicate w ({} : Cell)) 0 w ⟨'>', 'y'⟩ (by simp; omega)
  simp only [h1]
  obtain ⟨r2, h2, l2⟩ := putCell_ok r1 1 (w - 1) ⟨' ', 'y'⟩ (by rw [l1]; simp; omega)
  simp only [h2]
  have hst := winStart_le (w - 3) input.length idx hi
  have : ¬ idx < winStart (w - 3) input.length idx := by omega
  simp only [this, ↓reduceIte]
  obtain ⟨r3, h3, l3⟩ := drawChars_ok w (idx - winStart (w - 3) input.length idx) s r2 0
    (by rw [l2, l1]; simp) (by omega)
  simp only [h3]
  split
  · rename_i heq
    have hpos : idx - winStart (w - 3) input.length idx + 2 < r3.length := by
      rw [l3, heq]; unfold winStart; split <;> omega
    obtain ⟨r4, h4, l4⟩ := putCell_ok r3 _ 1 ⟨'█', 'y'⟩ hpos
    exact ⟨r4, h4, by rw [l4, l3]⟩
  · exact ⟨r3, rfl, l3⟩

/-- The layout guard leaves the input field at least 39 cells (minimum sizes and sidebar width are
regenerated from interface.rs). -/
theorem inputWidth_ge (w h iw : Nat) (hh : inputWidth w h = some iw) : 8 ≤ iw ∧ iw + 37 = w := by
  unfold inputWidth at hh
  split at hh
  · cases hh
  · simp only [Gen.C.tuiMinWidth, Gen.C.tuiMinHeight, Gen.C.tuiSidebarWidth] at *
    injection hh with hh; omega

/-- At every terminal size the input line is drawn without a panic (or the "too small" screen is shown). -/
theorem draw_input_ok (w h : Nat) (e : Editor) (he : Inv e) :
    inputWidth w h = none ∨ ∃ iw row, inputWidth w h = some iw ∧ renderRow iw e.input e.idx = .ok row := by
  cases hiw : inputWidth w h with
  | none => exact Or.inl rfl
  | some iw =>
    obtain ⟨row, hr, _⟩ := render_ok iw e.input e.idx (inputWidth_ge w h iw hiw).1 he.1
    exact Or.inr ⟨iw, row, rfl, hr⟩

/-- The hypotheses are tight: in a seven-cell field a long text with the cursor at its end draws the
cursor outside the row. -/
example : (match renderRow 7 "abcdefghij".toList 10 with | .error (.panic _) => true | _ => false) = true := by decide

/-! ### The command grammar -/

/-- No command carries a value its target cannot hold: bytes are bytes (nothing above 255 is
truncated into one), the register index is one of four, the cycle count fits `usize`. -/
def CmdWF : Cmd → Prop
  | .reg r v => r < 4 ∧ v < 256
  | .irg v => v < 256
  | .next n => n < 2 ^ 64
  | _ => True

def AltWF : Alt Cmd → Prop
  | .ok c _ => CmdWF c
  | _ => True

theorem number_bound (pre : Option String) (isD : Char → Bool) (base limit : Nat) (inp : List Char) (v : Nat)
    (r : List Char) (h : number pre isD base limit inp = some (v, r)) : v < limit := by
  unfold number at h
  split at h
  · cases h
  · split at h
    · cases h
    · split at h
      · cases h
      · rename_i hv
        simp only [Option.some.injEq, Prod.mk.injEq] at h
        obtain ⟨rfl, _⟩ := h
        exact C03.fromRadix_bound _ _ _ _ hv

theorem valueU8_bound (inp : List Char) (v : Nat) (r : List Char) (h : valueU8 inp = some (v, r)) : v < 256 := by
  unfold valueU8 at h
  split at h
  · rename_i p hp; rw [h] at hp; exact number_bound _ _ _ _ _ _ _ hp
  · split at h
    · rename_i p hp; rw [h] at hp; exact number_bound _ _ _ _ _ _ _ hp
    · exact number_bound _ _ _ _ _ _ _ h

theorem assignByte_wf (target : P Nat) (mk : Nat → Nat → Cmd) (r : List Char)
    (hmk : ∀ i v ri, target r = some (i, ri) → v < 256 → CmdWF (mk i v)) : AltWF (assignByte target mk r) := by
  unfold assignByte
  split
  · trivial
  · rename_i i ri hi
    split
    · trivial
    · split
      · trivial
      · rename_i v rv hv
        exact hmk i v ri hi (valueU8_bound _ _ _ hv)

theorem inputReg_lt (inp : List Char) (i : Nat) (r : List Char) (h : inputReg inp = some (i, r)) : i < 4 := by
  unfold inputReg at h
  repeat' split at h
  all_goals first
    | (simp only [Option.some.injEq, Prod.mk.injEq] at h; omega)
    | cases h

theorem altAll_wf (ps : List (List Char → Alt Cmd)) (inp : List Char) (h : ∀ p ∈ ps, AltWF (p inp)) :
    AltWF (altAll ps inp) := by
  induction ps with
  | nil => trivial
  | cons p ps ih =>
    unfold altAll
    have hp := h p (by simp)
    split
    · exact ih (fun q hq => h q (by simp [hq]))
    · exact hp

theorem ofOpt_wf (o : Option (Cmd × List Char)) (h : ∀ c r, o = some (c, r) → CmdWF c) : AltWF (ofOpt o) := by
  cases o with
  | none => trivial
  | some p => exact h p.1 p.2 rfl

theorem firstOf_wf (ps : List (List Char → Option (Cmd × List Char))) (inp : List Char)
    (h : ∀ p ∈ ps, ∀ c r, p inp = some (c, r) → CmdWF c) : ∀ c r, firstOf ps inp = some (c, r) → CmdWF c := by
  induction ps with
  | nil => intro c r hh; simp [firstOf] at hh
  | cons p ps ih =>
    intro c r hh
    unfold firstOf at hh
    split at hh
    · rename_i res hres; rw [hh] at hres; exact h p (by simp) c r hres
    · exact ih (fun q hq => h q (by simp [hq])) c r hh

theorem pre_wf (p : P Unit) (name : String) (c : Cmd) (hc : CmdWF c) (inp : List Char) :
    ∀ c' r, pre p name c inp = some (c', r) → CmdWF c' := by
  intro c' r h
  unfold pre at h
  split at h
  · cases h
  · split at h
    · cases h
    · simp only [Option.some.injEq, Prod.mk.injEq] at h
      rw [← h.1]; exact hc

theorem floatArg_wf (name : String) (mk : F32.Bits → Cmd) (hmk : ∀ b, CmdWF (mk b)) (r : List Char) :
    AltWF (floatArg name mk r) := by
  unfold floatArg
  split
  · trivial
  · split
    · exact hmk _
    · trivial
    · trivial

/-- **Nothing is truncated**: whatever line is typed, a parsed command carries a register index
below 4, byte values below 256 (`FC = 256`, `set IRG = 0x100` are not commands at all) and a cycle
count below 2^64. -/
theorem parseCmd_wf (line : List Char) (c : Cmd) (h : parseCmd line = .cmd c) : CmdWF c := by
  unfold parseCmd at h
  have key : ∀ inp, AltWF (altAll allCmds inp) := by
    intro inp
    apply altAll_wf
    intro p hp
    simp only [allCmds, List.mem_cons, List.mem_nil_iff, or_false] at hp
    rcases hp with rfl | rfl | rfl | rfl | rfl | rfl | rfl | rfl | rfl | rfl
    · unfold cmdLoad; split
      · trivial
      · split <;> trivial
    · exact assignByte_wf _ _ _ (fun i v ri hi hv => ⟨inputReg_lt _ _ _ hi, hv⟩)
    · unfold cmdSetIrg; split
      · trivial
      · exact assignByte_wf _ _ _ (fun i v ri _ hv => hv)
    · unfold cmdSetTemp; split
      · trivial
      · exact floatArg_wf _ _ (fun _ => by trivial) _
    · unfold cmdSetIx; split
      · trivial
      · have h1 := floatArg_wf "I1" .i1 (fun _ => by trivial)
        have h2 := floatArg_wf "I2" .i2 (fun _ => by trivial)
        split
        · exact h2 _
        · exact h1 _
    · unfold cmdSetJx; apply ofOpt_wf; apply firstOf_wf
      intro p hp
      simp only [List.mem_cons, List.mem_nil_iff, or_false] at hp
      rcases hp with rfl | rfl | rfl | rfl <;> exact pre_wf _ _ _ (by trivial) _
    · unfold cmdSetUiox; apply ofOpt_wf; apply firstOf_wf
      intro p hp
      simp only [List.mem_cons, List.mem_nil_iff, or_false] at hp
      rcases hp with rfl | rfl | rfl | rfl | rfl | rfl <;> exact pre_wf _ _ _ (by trivial) _
    · unfold cmdShow; split
      · trivial
      · split
        · trivial
        · split
          · trivial
          · split <;> trivial
    · unfold cmdNext
      split
      · trivial
      · split
        · show (1 : Nat) < 2 ^ 64; decide
        · split
          · rename_i hv; exact number_bound _ _ _ _ _ _ _ hv
          · show (1 : Nat) < 2 ^ 64; decide
    · unfold cmdQuit; split
      · trivial
      · split <;> trivial
  have hk := key (stripWs line)
  cases halt : altAll allCmds (stripWs line) with
  | ok c' rest =>
    rw [halt] at h hk
    simp only [finish] at h
    split at h
    · injection h with h; rw [← h]; exact hk
    · cases h
  | fail => rw [halt] at h; cases h
  | unknown => rw [halt] at h; cases h

/-! #### Decimal byte values: accepted up to 255, rejected above — for every digit string -/

theorem isDigit_iff (c : Char) : isDigit c = true ↔ '0' ≤ c ∧ c ≤ '9' := by
  simp [isDigit]

theorem digitVal_digit (c : Char) (h : isDigit c = true) : Parse.digitVal c = some (c.toNat - 48) ∧ c.toNat - 48 < 10 := by
  have h' := (isDigit_iff c).mp h
  refine ⟨by simp [Parse.digitVal, h'], ?_⟩
  obtain ⟨h1, h2⟩ := h'
  have h2' : c.toNat ≤ 57 := h2
  omega

/-- Value of a digit string continuing from `a`. -/
def valFrom (a : Nat) (ds : List Char) : Nat := ds.foldl (fun a c => a * 10 + (c.toNat - 48)) a

theorem valFrom_ge (ds : List Char) : ∀ a, a ≤ valFrom a ds := by
  induction ds with
  | nil => intro a; exact Nat.le_refl _
  | cons c cs ih =>
    intro a
    have := ih (a * 10 + (c.toNat - 48))
    simp only [valFrom, List.foldl_cons] at *
    omega

theorem foldl_none (base limit : Nat) (ds : List Char) :
    ds.foldl (fun acc c => match acc, Parse.digitVal c with
      | some a, some d => if d < base ∧ a * base + d < limit then some (a * base + d) else none
      | _, _ => none) none = none := by
  induction ds with
  | nil => rfl
  | cons c cs ih => simpa [List.foldl_cons] using ih

theorem fold_spec (limit : Nat) (ds : List Char) (hd : ∀ c ∈ ds, isDigit c = true) : ∀ a,
    ds.foldl (fun acc c => match acc, Parse.digitVal c with
      | some a, some d => if d < 10 ∧ a * 10 + d < limit then some (a * 10 + d) else none
      | _, _ => none) (some a) = if valFrom a ds < limit ∨ ds = [] then some (valFrom a ds) else none := by
  induction ds with
  | nil => intro a; simp [valFrom]
  | cons c cs ih =>
    intro a
    obtain ⟨hv, hlt⟩ := digitVal_digit c (hd c (by simp))
    simp only [List.foldl_cons, hv, hlt, true_and]
    have hcs : ∀ c ∈ cs, isDigit c = true := fun c hc => hd c (by simp [hc])
    by_cases hl : a * 10 + (c.toNat - 48) < limit
    · simp only [hl, ↓reduceIte]
      rw [ih hcs]
      have hv' : valFrom a (c :: cs) = valFrom (a * 10 + (c.toNat - 48)) cs := by simp [valFrom]
      rw [hv']
      by_cases hc : cs = []
      · subst hc; simp [valFrom, hl]
      · simp [hc]
    · simp only [hl, ↓reduceIte]
      rw [foldl_none]
      have hge := valFrom_ge cs (a * 10 + (c.toNat - 48))
      have hv' : valFrom a (c :: cs) = valFrom (a * 10 + (c.toNat - 48)) cs := by simp [valFrom]
      rw [hv']
      have : ¬ (valFrom (a * 10 + (c.toNat - 48)) cs < limit ∨ c :: cs = []) := by
        intro h; rcases h with h | h
        · omega
        · cases h
      rw [if_neg this]

/-- `u8::parse` on a non-empty string of decimal digits: the denoted number if it is at most 255. -/
theorem fromRadix_dec (limit : Nat) (ds : List Char) (hne : ds ≠ []) (hd : ∀ c ∈ ds, isDigit c = true) :
    Parse.fromRadix 10 limit ds = if valFrom 0 ds < limit then some (valFrom 0 ds) else none := by
  unfold Parse.fromRadix
  have : ds.isEmpty = false := by cases ds <;> simp_all
  simp only [this, Bool.false_eq_true, ↓reduceIte]
  have := fold_spec limit ds hd 0
  simp only [hne, or_false] at this
  exact this

theorem digits_not_ws (ds : List Char) (hd : ∀ c ∈ ds, isDigit c = true) :
    ds.takeWhile isWs = [] ∧ ds.dropWhile isWs = ds := by
  cases ds with
  | nil => simp
  | cons c cs =>
    have h := (isDigit_iff c).mp (hd c (by simp))
    have hw : isWs c = false := by
      simp only [isWs, Bool.or_eq_false_iff, decide_eq_false_iff_not]
      constructor <;> (intro hc; subst hc; revert h; decide)
    simp [List.takeWhile, List.dropWhile, hw]

theorem digits_all (ds : List Char) (hd : ∀ c ∈ ds, isDigit c = true) :
    ds.takeWhile isDigit = ds ∧ ds.dropWhile isDigit = [] := by
  induction ds with
  | nil => simp
  | cons c cs ih =>
    have hc := hd c (by simp)
    have := ih (fun c h => hd c (by simp [h]))
    simp [List.takeWhile, List.dropWhile, hc, this]

theorem digits_no_prefix (ds : List Char) (hd : ∀ c ∈ ds, isDigit c = true) (t : String)
    (ht : ∃ a b, t.toList = [a, b] ∧ isDigit (lowerC b) = false ∧ (∀ c, isDigit c = true → lowerC c = c)) :
    tagNC t ds = none := by
  obtain ⟨a, b, htl, hb, hlow⟩ := ht
  unfold tagNC
  rw [htl]
  match ds, hd with
  | [], _ => simp
  | [_], _ => simp
  | x :: y :: rest, hd =>
    have hy := hd y (by simp)
    have : lowerC y ≠ lowerC b := by
      intro h
      rw [hlow y hy] at h
      rw [← h] at hb
      rw [hy] at hb; cases hb
    simp [this]

theorem lowerC_digit (c : Char) (h : isDigit c = true) : lowerC c = c := by
  have h' := (isDigit_iff c).mp h
  unfold lowerC
  have : ¬ ('A' ≤ c ∧ c ≤ 'Z') := by
    intro ⟨h1, _⟩
    have a : c.toNat ≤ 57 := h'.2
    have b : 65 ≤ c.toNat := h1
    omega
  simp [this]

theorem valueU8_dec (ds : List Char) (hne : ds ≠ []) (hd : ∀ c ∈ ds, isDigit c = true) :
    valueU8 ds = if valFrom 0 ds < 256 then some (valFrom 0 ds, []) else none := by
  have hx : tagNC "0x" ds = none := digits_no_prefix ds hd "0x" ⟨'0', 'x', by decide, by decide, lowerC_digit⟩
  have hb : tagNC "0b" ds = none := digits_no_prefix ds hd "0b" ⟨'0', 'b', by decide, by decide, lowerC_digit⟩
  obtain ⟨ht, hdr⟩ := digits_all ds hd
  have hm : many1 isDigit ds = some (ds, []) := by
    unfold many1; rw [ht, hdr]
    have : ds.isEmpty = false := by cases ds <;> simp_all
    simp [this]
  unfold valueU8 nrHex nrBin nrDec number
  simp only [hx, hb, hm, fromRadix_dec 256 ds hne hd]
  by_cases hl : valFrom 0 ds < 256 <;> simp [hl]

/-- **`FC..FF = n` in decimal, for every digit string**: the command sets that register to the
denoted value when it is at most 255 and is no command at all when it is larger (however many
digits) — rejected rather than truncated. -/
theorem reg_dec_spec (ds : List Char) (hne : ds ≠ []) (hd : ∀ c ∈ ds, isDigit c = true) :
    parseCmd ("FC = ".toList ++ ds) = (if valFrom 0 ds < 256 then .cmd (.reg 0 (valFrom 0 ds)) else .invalid) ∧
    parseCmd ("FD = ".toList ++ ds) = (if valFrom 0 ds < 256 then .cmd (.reg 1 (valFrom 0 ds)) else .invalid) ∧
    parseCmd ("FE = ".toList ++ ds) = (if valFrom 0 ds < 256 then .cmd (.reg 2 (valFrom 0 ds)) else .invalid) ∧
    parseCmd ("FF = ".toList ++ ds) = (if valFrom 0 ds < 256 then .cmd (.reg 3 (valFrom 0 ds)) else .invalid) := by
  obtain ⟨hw1, hw2⟩ := digits_not_ws ds hd
  have hv := valueU8_dec ds hne hd
  have e1 : "FC = ".toList = ['F', 'C', ' ', '=', ' '] := by decide
  have e2 : "FD = ".toList = ['F', 'D', ' ', '=', ' '] := by decide
  have e3 : "FE = ".toList = ['F', 'E', ' ', '=', ' '] := by decide
  have e4 : "FF = ".toList = ['F', 'F', ' ', '=', ' '] := by decide
  refine ⟨?_, ?_, ?_, ?_⟩
  all_goals
    simp only [e1, e2, e3, e4]
    have hl : "=".length = 1 := by decide
    simp [parseCmd, stripWs, allCmds, altAll, cmdLoad, cmdSetReg, tagNC, setWs, unsetWs, andThen, ws, many1, isWs, lowerC,
      inputReg, assignByte, eqWs, wsOpt, tag, finish, hw1, hw2, hv, hl, List.takeWhile, List.dropWhile,
      cmdSetIrg, cmdSetTemp, cmdSetIx, cmdSetJx, cmdSetUiox, cmdShow, cmdNext, cmdQuit, firstOf, pre, ofOpt]
    by_cases hlt : valFrom 0 ds < 256 <;> simp [hlt]

/-- Non-vacuity and the boundary: 255 is accepted, 256 and a 30-digit number are not. -/
example : parseCmd "FC = 255".toList = .cmd (.reg 0 255) ∧ parseCmd "FC = 256".toList = .invalid ∧
    parseCmd "FC = 100000000000000000000000000000".toList = .invalid ∧ parseCmd "ff=0XfF".toList = .cmd (.reg 3 255) ∧
    parseCmd "set FE = 0b100000000".toList = .invalid ∧ parseCmd " set  irg= 0B101 ".toList = .cmd (.irg 5) := by decide

/-! ### The session: event dispatch -/

def ctrl : Mods := { ctrl := true }

/-- Any key only dismisses a notification that is showing. -/
theorem key_dismisses_note (st : State) (code : Code) (mods : Mods) (fc) (fs) (h : st.note.isSome) :
    handleEvent st code mods fc fs = .ok ({ st with note := none }, false) := by
  simp [handleEvent, h, pure, Except.pure]

/-- **The control keys act as the library calls of the same name** (and on nothing else): interrupt,
CPU reset, continue, step-mode toggle; auto-run toggle; quit. -/
theorem ctrl_keys (st : State) (fc) (fs) (h : st.note = none) :
    handleEvent st (.key (.char 'e')) ctrl fc fs = .ok ({ st with m := st.m.keyInterrupt }, false) ∧
    handleEvent st (.key (.char 'r')) ctrl fc fs = .ok ({ st with m := st.m.cpuReset }, false) ∧
    handleEvent st (.key (.char 'l')) ctrl fc fs = .ok ({ st with m := st.m.keyContinue }, false) ∧
    handleEvent st (.key (.char 'w')) ctrl fc fs =
      .ok ({ st with m := { st.m with mode := match st.m.mode with | .real => .assembly | .assembly => .real } }, false) ∧
    handleEvent st (.key (.char 'a')) ctrl fc fs = .ok ({ st with auto := !st.auto }, false) ∧
    handleEvent st (.key (.char 'c')) ctrl fc fs = .ok (st, true) := by
  simp [handleEvent, h, ctrl, pure, Except.pure]
  rfl

/-- Every other control chord leaves the session untouched. -/
theorem ctrl_other (st : State) (code : Code) (fc) (fs) (h : st.note = none)
    (hc : ∀ c, code = .key (.char c) → c ∉ ['c', 'a', 'w', 'e', 'r', 'l']) :
    handleEvent st code ctrl fc fs = .ok (st, false) := by
  simp only [handleEvent, h, Option.isSome_none, Bool.false_eq_true, ↓reduceIte, ctrl]
  split <;> first
    | rfl
    | (exfalso; rename_i hcode; first
        | exact absurd (hc _ rfl) (by simp)
        | exact absurd (hc _ hcode) (by simp))

/-- Enter on an empty input line is the clock key. -/
theorem enter_is_clock (st : State) (mods : Mods) (fc) (fs) (h : st.note = none) (hm : mods ≠ ctrl)
    (he : st.ed.input = []) :
    handleEvent st (.key .enter) mods fc fs =
      (match keyClock st.m with | .ok m => .ok ({ st with m := m }, false) | .error f => .error f) := by
  have hm' : ¬ mods = { ctrl := true } := hm
  simp only [handleEvent, h, Option.isSome_none, Bool.false_eq_true, ↓reduceIte, hm', he, List.isEmpty_nil]
  cases keyClock st.m <;> rfl

/-- The session right after a non-empty line was submitted: the line is the newest history entry,
the input field is empty. -/
def submitted (st : State) : State :=
  { st with note := none,
            ed := { input := [], idx := 0, hist := st.ed.hist ++ [String.ofList st.ed.input], hidx := none, comps := none } }

/-- What `Enter` does with a non-empty line: the line goes to the history and is parsed; a command
is executed, anything else is rejected with a notification quoting the line. -/
theorem enter_submits (st : State) (mods : Mods) (fc) (fs) (h : st.note = none) (hm : mods ≠ ctrl)
    (he : st.ed.input ≠ []) :
    handleEvent st (.key .enter) mods fc fs =
      (let st' : State := submitted st
       match parseCmd st.ed.input with
       | .cmd c => execCmd st' fs c
       | .invalid => .ok ({ st' with note := some (.invalid (String.ofList st.ed.input)) }, false)
       | .unknown => .error (.unknown "float syntax outside the model")) := by
  have hm' : ¬ mods = { ctrl := true } := hm
  have hemp : st.ed.input.isEmpty = false := by cases hh : st.ed.input <;> simp_all
  simp only [handleEvent, h, Option.isSome_none, Bool.false_eq_true, ↓reduceIte, hm', hemp, handleInput,
    Editor.handle, handle1, bind, Except.bind, ne_eq, reduceCtorEq, not_false_eq_true, and_self,
    List.getLast?_append, List.getLast?_singleton, Option.some_or, String.toList_ofList]
  cases parseCmd st.ed.input <;> rfl

/-- **The documented effect of every command** on the machine: the library setter of that name with
the parsed value, and nothing else in the session changes. -/
theorem exec_table (st : State) (fs) (v : Nat) (b : F32.Bits) (p : Bool) :
    execCmd st fs (.reg 0 v) = .ok ({ st with m := st.m.mapBus (·.setInputReg 0 (BitVec.ofNat 8 v)) }, false) ∧
    execCmd st fs (.reg 1 v) = .ok ({ st with m := st.m.mapBus (·.setInputReg 1 (BitVec.ofNat 8 v)) }, false) ∧
    execCmd st fs (.reg 2 v) = .ok ({ st with m := st.m.mapBus (·.setInputReg 2 (BitVec.ofNat 8 v)) }, false) ∧
    execCmd st fs (.reg 3 v) = .ok ({ st with m := st.m.mapBus (·.setInputReg 3 (BitVec.ofNat 8 v)) }, false) ∧
    execCmd st fs (.irg v) = .ok ({ st with m := st.m.mapBoard (·.setDi1 (BitVec.ofNat 8 v)) }, false) ∧
    execCmd st fs (.temp b) = .ok ({ st with m := st.m.mapBoard (·.setTemp b) }, false) ∧
    execCmd st fs (.i1 b) = .ok ({ st with m := st.m.mapBoard (·.setAi1 b) }, false) ∧
    execCmd st fs (.i2 b) = .ok ({ st with m := st.m.mapBoard (·.setAi2 b) }, false) ∧
    execCmd st fs (.j1 p) = .ok ({ st with m := st.m.mapBoard (·.setJ1 p) }, false) ∧
    execCmd st fs (.j2 p) = .ok ({ st with m := st.m.mapBoard (·.setJ2 p) }, false) ∧
    execCmd st fs (.uio1 p) = .ok ({ st with m := st.m.mapBoard (·.setUio1 p) }, false) ∧
    execCmd st fs (.uio2 p) = .ok ({ st with m := st.m.mapBoard (·.setUio2 p) }, false) ∧
    execCmd st fs (.uio3 p) = .ok ({ st with m := st.m.mapBoard (·.setUio3 p) }, false) ∧
    execCmd st fs (.show p) = .ok ({ st with showMemory := p }, false) ∧
    execCmd st fs .quit = .ok (st, true) := by
  refine ⟨rfl, rfl, rfl, rfl, rfl, rfl, rfl, rfl, rfl, rfl, rfl, rfl, rfl, rfl, rfl⟩

theorem clocks_outcome (n : Nat) : ∀ m, (∃ m', clocks n m = .ok m') ∨ clocks n m = .error .nofuel := by
  induction n with
  | zero => intro m; exact Or.inl ⟨m, rfl⟩
  | succ n ih =>
    intro m
    simp only [clocks, keyClock, bind, Except.bind]
    cases hk : m.keyClock stepFuel with
    | none => exact Or.inr rfl
    | some m' => simpa using ih m'

/-- `next N` is N presses of the clock key. -/
theorem next_is_clocks (st : State) (fs) (n : Nat) :
    execCmd st fs (.next n) = (match clocks n st.m with | .ok m => .ok ({ st with m := m }, false) | .error f => .error f) := by
  simp only [execCmd, bind, Except.bind]
  cases clocks n st.m <;> rfl

theorem loadProgram_ed (st : State) (fs) (path : String) (s' : State)
    (h : loadProgram st fs path = .ok s') : s'.ed = st.ed := by
  unfold loadProgram at h
  repeat' split at h
  all_goals first
    | (injection h with h; rw [← h])
    | (simp [Tui.panic] at h; done)

def ExecGood (st : State) (c : Cmd) : M (State × Bool) → Prop
  | .ok r => r.1.ed = st.ed
  | .error (.panic _) => ∃ p, c = .load p
  | .error _ => True

theorem execCmd_good (st : State) (fs) (c : Cmd) : ExecGood st c (execCmd st fs c) := by
  cases c with
  | load p =>
    simp only [execCmd, bind, Except.bind]
    cases h : loadProgram st fs (String.ofList p) with
    | ok s' => exact loadProgram_ed st fs _ s' h
    | error f => cases f <;> first | exact ⟨p, rfl⟩ | trivial
  | next n =>
    rw [next_is_clocks]
    rcases clocks_outcome n st.m with ⟨m', h⟩ | h <;> rw [h] <;> simp [ExecGood]
  | reg r v =>
    match r with
    | 0 | 1 | 2 | (k + 3) => simp [execCmd, ExecGood, pure, Except.pure]
  | _ => simp [execCmd, ExecGood, pure, Except.pure]

/-! ### No key sequence makes the session panic -/

/-- Acceptable outcomes of one event: a session whose editor is well-formed; running out of the
model's step fuel or leaving the modelled float syntax; a panic only when the submitted line is a
`load` command (the translator / loader panics recorded under C06). -/
def SessGood (st : State) (code : Code) : M (State × Bool) → Prop
  | .ok r => Inv r.1.ed
  | .error (.panic _) => code = .key .enter ∧ ∃ p, parseCmd st.ed.input = .cmd (.load p)
  | .error _ => True

theorem keyClock_outcome (m : Machine) : (∃ m', keyClock m = .ok m') ∨ keyClock m = .error .nofuel := by
  unfold keyClock
  cases m.keyClock stepFuel with
  | none => exact Or.inr rfl
  | some m' => exact Or.inl ⟨m', rfl⟩

theorem submitted_inv (st : State) : Inv (submitted st).ed := ⟨by simp [submitted], by simp [submitted], by simp [submitted]⟩

theorem handleEvent_good (st : State) (code : Code) (mods : Mods) (l : List String) (fs)
    (hi : Inv st.ed) : SessGood st code (handleEvent st code mods (some l) fs) := by
  by_cases hn : st.note.isSome
  · rw [key_dismisses_note st code mods _ fs hn]; exact hi
  · have hn' : st.note = none := by cases h : st.note <;> simp_all
    by_cases hm : mods = ctrl
    · subst hm
      simp only [handleEvent, hn', Option.isSome_none, Bool.false_eq_true, ↓reduceIte, ctrl]
      split <;> exact hi
    · have hm' : ¬ mods = { ctrl := true } := hm
      by_cases hk : code = .key .enter
      · subst hk
        by_cases he : st.ed.input = []
        · rw [enter_is_clock st mods _ fs hn' hm he]
          rcases keyClock_outcome st.m with ⟨m', h⟩ | h <;> rw [h]
          · exact hi
          · trivial
        · rw [enter_submits st mods _ fs hn' hm he]
          cases hp : parseCmd st.ed.input with
          | cmd c =>
            simp only
            have := execCmd_good (submitted st) fs c
            cases hx : execCmd (submitted st) fs c with
            | ok r =>
              rw [hx] at this
              show Inv r.1.ed
              rw [this]
              exact submitted_inv st
            | error f =>
              rw [hx] at this
              cases f with
              | panic s => obtain ⟨p, rfl⟩ := this; exact ⟨rfl, p, hp⟩
              | nofuel => trivial
              | unknown w => trivial
          | invalid => exact submitted_inv st
          | unknown => trivial
      · cases code with
        | key k =>
          by_cases ho : k = .other
          · subst ho
            simp only [handleEvent, hn', Option.isSome_none, Bool.false_eq_true, ↓reduceIte, hm']
            exact hi
          · have hk' : k ≠ .enter := fun h => hk (by rw [h])
            obtain ⟨e', he', hie'⟩ := handle_ok st.ed k l hi ho
            have : handleEvent st (.key k) mods (some l) fs = .ok ({ st with ed := e' }, false) := by
              simp only [handleEvent, hn', Option.isSome_none, Bool.false_eq_true, ↓reduceIte, hm']
              cases k <;> simp_all [bind, Except.bind, pure, Except.pure]
            rw [this]; exact hie'
        | _ =>
          simp only [handleEvent, hn', Option.isSome_none, Bool.false_eq_true, ↓reduceIte, hm']
          exact hi

/-- A session: events with the completer's answer for each. -/
def runEvents (fs : String → Option String) : State → List (Code × Mods × List String) → M State
  | st, [] => .ok st
  | st, (c, m, l) :: es =>
    match handleEvent st c m (some l) fs with
    | .ok (st', _) => runEvents fs st' es
    | .error f => .error f

/-- **No sequence of key presses makes the session panic**, for every file system and every answer
of the path completer — unless a `load` command hits one of the translator / loader panics that are
C06's recorded findings (`LoadsOnly`: every panic on the way is of that kind). -/
theorem session_never_panics (fs) (es : List (Code × Mods × List String)) : ∀ st, Inv st.ed →
    match runEvents fs st es with
    | .ok st' => Inv st'.ed
    | .error (.panic _) => ∃ (st1 : State) (p : List Char), Inv st1.ed ∧ parseCmd st1.ed.input = .cmd (.load p)
    | .error _ => True := by
  induction es with
  | nil => intro st hi; exact hi
  | cons e es ih =>
    intro st hi
    obtain ⟨c, m, l⟩ := e
    have hg := handleEvent_good st c m l fs hi
    simp only [runEvents]
    cases hx : handleEvent st c m (some l) fs with
    | ok r => rw [hx] at hg; exact ih r.1 hg
    | error f =>
      rw [hx] at hg
      cases f with
      | panic s => exact ⟨st, hg.2.choose, hi, hg.2.choose_spec⟩
      | nofuel => trivial
      | unknown w => trivial

/-- Non-vacuity: a session that types `FC = 7`, submits it, and presses the clock key. -/
example : (match runEvents (fun _ => none) State.new
      [(.key (.char 'F'), {}, []), (.key (.char 'C'), {}, []), (.key (.char '='), {}, []), (.key (.char '7'), {}, []),
       (.key .enter, {}, []), (.key .enter, {}, [])] with
    | .ok st => st.m.core.bus.inFC.toNat == 7 && st.ed.hist == ["FC=7"]
    | .error _ => false) = true := by decide +kernel

/-! ### The session refines the specification (machine and notification) -/

def proj : M (State × Bool) → M (Machine × Option Note)
  | .ok r => .ok (r.1.m, r.1.note)
  | .error f => .error f

def projS : M State → M (Machine × Option Note)
  | .ok s => .ok (s.m, s.note)
  | .error f => .error f

theorem loadProgram_proj (s1 s2 : State) (fs) (path : String) (hm : s1.m = s2.m) (hn : s1.note = s2.note) :
    projS (loadProgram s1 fs path) = projS (loadProgram s2 fs path) := by
  unfold loadProgram
  rw [hm]
  cases fs path with
  | none => simp [projS]
  | some src =>
    simp only
    cases Parse.parse (Parse.defaultFuel src) src with
    | ok p =>
      simp only
      cases Asm.compile p with
      | ok b =>
        simp only
        cases s2.m.load (List.map (BitVec.ofNat 8) b.bytes) (Runner.ssOf b.ss) (Runner.psOf b.ps) <;>
          simp [projS, hn, Tui.panic]
      | error e => simp [projS, Tui.panic]
    | panic s => simp [projS, Tui.panic]
    | syntaxError => simp [projS]
    | undefinedLabels ls => simp [projS]
    | tooManyLabels => simp [projS]

theorem execCmd_proj (s1 s2 : State) (fs) (c : Cmd) (hm : s1.m = s2.m) (hn : s1.note = s2.note) :
    proj (execCmd s1 fs c) = proj (execCmd s2 fs c) := by
  cases c with
  | load p =>
    have := loadProgram_proj s1 s2 fs (String.ofList p) hm hn
    simp only [execCmd, bind, Except.bind]
    cases h1 : loadProgram s1 fs (String.ofList p) <;> cases h2 : loadProgram s2 fs (String.ofList p) <;>
      simp_all [proj, projS, pure, Except.pure]
  | next n =>
    rw [next_is_clocks, next_is_clocks, hm]
    cases clocks n s2.m <;> simp [proj, hn]
  | reg r v =>
    match r with
    | 0 | 1 | 2 | (k + 3) => simp [execCmd, proj, pure, Except.pure, hm, hn]
  | _ => simp [execCmd, proj, pure, Except.pure, hm, hn]

/-- **Refinement**: seen from the machine and the notification area, every key event does exactly
what the specification (`TuiSpec.afterEvent`: dismiss a notification / control keys as library calls
/ Enter on an empty line = clock key / a submitted line = the documented command or a rejection
quoting the line / everything else: nothing) prescribes — provided the nom grammar and the
documented command language agree on the submitted line (`hg`; that agreement is established by
`parseCmd_wf`, `reg_dec_spec`, `cmd_forms_agree` and the differential runs, not in general). -/
theorem session_refines_spec (st : State) (code : Code) (mods : Mods) (l : List String) (fs)
    (hi : Inv st.ed) (hg : parseCmd st.ed.input = TuiSpec.parse st.ed.input) :
    proj (handleEvent st code mods (some l) fs) = TuiSpec.afterEvent st.m st.note st.ed.input code mods fs := by
  by_cases hn : st.note.isSome
  · rw [key_dismisses_note st code mods _ fs hn]
    simp [TuiSpec.afterEvent, hn, proj, pure, Except.pure]
  · have hn' : st.note = none := by cases h : st.note <;> simp_all
    by_cases hm : mods = ctrl
    · subst hm
      simp only [handleEvent, TuiSpec.afterEvent, hn', Option.isSome_none, Bool.false_eq_true, ↓reduceIte, ctrl]
      split <;> simp [proj, pure, Except.pure, TuiSpec.ctrlKey, hn'] <;> (try split) <;> simp_all
    · have hm' : ¬ mods = { ctrl := true } := hm
      by_cases hk : code = .key .enter
      · subst hk
        by_cases he : st.ed.input = []
        · rw [enter_is_clock st mods _ fs hn' hm he]
          simp only [TuiSpec.afterEvent, hn', Option.isSome_none, Bool.false_eq_true, ↓reduceIte, hm', he,
            List.isEmpty_nil, bind, Except.bind]
          cases keyClock st.m <;> simp [proj, pure, Except.pure, hn']
        · rw [enter_submits st mods _ fs hn' hm he]
          have hemp : st.ed.input.isEmpty = false := by cases hh : st.ed.input <;> simp_all
          simp only [TuiSpec.afterEvent, hn', Option.isSome_none, Bool.false_eq_true, ↓reduceIte, hm', hemp, ← hg]
          cases hp : parseCmd st.ed.input with
          | cmd c =>
            simp only [bind, Except.bind]
            have := execCmd_proj (submitted st) { m := st.m } fs c rfl rfl
            cases h1 : execCmd (submitted st) fs c <;> cases h2 : execCmd { m := st.m } fs c <;>
              simp_all [proj, pure, Except.pure]
          | invalid => simp [proj, pure, Except.pure, submitted]
          | unknown => simp [proj]
      · cases code with
        | key k =>
          by_cases ho : k = .other
          · subst ho
            simp [handleEvent, TuiSpec.afterEvent, hn', hm', proj, pure, Except.pure]
          · have hk' : k ≠ .enter := fun h => hk (by rw [h])
            obtain ⟨e', he', hie'⟩ := handle_ok st.ed k l hi ho
            have : handleEvent st (.key k) mods (some l) fs = .ok ({ st with ed := e' }, false) := by
              simp only [handleEvent, hn', Option.isSome_none, Bool.false_eq_true, ↓reduceIte, hm']
              cases k <;> simp_all [bind, Except.bind, pure, Except.pure]
            rw [this]
            simp only [TuiSpec.afterEvent, hn', Option.isSome_none, Bool.false_eq_true, ↓reduceIte, hm']
            cases k <;> simp_all [proj, pure, Except.pure]
        | _ => simp [handleEvent, TuiSpec.afterEvent, hn', hm', proj, pure, Except.pure]


end Emu2a.C17
