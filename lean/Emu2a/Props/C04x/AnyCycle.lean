/-
C04 — "whatever clock cycle the key was pressed in".

`instr_to_end` / `int_taken` start from an instruction boundary with the interrupt flip-flop in any
state.  Here: a request that is raised at ANY micro-step of the instruction (the flip-flop is set
between two executed edges, which is what a key press does when the key-edge enable bit is set)
leads to the same end word with the same architectural result as a request that was pending from the
start — hence to exactly one interrupt entry, between this instruction and the next.

The argument is generic in the control store: the flip-flop is read only by words that sample it
(MAC1, MAC0, NA0 — the words `il1` clears it at); setting it commutes with every other step.
-/
import Emu2a.Props.C04
namespace Emu2a.C04
open Emu2a Gen Isa

/-- The word samples the interrupt request when it is left (and clears the flip-flop). -/
def samplesPend (w : UWord) : Bool := w.mac1 && w.mac0 && (w.na % 2 == 1)

/-- The same core with the interrupt flip-flop set to `p`. -/
def withPend (c : Core) (p : Bool) : Core := { c with pendInt := p }

/-- The next micro-address does not depend on the flip-flop unless the word samples it. -/
theorem nextAddr_indep (w : UWord) (ir : Nat) (fr : Byte) (a : AluOut) (p q : Bool) (h : samplesPend w = false) :
    Sig.nextAddr w ir fr a p = Sig.nextAddr w ir fr a q := by
  unfold Sig.nextAddr Sig.am3 Sig.am1
  unfold samplesPend at h
  cases h1 : w.mac1 <;> cases h0 : w.mac0 <;> cases hn : (w.na % 2 == 1) <;> simp_all

/-- **Setting the flip-flop commutes with a step** that does not leave a sampling word. -/
theorem step_withPend (c : Core) (p : Bool) (h : samplesPend (word c.addr) = false) :
    (Core.step (withPend c p)).1 = withPend (Core.step c).1 p ∧ (Core.step (withPend c p)).2 = (Core.step c).2 := by
  have hil : ∀ q, Sig.il1 (word c.addr) q = false := by
    intro q
    unfold Sig.il1
    unfold samplesPend at h
    cases h1 : (word c.addr).mac1 <;> cases h0 : (word c.addr).mac0 <;> cases hn : ((word c.addr).na % 2 == 1) <;>
      simp_all
  have hA : (Core.updateIr (Core.applyPending (withPend c p))) = withPend (Core.updateIr (Core.applyPending c)) p := by
    unfold Core.updateIr withPend
    simp only [Core.applyPending]
    split <;> rfl
  have haddr : (Core.updateIr (Core.applyPending c)).addr = c.addr := by
    unfold Core.updateIr; split <;> simp [Core.applyPending]
  have hW : Core.updateWord (withPend (Core.updateIr (Core.applyPending c)) p) =
      withPend (Core.updateWord (Core.updateIr (Core.applyPending c))) p := by
    unfold Core.updateWord withPend
    simp only [haddr, hil, Bool.false_eq_true, ↓reduceIte]
    rw [nextAddr_indep _ _ _ _ p (Core.updateIr (Core.applyPending c)).pendInt h]
  unfold Core.step
  rw [hA, hW]
  exact ⟨rfl, rfl⟩

/-- Steps never set the flip-flop. -/
theorem step_pend_mono (c : Core) (h : (Core.step c).1.pendInt = true) : c.pendInt = true := by
  cases hc : c.pendInt with
  | true => rfl
  | false => rw [C01.step_pendInt c hc] at h; cases h

/-- A step that keeps the flip-flop set did not leave a sampling word. -/
theorem kept_not_sampling (c : Core) (h : c.pendInt = true) (h2 : (Core.step c).1.pendInt = true) :
    samplesPend (word c.addr) = false := by
  cases hs : samplesPend (word c.addr) with
  | false => rfl
  | true =>
    exfalso
    have haddr : (Core.updateIr c.applyPending).addr = c.addr := by
      unfold Core.updateIr; split <;> simp [Core.applyPending]
    have hpi : (Core.updateIr c.applyPending).pendInt = true := by
      unfold Core.updateIr; split <;> simp [Core.applyPending, h]
    unfold samplesPend at hs
    simp only [Bool.and_eq_true] at hs
    simp [Core.step, Core.execWord, Core.updateWord, haddr, hpi, Sig.il1, hs.1.1, hs.1.2, hs.2] at h2

/-- If the flip-flop is still set after `n` steps, it was set all the way and none of the words left
sampled it; the run is then the run without a request, with the flip-flop set afterwards — from any
intermediate point `k`. -/
theorem press_commutes (n : Nat) : ∀ (c : Core), (Core.iter n (withPend c true)).pendInt = true →
    ∀ k, k ≤ n → Core.iter (n - k) (withPend (Core.iter k (withPend c false)) true) = Core.iter n (withPend c true) := by
  induction n with
  | zero =>
    intro c _ k hk
    have : k = 0 := by omega
    subst this
    simp [withPend]
  | succ n ih =>
    intro c hfin k hk
    -- the first step of the run with the request pending keeps the flip-flop set
    have h1 : (Core.step (withPend c true)).1.pendInt = true := by
      -- otherwise it would stay clear for the remaining n steps
      cases hp : (Core.step (withPend c true)).1.pendInt with
      | true => rfl
      | false =>
        rw [Core.iter_succ, C01.iter_pendInt n _ hp] at hfin; cases hfin
    have hns : samplesPend (word c.addr) = false := kept_not_sampling (withPend c true) rfl h1
    have hcomT := (step_withPend c true hns).1
    have hcomF := (step_withPend c false hns).1
    cases k with
    | zero =>
      simp only [Nat.sub_zero, Core.iter_zero]
      simp [withPend]
    | succ k =>
      have hk' : k ≤ n := by omega
      have hfin' : (Core.iter n (withPend (Core.step c).1 true)).pendInt = true := by
        rw [Core.iter_succ, hcomT] at hfin; exact hfin
      have := ih (Core.step c).1 hfin' k hk'
      rw [Core.iter_succ, Core.iter_succ, hcomT, hcomF]
      simpa using this

/-- **A key press in any cycle of the instruction.** From a boundary without a request, let the
flip-flop be set after `k` executed micro-steps of a sampling instruction, for any `k` up to the step
that reaches its end word.  Then the instruction still ends at its end word with exactly `Isa.step`'s
result and the request pending, and
* with the interrupt-enable flag set in that result the machine arrives at the first boundary of the
  routine in state `intEntry` (flags and return address pushed, interrupts disabled, PC = 2) with the
  flip-flop clear — entered exactly once;
* with the flag clear the request is dropped and the next instruction is fetched.
(A press during a memory-wait edge falls between two executed steps and is covered by the same `k`.) -/
theorem press_any_cycle (c : Core) (a : Arch) (h : AtFetch c a) (hs : Sampling a) (h0 : c.pendInt = false) :
    ∃ n a', Isa.step a = some a' ∧ ∀ k, k ≤ n →
      let pressed := withPend (Core.iter k c) true
      (flagBit a'.fr C.flagIE = true →
        ∃ m, AtFetch (Core.iter m pressed) (Isa.intEntry a') ∧ (Core.iter m pressed).pendInt = false) ∧
      (flagBit a'.fr C.flagIE = false →
        ∃ m, AtFetch (Core.iter m pressed) a' ∧ (Core.iter m pressed).pendInt = false) := by
  have hT : AtFetch (withPend c true) a := by
    obtain ⟨x1, x2, x3, x4, x5, x6, x7, x8, x9, x10, x11, x12⟩ := h
    exact ⟨x1, x2, x3, x4, x5, x6, x7, x8, x9, x10, x11, x12⟩
  obtain ⟨n, a', hstep, he, hpi⟩ := instr_to_end (withPend c true) a hT hs
  have hpiT : (Core.iter n (withPend c true)).pendInt = true := by rw [hpi]; rfl
  have hcF : withPend c false = c := by cases c; simp [withPend] at h0 ⊢; exact h0
  refine ⟨n, a', hstep, ?_⟩
  intro k hk
  have hcom := press_commutes n c hpiT k hk
  rw [hcF] at hcom
  constructor
  · intro hie
    have := IntEntry.end_to_int _ _ he hpiT hie
    refine ⟨(n - k) + 9, ?_, ?_⟩
    · rw [C01.iter_add, hcom]; exact this.1
    · rw [C01.iter_add, hcom]; exact this.2
  · intro hie
    have := IntEntry.end_to_fetch _ _ he (by rw [hie]; rfl)
    refine ⟨(n - k) + 1, ?_, ?_⟩
    · rw [C01.iter_add, hcom]; exact this.1
    · rw [C01.iter_add, hcom]; exact this.2

end Emu2a.C04
