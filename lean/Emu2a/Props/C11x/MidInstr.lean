/-
C11 — termination of the assembly step from states the refinement theorem does not start from:
the middle of an instruction, an instruction whose end word enters the interrupt routine, and the
interrupt entry sequence itself.  The argument is C09's: the exploration of the generated control
store reaches a fetch word from every visited node within a bounded number of steps
(`completesWithin`, evaluated by the kernel), and `C09.visited_sound` turns that into a statement
about every execution — whatever the data, the flags and the interrupt flip-flop are.
-/
import Emu2a.Props.C11x.Terminates
import Emu2a.Props.C09
import Emu2a.Props.C04
namespace Emu2a.C11
open Emu2a Machine Flow

/-- One-byte instructions without a data-driven loop: defined first bytes outside MUL, DIV and the
two-byte prefixes. -/
def plainOp (op : Nat) : Bool := Isa.definedFirst op && !Isa.isMul op && !Isa.isDiv op && decide (op < 0xF0)

/-- No routine of a one-byte instruction (interrupt entry included) touches the second-opcode word:
every terminal node its exploration visits is an instruction fetch. -/
theorem plain_no_second : ∀ op, op < 256 → plainOp op = true →
    (visited [] [] 15 (start op)).all (fun n => !isSecond n) = true := by
  have h : allBelow 256 (fun op => !plainOp op || (visited [] [] 15 (start op)).all (fun n => !isSecond n)) = true := by
    decide +kernel
  intro op ho hp
  have := allBelow_spec h op ho
  simpa [hp] using this

/-- The same for the routines of the defined second bytes. -/
theorem second_no_second : ∀ b, b < 256 → Isa.definedSecond b = true →
    (visited [] [] 15 (start2 b)).all (fun n => !isSecond n) = true := by
  have h : allBelow 256 (fun b => !Isa.definedSecond b || (visited [] [] 15 (start2 b)).all (fun n => !isSecond n)) = true := by
    decide +kernel
  intro b hb hd
  have := allBelow_spec h b hb
  simpa [hd] using this

theorem plain_facts (op : Nat) (hp : plainOp op = true) :
    Isa.definedFirst op = true ∧ Isa.isMul op = false ∧ Isa.isDiv op = false ∧ op < 0xF0 := by
  simp only [plainOp, Bool.and_eq_true, Bool.not_eq_true', decide_eq_true_eq] at hp
  exact ⟨hp.1.1.1, hp.1.1.2, hp.1.2, hp.2⟩

/-- From any node the exploration of a node set `S` visits — with `S` completing within 15 levels
and no second-opcode word among the visited nodes — the data path reaches a fetch word within 15
steps. -/
theorem reach_fetch_of_visited (S : List Node) (hc : completesWithin [] [] 15 S = true)
    (hs : (visited [] [] 15 S).all (fun n => !isSecond n) = true) (c : Core)
    (hn : C09.node c ∈ visited [] [] 15 S) : ∃ k, k ≤ 15 ∧ (Core.iter k c).done = true := by
  obtain ⟨k, hk, ht, hm⟩ := C09.visited_sound 15 S hc c hn
  refine ⟨k, hk, ?_⟩
  have hns : isSecond (C09.node (Core.iter k c)) = false := by
    have := List.all_eq_true.mp hs _ hm
    simpa using this
  simp only [isTerminal, hns, Bool.or_false] at ht
  simpa [isFetch, C09.node, Core.done] using ht

/-- **Mid-instruction termination (one-byte instructions).** A machine caught anywhere inside the
routine of a one-byte instruction without a data-driven loop — including the interrupt entry sequence
that may follow its end word — finishes its assembly step: whatever the registers, flags, memory,
ALU latch, interrupt flip-flop, wait flag and halt state are. -/
theorem stepB_terminates_mid (m : Machine) (op : Nat) (ho : op < 256) (hp : plainOp op = true)
    (hn : C09.node m.core ∈ visited [] [] 15 (start op)) : ∃ fuel m', stepB fuel m = some m' := by
  obtain ⟨hd, hm, hv, _⟩ := plain_facts op hp
  obtain ⟨k, _, hdone⟩ := reach_fetch_of_visited (start op) (C09.defined_complete_bounded op ho hd hm hv)
    (plain_no_second op ho hp) m.core hn
  exact stepB_terminates k m hdone

/-- **Mid-instruction termination (second half of a two-byte instruction).** The same from any node
of the routine of a defined second opcode byte. -/
theorem stepB_terminates_mid_second (m : Machine) (b : Nat) (hb : b < 256) (hd : Isa.definedSecond b = true)
    (hn : C09.node m.core ∈ visited [] [] 15 (start2 b)) : ∃ fuel m', stepB fuel m = some m' := by
  obtain ⟨k, _, hdone⟩ := reach_fetch_of_visited (start2 b) (C09.second_defined_completes b hb hd)
    (second_no_second b hb hd) m.core hn
  exact stepB_terminates k m hdone

/-- Executing the fetch word puts the machine on a start node of the fetched opcode. -/
theorem fetch_step_in_start (c : Core) (a : Isa.Arch) (h : AtFetch c a) (op : Nat) (ho : op < 256)
    (hop : a.bus.read a.pc = BitVec.ofNat 8 op) : C09.node (Core.step c).1 ∈ start op := by
  have hl : c.lastBus.toNat = op := by
    rw [h.lastBus, hop]; simp; omega
  have h1 := C09.step_in_succNodes c [op] (fun _ => by simp [hl])
  have hact : Core.irAct (Gen.word 6) = .load := by decide
  have e : succNodes [op] [] (C09.node c) = start op := by
    simp only [start, succNodes, irAfter, C09.node, h.fetch, hact, List.contains_nil]
  rw [e] at h1
  exact h1

/-- **Termination of the assembly step with an interrupt pending**: from an instruction boundary
with a one-byte instruction without a data-driven loop at PC, `trigger_key_clock` in assembly mode
returns whether or not an interrupt request is pending and whatever the interrupt-enable flag is
(the step then also runs through the interrupt entry) — complementing `keyClock_terminates`, which
covers every defined instruction incl. MUL / DIV but assumes no pending request. -/
theorem keyClock_terminates_pending (m : Machine) (a : Isa.Arch) (h : AtFetch m.core a) (op : Nat) (ho : op < 256)
    (hop : a.bus.read a.pc = BitVec.ofNat 8 op) (hp : plainOp op = true) :
    ∃ fuel m', keyClock fuel m = some m' := by
  obtain ⟨hd, hm, hv, _⟩ := plain_facts op hp
  have hstart := fetch_step_in_start m.core a h op ho hop
  have hvis : C09.node (Core.step m.core).1 ∈ visited [] [] 15 (start op) := by
    simp only [visited, List.mem_append]; exact Or.inl hstart
  obtain ⟨k, _, hdone⟩ := reach_fetch_of_visited (start op) (C09.defined_complete_bounded op ho hd hm hv)
    (plain_no_second op ho hp) _ hvis
  exact keyClock_terminates_of_reach m a h (k + 1) (by omega) (by rw [Core.iter_succ]; exact hdone)

/-- **Termination of the assembly step, whatever the interrupt request**: from an instruction boundary
with ANY instruction that samples the request when it ends — every defined one-byte instruction
except EI / DI / RETI, MUL and DIV with any operands, and every two-byte instruction with a defined
second byte — `trigger_key_clock` in assembly mode returns, whether or not a request is pending and
whatever the interrupt-enable flag is: the instruction runs to its end word with the flip-flop
untouched (C04 `instr_to_end`), then either the next fetch follows or the nine-step interrupt entry. -/
theorem keyClock_terminates_any_request (m : Machine) (a : Isa.Arch) (h : AtFetch m.core a) (hs : C04.Sampling a) :
    ∃ fuel m', keyClock fuel m = some m' := by
  obtain ⟨n, a', _, he, hpi⟩ := C04.instr_to_end m.core a h hs
  by_cases hcond : (flagBit a'.fr Gen.C.flagIE && (Core.iter n m.core).pendInt) = true
  · simp only [Bool.and_eq_true] at hcond
    have hf := IntEntry.end_to_int _ _ he hcond.2 hcond.1
    have hdone : (Core.iter (n + 9) m.core).done = true := by
      rw [C01.iter_add]; simp only [Core.done, hf.1.fetch]; decide
    exact keyClock_terminates_of_reach m a h (n + 9) (by omega) hdone
  · have hf := IntEntry.end_to_fetch _ _ he (by simpa using hcond)
    have hdone : (Core.iter (n + 1) m.core).done = true := by
      rw [C01.iter_add]; simp only [Core.iter_succ, Core.iter_zero, Core.done, hf.1.fetch]; decide
    exact keyClock_terminates_of_reach m a h (n + 1) (by omega) hdone

/-- **A step always returns** (from an instruction boundary): with any defined instruction at PC —
one-byte, two-byte with a defined second byte, MUL and DIV with any operands — and ANY state of the
interrupt flip-flop and of the interrupt-enable flag, `trigger_key_clock` in assembly mode returns. -/
theorem keyClock_terminates_all (m : Machine) (a : Isa.Arch) (h : AtFetch m.core a) (hc : C01.Covered a) :
    ∃ fuel m', keyClock fuel m = some m' := by
  have hlt := (a.bus.read a.pc).isLt
  by_cases hs : C04.Sampling a
  · exact keyClock_terminates_any_request m a h hs
  · -- not sampling: EI, DI or RETI (one-byte, no loop)
    rcases hc with h1 | ⟨h2, h3⟩
    · have hp : plainOp (a.bus.read a.pc).toNat = true := by
        unfold C04.Sampling at hs
        simp only [not_or] at hs
        have hns := hs.1
        simp only [C04.sampling1, h1, Bool.true_and, Bool.and_eq_true, Bool.not_eq_true', not_and,
          Bool.not_eq_false] at hns
        simp only [C01.covered1, Bool.and_eq_true, decide_eq_true_eq] at h1
        unfold plainOp
        simp only [h1.1, Bool.true_and, Bool.and_eq_true, Bool.not_eq_true', decide_eq_true_eq]
        refine ⟨⟨?_, ?_⟩, h1.2⟩
        · unfold Isa.isMul
          by_cases hx : (8 ≤ (a.bus.read a.pc).toNat && (a.bus.read a.pc).toNat ≤ 15) = true
          · simp only [Bool.and_eq_true, decide_eq_true_eq] at hx; simp; omega
          · have := hns (by simpa using hx)
            simp only [Bool.and_eq_true, decide_eq_true_eq] at this; simp; omega
        · unfold Isa.isDiv
          by_cases hx : (8 ≤ (a.bus.read a.pc).toNat && (a.bus.read a.pc).toNat ≤ 15) = true
          · simp only [Bool.and_eq_true, decide_eq_true_eq] at hx; simp; omega
          · have := hns (by simpa using hx)
            simp only [Bool.and_eq_true, decide_eq_true_eq] at this; simp; omega
      exact keyClock_terminates_pending m a h _ hlt (by simp) hp
    · exact absurd (Or.inr ⟨h2, h3⟩) hs

/-- Non-vacuity: `ADD R0,R1` (0x61) is a plain opcode and its dispatch node is visited. -/
example : plainOp 0x61 = true ∧ (start 0x61).length = 1 := by decide

end Emu2a.C11
