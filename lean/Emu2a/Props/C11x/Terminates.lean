/-
C11 — termination of the assembly step from an instruction boundary, as a theorem: the micro-machine
reaches the next boundary (C01: `isa_refines`, for every defined instruction incl. the MUL / DIV
loops), every data-path step costs one or two clock edges, hence the second loop of
`trigger_key_clock` finds its exit.
-/
import Emu2a.Props.C11
import Emu2a.Props.C01
namespace Emu2a.C11
open Emu2a Machine

theorem exec_core' (m : Machine) : (Machine.exec m).core = (Core.step m.core).1 := rfl

/-- If the data path reaches a boundary word within `n` steps, the machine is no longer "inside an
instruction and running" after at most `2 n` clock edges (one wait edge per step at most; a halt on
the way ends it earlier). -/
theorem reach_done (n : Nat) : ∀ m : Machine, (Core.iter n m.core).done = true →
    ∃ k, k ≤ 2 * n ∧ condB (edges k m) = false := by
  induction n with
  | zero =>
    intro m h
    refine ⟨0, by omega, ?_⟩
    simp only [Core.iter_zero] at h
    simp [edges, condB, h]
  | succ n ih =>
    intro m h
    by_cases hB : condB m = false
    · exact ⟨0, by omega, by simpa [edges] using hB⟩
    · have hB' : condB m = true := by simpa using hB
      simp only [condB, Bool.and_eq_true, Bool.not_eq_true', decide_eq_true_eq] at hB'
      obtain ⟨_, hrun⟩ := hB'
      rw [Core.iter_succ] at h
      by_cases hw : m.wait = true
      · -- one edge clears the wait flag, the next one executes
        have e1 : clockEdge m = { m with wait := false } := by simp [clockEdge, hrun, hw]
        have e2 : clockEdge { m with wait := false } = Machine.exec { m with wait := false } := by
          simp [clockEdge, hrun]
        obtain ⟨k, hk, hc⟩ := ih (Machine.exec { m with wait := false }) (by rw [exec_core']; exact h)
        refine ⟨k + 2, by omega, ?_⟩
        have : k + 2 = 1 + (1 + k) := by omega
        rw [this, edges_add, edges_add]
        simpa [edges, e1, e2] using hc
      · have e1 : clockEdge m = Machine.exec m := by simp [clockEdge, hrun, hw]
        obtain ⟨k, hk, hc⟩ := ih (Machine.exec m) (by rw [exec_core']; exact h)
        refine ⟨k + 1, by omega, ?_⟩
        have : k + 1 = 1 + k := by omega
        rw [this, edges_add]
        simpa [edges, e1] using hc

/-- The second loop of the assembly step terminates whenever the data path reaches a boundary. -/
theorem stepB_terminates (n : Nat) (m : Machine) (h : (Core.iter n m.core).done = true) :
    ∃ fuel m', stepB fuel m = some m' := by
  obtain ⟨k, _, hc⟩ := reach_done n m h
  have := stepB_terminates_partial k m (Or.inl hc)
  exact ⟨k + 1, Option.isSome_iff_exists.mp this⟩


/-- Monotone in fuel: more fuel never changes a result of the second loop. -/
theorem stepB_mono (fuel : Nat) (m m' : Machine) (h : stepB fuel m = some m') : stepB (fuel + 1) m = some m' := by
  induction fuel generalizing m with
  | zero => simp [stepB] at h
  | succ n ih =>
    simp only [stepB] at h ⊢
    split
    · rename_i hc
      simp only [hc, ↓reduceIte] at h
      split
      · rename_i hfix; simp only [hfix, ↓reduceIte] at h ⊢; exact h
      · rename_i hfix; simp only [hfix, ↓reduceIte] at h; exact ih _ h
    · rename_i hc; simp only [hc, ↓reduceIte] at h; exact h

/-- The word executed right after a fetch word is never a fetch word: the first loop of the assembly
step ("leave the boundary") ends after one executed edge. -/
theorem after_fetch_not_done (c : Core) (a : Isa.Arch) (h : AtFetch c a) : (Core.step c).1.done = false := by
  have hf := h.fetch
  have hir : (Core.updateIr (Core.applyPending c)).ir < 256 := by
    have : (Core.applyPending c).addr = c.addr := by simp [Core.applyPending]
    unfold Core.updateIr
    rw [this, hf]
    simp [Core.irAct, Core.applyPending]
    exact c.lastBus.isLt
  have haddr : (Core.updateIr (Core.applyPending c)).addr = c.addr := by
    unfold Core.updateIr
    split <;> simp [Core.applyPending]
  simp only [Core.step, Core.done, Core.execWord, Core.updateWord, haddr, hf]
  exact fetch_successor_not_fetch 6 (by decide) (by decide) _ hir _ _ _

/-- Termination of the assembly step from a boundary, given that the data path reaches the next
boundary word after `n > 0` steps (how that is known differs: C01's refinement for an interrupt-free
instruction, C09's graph bounds when an interrupt may be pending). -/
theorem keyClock_terminates_of_reach (m : Machine) (a : Isa.Arch) (h : AtFetch m.core a) (n : Nat) (hn : 0 < n)
    (hdone : (Core.iter n m.core).done = true) : ∃ fuel m', keyClock fuel m = some m' := by
  cases hm : m.mode with
  | real => exact ⟨1, _, keyClock_real 1 m hm⟩
  | assembly =>
    -- phase A returns some machine `ma` whose core is `m.core` (halted) or one data-path step later
    have hA : ∃ fa ma, stepA fa m = some ma ∧ ∃ j, j ≤ 1 ∧ (ma.run ≠ .running ∨ ma.core = Core.iter j m.core) := by
      by_cases hrun : m.run = .running
      · have hd : m.core.done = true := by simp only [Core.done, h.fetch]; decide
        by_cases hw : m.wait = true
        · have e1 : clockEdge m = { m with wait := false } := by simp [clockEdge, hrun, hw]
          have e2 : clockEdge { m with wait := false } = Machine.exec { m with wait := false } := by simp [clockEdge, hrun]
          refine ⟨3, Machine.exec { m with wait := false }, ?_, 1, by omega, Or.inr rfl⟩
          have hnd : (Machine.exec { m with wait := false }).core.done = false := after_fetch_not_done m.core a h
          have s1 : stepA 3 m = stepA 2 (clockEdge m) := by simp [stepA, hd, hrun]
          have s2 : stepA 2 ({ m with wait := false } : Machine) = stepA 1 (clockEdge { m with wait := false }) := by
            simp [stepA, hd, hrun]
          rw [s1, e1, s2, e2]
          simp [stepA, hnd]
        · have e1 : clockEdge m = Machine.exec m := by simp [clockEdge, hrun, hw]
          refine ⟨2, Machine.exec m, ?_, 1, by omega, Or.inr rfl⟩
          have hnd : (Machine.exec m).core.done = false := after_fetch_not_done m.core a h
          simp [stepA, hd, hrun, e1, hnd]
      · exact ⟨1, m, by simp [stepA, hrun], 0, by omega, Or.inl hrun⟩
    obtain ⟨fa, ma, hsa, j, hj, hcore⟩ := hA
    -- phase B from `ma`
    have hB : ∃ fb mb, stepB fb ma = some mb := by
      rcases hcore with hh | hcq
      · exact ⟨1, ma, by simp [stepB, hh]⟩
      · apply stepB_terminates (n - j) ma
        rw [hcq, ← C01.iter_add]
        have : j + (n - j) = n := by omega
        rw [this]; exact hdone
    obtain ⟨fb, mb, hsb⟩ := hB
    -- both phases with the larger fuel
    have monoA : ∀ k, stepA (fa + k) m = some ma := by
      intro k; induction k with
      | zero => exact hsa
      | succ k ih => exact stepA_mono _ _ _ ih
    have monoB : ∀ k, stepB (fb + k) ma = some mb := by
      intro k; induction k with
      | zero => exact hsb
      | succ k ih => exact stepB_mono _ _ _ ih
    refine ⟨fa + fb, mb, ?_⟩
    simp only [keyClock, hm]
    rw [monoA fb]
    have : fa + fb = fb + fa := by omega
    rw [this, Option.bind_some, monoB fa]

/-- **Termination of the assembly step**, as a theorem: from an instruction boundary with any defined
instruction (MUL and DIV with any operands included) and no interrupt pending, `trigger_key_clock` in
assembly mode returns — whatever the registers, flags, memory, wait flag, halt state and
supervision limits are. -/
theorem keyClock_terminates (m : Machine) (a : Isa.Arch) (h : AtFetch m.core a) (hint : m.core.pendInt = false)
    (hc : C01.Covered a) : ∃ fuel m', keyClock fuel m = some m' := by
  obtain ⟨n, a', hn, _, hf, _⟩ := C01.isa_refines m.core a h hint hc
  have hdone : (Core.iter n m.core).done = true := by
    simp only [Core.done, hf.fetch]; decide
  exact keyClock_terminates_of_reach m a h n hn hdone

end Emu2a.C11

