/-
C14 — the MR2DA2 board's status always reflects its inputs, DACs and configuration.
Refinement of the board model (board.rs mirrored byte by byte) to the pin/port-level specification.
-/
import Emu2a.Spec.BoardSpec
import Emu2a.Lemmas.Fin
namespace Emu2a.C14
open Emu2a Gen

/-! ### Clamping of applied voltages (all 2^32 bit patterns, by case analysis on the definition) -/

theorem le_five_five : F32.le F32.five F32.five = true := by decide
theorem le_zero_five : F32.le F32.posZero F32.five = true := by decide
theorem le_zero_zero : F32.le F32.posZero F32.posZero = true := by decide
theorem nan_five : F32.isNaN F32.five = false := by decide
theorem nan_zero : F32.isNaN F32.posZero = false := by decide

/-- The stored voltage is never a non-number and always within 0 V … 5 V. -/
theorem clamp_range (v : F32.Bits) :
    F32.isNaN (Board.clamp v) = false ∧ F32.le F32.posZero (Board.clamp v) = true ∧
    F32.le (Board.clamp v) F32.five = true := by
  unfold Board.clamp
  split
  · rename_i h
    simp only [Bool.and_eq_true] at h
    refine ⟨?_, h.1, h.2⟩
    have := h.2
    simp only [F32.le, Bool.and_eq_true, Bool.not_eq_true'] at this
    exact this.1.1
  · split
    · exact ⟨nan_five, le_zero_five, le_five_five⟩
    · exact ⟨nan_zero, le_zero_zero, le_zero_five⟩

/-- Values within range are stored unchanged. -/
theorem clamp_id (v : F32.Bits) (h0 : F32.le F32.posZero v = true) (h5 : F32.le v F32.five = true) :
    Board.clamp v = v := by
  simp [Board.clamp, h0, h5]

/-- Non-numbers are stored as 0 V. -/
theorem clamp_nan (v : F32.Bits) (h : F32.isNaN v = true) : Board.clamp v = F32.posZero := by
  simp [Board.clamp, F32.le, F32.ge, h]

/-- Positive infinity and everything above 5 V is stored as 5 V; negative values as 0 V. -/
theorem key_five : F32.key F32.five = 3231711232 := by decide
theorem key_zero : F32.key F32.posZero = 2147483648 := by decide

theorem clamp_above (v : F32.Bits) (hn : F32.isNaN v = false) (h5 : F32.lt F32.five v = true) :
    Board.clamp v = F32.five := by
  have hk : 3231711232 < F32.key v := by
    simp only [F32.lt, Bool.and_eq_true, decide_eq_true_eq, key_five] at h5; exact h5.2
  have h1 : F32.le v F32.five = false := by
    simp only [F32.le, key_five, hn, nan_five]; simp; omega
  have h2 : F32.ge v F32.posZero = true := by
    simp only [F32.ge, F32.le, key_zero, hn, nan_zero]; simp; omega
  simp [Board.clamp, h1, h2]

theorem clamp_below (v : F32.Bits) (hn : F32.isNaN v = false) (h0 : F32.lt v F32.posZero = true) :
    Board.clamp v = F32.posZero := by
  have hk : F32.key v < 2147483648 := by
    simp only [F32.lt, Bool.and_eq_true, decide_eq_true_eq, key_zero] at h0; exact h0.2
  have h1 : F32.le F32.posZero v = false := by
    simp only [F32.le, key_zero, hn, nan_zero]; simp; omega
  have h2 : F32.ge v F32.posZero = false := by
    simp only [F32.ge, F32.le, key_zero, hn, nan_zero]; simp; omega
  simp [Board.clamp, h1, h2]

/-! ### DAC voltage and fan period tables (all 256 bytes, kernel evaluation of the soft-float) -/

/-- value of a finite non-negative binary32 as a fraction `num / 2^den`. -/
def fracOf (x : F32.Bits) : Nat × Nat :=
  let (m, e) := F32.decomp x
  if e ≥ 150 then (m * 2 ^ (e - 150), 0) else (m, 150 - e)

/-- **DAC output voltage = written byte / 100**: the stored binary32 is within half a unit in the
last place of byte/100 (i.e. it *is* the correctly rounded quotient), for every byte. -/
theorem dac_voltage : ∀ b : Byte,
    let x := Board.dacVolt b
    let (n, d) := fracOf x
    -- | n/2^d - b/100 | * 2 ≤ ulp = 2^(e-150): compare 2 * |100 n - b 2^d| ≤ 100 * 2^d * 2^-(150-e) …
    -- stated without rationals: b/100 lies between the neighbours' midpoints
    (2 * n - 1) * 100 ≤ 2 * b.toNat * 2 ^ d ∧ 2 * b.toNat * 2 ^ d ≤ (2 * n + 1) * 100 := by
  apply byte_cases; decide +kernel

/-- **Fan period law**: after writing byte `b` to output port 1 the period register reads
`255 - b` or `255 - b + 1` (the documented 255 - 255·V/2.55 V with V = b/100, truncated), it is
255 for a stopped fan and 0 at full speed, and it never increases with the speed. -/
theorem fan_period_law :
    (∀ b : Byte, ((Board.setDo1 Board.new b).fanPeriod.toNat = 255 - b.toNat ∨
                  (Board.setDo1 Board.new b).fanPeriod.toNat = 255 - b.toNat + 1)) ∧
    (Board.setDo1 Board.new 0#8).fanPeriod = 255#8 ∧ (Board.setDo1 Board.new 255#8).fanPeriod = 0#8 ∧
    (∀ b : Byte, b.toNat < 255 →
      (Board.setDo1 Board.new (b + 1)).fanPeriod.toNat ≤ (Board.setDo1 Board.new b).fanPeriod.toNat) := by
  refine ⟨?_, by decide +kernel, by decide +kernel, ?_⟩
  · apply byte_cases; decide +kernel
  · apply byte_cases; decide +kernel

/-- The fan speed (and hence the period) depends on the last byte written to port 1 only. -/
theorem fan_depends_on_do1 (b : Board) (v : Byte) :
    (b.setDo1 v).fanRpm = (Board.setDo1 Board.new v).fanRpm := by
  simp [Board.setDo1, Board.updateComp1]


/-! ### Refinement: the byte-level board model implements the pin-level specification -/

/-- The status byte assembled from its eight bits. -/
def mk8 (b7 b6 b5 b4 b3 b2 b1 b0 : Bool) : Byte :=
  BSpec.bit b7 0x80#8 ||| BSpec.bit b6 0x40#8 ||| BSpec.bit b5 0x20#8 ||| BSpec.bit b4 0x10#8 ||| BSpec.bit b3 0x08#8 |||
  BSpec.bit b2 0x04#8 ||| BSpec.bit b1 0x02#8 ||| BSpec.bit b0 0x01#8

theorem dasr_mk8 (s : BSpec) : s.dasr = mk8 s.j2 s.j1 s.fan s.comp2 s.comp1 s.u3 s.u2 s.u1 := rfl

theorem has_mk8 : ∀ b7 b6 b5 b4 b3 b2 b1 b0 : Bool,
    Board.has (mk8 b7 b6 b5 b4 b3 b2 b1 b0) 128 = b7 ∧ Board.has (mk8 b7 b6 b5 b4 b3 b2 b1 b0) 64 = b6 ∧
    Board.has (mk8 b7 b6 b5 b4 b3 b2 b1 b0) 32 = b5 ∧ Board.has (mk8 b7 b6 b5 b4 b3 b2 b1 b0) 16 = b4 ∧
    Board.has (mk8 b7 b6 b5 b4 b3 b2 b1 b0) 8 = b3 ∧ Board.has (mk8 b7 b6 b5 b4 b3 b2 b1 b0) 4 = b2 ∧
    Board.has (mk8 b7 b6 b5 b4 b3 b2 b1 b0) 2 = b1 ∧ Board.has (mk8 b7 b6 b5 b4 b3 b2 b1 b0) 1 = b0 := by decide

theorem set_mk8 : ∀ b7 b6 b5 b4 b3 b2 b1 b0 v : Bool,
    Board.setBit (mk8 b7 b6 b5 b4 b3 b2 b1 b0) 128 v = mk8 v b6 b5 b4 b3 b2 b1 b0 ∧
    Board.setBit (mk8 b7 b6 b5 b4 b3 b2 b1 b0) 64 v = mk8 b7 v b5 b4 b3 b2 b1 b0 ∧
    Board.setBit (mk8 b7 b6 b5 b4 b3 b2 b1 b0) 16 v = mk8 b7 b6 b5 v b3 b2 b1 b0 ∧
    Board.setBit (mk8 b7 b6 b5 b4 b3 b2 b1 b0) 8 v = mk8 b7 b6 b5 b4 v b2 b1 b0 ∧
    Board.setBit (mk8 b7 b6 b5 b4 b3 b2 b1 b0) 4 v = mk8 b7 b6 b5 b4 b3 v b1 b0 ∧
    Board.setBit (mk8 b7 b6 b5 b4 b3 b2 b1 b0) 2 v = mk8 b7 b6 b5 b4 b3 b2 v b0 ∧
    Board.setBit (mk8 b7 b6 b5 b4 b3 b2 b1 b0) 1 v = mk8 b7 b6 b5 b4 b3 b2 b1 v ∧
    Board.ins (mk8 b7 b6 b5 b4 b3 b2 b1 b0) 32 = mk8 b7 b6 true b4 b3 b2 b1 b0 := by decide

/-- Interrupt status byte from flip-flop and source flag. -/
def mk2 (ff src : Bool) : Byte := BSpec.bit ff 0x02#8 ||| BSpec.bit src 0x01#8

theorem mk2_ops : ∀ ff src : Bool,
    Board.ins (Board.ins (mk2 ff src) 1) 2 = mk2 true true ∧
    Board.rem (mk2 ff src) 14 = mk2 false src ∧ Board.rem (mk2 ff src) 2 = mk2 false src := by decide

/-- Simulation relation. -/
structure R (b : Board) (s : BSpec) : Prop where
  di1 : b.di1 = s.di1
  do1 : b.do1 = s.do1
  do2 : b.do2 = s.do2
  temp : b.temp = s.temp
  ai1 : b.ai1 = s.ai1
  ai2 : b.ai2 = s.ai2
  icr : b.daicr = s.icr
  dir1 : b.dir1 = s.dir1
  dir2 : b.dir2 = s.dir2
  dir3 : b.dir3 = s.dir3
  dasr : b.dasr = s.dasr
  daisr : b.daisr = mk2 s.ff s.src
  ao1 : b.ao1 = BSpec.volt s.do1
  ao2 : b.ao2 = BSpec.volt s.do2

theorem source_eq : ∀ icr : Byte,
    4 * (if Board.has icr 4 then 1 else 0) + 2 * (if Board.has icr 2 then 1 else 0) + (if Board.has icr 1 then 1 else 0)
      = (icr &&& 7#8).toNat := by
  apply byte_cases; decide +kernel

theorem intSource_eq (b : Board) (s : BSpec) (h : b.daicr = s.icr) : b.intSource = s.source := by
  unfold Board.intSource BSpec.source
  rw [h]
  exact source_eq s.icr

theorem falling_eq (b : Board) (s : BSpec) (h : b.daicr = s.icr) : Board.has b.daicr 8 = s.falling := by
  rw [h]; rfl

/-- The edge-detection block of the model raises flip-flop and source flag exactly when the
specification's `fires` says so. -/
theorem edgeBlock_eq (b : Board) (s : BSpec) (hicr : b.daicr = s.icr) (hd : b.daisr = mk2 s.ff s.src)
    (n bit : Nat) (old newv : Bool) (hold : Board.has b.dasr bit = old) :
    Board.edgeBlock b n bit newv = mk2 (s.ff || s.fires n old newv) (s.src || s.fires n old newv) := by
  unfold Board.edgeBlock BSpec.fires
  rw [intSource_eq b s hicr, falling_eq b s hicr, hold, hd]
  have h2 := mk2_ops s.ff s.src
  by_cases hs : s.source = n
  · simp only [hs, ↓reduceIte, decide_true, Bool.true_and]
    cases old <;> cases newv <;> cases s.falling <;> simp [h2.1]
  · simp [hs]

theorem raise_fields (s : BSpec) (f : Bool) :
    (s.raise f).ff = (s.ff || f) ∧ (s.raise f).src = (s.src || f) ∧ (s.raise f).j1 = s.j1 ∧ (s.raise f).j2 = s.j2 ∧
    (s.raise f).fan = s.fan ∧ (s.raise f).u1 = s.u1 ∧ (s.raise f).u2 = s.u2 ∧ (s.raise f).u3 = s.u3 ∧
    (s.raise f).di1 = s.di1 ∧ (s.raise f).do1 = s.do1 ∧ (s.raise f).do2 = s.do2 ∧ (s.raise f).temp = s.temp ∧
    (s.raise f).ai1 = s.ai1 ∧ (s.raise f).ai2 = s.ai2 ∧ (s.raise f).icr = s.icr ∧ (s.raise f).dir1 = s.dir1 ∧
    (s.raise f).dir2 = s.dir2 ∧ (s.raise f).dir3 = s.dir3 := by
  cases f <;> simp [BSpec.raise]

theorem raise_dasr (s : BSpec) (f : Bool) : (s.raise f).dasr = s.dasr := by
  cases f <;> rfl


theorem r_new : R Board.new BSpec.new := by
  constructor <;> decide

theorem step_di1 (b : Board) (s : BSpec) (h : R b s) (v : Byte) : R (b.setDi1 v) (s.setDi1 v) := by
  obtain ⟨h1, h2, h3, h4, h5, h6, h7, h8, h9, h10, h11, h12, h13, h14⟩ := h
  constructor <;> simp_all [Board.setDi1, BSpec.setDi1, BSpec.dasr, BSpec.comp1, BSpec.comp2]

theorem step_j2 (b : Board) (s : BSpec) (h : R b s) (p : Bool) : R (b.setJ2 p) (s.setJ2 p) := by
  have hd : (s.setJ2 p).dasr = Board.setBit s.dasr 128 p := by
    rw [dasr_mk8, dasr_mk8]; exact ((set_mk8 _ _ _ _ _ _ _ _ _).1).symm
  obtain ⟨h1, h2, h3, h4, h5, h6, h7, h8, h9, h10, h11, h12, h13, h14⟩ := h
  constructor <;> simp_all [Board.setJ2, BSpec.setJ2, C.dasr_j2]

theorem step_j1 (b : Board) (s : BSpec) (h : R b s) (p : Bool) : R (b.setJ1 p) (s.setJ1 p) := by
  have hold : Board.has b.dasr 64 = s.j1 := by
    rw [h.dasr, dasr_mk8]; exact (has_mk8 _ _ _ _ _ _ _ _).2.1
  have he := edgeBlock_eq b s h.icr h.daisr 6 64 s.j1 p hold
  have hr := raise_fields { s with j1 := p } (s.fires 6 s.j1 p)
  have hd : (s.setJ1 p).dasr = Board.setBit s.dasr 64 p := by
    unfold BSpec.setJ1; rw [raise_dasr, dasr_mk8, dasr_mk8]; exact ((set_mk8 _ _ _ _ _ _ _ _ _).2.1).symm
  obtain ⟨h1, h2, h3, h4, h5, h6, h7, h8, h9, h10, h11, h12, h13, h14⟩ := h
  constructor <;>
    simp_all [Board.setJ1, BSpec.setJ1, C.dasr_j1, C.srcJumper1]

theorem step_uio1 (b : Board) (s : BSpec) (h : R b s) (v : Bool) : R (b.setUio1 v) (s.setUio1 v) := by
  unfold Board.setUio1 BSpec.setUio1
  rw [h.dir1]
  cases hdir : s.dir1
  · have hold : Board.has b.dasr 1 = s.u1 := by
      rw [h.dasr, dasr_mk8]; exact (has_mk8 _ _ _ _ _ _ _ _).2.2.2.2.2.2.2
    have he := edgeBlock_eq b s h.icr h.daisr 1 1 s.u1 v hold
    have hr := raise_fields { s with u1 := v } (s.fires 1 s.u1 v)
    have hd : (BSpec.raise { s with u1 := v } (s.fires 1 s.u1 v)).dasr = Board.setBit s.dasr 1 v := by
      rw [raise_dasr, dasr_mk8, dasr_mk8]; exact ((set_mk8 _ _ _ _ _ _ _ _ _).2.2.2.2.2.2.1).symm
    obtain ⟨h1, h2, h3, h4, h5, h6, h7, h8, h9, h10, h11, h12, h13, h14⟩ := h
    constructor <;> simp_all [C.dasr_uio_1, C.srcUio1]
  · simpa using h

theorem step_uio2 (b : Board) (s : BSpec) (h : R b s) (v : Bool) : R (b.setUio2 v) (s.setUio2 v) := by
  unfold Board.setUio2 BSpec.setUio2
  rw [h.dir2]
  cases hdir : s.dir2
  · have hold : Board.has b.dasr 2 = s.u2 := by
      rw [h.dasr, dasr_mk8]; exact (has_mk8 _ _ _ _ _ _ _ _).2.2.2.2.2.2.1
    have he := edgeBlock_eq b s h.icr h.daisr 2 2 s.u2 v hold
    have hr := raise_fields { s with u2 := v } (s.fires 2 s.u2 v)
    have hd : (BSpec.raise { s with u2 := v } (s.fires 2 s.u2 v)).dasr = Board.setBit s.dasr 2 v := by
      rw [raise_dasr, dasr_mk8, dasr_mk8]; exact ((set_mk8 _ _ _ _ _ _ _ _ _).2.2.2.2.2.1).symm
    obtain ⟨h1, h2, h3, h4, h5, h6, h7, h8, h9, h10, h11, h12, h13, h14⟩ := h
    constructor <;> simp_all [C.dasr_uio_2, C.srcUio2]
  · simpa using h

theorem step_uio3 (b : Board) (s : BSpec) (h : R b s) (v : Bool) : R (b.setUio3 v) (s.setUio3 v) := by
  unfold Board.setUio3 BSpec.setUio3
  rw [h.dir3]
  cases hdir : s.dir3
  · have hold : Board.has b.dasr 4 = s.u3 := by
      rw [h.dasr, dasr_mk8]; exact (has_mk8 _ _ _ _ _ _ _ _).2.2.2.2.2.1
    have he := edgeBlock_eq b s h.icr h.daisr 3 4 s.u3 v hold
    have hr := raise_fields { s with u3 := v } (s.fires 3 s.u3 v)
    have hd : (BSpec.raise { s with u3 := v } (s.fires 3 s.u3 v)).dasr = Board.setBit s.dasr 4 v := by
      rw [raise_dasr, dasr_mk8, dasr_mk8]; exact ((set_mk8 _ _ _ _ _ _ _ _ _).2.2.2.2.1).symm
    obtain ⟨h1, h2, h3, h4, h5, h6, h7, h8, h9, h10, h11, h12, h13, h14⟩ := h
    constructor <;> simp_all [C.dasr_uio_3, C.srcUio3]
  · simpa using h

theorem step_w3 (b : Board) (s : BSpec) (h : R b s) : R b.deleteIntFf s.writeF3 := by
  have h2 := (mk2_ops s.ff s.src).2.2
  obtain ⟨h1, h2', h3, h4, h5, h6, h7, h8, h9, h10, h11, h12, h13, h14⟩ := h
  constructor <;> simp_all [Board.deleteIntFf, BSpec.writeF3, C.daisr_interrupt_ff, BSpec.dasr, BSpec.comp1, BSpec.comp2]


theorem hold_comp1 (b : Board) (s : BSpec) (h : R b s) : Board.has b.dasr 8 = s.comp1 := by
  rw [h.dasr, dasr_mk8]; exact (has_mk8 _ _ _ _ _ _ _ _).2.2.2.2.1
theorem hold_comp2 (b : Board) (s : BSpec) (h : R b s) : Board.has b.dasr 16 = s.comp2 := by
  rw [h.dasr, dasr_mk8]; exact (has_mk8 _ _ _ _ _ _ _ _).2.2.2.1

theorem step_ai1 (b : Board) (s : BSpec) (h : R b s) (v : F32.Bits) : R (b.setAi1 v) (s.setAi1 v) := by
  let c : Board := { b with ai1 := Board.clamp v }
  let s' : BSpec := { s with ai1 := BSpec.clampV v }
  have hnew : F32.gt c.ai1 (Board.dacVolt c.do1) = s'.comp1 := by
    simp [c, s', BSpec.comp1, BSpec.volt, BSpec.clampV, h.do1]
  have he := edgeBlock_eq c s h.icr h.daisr 4 8 s.comp1 s'.comp1 (hold_comp1 b s h)
  have hr := raise_fields s' (s.fires 4 s.comp1 s'.comp1)
  have hd : (BSpec.raise s' (s.fires 4 s.comp1 s'.comp1)).dasr = Board.setBit s.dasr 8 s'.comp1 := by
    rw [raise_dasr, dasr_mk8, dasr_mk8]; exact ((set_mk8 _ _ _ _ _ _ _ _ _).2.2.2.1).symm
  obtain ⟨h1, h2, h3, h4, h5, h6, h7, h8, h9, h10, h11, h12, h13, h14⟩ := h
  constructor <;>
    simp_all [Board.setAi1, Board.updateComp1, BSpec.setAi1, C.dasr_comp_dac1, C.srcComp1, c, s', BSpec.clampV]

theorem step_ai2 (b : Board) (s : BSpec) (h : R b s) (v : F32.Bits) : R (b.setAi2 v) (s.setAi2 v) := by
  let c : Board := { b with ai2 := Board.clamp v }
  let s' : BSpec := { s with ai2 := BSpec.clampV v }
  have hnew : F32.gt (F32.max c.temp c.ai2) (Board.dacVolt c.do2) = s'.comp2 := by
    simp [c, s', BSpec.comp2, BSpec.volt, BSpec.clampV, h.do2, h.temp]
  have he := edgeBlock_eq c s h.icr h.daisr 5 16 s.comp2 s'.comp2 (hold_comp2 b s h)
  have hr := raise_fields s' (s.fires 5 s.comp2 s'.comp2)
  have hd : (BSpec.raise s' (s.fires 5 s.comp2 s'.comp2)).dasr = Board.setBit s.dasr 16 s'.comp2 := by
    rw [raise_dasr, dasr_mk8, dasr_mk8]; exact ((set_mk8 _ _ _ _ _ _ _ _ _).2.2.1).symm
  obtain ⟨h1, h2, h3, h4, h5, h6, h7, h8, h9, h10, h11, h12, h13, h14⟩ := h
  constructor <;>
    simp_all [Board.setAi2, Board.updateComp2, BSpec.setAi2, C.dasr_comp_dac2, C.srcComp2, c, s', BSpec.clampV]

theorem step_temp (b : Board) (s : BSpec) (h : R b s) (v : F32.Bits) : R (b.setTemp v) (s.setTemp v) := by
  let c : Board := { b with temp := Board.clamp v }
  let s' : BSpec := { s with temp := BSpec.clampV v }
  have hnew : F32.gt (F32.max c.temp c.ai2) (Board.dacVolt c.do2) = s'.comp2 := by
    simp [c, s', BSpec.comp2, BSpec.volt, BSpec.clampV, h.do2, h.ai2]
  have he := edgeBlock_eq c s h.icr h.daisr 5 16 s.comp2 s'.comp2 (hold_comp2 b s h)
  have hr := raise_fields s' (s.fires 5 s.comp2 s'.comp2)
  have hd : (BSpec.raise s' (s.fires 5 s.comp2 s'.comp2)).dasr = Board.setBit s.dasr 16 s'.comp2 := by
    rw [raise_dasr, dasr_mk8, dasr_mk8]; exact ((set_mk8 _ _ _ _ _ _ _ _ _).2.2.1).symm
  obtain ⟨h1, h2, h3, h4, h5, h6, h7, h8, h9, h10, h11, h12, h13, h14⟩ := h
  constructor <;>
    simp_all [Board.setTemp, Board.updateComp2, BSpec.setTemp, C.dasr_comp_dac2, C.srcComp2, c, s', BSpec.clampV]

theorem step_w1 (b : Board) (s : BSpec) (h : R b s) (v : Byte) : R (b.setDo2 v) (s.writeF1 v) := by
  let c : Board := { b with do2 := v, ao2 := Board.dacVolt v }
  let s' : BSpec := { s with do2 := v }
  have hnew : F32.gt (F32.max c.temp c.ai2) (Board.dacVolt c.do2) = s'.comp2 := by
    simp [c, s', BSpec.comp2, BSpec.volt, h.ai2, h.temp]
  have he := edgeBlock_eq c s h.icr h.daisr 5 16 s.comp2 s'.comp2 (hold_comp2 b s h)
  have hr := raise_fields s' (s.fires 5 s.comp2 s'.comp2)
  have hd : (BSpec.raise s' (s.fires 5 s.comp2 s'.comp2)).dasr = Board.setBit s.dasr 16 s'.comp2 := by
    rw [raise_dasr, dasr_mk8, dasr_mk8]; exact ((set_mk8 _ _ _ _ _ _ _ _ _).2.2.1).symm
  obtain ⟨h1, h2, h3, h4, h5, h6, h7, h8, h9, h10, h11, h12, h13, h14⟩ := h
  constructor <;>
    simp_all [Board.setDo2, Board.updateComp2, BSpec.writeF1, C.dasr_comp_dac2, C.srcComp2, c, s', BSpec.volt]

theorem step_w0 (b : Board) (s : BSpec) (h : R b s) (v : Byte) : R (b.setDo1 v) (s.writeF0 v) := by
  let c : Board := { b with do1 := v, ao1 := Board.dacVolt v }
  let s' : BSpec := { s with do1 := v, fan := true }
  have hnew : F32.gt c.ai1 (Board.dacVolt c.do1) = s'.comp1 := by
    simp [c, s', BSpec.comp1, BSpec.volt, h.ai1]
  have he := edgeBlock_eq c s h.icr h.daisr 4 8 s.comp1 s'.comp1 (hold_comp1 b s h)
  have hr := raise_fields s' (s.fires 4 s.comp1 s'.comp1)
  have hd : (BSpec.raise s' (s.fires 4 s.comp1 s'.comp1)).dasr = Board.ins (Board.setBit s.dasr 8 s'.comp1) 32 := by
    rw [raise_dasr, dasr_mk8, dasr_mk8, (set_mk8 _ _ _ _ _ _ _ _ _).2.2.2.1, (set_mk8 _ _ _ _ _ _ _ _ true).2.2.2.2.2.2.2]
    rfl
  obtain ⟨h1, h2, h3, h4, h5, h6, h7, h8, h9, h10, h11, h12, h13, h14⟩ := h
  constructor <;>
    simp_all [Board.setDo1, Board.updateComp1, BSpec.writeF0, C.dasr_comp_dac1, C.srcComp1, C.dasr_fan, c, s', BSpec.volt]


theorem bit_tests : ∀ v : Byte,
    ((v &&& 1#8) == 1#8) = (v &&& 1#8 != 0#8) ∧ ((v &&& 2#8) == 2#8) = (v &&& 2#8 != 0#8) ∧
    ((v &&& 4#8) == 4#8) = (v &&& 4#8 != 0#8) := by
  apply byte_cases; decide +kernel

theorem step_w2 (b : Board) (s : BSpec) (h : R b s) (v : Byte) :
    R (match (v &&& 0xC0#8).toNat / 64 with
       | 0 => b.setUor v | 1 => b | 2 => b.setUdr v | _ => b.setIcr v) (s.writeF2 v) := by
  unfold BSpec.writeF2
  have hb := bit_tests v
  generalize (v &&& 0xC0#8).toNat / 64 = k
  match k with
  | 0 =>
    -- UOR: the three UIO levels are taken from the written byte
    show R (b.setUor v) { s with u1 := v &&& 1#8 != 0#8, u2 := v &&& 2#8 != 0#8, u3 := v &&& 4#8 != 0#8 }
    have hd : (mk8 s.j2 s.j1 s.fan s.comp2 s.comp1 (v &&& 4#8 != 0#8) (v &&& 2#8 != 0#8) (v &&& 1#8 != 0#8)) =
        Board.setBit (Board.setBit (Board.setBit s.dasr 1 (v &&& 1#8 != 0#8)) 2 (v &&& 2#8 != 0#8)) 4 (v &&& 4#8 != 0#8) := by
      rw [dasr_mk8, (set_mk8 _ _ _ _ _ _ _ _ _).2.2.2.2.2.2.1, (set_mk8 _ _ _ _ _ _ _ _ _).2.2.2.2.2.1,
        (set_mk8 _ _ _ _ _ _ _ _ _).2.2.2.2.1]
    have hds : ({ s with u1 := v &&& 1#8 != 0#8, u2 := v &&& 2#8 != 0#8, u3 := v &&& 4#8 != 0#8 } : BSpec).dasr =
        mk8 s.j2 s.j1 s.fan s.comp2 s.comp1 (v &&& 4#8 != 0#8) (v &&& 2#8 != 0#8) (v &&& 1#8 != 0#8) := rfl
    obtain ⟨h1, h2, h3, h4, h5, h6, h7, h8, h9, h10, h11, h12, h13, h14⟩ := h
    constructor
    case dasr =>
      show (b.setUor v).dasr = _
      rw [hds, hd, ← h11]
      simp [Board.setUor, C.dasr_uio_1, C.dasr_uio_2, C.dasr_uio_3, hb.1, hb.2.1, hb.2.2]
    all_goals simp_all [Board.setUor]
  | 1 => exact h
  | 2 =>
    show R (b.setUdr v) { s with dir1 := v &&& 1#8 != 0#8, dir2 := v &&& 2#8 != 0#8, dir3 := v &&& 4#8 != 0#8 }
    obtain ⟨h1, h2, h3, h4, h5, h6, h7, h8, h9, h10, h11, h12, h13, h14⟩ := h
    constructor <;> simp_all [Board.setUdr, BSpec.dasr, BSpec.comp1, BSpec.comp2]
  | n + 3 =>
    show R (b.setIcr v) { s with icr := v &&& 0x3F#8, ff := false }
    have h2 := (mk2_ops s.ff s.src).2.1
    obtain ⟨h1, h2', h3, h4, h5, h6, h7, h8, h9, h10, h11, h12, h13, h14⟩ := h
    constructor <;>
      simp_all [Board.setIcr, C.daisr_interrupt_pending, C.daisr_interrupt_requested, C.daisr_interrupt_ff,
        C.daicrMask, BSpec.dasr, BSpec.comp1, BSpec.comp2]

/-- **One operation**: port writes 0xF0-0xF3 and external input changes keep the board model and the
specification in step. -/
theorem step_R (b : Board) (s : BSpec) (h : R b s) (op : BoardOp) : R (b.apply op) (s.apply op) := by
  cases op with
  | w0 v => exact step_w0 b s h v
  | w1 v => exact step_w1 b s h v
  | w2 v => exact step_w2 b s h v
  | w3 v => exact step_w3 b s h
  | di1 v => exact step_di1 b s h v
  | temp v => exact step_temp b s h v
  | ai1 v => exact step_ai1 b s h v
  | ai2 v => exact step_ai2 b s h v
  | j1 p => exact step_j1 b s h p
  | j2 p => exact step_j2 b s h p
  | uio1 v => exact step_uio1 b s h v
  | uio2 v => exact step_uio2 b s h v
  | uio3 v => exact step_uio3 b s h v

/-- **C14 (refinement)**: after ANY sequence of port writes and external input changes the status
register, the interrupt status register, the input port and the DAC voltages of the board model are
the ones the specification derives from pins, DAC bytes and configuration. -/
theorem board_refines (ops : List BoardOp) :
    R (ops.foldl Board.apply Board.new) (ops.foldl BSpec.apply BSpec.new) := by
  suffices ∀ b s, R b s → R (ops.foldl Board.apply b) (ops.foldl BSpec.apply s) from this _ _ r_new
  induction ops with
  | nil => intro b s h; exact h
  | cons op ops ih => intro b s h; exact ih _ _ (step_R b s h op)

/-- What the specification says, spelled out: the status bits. -/
theorem status_bits (s : BSpec) :
    Board.has s.dasr 8 = s.comp1 ∧ Board.has s.dasr 16 = s.comp2 ∧ Board.has s.dasr 64 = s.j1 ∧
    Board.has s.dasr 128 = s.j2 ∧ Board.has s.dasr 1 = s.u1 ∧ Board.has s.dasr 2 = s.u2 ∧ Board.has s.dasr 4 = s.u3 := by
  have := has_mk8 s.j2 s.j1 s.fan s.comp2 s.comp1 s.u3 s.u2 s.u1
  rw [dasr_mk8]
  exact ⟨this.2.2.2.2.1, this.2.2.2.1, this.2.1, this.1, this.2.2.2.2.2.2.2, this.2.2.2.2.2.2.1, this.2.2.2.2.2.1⟩

/-- Consequently, in every reachable board state the comparator bits are set exactly when the analog
input (for comparator 2: the larger of input 2 and the temperature sensor) exceeds the DAC voltage
byte/100, and the stored voltages are clamped. -/
theorem comparators_reflect_inputs (ops : List BoardOp) :
    let b := ops.foldl Board.apply Board.new
    Board.has b.dasr 8 = F32.gt b.ai1 (Board.dacVolt b.do1) ∧
    Board.has b.dasr 16 = F32.gt (F32.max b.temp b.ai2) (Board.dacVolt b.do2) ∧
    b.ao1 = Board.dacVolt b.do1 ∧ b.ao2 = Board.dacVolt b.do2 := by
  have h := board_refines ops
  have hs := status_bits (ops.foldl BSpec.apply BSpec.new)
  refine ⟨?_, ?_, ?_, ?_⟩
  · rw [h.dasr, hs.1, h.ai1, h.do1]; rfl
  · rw [h.dasr, hs.2.1, h.ai2, h.temp, h.do2]; rfl
  · rw [h.ao1, h.do1]; rfl
  · rw [h.ao2, h.do2]; rfl

/-- An external change of a UIO pin is visible at once when the pin is an input and ignored exactly
when it is an output (specification level; `board_refines` transfers it to the model). -/
theorem uio_visibility (s : BSpec) (v : Bool) :
    (s.dir1 = false → (s.setUio1 v).u1 = v) ∧ (s.dir1 = true → s.setUio1 v = s) := by
  constructor
  · intro h; simp [BSpec.setUio1, h, (raise_fields _ _).2.2.2.2.2.1]
  · intro h; simp [BSpec.setUio1, h]

/-- The interrupt flip-flop and source flag are raised by an operation exactly when the selected
source makes its configured transition (specification level). -/
theorem raise_iff (s : BSpec) (f : Bool) (hff : s.ff = false) : (s.raise f).ff = f ∧ (s.raise f).src = (s.src || f) := by
  cases f <;> simp [BSpec.raise, hff]

/-- Non-vacuity: a history in which comparator 1 fires a rising-edge interrupt through a DAC write. -/
example :
    let ops := [BoardOp.w2 0xC4#8, .ai1 0x40000000, .w0 250#8, .w0 100#8]
    (ops.foldl BSpec.apply BSpec.new).ff = true ∧ (ops.foldl Board.apply Board.new).daisr = 3#8 := by
  decide +kernel

end Emu2a.C14
