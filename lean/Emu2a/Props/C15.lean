/-
C15 — clock-cycle cost of an instruction = micro-steps + one wait per RAM access.
-/
import Emu2a.Model.Flow
import Emu2a.Model.Machine
import Emu2a.Lemmas.Fin
namespace Emu2a.C15
open Emu2a Machine Flow Isa Gen

/-- The core right before the bus phases of the edge that is executed next. -/
def pre (m : Machine) : Core := Core.updateWord (Core.updateIr m.core.applyPending)

/-- Does the micro-step executed next read or write an address 0x00-0xEF? -/
def ramAccess (m : Machine) : Bool :=
  let c := pre m
  let w := word c.addr
  (w.busen || w.buswr) && decide ((c.regs.get (Sig.selA w c.ir)).toNat ≤ 0xEF)

/-- **One wait per RAM access, none for I/O**: an executed micro-step raises the wait flag iff it
accesses RAM (a word with both BUSEN and BUSWR still raises a single flag). -/
theorem wait_iff_ram (m : Machine) : (exec m).wait = ramAccess m := by
  simp only [exec, Core.execWord, ramAccess, pre, C.waitTopR, C.waitTopW]
  cases (word (Core.updateWord (Core.updateIr m.core.applyPending)).addr).busen <;>
    cases (word (Core.updateWord (Core.updateIr m.core.applyPending)).addr).buswr <;> simp <;> rfl

/-- A pending wait consumes exactly one edge and nothing else happens in it. -/
theorem wait_costs_one (m : Machine) (hr : m.run = .running) (hw : m.wait = true) :
    clockEdge m = { m with wait := false } := by
  simp [clockEdge, hr, hw]

/-- Run `k` micro-steps of a machine that stays Running, returning the machine and the number of clock
edges consumed. Each micro-step costs its own edge plus the wait edge it has left behind. -/
def microRun : Nat → Machine → Machine × Nat
  | 0, m => (m, 0)
  | k + 1, m =>
    let m1 := exec { m with wait := false }
    let r := microRun k m1
    (r.1, r.2 + 1 + (if m.wait then 1 else 0))

/-- Number of RAM-accessing micro-steps among the next `k`. -/
def ramSteps : Nat → Machine → Nat
  | 0, _ => 0
  | k + 1, m => (if ramAccess { m with wait := false } then 1 else 0) + ramSteps k (exec { m with wait := false })

/-- Edges issued one by one. -/
def edges : Nat → Machine → Machine
  | 0, m => m
  | n + 1, m => edges n (clockEdge m)

theorem ramAccess_wait (m : Machine) (w : Bool) : ramAccess { m with wait := w } = ramAccess m := rfl

/-- `microRun` is what the edge-by-edge machine does, as long as it stays Running. -/
theorem microRun_edges (k : Nat) (m : Machine)
    (hrun : ∀ j, j ≤ k → (microRun j m).1.run = .running) :
    edges (microRun k m).2 m = { (microRun k m).1 with wait := (microRun k m).1.wait } ∧ True := by
  exact ⟨by
    induction k generalizing m with
    | zero => rfl
    | succ n ih =>
      have h0 : m.run = .running := by simpa [microRun] using hrun 0 (by omega)
      have hrun' : ∀ j, j ≤ n → (microRun j (exec { m with wait := false })).1.run = .running := by
        intro j hj
        have := hrun (j + 1) (by omega)
        simpa [microRun] using this
      have ih' := ih (exec { m with wait := false }) hrun'
      simp only [microRun]
      cases hw : m.wait
      · simp only [Bool.false_eq_true, ↓reduceIte, Nat.add_zero]
        have e1 : clockEdge m = exec { m with wait := false } := by
          have : ({ m with wait := false } : Machine) = m := by cases m; simp_all
          rw [this]; simp [clockEdge, h0, hw]
        rw [show (microRun n (exec { m with wait := false })).2 + 1 = ((microRun n (exec { m with wait := false })).2).succ from rfl]
        simp only [edges, e1]
        exact ih'
      · simp only [↓reduceIte]
        have e1 : clockEdge m = { m with wait := false } := by simp [clockEdge, h0, hw]
        have e2 : clockEdge { m with wait := false } = exec { m with wait := false } := by simp [clockEdge, h0]
        rw [show (microRun n (exec { m with wait := false })).2 + 1 + 1 = (((microRun n (exec { m with wait := false })).2).succ).succ from rfl]
        simp only [edges, e1, e2]
        exact ih', trivial⟩

/-- **C15 (cost law)**: `k+1` micro-steps take `k+1` clock edges, plus one if a wait was pending at
the start, plus one for every one of the first `k` micro-steps that accessed RAM (the wait left by the
last step is paid by whatever follows).  Nothing else enters: no history, no step mode. -/
theorem cost_law (k : Nat) (m : Machine) :
    (microRun (k + 1) m).2 = (k + 1) + (if m.wait then 1 else 0) + ramSteps k m := by
  induction k generalizing m with
  | zero => simp [microRun, ramSteps]
  | succ n ih =>
    have ih' := ih (exec { m with wait := false })
    have hw : (exec { m with wait := false }).wait = ramAccess { m with wait := false } := wait_iff_ram _
    rw [hw] at ih'
    rw [show microRun (n + 1 + 1) m =
      ((microRun (n + 1) (exec { m with wait := false })).1,
       (microRun (n + 1) (exec { m with wait := false })).2 + 1 + (if m.wait then 1 else 0)) from rfl]
    simp only [ih', ramSteps]
    omega

/-! ### The number of micro-steps is fixed per instruction form -/

/-- For every defined first byte outside MUL/DIV all interrupt-free paths from dispatch to the next
fetch (or to the second-opcode fetch) have one and the same length; likewise for every defined
second byte.  So the micro-step count is a function of the instruction form alone — conditional
jumps included (their two branches differ only in the RAM read of the taken branch). -/
theorem steps_fixed :
    (∀ op, op < 256 → definedFirst op = true → isMul op = false → isDiv op = false →
      (pathLens 17 (start op)).eraseDups.length = 1) ∧
    (∀ b, b < 256 → definedSecond b = true → (pathLens 17 (start2 b)).eraseDups.length = 1) := by
  have h1 : allBelow 256 (fun op => !(definedFirst op) || isMul op || isDiv op ||
      (pathLens 17 (start op)).eraseDups.length == 1) = true := by decide +kernel
  have h2 : allBelow 256 (fun b => !(definedSecond b) || (pathLens 17 (start2 b)).eraseDups.length == 1) = true := by
    decide +kernel
  constructor
  · intro op ho hd hm hv
    have := allBelow_spec h1 op ho
    simpa [hd, hm, hv] using this
  · intro b hb hd
    have := allBelow_spec h2 b hb
    simpa [hd] using this

/-- The cost of the edges ahead is a function of the machine state alone (a deterministic function of
the instruction trace); the step mode does not occur in it. -/
theorem cost_mode_independent (k : Nat) (m : Machine) (s : StepMode) :
    (microRun k { m with mode := s }).2 = (microRun k m).2 := by
  induction k generalizing m with
  | zero => rfl
  | succ n ih =>
    simp only [microRun]
    have : exec { ({ m with mode := s } : Machine) with wait := false } = { exec { m with wait := false } with mode := s } := by
      simp [exec, superviseWrite]
    rw [this, ih]

end Emu2a.C15
