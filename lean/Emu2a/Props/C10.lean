/-
C10 — bus address map: RAM, I/O registers and ports never alias or leak.
-/
import Emu2a.Spec.BusMap
import Emu2a.Model.Machine
import Emu2a.Lemmas.Fin
namespace Emu2a.C10
open Emu2a

/-! ### The concrete bus refines the abstract map -/

theorem board_writes_keep_ports (bd : Board) (v : Byte) :
    (bd.setUor v).do1 = bd.do1 ∧ (bd.setUor v).do2 = bd.do2 ∧ (bd.setUor v).di1 = bd.di1 ∧
    (bd.setUdr v).do1 = bd.do1 ∧ (bd.setUdr v).do2 = bd.do2 ∧ (bd.setUdr v).di1 = bd.di1 ∧
    (bd.setIcr v).do1 = bd.do1 ∧ (bd.setIcr v).do2 = bd.do2 ∧ (bd.setIcr v).di1 = bd.di1 ∧
    bd.deleteIntFf.do1 = bd.do1 ∧ bd.deleteIntFf.do2 = bd.do2 ∧ bd.deleteIntFf.di1 = bd.di1 := by
  simp [Board.setUor, Board.setUdr, Board.setIcr, Board.deleteIntFf]

theorem setDo1_ports (bd : Board) (v : Byte) :
    (bd.setDo1 v).do1 = v ∧ (bd.setDo1 v).do2 = bd.do2 ∧ (bd.setDo1 v).di1 = bd.di1 := by
  simp [Board.setDo1, Board.updateComp1]

theorem setDo2_ports (bd : Board) (v : Byte) :
    (bd.setDo2 v).do2 = v ∧ (bd.setDo2 v).do1 = bd.do1 ∧ (bd.setDo2 v).di1 = bd.di1 := by
  simp [Board.setDo2, Board.updateComp2]

theorem high_cases : ∀ a : Byte, ¬ a.toNat ≤ 239 →
    a = 0xF0#8 ∨ a = 0xF1#8 ∨ a = 0xF2#8 ∨ a = 0xF3#8 ∨ a = 0xF4#8 ∨ a = 0xF5#8 ∨ a = 0xF6#8 ∨ a = 0xF7#8 ∨
    a = 0xF8#8 ∨ a = 0xF9#8 ∨ a = 0xFA#8 ∨ a = 0xFB#8 ∨ a = 0xFC#8 ∨ a = 0xFD#8 ∨ a = 0xFE#8 ∨ a = 0xFF#8 := by
  apply byte_cases; decide +kernel

/-- Every write commutes with the abstraction: the concrete bus changes the map exactly as the
specification says (in particular: a write to 0xF0-0xFF never changes RAM, outputs change only by
writes to 0xFE/0xFF, inputs never change by writes). -/
theorem abs_write (b : Bus) (a v : Byte) : (b.write a v).abs = b.abs.write a v := by
  by_cases h : a.toNat ≤ 239
  · have h' : a.toNat < 240 := by omega
    simp [Bus.write, Bus.abs, BusSpec.write, h, h', Gen.C.ramTop]
  · have h' : ¬ a.toNat < 240 := by omega
    have hp := board_writes_keep_ports b.board v
    rcases high_cases a h with e | e | e | e | e | e | e | e | e | e | e | e | e | e | e | e <;> subst e
    · rw [show b.write 0xF0#8 v = { b with board := b.board.setDo1 v } from rfl,
          show b.abs.write 0xF0#8 v = { b.abs with do1 := v } from rfl]
      simp [Bus.abs, setDo1_ports]
    · rw [show b.write 0xF1#8 v = { b with board := b.board.setDo2 v } from rfl,
          show b.abs.write 0xF1#8 v = { b.abs with do2 := v } from rfl]
      simp [Bus.abs, setDo2_ports]
    · rw [show b.abs.write 0xF2#8 v = b.abs from rfl,
          show b.write 0xF2#8 v = (match (v &&& 0xC0#8).toNat / 64 with
            | 0 => { b with board := b.board.setUor v }
            | 1 => b
            | 2 => { b with board := b.board.setUdr v }
            | _ => { b with board := b.board.setIcr v }) from rfl]
      split <;> simp [Bus.abs, hp]
    · rw [show b.write 0xF3#8 v = { b with board := b.board.deleteIntFf } from rfl,
          show b.abs.write 0xF3#8 v = b.abs from rfl]
      simp [Bus.abs, hp]
    · rfl
    · rfl
    · rfl
    · rfl
    · rfl
    · rfl
    · rfl
    · rfl
    · rfl
    · rw [show b.abs.write 0xFD#8 v = b.abs from rfl,
          show b.write 0xFD#8 v = (if (v &&& 0x80#8) == 0x80#8 then
              { b with timer := { b.timer with enabled := (v &&& 0x10#8) == 0x10#8, div2 := match (v &&& 0x03#8).toNat with
                | 0 => 1 | 1 => 16 | 2 => 256 | _ => 4096 } }
            else { b with timer := { b.timer with div3 := ((v.toNat &&& 0x7F) <<< 7) + (b.timer.div3 &&& 0x7F) } }) from rfl]
      split <;> rfl
    · rfl
    · rfl

/-- Where the map determines a read, the concrete bus returns that value. -/
theorem abs_read (b : Bus) (a x : Byte) (h : b.abs.read a = some x) : b.read a = x := by
  by_cases ha : a.toNat ≤ 239
  · have h' : a.toNat < 240 := by omega
    simp [BusSpec.read, h', Bus.abs] at h
    simp [Bus.read, ha, Gen.C.ramTop, h]
  · rcases high_cases a ha with e | e | e | e | e | e | e | e | e | e | e | e | e | e | e | e <;> subst e <;>
      (simp [BusSpec.read] at h; try (rw [← h]; rfl))

/-- `Bus::read` has no state to change (it takes `&self`); in the model a read is a pure function.
The harness checks `bus == clone-before` on the Rust side after every read. -/
theorem read_pure (b : Bus) (a : Byte) : (b.apply (.read a)) = b := rfl

/-- A key press raises the status exactly as the map says: request bit always, pending bit iff the
key-edge enable bit of the mask is set; nothing else of the map changes. -/
theorem abs_keyIrq (b : Bus) : b.keyIrq.abs = b.abs.keyIrq := by
  unfold Bus.keyIrq BusSpec.keyIrq Bus.keyEdgeEnabled Bus.abs
  by_cases h : b.micr &&& 0x01#8 = 0#8
  · simp [h, Gen.C.micrKeyEdge, Gen.C.misrKeyActive]
  · simp [h, Gen.C.micrKeyEdge, Gen.C.misrKeyActive, Gen.C.misrKeyPending]
    ext i; simp [Bool.or_assoc]; cases b.misr[i] <;> simp [Bool.or_comm]

/-- `Bus.keyIrq` is what the machine's key-interrupt entry point does to the bus. -/
theorem keyIrq_machine (m : Machine) : m.keyInterrupt.core.bus = m.core.bus.keyIrq := by
  unfold Machine.keyInterrupt Bus.keyIrq
  by_cases h : m.core.bus.keyEdgeEnabled <;> simp [h]

theorem abs_apply (b : Bus) (op : BusOp) : (b.apply op).abs = b.abs.apply op := by
  cases op with
  | write a v => exact abs_write b a v
  | read a => rfl
  | setInput i v =>
    rcases i with ⟨i, hi⟩
    have : i = 0 ∨ i = 1 ∨ i = 2 ∨ i = 3 := by omega
    rcases this with h | h | h | h <;> subst h <;> rfl
  | setDi1 v => rfl
  | keyIrq => exact abs_keyIrq b

/-- **C10 (refinement)**: after *any* sequence of writes, reads, input-register and input-port changes
the concrete bus, seen through the abstraction, is the abstract map after the same sequence. -/
theorem abs_refines (ops : List BusOp) (b : Bus) :
    (ops.foldl Bus.apply b).abs = ops.foldl BusSpec.apply b.abs := by
  induction ops generalizing b with
  | nil => rfl
  | cons op ops ih => simp only [List.foldl_cons, ih, abs_apply]

/-! ### What the abstract map says (the property's sentences, as consequences) -/

/-- A byte written to 0x00-0xEF is what a later read of that address returns … -/
theorem spec_read_write_same (s : BusSpec) (a v : Byte) (h : a.toNat < 240) :
    (s.write a v).read a = some v := by
  simp [BusSpec.write, BusSpec.read, h]

/-- … and a write to any *other* address (RAM or I/O) does not change it. -/
theorem spec_read_write_other (s : BusSpec) (a a' v : Byte) (h : a.toNat < 240) (hne : a' ≠ a) :
    (s.write a' v).read a = s.read a := by
  have hn : a'.toNat ≠ a.toNat := fun e => hne (BitVec.eq_of_toNat_eq e)
  unfold BusSpec.write
  split
  · simp [BusSpec.read, h, Vector.getElem_set_ne, hn]
  · repeat' split
    all_goals simp [BusSpec.read, h]

/-- 0xF9 is split: a write sets the interrupt-enable mask and leaves the status alone, a read
returns the interrupt status (not the mask). -/
theorem f9_split (b : Bus) (v : Byte) :
    b.read 0xF9#8 = b.misr ∧ (b.write 0xF9#8 v).micr = v &&& 0x3F#8 ∧ (b.write 0xF9#8 v).misr = b.misr :=
  ⟨rfl, rfl, rfl⟩

/-- No write, whatever address and value, changes the interrupt status a read of 0xF9 returns; only a
key press does. -/
theorem status_only_by_key (s : BusSpec) (a v : Byte) : (s.write a v).read 0xF9#8 = s.read 0xF9#8 := by
  unfold BusSpec.write
  split
  · rename_i h; simp [BusSpec.read]
  · repeat' split
    all_goals simp [BusSpec.read]

/-- Reads of 0xF0 / 0xF1 / 0xF3 return the board's input port and its two status registers. -/
theorem board_reads (b : Bus) :
    b.read 0xF0#8 = b.board.di1 ∧ b.read 0xF1#8 = b.board.dasr ∧ b.read 0xF3#8 = b.board.daisr :=
  ⟨rfl, rfl, rfl⟩

/-- Non-vacuity / sanity: a concrete history exercising RAM, an output register, the mask and an
input register, evaluated on both sides. -/
example :
    let ops := [BusOp.write 0x10#8 7#8, .write 0xFE#8 9#8, .write 0xF9#8 0xFF#8, .setInput 2 5#8, .write 0xFE#8 1#8]
    ((ops.foldl Bus.apply Bus.new).abs.read 0x10#8 = some 7#8) ∧
    ((ops.foldl Bus.apply Bus.new).read 0xFE#8 = 5#8) ∧ ((ops.foldl Bus.apply Bus.new).outFE = 1#8) ∧
    ((ops.foldl Bus.apply Bus.new).micr = 0x3F#8) := by decide +kernel

end Emu2a.C10
