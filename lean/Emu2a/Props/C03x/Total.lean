/-
C03, `build_total`: the parser model never ends in a panic outcome — for every input text and every
fuel.  (`parse` = PEG interpreter over the regenerated grammar, AST builders, label validation.)
-/
import Emu2a.Props.C03x.Instr
import Emu2a.Lemmas.PegFuel
namespace Emu2a.C03
open Emu2a.Parse Emu2a.Peg Emu2a.Asm

theorem wf_kids {t : Tree} (h : WF G X t) : ∀ k, k ∈ t.children → WF G X k := by
  cases h with
  | eoi => intro k hk; simp [Tree.children] at hk
  | node nm text kids rd hfind hden hx hk => exact hk

theorem parseComment_ok (t : Tree) (hw : WF G X t) (hr : t.rule = "comment") : Ok (parseComment t) := by
  obtain ⟨hn, _⟩ := wf_names hw _ hr (by decide) _ Gen.find_comment [["semicolon", "rest"]] rfl
  obtain ⟨k0, k1, hc, h0, h1⟩ := kids2 (mem1 hn)
  have e0 : kid t 0 ["semicolon"] = .ok k0 := kid_ok t 0 _ k0 (by simp [hc]) (by simp [h0])
  have e1 : kid t 1 ["rest"] = .ok k1 := kid_ok t 1 _ k1 (by simp [hc]) (by simp [h1])
  unfold parseComment; mok

theorem parseLabel_ok (t : Tree) (hw : WF G X t) (hr : t.rule = "label") : Ok (parseLabel t) := by
  obtain ⟨hn, _⟩ := wf_names hw _ hr (by decide) _ Gen.find_label [["raw_label", "colon"]] rfl
  obtain ⟨k0, k1, hc, h0, h1⟩ := kids2 (mem1 hn)
  have e0 : kid t 0 ["raw_label"] = .ok k0 := kid_ok t 0 _ k0 (by simp [hc]) (by simp [h0])
  have e1 : kid t 1 ["colon"] = .ok k1 := kid_ok t 1 _ k1 (by simp [hc]) (by simp [h1])
  unfold parseLabel; mok

theorem foldlM_ok {α β : Type} (f : β → α → M β) : ∀ (l : List α) (init : β),
    (∀ acc x, x ∈ l → Ok (f acc x)) → Ok (l.foldlM f init) := by
  intro l
  induction l with
  | nil => intro init _; exact ⟨init, rfl⟩
  | cons x xs ih =>
    intro init h
    obtain ⟨v, hv⟩ := h init x (by simp)
    obtain ⟨w, hw⟩ := ih v (fun acc y hy => h acc y (by simp [hy]))
    exact ⟨w, by simp [List.foldlM_cons, hv, hw, bind, Except.bind]⟩

/-- The tokens a `line` can contain. -/
def lineKids : List String := ["space", "label", "instruction", "comment"]

theorem line_kids_allowed : ∃ L, choicesOf G Gen.rule_line = some L ∧
    (L.all fun ns => ns.all fun x => lineKids.contains x) = true := ⟨_, rfl, by decide⟩

theorem parseLine_ok (t : Tree) (hw : WF G X t) (hr : t.rule = "line") : Ok (parseLine t) := by
  obtain ⟨L, hL, hall⟩ := line_kids_allowed
  obtain ⟨hn, hk⟩ := wf_names hw _ hr (by decide) _ Gen.find_line L hL
  have hrules : ∀ e, e ∈ t.children → e.rule ∈ lineKids := by
    intro e he
    have h1 := List.all_eq_true.mp hall _ hn
    have h2 := List.all_eq_true.mp h1 e.rule (List.mem_map.mpr ⟨e, he, rfl⟩)
    simpa using h2
  unfold parseLine
  apply foldlM_ok
  intro acc e he
  have hwe := hk e he
  have hre := hrules e he
  simp only [lineKids, List.mem_cons, List.mem_nil_iff, or_false] at hre
  rcases hre with h | h | h | h
  · simp only [h]; exact ⟨acc, rfl⟩
  · obtain ⟨v, hv⟩ := parseLabel_ok e hwe h
    simp only [h]; mok
  · obtain ⟨v, hv⟩ := parseInstruction_ok e hwe h
    simp only [h]; mok
  · obtain ⟨v, hv⟩ := parseComment_ok e hwe h
    simp only [h]
    cases acc <;> mok

theorem validate_no_panic (ls : List Line) (s : String) : validate ls ≠ some (.panic s) := by
  unfold validate
  simp only
  split
  · simp
  · split <;> simp

/-- **C03 `build_total`**: whatever the input text and the fuel, the parser model never ends in a
panic outcome: no `unwrap` on a failed number conversion, no `inner_tuple!` / `expect` on a missing or
unexpected inner token, no `unreachable!` arm — every token tree the PEG interpreter can build for the
regenerated grammar is one the AST builders handle. -/
theorem parse_never_panics (fuel : Nat) (input : String) (s : String) : parse fuel input ≠ .panic s := by
  unfold parse
  cases hrun : run Gen.mrasm fuel (.rule "file") true input.toList with
  | fail => simp
  | oof => simp
  | ok ts r =>
    simp only
    have hwf : ∀ t, t ∈ ts → WF G X t := (run_wf fuel _ _ _ ts r hrun).2
    obtain ⟨f', hbody⟩ := rule_silent_ok Gen.find_file rfl hrun
    obtain ⟨⟨c, _, hden⟩, _⟩ := run_wf f' _ _ _ ts r hbody
    have hne : ts ≠ [] := by
      have e : Gen.rule_file = .seq (.builtin .soi) (.seq (.rule "header") (.seq
          (.star (.seq (.rule "line") (.rule "eol"))) (.seq (.rule "line") (.builtin .eoi)))) := rfl
      simp only [RuleDef.body, e] at hden
      rw [den_seq] at hden
      obtain ⟨c1, n1, c2, n2, _, h2, _, hn⟩ := hden
      rw [den_seq] at h2
      obtain ⟨c3, n3, c4, n4, h3, _, _, hn2⟩ := h2
      have := den_rule "header" _ Gen.find_header rfl _ _ h3
      intro hts
      rw [hts] at hn
      simp [hn2, this] at hn
    cases ts with
    | nil => exact absurd rfl hne
    | cons header rest =>
      simp only
      have hwh : WF G X header := hwf header (by simp)
      have hhc : Ok (header.children.foldlM (fun (acc : Option String) el =>
          if el.rule == "comment" then do let c ← parseComment el; pure (some c) else pure acc) none) := by
        apply foldlM_ok
        intro acc el hel
        by_cases hc : el.rule = "comment"
        · obtain ⟨v, hv⟩ := parseComment_ok el (wf_kids hwh el hel) hc
          mok
        · exact ⟨acc, by simp [hc, pure, Except.pure]⟩
      obtain ⟨hcv, hhcv⟩ := hhc
      rw [hhcv]
      simp only
      have hlines : Ok ((rest.filter fun t => t.rule == "line").mapM parseLine) := by
        apply mapM_ok
        intro x hx
        simp only [List.mem_filter, beq_iff_eq] at hx
        exact parseLine_ok x (hwf x (by simp [hx.1])) hx.2
      obtain ⟨lv, hlv⟩ := hlines
      rw [hlv]
      simp only
      split
      · rename_i res hv
        intro hres
        exact validate_no_panic lv s (by rw [hv, hres])
      · simp

/-- The static height of the `file` rule of the regenerated grammar (kernel evaluation). -/
theorem file_height : H Gen.mrasm 100 (.rule "file") = some 80 := by decide +kernel

/-- **The parser model decides every input**: with the fuel the driver uses, the interpreter never
answers "out of fuel" — `syntaxError` from the model is a real rejection by the grammar, not a resource
artefact. -/
theorem parse_decides (input : String) :
    run Gen.mrasm (defaultFuel input) (.rule "file") true input.toList ≠ .oof := by
  apply run_not_oof Gen.mrasm 100 _ 80 file_height
  unfold defaultFuel
  omega

end Emu2a.C03
