/-
C03: boundary texts on which the model parser (PEG interpreter over the grammar regenerated from
mrasm.pest + AST builders) is evaluated by the kernel: rejects at the numeric / label / header
boundaries, accepts right below them with the AST they must produce.  These are tests, labelled as
such: a change of the grammar file or of a builder that moves one of these boundaries breaks them.
-/
import Emu2a.Model.Build
namespace Emu2a.C03
open Emu2a Emu2a.Asm Emu2a.Parse

def isReject : Result → Bool
  | .syntaxError | .undefinedLabels _ | .tooManyLabels => true
  | _ => false

def labelsText (n : Nat) : String := "#! mrasm\n" ++ "\n".intercalate ((List.range n).map fun i => s!"l{i}:")

def rejects : List String := [
  "", "NOP", "#!mrasm\nNOP", "#! mrasm  \nNOP", " #! mrasm\nNOP",
  "#! mrasm\nLD R0, 256", "#! mrasm\nLD R0, 0x100", "#! mrasm\nLD R0, 0b100000000",
  "#! mrasm\n.DW 65536", "#! mrasm\n.DW 0x10000", "#! mrasm\n.DW 0b10000000000000000",
  "#! mrasm\nJR nowhere", "#! mrasm\nR0x:", "#! mrasm\npcx:", "#! mrasm\nSPx:",
  "#! mrasm\nLD R4, 1", "#! mrasm\nMOV 5, R0", "#! mrasm\nADD R0 , R1",
  "#! mrasm\nADD R0,R1 R2", "#! mrasm\n.EQU x 0x10", "#! mrasm\n*STACKSIZE 17",
  "#! mrasm\n*STACKSIZE 016", "#! mrasm\nNOP NOP", "#! mrasm\nlabel :", "#! mrasm\n.DB",
  "#! mrasm\n.DB 1,", "#! mrasm\nLD R0,(R1+", "#! mrasm\nLD R0,((R1))", "#! mrasm\n.ORG 256", "#! mrasm\n.BYTE 256",
  "#! mrasm\n*PROGRAMSIZE 256", "#! mrasm\nJR", "#! mrasm\nx: JR X\ny: JR z"]

def accepts : List (String × Program) := [
  ("#! mrasm\nLD R0, 255", ⟨none, [.instr (.ldConst .r0 (.num 255)) none]⟩),
  ("#! mrasm\nLD R0, 0xff", ⟨none, [.instr (.ldConst .r0 (.num 255)) none]⟩),
  ("#! mrasm\nLD R0, 0b11111111", ⟨none, [.instr (.ldConst .r0 (.num 255)) none]⟩),
  ("#! mrasm\nLD R0, 0b0000000011111111", ⟨none, [.instr (.ldConst .r0 (.num 255)) none]⟩),
  ("#! mrasm\nLD R0, 000000255", ⟨none, [.instr (.ldConst .r0 (.num 255)) none]⟩),
  ("#! mrasm\n.DW 65535, 0xFFFF, 0b1111111111111111, 0", ⟨none, [.instr (.dw [65535, 65535, 65535, 0]) none]⟩),
  ("#! mrasm\nLD PC, 0", ⟨none, [.instr (.ldConst .r3 (.num 0)) none]⟩),
  ("#! mrasm\n.ORG 255", ⟨none, [.instr (.org 255) none]⟩),
  ("#! mrasm\n*PROGRAMSIZE 255", ⟨none, [.instr (.programsize (.size 255)) none]⟩),
  ("#! mrasm\nx:\n JR X", ⟨none, [.label "x" none, .instr (.jr "X") none]⟩),
  ("#! mrasm ; header\n\tadd r1,  r2;c", ⟨some "header", [.instr (.add .r1 .r2) (some "c")]⟩)]

theorem reject_family : (rejects.all fun s => isReject (parse 400 s)) = true := by decide +kernel

theorem accept_family : (accepts.all fun p => parse 400 p.1 == .ok p.2) = true := by decide +kernel

/-- 40 definitions are accepted, 41 are not (the limit is regenerated from implementation/mod.rs). -/
theorem label_limit : (match parse 2000 (labelsText 40) with | .ok p => p.lines.length == 40 | _ => false) = true ∧
    parse 2000 (labelsText 41) = .tooManyLabels := by
  constructor <;> decide +kernel

end Emu2a.C03
