/-
C03, `build_total`: no token tree the PEG interpreter can return for the (regenerated) mrasm grammar
makes an AST builder hit one of its `panic` outcomes (`unwrap`, `expect`, `unreachable!`,
`inner_tuple!` of parser/implementation/mod.rs) — for every input text and every fuel.

Structure: `Peg.run_sound` gives well-formed trees (`WF`); per rule, the denotation of the rule body
fixes the inner tokens (names, order) and, for the leaf rules, the text; each builder is total on
well-formed trees of its rule.
-/
import Emu2a.Props.C03x.Num
import Emu2a.Lemmas.PegMono
namespace Emu2a.C03
open Emu2a.Parse Emu2a.Peg Emu2a.Asm

abbrev G : Grammar := Gen.mrasm

/-- A fact about *ordered* choice the denotation cannot express: in `memory = "(" (constant | register |
raw_label) ")"` the third alternative is dead — a label is always taken by `constant` (whose last
alternative it is) — so no `memory` token has a `raw_label` inside (the builder would not accept one). -/
def X (name : String) (ns : List String) : Prop := name = "memory" → ns ≠ ["oparen", "raw_label", "cparen"]

/-- The builder returned a value (did not hit a panic outcome). -/
def Ok {α : Type} (x : M α) : Prop := ∃ v, x = .ok v

/-! ### Trees -/

theorem wf_inv {t : Tree} (h : WF G X t) (name : String) (hn : t.rule = name) (hne : name ≠ "EOI") (rd : RuleDef)
    (hf : G.find name = some rd) :
    Den G rd.body t.text (t.children.map Tree.rule) ∧ (∀ k, k ∈ t.children → WF G X k) ∧
      X name (t.children.map Tree.rule) := by
  cases h with
  | eoi => simp only [Tree.rule] at hn; exact absurd hn.symm hne
  | node nm text kids rd' hfind hden hx hk =>
    simp only [Tree.rule] at hn
    subst hn
    rw [hf] at hfind
    injection hfind with e
    subst e
    exact ⟨hden, hk, hx⟩

theorem kids1 {t : Tree} {a : String} (h : t.children.map Tree.rule = [a]) :
    ∃ k, t.children = [k] ∧ k.rule = a := by
  match hc : t.children, h with
  | [k], h => simp only [hc, List.map_cons, List.map_nil, List.cons.injEq, and_true] at h; exact ⟨k, rfl, h⟩

theorem kids2 {t : Tree} {a b : String} (h : t.children.map Tree.rule = [a, b]) :
    ∃ k0 k1, t.children = [k0, k1] ∧ k0.rule = a ∧ k1.rule = b := by
  match hc : t.children, h with
  | [k0, k1], h =>
    simp only [hc, List.map_cons, List.map_nil, List.cons.injEq, and_true] at h
    exact ⟨k0, k1, rfl, h.1, h.2⟩

theorem kids3 {t : Tree} {a b c : String} (h : t.children.map Tree.rule = [a, b, c]) :
    ∃ k0 k1 k2, t.children = [k0, k1, k2] ∧ k0.rule = a ∧ k1.rule = b ∧ k2.rule = c := by
  match hc : t.children, h with
  | [k0, k1, k2], h =>
    simp only [hc, List.map_cons, List.map_nil, List.cons.injEq, and_true] at h
    exact ⟨k0, k1, k2, rfl, h.1, h.2.1, h.2.2⟩

theorem kids4 {t : Tree} {a b c d : String} (h : t.children.map Tree.rule = [a, b, c, d]) :
    ∃ k0 k1 k2 k3, t.children = [k0, k1, k2, k3] ∧ k0.rule = a ∧ k1.rule = b ∧ k2.rule = c ∧ k3.rule = d := by
  match hc : t.children, h with
  | [k0, k1, k2, k3], h =>
    simp only [hc, List.map_cons, List.map_nil, List.cons.injEq, and_true] at h
    exact ⟨k0, k1, k2, k3, rfl, h.1, h.2.1, h.2.2.1, h.2.2.2⟩

theorem kid_ok (t : Tree) (i : Nat) (exp : List String) (k : Tree) (h1 : t.children[i]? = some k)
    (h2 : k.rule ∈ exp) : kid t i exp = .ok k := by
  simp [kid, h1, h2]

/-! ### Rewriting lemmas for the denotation -/

theorem den_seq (a b : Expr) (c : List Char) (n : List String) :
    Den G (.seq a b) c n = ∃ c1 n1 c2 n2, Den G a c1 n1 ∧ Den G b c2 n2 ∧ c = c1 ++ c2 ∧ n = n1 ++ n2 := by
  simp only [Den]
theorem den_choice (a b : Expr) (c : List Char) (n : List String) :
    Den G (.choice a b) c n = (Den G a c n ∨ Den G b c n) := by simp only [Den]
theorem den_opt (a : Expr) (c : List Char) (n : List String) :
    Den G (.opt a) c n = ((c = [] ∧ n = []) ∨ Den G a c n) := by simp only [Den]
theorem den_istr (s c : List Char) (n : List String) :
    Den G (.istr s) c n = (c.map lowerC = s.map lowerC ∧ n = []) := by simp only [Den]

/-- A reference to a non-silent rule produces exactly one token of that name. -/
theorem den_rule (name : String) (rd : RuleDef) (hf : G.find name = some rd) (hs : rd.silent = false)
    (c : List Char) (n : List String) (h : Den G (.rule name) c n) : n = [name] := by
  simp only [Den, hf, hs] at h
  simpa using h

/-! ### Numbers -/

theorem bin_digit (c : List Char) (n : List String) (h : Den G (.builtin .ascii_bin_digit) c n) :
    (∃ ch, c = [ch] ∧ IsDigit 2 ch) ∧ n = [] := by
  simp only [Den, DenB] at h
  obtain ⟨⟨ch, rfl, hc⟩, rfl⟩ := h
  exact ⟨⟨ch, rfl, bin_isDigit 2 (by omega) ch hc⟩, rfl⟩

theorem hex_digit (c : List Char) (n : List String) (h : Den G (.builtin .ascii_hex_digit) c n) :
    (∃ ch, c = [ch] ∧ IsDigit 16 ch) ∧ n = [] := by
  simp only [Den, DenB] at h
  obtain ⟨⟨ch, rfl, hc⟩, rfl⟩ := h
  exact ⟨⟨ch, rfl, hex_isDigit ch hc⟩, rfl⟩

/-- `prefix ~ ("0"* ~ D{1,k} | "0"+)`: the text after the two-character prefix is read successfully. -/
theorem prefixed_ok (base limit k : Nat) (hb : 1 ≤ base) (hk : k ≠ 0) (hlim : base ^ k ≤ limit) (p : List Char)
    (hp : p.length = 2) (D : Expr) (hD : ∀ c n, Den G D c n → (∃ ch, c = [ch] ∧ IsDigit base ch) ∧ n = [])
    (text : List Char) (names : List String)
    (h : Den G (.seq (.str p) (.choice (.seq (.star (.str ['0'])) (.rep D 1 k)) (.plus (.str ['0'])))) text names) :
    (∃ v, fromRadix base limit (text.drop 2) = some v) ∧ names = [] := by
  rw [den_seq] at h
  obtain ⟨c1, n1, c2, n2, h1, h2, rfl, rfl⟩ := h
  rw [den_str] at h1
  obtain ⟨rfl, rfl⟩ := h1
  have hl : 0 < limit := Nat.lt_of_lt_of_le (Nat.pow_pos (by omega)) hlim
  have := zeros_then_ok G base limit hb hl _ (rep_digits_ok G base limit k hb hk hlim D hD) c2 n2 h2
  have hd : (c1 ++ c2).drop 2 = c2 := by rw [← hp]; simp
  rw [hd]
  exact ⟨this.1, by simp [this.2]⟩

theorem constant_bin_ok (text : List Char) (names : List String) (h : Den G Gen.rule_constant_bin text names) :
    (∃ v, fromRadix 2 256 (text.drop 2) = some v) ∧ names = [] :=
  prefixed_ok 2 256 8 (by omega) (by omega) (by decide) ['0', 'b'] rfl _ bin_digit text names h

theorem word_bin_ok (text : List Char) (names : List String) (h : Den G Gen.rule_word_bin text names) :
    (∃ v, fromRadix 2 65536 (text.drop 2) = some v) ∧ names = [] :=
  prefixed_ok 2 65536 16 (by omega) (by omega) (by decide) ['0', 'b'] rfl _ bin_digit text names h

theorem constant_hex_ok (text : List Char) (names : List String) (h : Den G Gen.rule_constant_hex text names) :
    (∃ v, fromRadix 16 256 (text.drop 2) = some v) ∧ names = [] :=
  prefixed_ok 16 256 2 (by omega) (by omega) (by decide) ['0', 'x'] rfl _ hex_digit text names h

theorem word_hex_ok (text : List Char) (names : List String) (h : Den G Gen.rule_word_hex text names) :
    (∃ v, fromRadix 16 65536 (text.drop 2) = some v) ∧ names = [] :=
  prefixed_ok 16 65536 4 (by omega) (by omega) (by decide) ['0', 'x'] rfl _ hex_digit text names h

theorem constant_dec_ok (text : List Char) (names : List String) (h : Den G Gen.rule_constant_dec text names) :
    (∃ v, fromRadix 10 256 text = some v) ∧ names = [] := by
  obtain ⟨E, hE, alts, ha, hb⟩ : ∃ E, Gen.rule_constant_dec = .choice (.seq (.star (.str ['0'])) E) (.plus (.str ['0'])) ∧
      ∃ alts, altsOf E = some alts ∧ altsBelow 256 alts = true := ⟨_, rfl, _, rfl, by decide⟩
  rw [hE] at h
  exact zeros_then_ok G 10 256 (by omega) (by omega) E (alts_ok G E alts 256 ha hb) text names h

theorem word_dec_ok (text : List Char) (names : List String) (h : Den G Gen.rule_word_dec text names) :
    (∃ v, fromRadix 10 65536 text = some v) ∧ names = [] := by
  obtain ⟨E, hE, alts, ha, hb⟩ : ∃ E, Gen.rule_word_dec = .choice (.seq (.star (.str ['0'])) E) (.plus (.str ['0'])) ∧
      ∃ alts, altsOf E = some alts ∧ altsBelow 65536 alts = true := ⟨_, rfl, _, rfl, by decide⟩
  rw [hE] at h
  exact zeros_then_ok G 10 65536 (by omega) (by omega) E (alts_ok G E alts 65536 ha hb) text names h

theorem ends_cb : ("constant_bin".endsWith "_bin") = true := by decide +kernel
theorem ends_ch1 : ("constant_hex".endsWith "_bin") = false := by decide +kernel
theorem ends_ch2 : ("constant_hex".endsWith "_hex") = true := by decide +kernel
theorem ends_cd1 : ("constant_dec".endsWith "_bin") = false := by decide +kernel
theorem ends_cd2 : ("constant_dec".endsWith "_hex") = false := by decide +kernel
theorem ends_cd3 : ("constant_dec".endsWith "_dec") = true := by decide +kernel
theorem ends_wb : ("word_bin".endsWith "_bin") = true := by decide +kernel
theorem ends_wh1 : ("word_hex".endsWith "_bin") = false := by decide +kernel
theorem ends_wh2 : ("word_hex".endsWith "_hex") = true := by decide +kernel
theorem ends_wd1 : ("word_dec".endsWith "_bin") = false := by decide +kernel
theorem ends_wd2 : ("word_dec".endsWith "_hex") = false := by decide +kernel
theorem ends_wd3 : ("word_dec".endsWith "_dec") = true := by decide +kernel

/-- A byte-sized number token is read without a panic. -/
theorem number_byte_ok (t : Tree) (hw : WF G X t)
    (hr : t.rule = "constant_bin" ∨ t.rule = "constant_hex" ∨ t.rule = "constant_dec") : Ok (number t 256) := by
  rcases hr with hr | hr | hr
  · obtain ⟨hd, _⟩ := wf_inv hw _ hr (by decide) _ Gen.find_constant_bin
    obtain ⟨⟨v, hv⟩, _⟩ := constant_bin_ok _ _ hd
    exact ⟨v, by simp [number, hr, hv, unwrapNum, ends_cb]⟩
  · obtain ⟨hd, _⟩ := wf_inv hw _ hr (by decide) _ Gen.find_constant_hex
    obtain ⟨⟨v, hv⟩, _⟩ := constant_hex_ok _ _ hd
    exact ⟨v, by simp [number, hr, hv, unwrapNum, ends_ch1, ends_ch2]⟩
  · obtain ⟨hd, _⟩ := wf_inv hw _ hr (by decide) _ Gen.find_constant_dec
    obtain ⟨⟨v, hv⟩, _⟩ := constant_dec_ok _ _ hd
    exact ⟨v, by simp [number, hr, hv, unwrapNum, ends_cd1, ends_cd2, ends_cd3]⟩

/-- A word-sized number token is read without a panic. -/
theorem number_word_ok (t : Tree) (hw : WF G X t)
    (hr : t.rule = "word_bin" ∨ t.rule = "word_hex" ∨ t.rule = "word_dec") : Ok (number t 65536) := by
  rcases hr with hr | hr | hr
  · obtain ⟨hd, _⟩ := wf_inv hw _ hr (by decide) _ Gen.find_word_bin
    obtain ⟨⟨v, hv⟩, _⟩ := word_bin_ok _ _ hd
    exact ⟨v, by simp [number, hr, hv, unwrapNum, ends_wb]⟩
  · obtain ⟨hd, _⟩ := wf_inv hw _ hr (by decide) _ Gen.find_word_hex
    obtain ⟨⟨v, hv⟩, _⟩ := word_hex_ok _ _ hd
    exact ⟨v, by simp [number, hr, hv, unwrapNum, ends_wh1, ends_wh2]⟩
  · obtain ⟨hd, _⟩ := wf_inv hw _ hr (by decide) _ Gen.find_word_dec
    obtain ⟨⟨v, hv⟩, _⟩ := word_dec_ok _ _ hd
    exact ⟨v, by simp [number, hr, hv, unwrapNum, ends_wd1, ends_wd2, ends_wd3]⟩

end Emu2a.C03
