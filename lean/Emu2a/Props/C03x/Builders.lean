/-
C03, `build_total` (continued): the AST builders are total on well-formed token trees.
-/
import Emu2a.Props.C03x.BuildTotal
namespace Emu2a.C03
open Emu2a.Parse Emu2a.Peg Emu2a.Asm

/-! ### Inner tokens of a rule, computed from its body -/

/-- Names of the tokens a *deterministic* expression (no choice, option or repetition) produces. -/
def namesOf (g : Grammar) : Expr → Option (List String)
  | .str _ => some []
  | .istr _ => some []
  | .range _ _ => some []
  | .notP _ => some []
  | .builtin b => if b = .eoi then some ["EOI"] else some []
  | .seq a b => match namesOf g a, namesOf g b with
    | some x, some y => some (x ++ y)
    | _, _ => none
  | .rule n => match g.find n with
    | some rd => if rd.silent then none else some [n]
    | none => none
  | _ => none

/-- All token-name sequences an expression without repetition can produce. -/
def choicesOf (g : Grammar) : Expr → Option (List (List String))
  | .choice a b => match choicesOf g a, choicesOf g b with
    | some x, some y => some (x ++ y)
    | _, _ => none
  | .opt a => (choicesOf g a).map fun x => [] :: x
  | .seq a b => match choicesOf g a, choicesOf g b with
    | some x, some y => some (x.flatMap fun p => y.map fun q => p ++ q)
    | _, _ => none
  | .str _ => some [[]]
  | .istr _ => some [[]]
  | .range _ _ => some [[]]
  | .notP _ => some [[]]
  | .builtin b => if b = .eoi then some [["EOI"]] else some [[]]
  | .rule n => match g.find n with
    | some rd => if rd.silent then none else some [[n]]
    | none => none
  | _ => none

theorem choicesOf_sound (g : Grammar) : ∀ (e : Expr) (L : List (List String)) (c : List Char) (n : List String),
    choicesOf g e = some L → Den g e c n → n ∈ L := by
  intro e
  induction e with
  | str s => intro L c n h hd; simp only [choicesOf, Option.some.injEq] at h; subst h; simp only [Den] at hd; simp [hd.2]
  | istr s => intro L c n h hd; simp only [choicesOf, Option.some.injEq] at h; subst h; simp only [Den] at hd; simp [hd.2]
  | range lo hi => intro L c n h hd; simp only [choicesOf, Option.some.injEq] at h; subst h; simp only [Den] at hd; simp [hd.2]
  | notP a _ => intro L c n h hd; simp only [choicesOf, Option.some.injEq] at h; subst h; simp only [Den] at hd; simp [hd.2]
  | builtin b =>
    intro L c n h hd
    cases b <;> simp [choicesOf] at h <;> subst h <;> simp only [Den, DenB] at hd <;> simp [hd.2]
  | seq a b iha ihb =>
    intro L c n h hd
    simp only [choicesOf] at h
    split at h
    · rename_i x y hx hy
      simp only [Option.some.injEq] at h
      subst h
      simp only [Den] at hd
      obtain ⟨c1, n1, c2, n2, h1, h2, _, rfl⟩ := hd
      simp only [List.mem_flatMap, List.mem_map]
      exact ⟨n1, iha x c1 n1 hx h1, n2, ihb y c2 n2 hy h2, rfl⟩
    · cases h
  | choice a b iha ihb =>
    intro L c n h hd
    simp only [choicesOf] at h
    split at h
    · rename_i x y hx hy
      simp only [Option.some.injEq] at h
      subst h
      simp only [Den] at hd
      rw [List.mem_append]
      rcases hd with hd | hd
      · exact Or.inl (iha x c n hx hd)
      · exact Or.inr (ihb y c n hy hd)
    · cases h
  | opt a iha =>
    intro L c n h hd
    simp only [choicesOf, Option.map_eq_some_iff] at h
    obtain ⟨x, hx, rfl⟩ := h
    simp only [Den] at hd
    rcases hd with hd | hd
    · simp [hd.2]
    · exact List.mem_cons_of_mem _ (iha x c n hx hd)
  | rule name =>
    intro L c n h hd
    simp only [choicesOf] at h
    split at h
    · rename_i rd hf
      split at h
      · cases h
      · rename_i hs
        simp only [Option.some.injEq] at h
        subst h
        simp only [Den, hf] at hd
        simp_all
    · cases h
  | star a _ => intro L c n h; simp [choicesOf] at h
  | plus a _ => intro L c n h; simp [choicesOf] at h
  | rep a mn mx _ => intro L c n h; simp [choicesOf] at h

/-- The inner tokens of a well-formed tree of rule `name` form one of the sequences its body allows. -/
theorem wf_names {t : Tree} (hw : WF G X t) (name : String) (hn : t.rule = name) (hne : name ≠ "EOI") (rd : RuleDef)
    (hf : G.find name = some rd) (L : List (List String)) (hL : choicesOf G rd.body = some L) :
    t.children.map Tree.rule ∈ L ∧ ∀ k, k ∈ t.children → WF G X k := by
  obtain ⟨hd, hk, _⟩ := wf_inv hw name hn hne rd hf
  exact ⟨choicesOf_sound G _ L _ _ hL hd, hk⟩

/-! ### Leaf builders -/

theorem char_range4 (d : Char) (h1 : '0' ≤ d) (h2 : d ≤ '3') : d = '0' ∨ d = '1' ∨ d = '2' ∨ d = '3' := by
  have a : 48 ≤ d.toNat := h1
  have b : d.toNat ≤ 51 := h2
  have : d.toNat = 48 ∨ d.toNat = 49 ∨ d.toNat = 50 ∨ d.toNat = 51 := by omega
  rcases this with h | h | h | h
  · left; rw [← Char.ofNat_toNat d, h]
  · right; left; rw [← Char.ofNat_toNat d, h]
  · right; right; left; rw [← Char.ofNat_toNat d, h]
  · right; right; right; rw [← Char.ofNat_toNat d, h]

theorem parseRegister_ok (t : Tree) (hw : WF G X t) (hr : t.rule = "register") : Ok (parseRegister t) := by
  obtain ⟨hd, _⟩ := wf_inv hw _ hr (by decide) _ Gen.find_register
  have e : Gen.rule_register = .choice (.seq (.istr ['R']) (.range '0' '3')) (.str ['P', 'C']) := rfl
  simp only [e, Den] at hd
  rcases hd with ⟨c1, n1, c2, n2, ⟨h1, _⟩, ⟨⟨ch, rfl, l1, l2⟩, _⟩, ht, _⟩ | ⟨h3, _⟩
  · unfold parseRegister Ok
    rw [ht]
    simp only [lowerS, List.map_append, h1]
    rcases char_range4 ch l1 l2 with rfl | rfl | rfl | rfl <;> exact ⟨_, rfl⟩
  · unfold parseRegister Ok
    rw [h3]
    exact ⟨_, rfl⟩

theorem mem1 {a l : List String} (h : a ∈ [l]) : a = l := by simpa using h

/-- `.ok v >>= f` steps. -/
macro "mok" : tactic =>
  `(tactic| simp_all [Ok, bind, Except.bind, pure, Except.pure, Functor.map, Except.map])

theorem parseConstant_ok (t : Tree) (hw : WF G X t) (hr : t.rule = "constant") : Ok (parseConstant t) := by
  obtain ⟨hn, hk⟩ := wf_names hw _ hr (by decide) _ Gen.find_constant
    [["constant_bin"], ["constant_hex"], ["constant_dec"], ["raw_label"]] rfl
  simp only [List.mem_cons, List.mem_nil_iff, or_false] at hn
  have hcases : ∃ k, t.children = [k] ∧ (k.rule = "constant_bin" ∨ k.rule = "constant_hex" ∨ k.rule = "constant_dec" ∨ k.rule = "raw_label") := by
    rcases hn with h | h | h | h <;> obtain ⟨k, hc, hkr⟩ := kids1 h <;> exact ⟨k, hc, by simp [hkr]⟩
  obtain ⟨k, hc, hkr⟩ := hcases
  have hkid : kid t 0 ["constant_bin", "constant_hex", "constant_dec", "raw_label"] = .ok k :=
    kid_ok t 0 _ k (by simp [hc]) (by rcases hkr with h | h | h | h <;> simp [h])
  have hwk : WF G X k := hk k (by simp [hc])
  by_cases hl : k.rule = "raw_label"
  · unfold parseConstant; mok
  · have hnum : k.rule = "constant_bin" ∨ k.rule = "constant_hex" ∨ k.rule = "constant_dec" := by
      rcases hkr with h | h | h | h
      · exact Or.inl h
      · exact Or.inr (Or.inl h)
      · exact Or.inr (Or.inr h)
      · exact absurd h hl
    obtain ⟨v, hv⟩ := number_byte_ok k hwk hnum
    unfold parseConstant; mok

theorem parseConstantBhd_ok (t : Tree) (hw : WF G X t) (hr : t.rule = "constant_bhd") : Ok (parseConstantBhd t) := by
  obtain ⟨hn, hk⟩ := wf_names hw _ hr (by decide) _ Gen.find_constant_bhd
    [["constant_bin"], ["constant_hex"], ["constant_dec"]] rfl
  simp only [List.mem_cons, List.mem_nil_iff, or_false] at hn
  have hcases : ∃ k, t.children = [k] ∧ (k.rule = "constant_bin" ∨ k.rule = "constant_hex" ∨ k.rule = "constant_dec") := by
    rcases hn with h | h | h <;> obtain ⟨k, hc, hkr⟩ := kids1 h <;> exact ⟨k, hc, by simp [hkr]⟩
  obtain ⟨k, hc, hkr⟩ := hcases
  have hkid : kid t 0 ["constant_bin", "constant_hex", "constant_dec"] = .ok k :=
    kid_ok t 0 _ k (by simp [hc]) (by rcases hkr with h | h | h <;> simp [h])
  obtain ⟨v, hv⟩ := number_byte_ok k (hk k (by simp [hc])) hkr
  unfold parseConstantBhd; mok

theorem parseWordBhd_ok (t : Tree) (hw : WF G X t) (hr : t.rule = "word_bhd") : Ok (parseWordBhd t) := by
  obtain ⟨hn, hk⟩ := wf_names hw _ hr (by decide) _ Gen.find_word_bhd
    [["word_bin"], ["word_hex"], ["word_dec"]] rfl
  simp only [List.mem_cons, List.mem_nil_iff, or_false] at hn
  have hcases : ∃ k, t.children = [k] ∧ (k.rule = "word_bin" ∨ k.rule = "word_hex" ∨ k.rule = "word_dec") := by
    rcases hn with h | h | h <;> obtain ⟨k, hc, hkr⟩ := kids1 h <;> exact ⟨k, hc, by simp [hkr]⟩
  obtain ⟨k, hc, hkr⟩ := hcases
  have hkid : kid t 0 ["word_bin", "word_hex", "word_dec"] = .ok k :=
    kid_ok t 0 _ k (by simp [hc]) (by rcases hkr with h | h | h <;> simp [h])
  obtain ⟨v, hv⟩ := number_word_ok k (hk k (by simp [hc])) hkr
  unfold parseWordBhd; mok

theorem parseRegisterDi_ok (t : Tree) (hw : WF G X t) (hr : t.rule = "registerdi") : Ok (parseRegisterDi t) := by
  obtain ⟨hn, hk⟩ := wf_names hw _ hr (by decide) _ Gen.find_registerdi
    [["oparen", "register", "plus", "cparen"]] rfl
  obtain ⟨k0, k1, k2, k3, hc, h0, h1, h2, h3⟩ := kids4 (mem1 hn)
  have e0 : kid t 0 ["oparen"] = .ok k0 := kid_ok t 0 _ k0 (by simp [hc]) (by simp [h0])
  have e1 : kid t 1 ["register"] = .ok k1 := kid_ok t 1 _ k1 (by simp [hc]) (by simp [h1])
  have e2 : kid t 2 ["plus"] = .ok k2 := kid_ok t 2 _ k2 (by simp [hc]) (by simp [h2])
  have e3 : kid t 3 ["cparen"] = .ok k3 := kid_ok t 3 _ k3 (by simp [hc]) (by simp [h3])
  obtain ⟨v, hv⟩ := parseRegister_ok k1 (hk k1 (by simp [hc])) h1
  unfold parseRegisterDi; mok

theorem parseRegisterDdi_ok (t : Tree) (hw : WF G X t) (hr : t.rule = "registerddi") : Ok (parseRegisterDdi t) := by
  obtain ⟨hn, hk⟩ := wf_names hw _ hr (by decide) _ Gen.find_registerddi
    [["oparen", "registerdi", "cparen"]] rfl
  obtain ⟨k0, k1, k2, hc, h0, h1, h2⟩ := kids3 (mem1 hn)
  have e0 : kid t 0 ["oparen"] = .ok k0 := kid_ok t 0 _ k0 (by simp [hc]) (by simp [h0])
  have e1 : kid t 1 ["registerdi"] = .ok k1 := kid_ok t 1 _ k1 (by simp [hc]) (by simp [h1])
  have e2 : kid t 2 ["cparen"] = .ok k2 := kid_ok t 2 _ k2 (by simp [hc]) (by simp [h2])
  obtain ⟨v, hv⟩ := parseRegisterDi_ok k1 (hk k1 (by simp [hc])) h1
  unfold parseRegisterDdi; mok

/-! ### The dead alternative of `memory` -/

theorem X_holds : ∀ (name : String) (rd : RuleDef) (fuel : Nat) (s : Bool) (inp : List Char) (ts : List Tree)
    (r : List Char), G.find name = some rd → run G fuel rd.body s inp = .ok ts r → X name (ts.map Tree.rule) := by
  intro name rd fuel s inp ts r hf hrun hname
  subst hname
  rw [Gen.find_memory] at hf
  injection hf with hf
  subst hf
  have e : Gen.rule_memory = .seq (.rule "oparen")
      (.seq (.choice (.rule "constant") (.choice (.rule "register") (.rule "raw_label"))) (.rule "cparen")) := rfl
  simp only [e] at hrun
  obtain ⟨f1, rfl⟩ := ok_pos hrun
  obtain ⟨ta, r1, tb, ha, hb, rfl⟩ := seq_ok hrun
  obtain ⟨f2, rfl⟩ := ok_pos hb
  obtain ⟨tc, r3, td, hc, hd, rfl⟩ := seq_ok hb
  have na := rule_ok_names Gen.find_oparen rfl ha
  have nd := rule_ok_names Gen.find_cparen rfl hd
  intro hcontra
  simp only [List.map_append, na, nd] at hcontra
  have hcn : tc.map Tree.rule = ["raw_label"] := by
    cases hm : tc.map Tree.rule with
    | nil => simp [hm] at hcontra
    | cons x xs =>
      simp only [hm, List.cons_append, List.nil_append, List.cons.injEq, true_and] at hcontra
      cases xs with
      | nil => simp_all
      | cons y ys => simp at hcontra
  obtain ⟨f3, rfl⟩ := ok_pos hc
  rcases choice_ok hc with h1 | ⟨h1f, h2⟩
  · have := rule_ok_names Gen.find_constant rfl h1
    rw [this] at hcn; simp at hcn
  · obtain ⟨f4, rfl⟩ := ok_pos h2
    rcases choice_ok h2 with h3 | ⟨_, h4⟩
    · have := rule_ok_names Gen.find_register rfl h3
      rw [this] at hcn; simp at hcn
    · -- `raw_label` matched here although `constant` (whose last alternative it is) failed
      have b1 := rule_fail Gen.find_constant h1f
      have eb : Gen.rule_constant = .choice (.rule "constant_bin") (.choice (.rule "constant_hex")
          (.choice (.rule "constant_dec") (.rule "raw_label"))) := rfl
      simp only [eb] at b1
      obtain ⟨f5, rfl⟩ := fail_pos b1
      obtain ⟨_, b2⟩ := choice_fail b1
      obtain ⟨f6, rfl⟩ := fail_pos b2
      obtain ⟨_, b3⟩ := choice_fail b2
      obtain ⟨f7, rfl⟩ := fail_pos b3
      obtain ⟨_, b4⟩ := choice_fail b3
      have := run_agree G (.rule "raw_label") _ r1 f7 (f7 + 1 + 1 + 1) (by rw [b4]; simp) (by rw [h4]; simp)
      rw [b4, h4] at this
      cases this

/-- Every tree the interpreter returns for the mrasm grammar is well-formed (with the extra fact). -/
theorem run_wf (fuel : Nat) (e : Expr) (s : Bool) (inp : List Char) (ts : List Tree) (r : List Char)
    (h : run G fuel e s inp = .ok ts r) :
    (∃ c, inp = c ++ r ∧ Den G e c (ts.map Tree.rule)) ∧ ∀ t, t ∈ ts → WF G X t := by
  obtain ⟨c, h1, h2, h3⟩ := run_sound G X X_holds fuel e s inp ts r h
  exact ⟨⟨c, h1, h2⟩, h3⟩


/-! ### Operand builders -/

theorem parseMemory_ok (t : Tree) (hw : WF G X t) (hr : t.rule = "memory") : Ok (parseMemory t) := by
  obtain ⟨_, _, hx⟩ := wf_inv hw _ hr (by decide) _ Gen.find_memory
  obtain ⟨hn, hk⟩ := wf_names hw _ hr (by decide) _ Gen.find_memory
    [["oparen", "constant", "cparen"], ["oparen", "register", "cparen"], ["oparen", "raw_label", "cparen"]] rfl
  simp only [List.mem_cons, List.mem_nil_iff, or_false] at hn
  rcases hn with h | h | h
  · obtain ⟨k0, k1, k2, hc, h0, h1, h2⟩ := kids3 h
    have e0 : kid t 0 ["oparen"] = .ok k0 := kid_ok t 0 _ k0 (by simp [hc]) (by simp [h0])
    have e1 : kid t 1 ["register", "registerdi", "registerddi", "memory", "constant"] = .ok k1 :=
      kid_ok t 1 _ k1 (by simp [hc]) (by simp [h1])
    have e2 : kid t 2 ["cparen"] = .ok k2 := kid_ok t 2 _ k2 (by simp [hc]) (by simp [h2])
    obtain ⟨v, hv⟩ := parseConstant_ok k1 (hk k1 (by simp [hc])) h1
    unfold parseMemory; mok
  · obtain ⟨k0, k1, k2, hc, h0, h1, h2⟩ := kids3 h
    have e0 : kid t 0 ["oparen"] = .ok k0 := kid_ok t 0 _ k0 (by simp [hc]) (by simp [h0])
    have e1 : kid t 1 ["register", "registerdi", "registerddi", "memory", "constant"] = .ok k1 :=
      kid_ok t 1 _ k1 (by simp [hc]) (by simp [h1])
    have e2 : kid t 2 ["cparen"] = .ok k2 := kid_ok t 2 _ k2 (by simp [hc]) (by simp [h2])
    obtain ⟨v, hv⟩ := parseRegister_ok k1 (hk k1 (by simp [hc])) h1
    unfold parseMemory; mok
  · exact absurd h (hx rfl)

theorem parseSource_ok (t : Tree) (hw : WF G X t) (hr : t.rule = "source") : Ok (parseSource t) := by
  obtain ⟨hn, hk⟩ := wf_names hw _ hr (by decide) _ Gen.find_source
    [["register"], ["registerdi"], ["registerddi"], ["memory"], ["constant"]] rfl
  simp only [List.mem_cons, List.mem_nil_iff, or_false] at hn
  rcases hn with h | h | h | h | h <;> obtain ⟨k, hc, hkr⟩ := kids1 h <;>
    have hwk : WF G X k := hk k (by simp [hc])
  · obtain ⟨v, hv⟩ := parseRegister_ok k hwk hkr
    unfold parseSource firstKid; mok
  · obtain ⟨v, hv⟩ := parseRegisterDi_ok k hwk hkr
    unfold parseSource firstKid; mok
  · obtain ⟨v, hv⟩ := parseRegisterDdi_ok k hwk hkr
    unfold parseSource firstKid; mok
  · obtain ⟨v, hv⟩ := parseMemory_ok k hwk hkr
    unfold parseSource firstKid; mok
  · obtain ⟨v, hv⟩ := parseConstant_ok k hwk hkr
    unfold parseSource firstKid; mok

theorem parseDestination_ok (t : Tree) (hw : WF G X t) (hr : t.rule = "destination") : Ok (parseDestination t) := by
  obtain ⟨hn, hk⟩ := wf_names hw _ hr (by decide) _ Gen.find_destination
    [["register"], ["registerdi"], ["registerddi"], ["memory"]] rfl
  simp only [List.mem_cons, List.mem_nil_iff, or_false] at hn
  rcases hn with h | h | h | h <;> obtain ⟨k, hc, hkr⟩ := kids1 h <;>
    have hwk : WF G X k := hk k (by simp [hc])
  · obtain ⟨v, hv⟩ := parseRegister_ok k hwk hkr
    unfold parseDestination firstKid; mok
  · obtain ⟨v, hv⟩ := parseRegisterDi_ok k hwk hkr
    unfold parseDestination firstKid; mok
  · obtain ⟨v, hv⟩ := parseRegisterDdi_ok k hwk hkr
    unfold parseDestination firstKid; mok
  · obtain ⟨v, hv⟩ := parseMemory_ok k hwk hkr
    unfold parseDestination firstKid; mok

/-! ### Instruction families (what the inner tokens of the instruction's rule must be) -/

theorem one_ok (i : Tree) (f : Reg → Instr) (hn : i.children.map Tree.rule = ["sep_ip", "register"])
    (hk : ∀ k, k ∈ i.children → WF G X k) : Ok (one i f) := by
  obtain ⟨k0, k1, hc, h0, h1⟩ := kids2 hn
  have e0 : kid i 0 ["sep_ip"] = .ok k0 := kid_ok i 0 _ k0 (by simp [hc]) (by simp [h0])
  have e1 : kid i 1 ["register"] = .ok k1 := kid_ok i 1 _ k1 (by simp [hc]) (by simp [h1])
  obtain ⟨v, hv⟩ := parseRegister_ok k1 (hk k1 (by simp [hc])) h1
  unfold one; mok

theorem two_ok (i : Tree) (f : Reg → Reg → Instr)
    (hn : i.children.map Tree.rule = ["sep_ip", "register", "sep_pp", "register"])
    (hk : ∀ k, k ∈ i.children → WF G X k) : Ok (two i f) := by
  obtain ⟨k0, k1, k2, k3, hc, h0, h1, h2, h3⟩ := kids4 hn
  have e0 : kid i 0 ["sep_ip"] = .ok k0 := kid_ok i 0 _ k0 (by simp [hc]) (by simp [h0])
  have e1 : kid i 1 ["register"] = .ok k1 := kid_ok i 1 _ k1 (by simp [hc]) (by simp [h1])
  have e2 : kid i 2 ["sep_pp"] = .ok k2 := kid_ok i 2 _ k2 (by simp [hc]) (by simp [h2])
  have e3 : kid i 3 ["register"] = .ok k3 := kid_ok i 3 _ k3 (by simp [hc]) (by simp [h3])
  obtain ⟨v1, hv1⟩ := parseRegister_ok k1 (hk k1 (by simp [hc])) h1
  obtain ⟨v3, hv3⟩ := parseRegister_ok k3 (hk k3 (by simp [hc])) h3
  unfold two; mok

theorem dstSrc_ok (i : Tree) (f : Dst → Src → Instr)
    (hn : i.children.map Tree.rule = ["sep_ip", "destination", "sep_pp", "source"])
    (hk : ∀ k, k ∈ i.children → WF G X k) : Ok (dstSrc i f) := by
  obtain ⟨k0, k1, k2, k3, hc, h0, h1, h2, h3⟩ := kids4 hn
  have e0 : kid i 0 ["sep_ip"] = .ok k0 := kid_ok i 0 _ k0 (by simp [hc]) (by simp [h0])
  have e1 : kid i 1 ["destination"] = .ok k1 := kid_ok i 1 _ k1 (by simp [hc]) (by simp [h1])
  have e2 : kid i 2 ["sep_pp"] = .ok k2 := kid_ok i 2 _ k2 (by simp [hc]) (by simp [h2])
  have e3 : kid i 3 ["source"] = .ok k3 := kid_ok i 3 _ k3 (by simp [hc]) (by simp [h3])
  obtain ⟨v1, hv1⟩ := parseDestination_ok k1 (hk k1 (by simp [hc])) h1
  obtain ⟨v3, hv3⟩ := parseSource_ok k3 (hk k3 (by simp [hc])) h3
  unfold dstSrc; mok

theorem srcOnly_ok (i : Tree) (f : Src → Instr) (hn : i.children.map Tree.rule = ["sep_ip", "source"])
    (hk : ∀ k, k ∈ i.children → WF G X k) : Ok (srcOnly i f) := by
  obtain ⟨k0, k1, hc, h0, h1⟩ := kids2 hn
  have e0 : kid i 0 ["sep_ip"] = .ok k0 := kid_ok i 0 _ k0 (by simp [hc]) (by simp [h0])
  have e1 : kid i 1 ["source"] = .ok k1 := kid_ok i 1 _ k1 (by simp [hc]) (by simp [h1])
  obtain ⟨v, hv⟩ := parseSource_ok k1 (hk k1 (by simp [hc])) h1
  unfold srcOnly; mok

theorem labOnly_ok (i : Tree) (f : String → Instr) (hn : i.children.map Tree.rule = ["sep_ip", "raw_label"])
    (_hk : ∀ k, k ∈ i.children → WF G X k) : Ok (labOnly i f) := by
  obtain ⟨k0, k1, hc, h0, h1⟩ := kids2 hn
  have e0 : kid i 0 ["sep_ip"] = .ok k0 := kid_ok i 0 _ k0 (by simp [hc]) (by simp [h0])
  have e1 : kid i 1 ["raw_label"] = .ok k1 := kid_ok i 1 _ k1 (by simp [hc]) (by simp [h1])
  unfold labOnly; mok

/-! ### Sizes -/

theorem parseStacksize_ok (t : Tree) (hw : WF G X t) (hr : t.rule = "raw_stacksize") : Ok (parseStacksize t) := by
  obtain ⟨hd, _⟩ := wf_inv hw _ hr (by decide) _ Gen.find_raw_stacksize
  have e : Gen.rule_raw_stacksize = .choice (.str ['0']) (.choice (.str ['1', '6']) (.choice (.str ['3', '2'])
      (.choice (.str ['4', '8']) (.choice (.str ['6', '4']) (.istr ['N', 'O', 'S', 'E', 'T']))))) := rfl
  simp only [e, Den] at hd
  unfold parseStacksize Ok
  rcases hd with ⟨h, _⟩ | ⟨h, _⟩ | ⟨h, _⟩ | ⟨h, _⟩ | ⟨h, _⟩ | ⟨h, _⟩
  · rw [h]; exact ⟨_, rfl⟩
  · rw [h]; exact ⟨_, rfl⟩
  · rw [h]; exact ⟨_, rfl⟩
  · rw [h]; exact ⟨_, rfl⟩
  · rw [h]; exact ⟨_, rfl⟩
  · simp only [lowerS, h]; exact ⟨_, rfl⟩

theorem parseProgramsize_ok (t : Tree) (hw : WF G X t) (hr : t.rule = "raw_programsize") : Ok (parseProgramsize t) := by
  obtain ⟨hd, hk, _⟩ := wf_inv hw _ hr (by decide) _ Gen.find_raw_programsize
  have e : Gen.rule_raw_programsize = .choice (.rule "constant_dec") (.choice (.istr ['A', 'U', 'T', 'O'])
      (.istr ['N', 'O', 'S', 'E', 'T'])) := rfl
  simp only [e, Den, Gen.find_constant_dec] at hd
  unfold parseProgramsize
  rcases hd with h | ⟨h, _⟩ | ⟨h, _⟩
  · -- a decimal constant: whatever its text is, the fall-through arm reads it
    simp only [Bool.false_eq_true, ↓reduceIte] at h
    obtain ⟨k, hc, hkr⟩ := kids1 h
    have e0 : kid t 0 ["constant_dec"] = .ok k := kid_ok t 0 _ k (by simp [hc]) (by simp [hkr])
    obtain ⟨v, hv⟩ := number_byte_ok k (hk k (by simp [hc])) (Or.inr (Or.inr hkr))
    split <;> mok
  · simp only [lowerS, h]; exact ⟨_, rfl⟩
  · simp only [lowerS, h]; exact ⟨_, rfl⟩

theorem mapM_ok {α β : Type} (f : α → M β) : ∀ (l : List α), (∀ x, x ∈ l → Ok (f x)) → Ok (l.mapM f) := by
  intro l
  induction l with
  | nil => intro _; exact ⟨[], rfl⟩
  | cons x xs ih =>
    intro h
    obtain ⟨v, hv⟩ := h x (by simp)
    obtain ⟨vs, hvs⟩ := ih (fun y hy => h y (by simp [hy]))
    exact ⟨v :: vs, by simp [List.mapM_cons, hv, hvs, bind, Except.bind, pure, Except.pure]⟩


/-! ### Instructions with their own builder code -/

theorem firstKid_one (t i : Tree) (hc : t.children = [i]) (site : String) : firstKid t site = .ok i := by
  simp [firstKid, hc]

theorem num_arg (i : Tree) (hw : WF G X i) (name : String) (hr : i.rule = name) (hne : name ≠ "EOI") (rd : RuleDef)
    (hf : G.find name = some rd)
    (hL : choicesOf G rd.body = some [["sep_ip", "constant_bin"], ["sep_ip", "constant_hex"], ["sep_ip", "constant_dec"]]) :
    ∃ k0 k1 v, kid i 0 ["sep_ip"] = .ok k0 ∧ kid i 1 ["constant_bin", "constant_hex", "constant_dec"] = .ok k1 ∧
      number k1 256 = .ok v := by
  obtain ⟨hn, hk⟩ := wf_names hw _ hr hne _ hf _ hL
  simp only [List.mem_cons, List.mem_nil_iff, or_false] at hn
  have hcases : ∃ k0 k1, i.children = [k0, k1] ∧ k0.rule = "sep_ip" ∧
      (k1.rule = "constant_bin" ∨ k1.rule = "constant_hex" ∨ k1.rule = "constant_dec") := by
    rcases hn with h | h | h <;> obtain ⟨k0, k1, hc, h0, h1⟩ := kids2 h <;> exact ⟨k0, k1, hc, h0, by simp [h1]⟩
  obtain ⟨k0, k1, hci, h0, h1⟩ := hcases
  obtain ⟨v, hv⟩ := number_byte_ok k1 (hk k1 (by simp [hci])) h1
  exact ⟨k0, k1, v, kid_ok i 0 _ k0 (by simp [hci]) (by simp [h0]),
    kid_ok i 1 _ k1 (by simp [hci]) (by rcases h1 with h | h | h <;> simp [h]), hv⟩

theorem instr_org (t i : Tree) (hc : t.children = [i]) (hw : WF G X i) (hr : i.rule = "org") : Ok (parseInstruction t) := by
  obtain ⟨k0, k1, v, e0, e1, hv⟩ := num_arg i hw _ hr (by decide) _ Gen.find_org rfl
  unfold parseInstruction
  simp only [firstKid_one t i hc, bind, Except.bind, hr]
  mok

theorem instr_byte (t i : Tree) (hc : t.children = [i]) (hw : WF G X i) (hr : i.rule = "byte") : Ok (parseInstruction t) := by
  obtain ⟨k0, k1, v, e0, e1, hv⟩ := num_arg i hw _ hr (by decide) _ Gen.find_byte rfl
  unfold parseInstruction
  simp only [firstKid_one t i hc, bind, Except.bind, hr]
  mok

theorem instr_db (t i : Tree) (hc : t.children = [i]) (hw : WF G X i) (hr : i.rule = "db") : Ok (parseInstruction t) := by
  obtain ⟨_, hk, _⟩ := wf_inv hw _ hr (by decide) _ Gen.find_db
  have hm : Ok ((i.children.filter fun k => k.rule == "constant_bhd").mapM parseConstantBhd) := by
    apply mapM_ok
    intro x hx
    simp only [List.mem_filter, beq_iff_eq] at hx
    exact parseConstantBhd_ok x (hk x hx.1) hx.2
  obtain ⟨v, hv⟩ := hm
  unfold parseInstruction
  simp only [firstKid_one t i hc, bind, Except.bind, hr]
  mok

theorem instr_dw (t i : Tree) (hc : t.children = [i]) (hw : WF G X i) (hr : i.rule = "dw") : Ok (parseInstruction t) := by
  obtain ⟨_, hk, _⟩ := wf_inv hw _ hr (by decide) _ Gen.find_dw
  have hm : Ok ((i.children.filter fun k => k.rule == "word_bhd").mapM parseWordBhd) := by
    apply mapM_ok
    intro x hx
    simp only [List.mem_filter, beq_iff_eq] at hx
    exact parseWordBhd_ok x (hk x hx.1) hx.2
  obtain ⟨v, hv⟩ := hm
  unfold parseInstruction
  simp only [firstKid_one t i hc, bind, Except.bind, hr]
  mok

theorem instr_equ (t i : Tree) (hc : t.children = [i]) (hw : WF G X i) (hr : i.rule = "equ") : Ok (parseInstruction t) := by
  obtain ⟨hn, hk⟩ := wf_names hw _ hr (by decide) _ Gen.find_equ [["sep_ip", "raw_label", "sep_ip", "constant_dec"]] rfl
  obtain ⟨k0, k1, k2, k3, hci, h0, h1, h2, h3⟩ := kids4 (mem1 hn)
  have e0 : kid i 0 ["sep_ip"] = .ok k0 := kid_ok i 0 _ k0 (by simp [hci]) (by simp [h0])
  have e1 : kid i 1 ["raw_label"] = .ok k1 := kid_ok i 1 _ k1 (by simp [hci]) (by simp [h1])
  have e2 : kid i 2 ["sep_ip"] = .ok k2 := kid_ok i 2 _ k2 (by simp [hci]) (by simp [h2])
  have e3 : kid i 3 ["constant_dec"] = .ok k3 := kid_ok i 3 _ k3 (by simp [hci]) (by simp [h3])
  obtain ⟨v, hv⟩ := number_byte_ok k3 (hk k3 (by simp [hci])) (Or.inr (Or.inr h3))
  unfold parseInstruction
  simp only [firstKid_one t i hc, bind, Except.bind, hr]
  mok

theorem instr_stacksize (t i : Tree) (hc : t.children = [i]) (hw : WF G X i) (hr : i.rule = "stacksize") :
    Ok (parseInstruction t) := by
  obtain ⟨hn, hk⟩ := wf_names hw _ hr (by decide) _ Gen.find_stacksize [["sep_ip", "raw_stacksize"]] rfl
  obtain ⟨k0, k1, hci, h0, h1⟩ := kids2 (mem1 hn)
  have e0 : kid i 0 ["sep_ip"] = .ok k0 := kid_ok i 0 _ k0 (by simp [hci]) (by simp [h0])
  have e1 : kid i 1 ["raw_stacksize"] = .ok k1 := kid_ok i 1 _ k1 (by simp [hci]) (by simp [h1])
  obtain ⟨v, hv⟩ := parseStacksize_ok k1 (hk k1 (by simp [hci])) h1
  unfold parseInstruction
  simp only [firstKid_one t i hc, bind, Except.bind, hr]
  mok

theorem instr_programsize (t i : Tree) (hc : t.children = [i]) (hw : WF G X i) (hr : i.rule = "programsize") :
    Ok (parseInstruction t) := by
  obtain ⟨hn, hk⟩ := wf_names hw _ hr (by decide) _ Gen.find_programsize [["sep_ip", "raw_programsize"]] rfl
  obtain ⟨k0, k1, hci, h0, h1⟩ := kids2 (mem1 hn)
  have e0 : kid i 0 ["sep_ip"] = .ok k0 := kid_ok i 0 _ k0 (by simp [hci]) (by simp [h0])
  have e1 : kid i 1 ["raw_programsize"] = .ok k1 := kid_ok i 1 _ k1 (by simp [hci]) (by simp [h1])
  obtain ⟨v, hv⟩ := parseProgramsize_ok k1 (hk k1 (by simp [hci])) h1
  unfold parseInstruction
  simp only [firstKid_one t i hc, bind, Except.bind, hr]
  mok

theorem instr_ld_const (t i : Tree) (hc : t.children = [i]) (hw : WF G X i) (hr : i.rule = "ld_const") :
    Ok (parseInstruction t) := by
  obtain ⟨hn, hk⟩ := wf_names hw _ hr (by decide) _ Gen.find_ld_const [["sep_ip", "register", "sep_pp", "constant"]] rfl
  obtain ⟨k0, k1, k2, k3, hci, h0, h1, h2, h3⟩ := kids4 (mem1 hn)
  have e0 : kid i 0 ["sep_ip"] = .ok k0 := kid_ok i 0 _ k0 (by simp [hci]) (by simp [h0])
  have e1 : kid i 1 ["register"] = .ok k1 := kid_ok i 1 _ k1 (by simp [hci]) (by simp [h1])
  have e2 : kid i 2 ["sep_pp"] = .ok k2 := kid_ok i 2 _ k2 (by simp [hci]) (by simp [h2])
  have e3 : kid i 3 ["constant"] = .ok k3 := kid_ok i 3 _ k3 (by simp [hci]) (by simp [h3])
  obtain ⟨v1, hv1⟩ := parseRegister_ok k1 (hk k1 (by simp [hci])) h1
  obtain ⟨v3, hv3⟩ := parseConstant_ok k3 (hk k3 (by simp [hci])) h3
  unfold parseInstruction
  simp only [firstKid_one t i hc, bind, Except.bind, hr]
  mok

theorem instr_ld_memory (t i : Tree) (hc : t.children = [i]) (hw : WF G X i) (hr : i.rule = "ld_memory") :
    Ok (parseInstruction t) := by
  obtain ⟨hn, hk⟩ := wf_names hw _ hr (by decide) _ Gen.find_ld_memory [["sep_ip", "register", "sep_pp", "memory"]] rfl
  obtain ⟨k0, k1, k2, k3, hci, h0, h1, h2, h3⟩ := kids4 (mem1 hn)
  have e0 : kid i 0 ["sep_ip"] = .ok k0 := kid_ok i 0 _ k0 (by simp [hci]) (by simp [h0])
  have e1 : kid i 1 ["register"] = .ok k1 := kid_ok i 1 _ k1 (by simp [hci]) (by simp [h1])
  have e2 : kid i 2 ["sep_pp"] = .ok k2 := kid_ok i 2 _ k2 (by simp [hci]) (by simp [h2])
  have e3 : kid i 3 ["memory"] = .ok k3 := kid_ok i 3 _ k3 (by simp [hci]) (by simp [h3])
  obtain ⟨v1, hv1⟩ := parseRegister_ok k1 (hk k1 (by simp [hci])) h1
  obtain ⟨v3, hv3⟩ := parseMemory_ok k3 (hk k3 (by simp [hci])) h3
  unfold parseInstruction
  simp only [firstKid_one t i hc, bind, Except.bind, hr]
  mok

theorem instr_st (t i : Tree) (hc : t.children = [i]) (hw : WF G X i) (hr : i.rule = "st") : Ok (parseInstruction t) := by
  obtain ⟨hn, hk⟩ := wf_names hw _ hr (by decide) _ Gen.find_st [["sep_ip", "memory", "sep_pp", "register"]] rfl
  obtain ⟨k0, k1, k2, k3, hci, h0, h1, h2, h3⟩ := kids4 (mem1 hn)
  have e0 : kid i 0 ["sep_ip"] = .ok k0 := kid_ok i 0 _ k0 (by simp [hci]) (by simp [h0])
  have e1 : kid i 1 ["memory"] = .ok k1 := kid_ok i 1 _ k1 (by simp [hci]) (by simp [h1])
  have e2 : kid i 2 ["sep_pp"] = .ok k2 := kid_ok i 2 _ k2 (by simp [hci]) (by simp [h2])
  have e3 : kid i 3 ["register"] = .ok k3 := kid_ok i 3 _ k3 (by simp [hci]) (by simp [h3])
  obtain ⟨v1, hv1⟩ := parseMemory_ok k1 (hk k1 (by simp [hci])) h1
  obtain ⟨v3, hv3⟩ := parseRegister_ok k3 (hk k3 (by simp [hci])) h3
  unfold parseInstruction
  simp only [firstKid_one t i hc, bind, Except.bind, hr]
  mok


end Emu2a.C03
