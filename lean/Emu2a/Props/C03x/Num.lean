/-
C03, numbers: every text the six number rules of the (regenerated) grammar can match is read by
the AST builder without a panic — `from_str_radix(..).unwrap()` / `parse().unwrap()` never fail on
a token the parser produced — and the value is below the limit of its type.
-/
import Emu2a.Model.Build
import Emu2a.Lemmas.PegDen
import Emu2a.Gen.GrammarFind
namespace Emu2a.C03
open Emu2a.Parse Emu2a.Peg

/-- Digit value (0 for a non-digit). -/
def dv (c : Char) : Nat := (digitVal c).getD 0

/-- Horner evaluation from accumulator `a`. -/
def valFrom (base : Nat) (a : Nat) (cs : List Char) : Nat := cs.foldl (fun a c => a * base + dv c) a

def IsDigit (base : Nat) (c : Char) : Prop := ∃ d, digitVal c = some d ∧ d < base

theorem valFrom_append (base a : Nat) (xs ys : List Char) :
    valFrom base a (xs ++ ys) = valFrom base (valFrom base a xs) ys := by
  simp [valFrom, List.foldl_append]

theorem valFrom_ge (base : Nat) (hb : 1 ≤ base) : ∀ (cs : List Char) (a : Nat), a ≤ valFrom base a cs := by
  intro cs
  induction cs with
  | nil => intro a; simp [valFrom]
  | cons c cs ih =>
    intro a
    have := ih (a * base + dv c)
    simp only [valFrom, List.foldl_cons] at this ⊢
    have : a ≤ a * base := Nat.le_mul_of_pos_right a hb
    omega

theorem fold_ok (base limit : Nat) (hb : 1 ≤ base) : ∀ (cs : List Char) (a : Nat),
    (∀ c, c ∈ cs → IsDigit base c) → valFrom base a cs < limit →
    cs.foldl (fun acc c =>
      match acc, digitVal c with
      | some a, some d => if d < base ∧ a * base + d < limit then some (a * base + d) else none
      | _, _ => none) (some a) = some (valFrom base a cs) := by
  intro cs
  induction cs with
  | nil => intro a _ _; simp [valFrom]
  | cons c cs ih =>
    intro a hd hv
    obtain ⟨d, hdv, hdb⟩ := hd c (by simp)
    have hdvc : dv c = d := by simp [dv, hdv]
    have hv' : valFrom base (a * base + d) cs < limit := by
      simpa [valFrom, hdvc] using hv
    have hstep : a * base + d < limit := Nat.lt_of_le_of_lt (valFrom_ge base hb cs _) hv'
    simp only [List.foldl_cons, hdv, hdb, hstep, and_self, ↓reduceIte]
    rw [ih (a * base + d) (fun c' hc' => hd c' (by simp [hc'])) hv']
    simp [valFrom, hdvc]

/-- A non-empty string of digits of the base whose value is below the limit is read successfully. -/
theorem fromRadix_ok (base limit : Nat) (hb : 1 ≤ base) (cs : List Char) (hne : cs ≠ [])
    (hd : ∀ c, c ∈ cs → IsDigit base c) (hv : valFrom base 0 cs < limit) :
    fromRadix base limit cs = some (valFrom base 0 cs) := by
  unfold fromRadix
  have : cs.isEmpty = false := by cases cs <;> simp_all
  simp only [this, Bool.false_eq_true, ↓reduceIte]
  exact fold_ok base limit hb cs 0 hd hv

theorem valFrom_lt (base : Nat) (hb : 1 ≤ base) : ∀ (cs : List Char) (a : Nat), (∀ c, c ∈ cs → dv c < base) →
    valFrom base a cs < (a + 1) * base ^ cs.length := by
  intro cs
  induction cs with
  | nil => intro a _; simp [valFrom]
  | cons c cs ih =>
    intro a hd
    have h1 := ih (a * base + dv c) (fun c' hc' => hd c' (by simp [hc']))
    have hc : dv c + 1 ≤ base := hd c (by simp)
    simp only [valFrom, List.foldl_cons, List.length_cons] at h1 ⊢
    have : (a * base + dv c + 1) * base ^ cs.length ≤ ((a + 1) * base) * base ^ cs.length := by
      apply Nat.mul_le_mul_right
      have : (a + 1) * base = a * base + base := by rw [Nat.add_mul]; simp
      omega
    have e : (a + 1) * base ^ (cs.length + 1) = ((a + 1) * base) * base ^ cs.length := by
      rw [Nat.pow_succ, Nat.mul_assoc, Nat.mul_comm (base ^ cs.length) base]
    omega

theorem valFrom_zeros (base a : Nat) (zs : List Char) (hz : ∀ c, c ∈ zs → c = '0') (ha : a = 0) :
    valFrom base a zs = 0 := by
  subst ha
  induction zs with
  | nil => simp [valFrom]
  | cons c cs ih =>
    have hc : c = '0' := hz c (by simp)
    subst hc
    have : dv '0' = 0 := by decide
    simp only [valFrom, List.foldl_cons, this, Nat.zero_mul, Nat.add_zero]
    exact ih (fun c' hc' => hz c' (by simp [hc']))

theorem isDigit_zero (base : Nat) (hb : 1 ≤ base) : IsDigit base '0' := ⟨0, by decide, by omega⟩

/-! ### What the repetition predicates say about single-character repetitions -/

theorem StarP.imp {P Q : List Char → List String → Prop} (h : ∀ c n, P c n → Q c n) {c : List Char} {n : List String}
    (hs : StarP P c n) : StarP Q c n := by
  induction hs with
  | nil => exact .nil
  | cons c1 n1 c2 n2 hp _ ih => exact .cons c1 n1 c2 n2 (h _ _ hp) ih

theorem RepP.imp {P Q : List Char → List String → Prop} (h : ∀ c n, P c n → Q c n) {k : Nat} {c : List Char}
    {n : List String} (hs : RepP P k c n) : RepP Q k c n := by
  induction hs with
  | nil k => exact .nil k
  | cons k c1 n1 c2 n2 hp _ ih => exact .cons k c1 n1 c2 n2 (h _ _ hp) ih

theorem StarP_chars (Q : Char → Prop) (c : List Char) (n : List String)
    (h : StarP (fun c n => (∃ ch, c = [ch] ∧ Q ch) ∧ n = []) c n) : (∀ ch, ch ∈ c → Q ch) ∧ n = [] := by
  induction h with
  | nil => simp
  | cons c1 n1 c2 n2 hp _ ih =>
    obtain ⟨⟨ch, rfl, hq⟩, rfl⟩ := hp
    refine ⟨?_, by simp [ih.2]⟩
    intro x hx
    simp only [List.singleton_append, List.mem_cons] at hx
    rcases hx with rfl | hx
    · exact hq
    · exact ih.1 x hx

theorem RepP_chars (Q : Char → Prop) (k : Nat) (c : List Char) (n : List String)
    (h : RepP (fun c n => (∃ ch, c = [ch] ∧ Q ch) ∧ n = []) k c n) :
    c.length ≤ k ∧ (∀ ch, ch ∈ c → Q ch) ∧ n = [] := by
  induction h with
  | nil k => simp
  | cons k c1 n1 c2 n2 hp _ ih =>
    obtain ⟨⟨ch, rfl, hq⟩, rfl⟩ := hp
    refine ⟨by simp; omega, ?_, by simp [ih.2.2]⟩
    intro x hx
    simp only [List.singleton_append, List.mem_cons] at hx
    rcases hx with rfl | hx
    · exact hq
    · exact ih.2.1 x hx

theorem den_star (g : Grammar) (a : Expr) (c : List Char) (n : List String) :
    Den g (.star a) c n = StarP (Den g a) c n := by simp only [Den]
theorem den_str (g : Grammar) (s c : List Char) (n : List String) :
    Den g (.str s) c n = (c = s ∧ n = []) := by simp only [Den]
theorem den_plus (g : Grammar) (a : Expr) (c : List Char) (n : List String) :
    Den g (.plus a) c n = ∃ c1 n1 c2 n2, Den g a c1 n1 ∧ StarP (Den g a) c2 n2 ∧ c = c1 ++ c2 ∧ n = n1 ++ n2 := by
  simp only [Den]

theorem zero_imp (g : Grammar) : ∀ c n, Den g (.str ['0']) c n → (∃ ch, c = [ch] ∧ ch = '0') ∧ n = [] := by
  intro c n hp
  rw [den_str] at hp
  exact ⟨⟨'0', hp.1, rfl⟩, hp.2⟩

/-- `"0"*` matches zeros only and produces no token. -/
theorem star_zero (g : Grammar) (c : List Char) (n : List String) (h : Den g (.star (.str ['0'])) c n) :
    (∀ ch, ch ∈ c → ch = '0') ∧ n = [] := by
  rw [den_star] at h
  exact StarP_chars (· = '0') c n (StarP.imp (zero_imp g) h)

/-- `"0"+` matches at least one zero, zeros only, and produces no token. -/
theorem plus_zero (g : Grammar) (c : List Char) (n : List String) (h : Den g (.plus (.str ['0'])) c n) :
    c ≠ [] ∧ (∀ ch, ch ∈ c → ch = '0') ∧ n = [] := by
  rw [den_plus] at h
  obtain ⟨c1, n1, c2, n2, h1, hs, rfl, rfl⟩ := h
  rw [den_str] at h1
  obtain ⟨rfl, rfl⟩ := h1
  have := StarP_chars (· = '0') c2 n2 (StarP.imp (zero_imp g) hs)
  refine ⟨by simp, ?_, by simp [this.2]⟩
  intro ch hch
  simp only [List.singleton_append, List.mem_cons] at hch
  rcases hch with rfl | hch
  · rfl
  · exact this.1 ch hch

/-! ### Digits -/

theorem bin_isDigit (base : Nat) (hb : 2 ≤ base) (ch : Char) (h : ch = '0' ∨ ch = '1') : IsDigit base ch := by
  rcases h with rfl | rfl
  · exact ⟨0, by decide, by omega⟩
  · exact ⟨1, by decide, by omega⟩

theorem isDigit_dv (base : Nat) (c : Char) (h : IsDigit base c) : dv c < base := by
  obtain ⟨d, hd, hb⟩ := h
  simp [dv, hd, hb]

/-- Characters in a sub-range of '0'..'9' are decimal digits with value `code - 48`. -/
theorem range_digit (ch lo hi : Char) (h1 : lo ≤ ch) (h2 : ch ≤ hi) (hlo : '0' ≤ lo) (hhi : hi ≤ '9') :
    digitVal ch = some (ch.toNat - 48) ∧ lo.toNat ≤ ch.toNat ∧ ch.toNat ≤ hi.toNat ∧ 48 ≤ ch.toNat ∧ ch.toNat ≤ 57 := by
  have a1 : lo.toNat ≤ ch.toNat := h1
  have a2 : ch.toNat ≤ hi.toNat := h2
  have a3 : 48 ≤ lo.toNat := hlo
  have a4 : hi.toNat ≤ 57 := hhi
  have b1 : '0' ≤ ch := Nat.le_trans a3 a1
  have b2 : ch ≤ '9' := Nat.le_trans a2 a4
  refine ⟨?_, a1, a2, by omega, by omega⟩
  unfold digitVal
  simp [b1, b2]

theorem hex_isDigit (ch : Char) (h : isHex ch = true) : IsDigit 16 ch := by
  unfold isHex isDigit at h
  simp only [Bool.or_eq_true, Bool.and_eq_true, decide_eq_true_eq] at h
  unfold IsDigit digitVal
  rcases h with (⟨h1, h2⟩ | ⟨h1, h2⟩) | ⟨h1, h2⟩
  · have a1 : 48 ≤ ch.toNat := h1
    have a2 : ch.toNat ≤ 57 := h2
    exact ⟨ch.toNat - 48, by simp [h1, h2], by omega⟩
  · have a1 : 97 ≤ ch.toNat := h1
    have a2 : ch.toNat ≤ 102 := h2
    have n1 : ¬ ('0' ≤ ch ∧ ch ≤ '9') := by
      intro hh; have : ch.toNat ≤ 57 := hh.2; omega
    exact ⟨ch.toNat - 87, by simp [n1, h1, h2], by omega⟩
  · have a1 : 65 ≤ ch.toNat := h1
    have a2 : ch.toNat ≤ 70 := h2
    have n1 : ¬ ('0' ≤ ch ∧ ch ≤ '9') := by
      intro hh; have : 48 ≤ ch.toNat := hh.1; have : ch.toNat ≤ 57 := hh.2; omega
    have n2 : ¬ ('a' ≤ ch ∧ ch ≤ 'f') := by
      intro hh; have : 97 ≤ ch.toNat := hh.1; omega
    exact ⟨ch.toNat - 55, by simp [n1, n2, h1, h2], by omega⟩

/-! ### Literals: leading zeros followed by a digit part — or zeros only -/

/-- The common shape `"0"* ~ E | "0"+` where every match of the digit part `E` is a non-empty digit
string of the base with a value below the limit. -/
theorem zeros_then_ok (g : Grammar) (base limit : Nat) (hb : 1 ≤ base) (hl : 0 < limit) (E : Expr)
    (hE : ∀ c n, Den g E c n → c ≠ [] ∧ (∀ ch, ch ∈ c → IsDigit base ch) ∧ valFrom base 0 c < limit ∧ n = [])
    (rest : List Char) (n : List String)
    (h : Den g (.choice (.seq (.star (.str ['0'])) E) (.plus (.str ['0']))) rest n) :
    (∃ v, fromRadix base limit rest = some v) ∧ n = [] := by
  simp only [Den] at h
  rcases h with ⟨c1, n1, c2, n2, hz, he, rfl, rfl⟩ | hp
  · obtain ⟨hz1, rfl⟩ := star_zero g c1 n1 (by rw [den_star]; exact hz)
    obtain ⟨hne2, hdig, hval2, rfl⟩ := hE c2 n2 he
    have hne : c1 ++ c2 ≠ [] := by simp [hne2]
    have hall : ∀ c, c ∈ c1 ++ c2 → IsDigit base c := by
      intro c hc
      rw [List.mem_append] at hc
      rcases hc with hc | hc
      · rw [hz1 c hc]; exact isDigit_zero base hb
      · exact hdig c hc
    have hval : valFrom base 0 (c1 ++ c2) < limit := by
      rw [valFrom_append, valFrom_zeros base 0 c1 hz1 rfl]; exact hval2
    exact ⟨⟨_, fromRadix_ok base limit hb _ hne hall hval⟩, by simp⟩
  · obtain ⟨hne, hz1, rfl⟩ := plus_zero g rest n (by rw [den_plus]; exact hp)
    have hall : ∀ c, c ∈ rest → IsDigit base c := fun c hc => by rw [hz1 c hc]; exact isDigit_zero base hb
    have hval : valFrom base 0 rest < limit := by rw [valFrom_zeros base 0 rest hz1 rfl]; exact hl
    exact ⟨⟨_, fromRadix_ok base limit hb _ hne hall hval⟩, rfl⟩

/-- `D{1,k}` over digits of `base` with `base ^ k ≤ limit`. -/
theorem rep_digits_ok (g : Grammar) (base limit k : Nat) (hb : 1 ≤ base) (hk : k ≠ 0) (hlim : base ^ k ≤ limit)
    (D : Expr) (hD : ∀ c n, Den g D c n → (∃ ch, c = [ch] ∧ IsDigit base ch) ∧ n = []) :
    ∀ c n, Den g (.rep D 1 k) c n → c ≠ [] ∧ (∀ ch, ch ∈ c → IsDigit base ch) ∧ valFrom base 0 c < limit ∧ n = [] := by
  intro c n h
  simp only [Den] at h
  obtain ⟨hrep, hmin⟩ := h
  obtain ⟨hlen, hdig, rfl⟩ := RepP_chars (IsDigit base) k c n (RepP.imp hD hrep)
  obtain ⟨x1, m1, x2, m2, hx, _, hce, _⟩ := hmin (by decide) hk
  obtain ⟨⟨ch, rfl, _⟩, _⟩ := hD _ _ hx
  refine ⟨by rw [hce]; simp, hdig, ?_, rfl⟩
  have := valFrom_lt base hb c 0 (fun c' hc => isDigit_dv base c' (hdig c' hc))
  have h2 : base ^ c.length ≤ base ^ k := Nat.pow_le_pow_right hb hlen
  omega

/-! ### Decimal literals: alternatives made of literal characters and character ranges -/

/-- An expression made of string literals and character ranges in sequence, as a list of ranges. -/
def rangesOf : Expr → Option (List (Char × Char))
  | .str s => some (s.map fun c => (c, c))
  | .range lo hi => some [(lo, hi)]
  | .seq a b => match rangesOf a, rangesOf b with
    | some x, some y => some (x ++ y)
    | _, _ => none
  | _ => none

/-- A tree of ordered choices over such sequences, as the list of its alternatives. -/
def altsOf : Expr → Option (List (List (Char × Char)))
  | .choice a b => match altsOf a, altsOf b with
    | some x, some y => some (x ++ y)
    | _, _ => none
  | e => (rangesOf e).map fun r => [r]

def Fits : List Char → List (Char × Char) → Prop
  | [], [] => True
  | c :: cs, r :: rs => r.1 ≤ c ∧ c ≤ r.2 ∧ Fits cs rs
  | _, _ => False

theorem fits_append (c1 c2 : List Char) (r1 r2 : List (Char × Char)) (h1 : Fits c1 r1) (h2 : Fits c2 r2) :
    Fits (c1 ++ c2) (r1 ++ r2) := by
  induction c1 generalizing r1 with
  | nil => cases r1 with
    | nil => simpa using h2
    | cons r rs => simp [Fits] at h1
  | cons c cs ih => cases r1 with
    | nil => simp [Fits] at h1
    | cons r rs =>
      simp only [Fits, List.cons_append] at h1 ⊢
      exact ⟨h1.1, h1.2.1, ih rs h1.2.2⟩

theorem rangesOf_sound (g : Grammar) : ∀ (e : Expr) (rs : List (Char × Char)) (c : List Char) (n : List String),
    rangesOf e = some rs → Den g e c n → Fits c rs ∧ n = [] := by
  intro e
  induction e with
  | str s =>
    intro rs c n hr hd
    simp only [rangesOf, Option.some.injEq] at hr
    subst hr
    rw [den_str] at hd
    obtain ⟨rfl, rfl⟩ := hd
    refine ⟨?_, rfl⟩
    induction c with
    | nil => simp [Fits]
    | cons x xs ih => simp only [List.map_cons, Fits]; exact ⟨Nat.le_refl _, Nat.le_refl _, ih⟩
  | range lo hi =>
    intro rs c n hr hd
    simp only [rangesOf, Option.some.injEq] at hr
    subst hr
    simp only [Den] at hd
    obtain ⟨⟨ch, rfl, h1, h2⟩, rfl⟩ := hd
    exact ⟨by simp [Fits, h1, h2], rfl⟩
  | seq a b iha ihb =>
    intro rs c n hr hd
    simp only [rangesOf] at hr
    split at hr
    · rename_i x y hx hy
      simp only [Option.some.injEq] at hr
      subst hr
      simp only [Den] at hd
      obtain ⟨c1, n1, c2, n2, h1, h2, rfl, rfl⟩ := hd
      obtain ⟨f1, rfl⟩ := iha x c1 n1 hx h1
      obtain ⟨f2, rfl⟩ := ihb y c2 n2 hy h2
      exact ⟨fits_append _ _ _ _ f1 f2, rfl⟩
    · cases hr
  | _ => intro rs c n hr; simp [rangesOf] at hr

theorem altsOf_sound (g : Grammar) : ∀ (e : Expr) (alts : List (List (Char × Char))) (c : List Char) (n : List String),
    altsOf e = some alts → Den g e c n → (∃ rs, rs ∈ alts ∧ Fits c rs) ∧ n = [] := by
  intro e
  induction e with
  | choice a b iha ihb =>
    intro alts c n ha hd
    simp only [altsOf] at ha
    split at ha
    · rename_i x y hx hy
      simp only [Option.some.injEq] at ha
      subst ha
      simp only [Den] at hd
      rcases hd with hd | hd
      · obtain ⟨⟨rs, hm, hf⟩, hn⟩ := iha x c n hx hd
        exact ⟨⟨rs, by simp [hm], hf⟩, hn⟩
      · obtain ⟨⟨rs, hm, hf⟩, hn⟩ := ihb y c n hy hd
        exact ⟨⟨rs, by simp [hm], hf⟩, hn⟩
    · cases ha
  | str s =>
    intro alts c n ha hd
    simp only [altsOf, Option.map_eq_some_iff] at ha
    obtain ⟨rs, hr, rfl⟩ := ha
    obtain ⟨hf, hn⟩ := rangesOf_sound g _ rs c n hr hd
    exact ⟨⟨rs, by simp, hf⟩, hn⟩
  | range lo hi =>
    intro alts c n ha hd
    simp only [altsOf, Option.map_eq_some_iff] at ha
    obtain ⟨rs, hr, rfl⟩ := ha
    obtain ⟨hf, hn⟩ := rangesOf_sound g _ rs c n hr hd
    exact ⟨⟨rs, by simp, hf⟩, hn⟩
  | seq a b _ _ =>
    intro alts c n ha hd
    simp only [altsOf, Option.map_eq_some_iff] at ha
    obtain ⟨rs, hr, rfl⟩ := ha
    obtain ⟨hf, hn⟩ := rangesOf_sound g _ rs c n hr hd
    exact ⟨⟨rs, by simp, hf⟩, hn⟩
  | _ => intro alts c n ha; simp [altsOf, rangesOf] at ha

/-- Largest value a digit string fitting the ranges can have (Horner over the upper ends). -/
def maxFrom (a : Nat) (rs : List (Char × Char)) : Nat := rs.foldl (fun a r => a * 10 + (r.2.toNat - 48)) a

/-- All ranges are inside '0'..'9'. -/
def decRanges (rs : List (Char × Char)) : Bool := rs.all fun r => decide ('0' ≤ r.1) && decide (r.2 ≤ '9')

theorem fits_dec : ∀ (c : List Char) (rs : List (Char × Char)) (a a' : Nat), Fits c rs → decRanges rs = true → a ≤ a' →
    (∀ ch, ch ∈ c → IsDigit 10 ch) ∧ valFrom 10 a c ≤ maxFrom a' rs ∧ c.length = rs.length := by
  intro c
  induction c with
  | nil =>
    intro rs a a' hf _ ha
    cases rs with
    | nil => simp [valFrom, maxFrom, ha]
    | cons r rs => simp [Fits] at hf
  | cons x xs ih =>
    intro rs a a' hf hd ha
    cases rs with
    | nil => simp [Fits] at hf
    | cons r rs =>
      simp only [Fits] at hf
      simp only [decRanges, List.all_cons, Bool.and_eq_true, decide_eq_true_eq] at hd
      obtain ⟨hdv, h1, h2, h3, h4⟩ := range_digit x r.1 r.2 hf.1 hf.2.1 hd.1.1 hd.1.2
      have hdvx : dv x = x.toNat - 48 := by simp [dv, hdv]
      have hstep : a * 10 + dv x ≤ a' * 10 + (r.2.toNat - 48) := by
        rw [hdvx]
        have : a * 10 ≤ a' * 10 := Nat.mul_le_mul_right 10 ha
        omega
      obtain ⟨i1, i2, i3⟩ := ih rs _ _ hf.2.2 (by simpa [decRanges] using hd.2) hstep
      refine ⟨?_, by simpa [valFrom, maxFrom] using i2, by simp [i3]⟩
      intro ch hch
      simp only [List.mem_cons] at hch
      rcases hch with rfl | hch
      · exact ⟨ch.toNat - 48, hdv, by omega⟩
      · exact i1 ch hch

/-- Kernel-evaluable check of a list of alternatives: non-empty digit ranges with maximal value below the limit. -/
def altsBelow (limit : Nat) (alts : List (List (Char × Char))) : Bool :=
  alts.all fun rs => !rs.isEmpty && decRanges rs && decide (maxFrom 0 rs < limit)

theorem alts_ok (g : Grammar) (E : Expr) (alts : List (List (Char × Char))) (limit : Nat)
    (ha : altsOf E = some alts) (hb : altsBelow limit alts = true) :
    ∀ c n, Den g E c n → c ≠ [] ∧ (∀ ch, ch ∈ c → IsDigit 10 ch) ∧ valFrom 10 0 c < limit ∧ n = [] := by
  intro c n hd
  obtain ⟨⟨rs, hm, hf⟩, hn⟩ := altsOf_sound g E alts c n ha hd
  have hrs := List.all_eq_true.mp hb rs hm
  simp only [Bool.and_eq_true, Bool.not_eq_true', decide_eq_true_eq] at hrs
  obtain ⟨⟨hne, hdec⟩, hmax⟩ := hrs
  obtain ⟨i1, i2, i3⟩ := fits_dec c rs 0 0 hf hdec (Nat.le_refl 0)
  refine ⟨?_, i1, by omega, hn⟩
  intro hc
  subst hc
  cases rs with
  | nil => simp at hne
  | cons r rs => simp at i3

end Emu2a.C03
