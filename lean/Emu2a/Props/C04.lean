/-
C04 — key interrupts are taken once, at an instruction boundary, and transparently.
-/
import Emu2a.Props.C01
import Emu2a.Lemmas.IntEntry
import Emu2a.Model.Machine
import Emu2a.Lemmas.Fin
namespace Emu2a.C04
open Emu2a Gen Isa Machine

/-! ### Triggering -/

/-- A key press sets the interrupt flip-flop iff the key-edge enable bit of MICR is set … -/
theorem trigger_sets_iff_micr (m : Machine) (h : m.core.pendInt = false) :
    (keyInterrupt m).core.pendInt = m.core.bus.keyEdgeEnabled := by
  unfold keyInterrupt
  cases hk : m.core.bus.keyEdgeEnabled <;> simp [hk, h]

/-- … and with the enable bit clear it changes nothing but the "request active" status bit: the
routine can never be entered because of it. -/
theorem trigger_disabled_noop (m : Machine) (h : m.core.bus.keyEdgeEnabled = false) :
    keyInterrupt m = m.mapBus fun b => { b with misr := b.misr ||| BitVec.ofNat 8 C.misrKeyActive } := by
  unfold keyInterrupt mapBus
  simp [h]

/-- The flip-flop is cleared only by a micro-step that samples it (an end word: MAC1, MAC0, NA0)
— never in the middle of an instruction. -/
theorem sampled_only_at_end (c : Core) (h : c.pendInt = true) (h2 : (Core.step c).1.pendInt = false) :
    (word c.addr).mac1 = true ∧ (word c.addr).mac0 = true ∧ ((word c.addr).na % 2 == 1) = true := by
  have haddr : (Core.updateIr c.applyPending).addr = c.addr := by
    unfold Core.updateIr; split <;> simp [Core.applyPending]
  have hpi : (Core.updateIr c.applyPending).pendInt = true := by
    unfold Core.updateIr; split <;> simp [Core.applyPending, h]
  simp only [Core.step, Core.execWord, Core.updateWord, haddr, hpi, Sig.il1, Bool.true_and] at h2
  cases h1 : (word c.addr).mac1 <;> cases h0 : (word c.addr).mac0 <;> cases hn : ((word c.addr).na % 2 == 1) <;>
    simp_all


/-! ### Taken once, between two instructions -/

open Emu2a.C01 Emu2a.IntEntry

/-- One-byte forms whose last micro-step samples the interrupt request (all covered ones except EI, DI
and RETI, which go straight to the next fetch: a request stays pending across them). -/
def sampling1 (op : Nat) : Bool := covered1 op && !(8 ≤ op && op ≤ 15) && !(44 ≤ op && op ≤ 47)

theorem one_byte_to_end (c : Core) (a : Arch) (h : AtFetch c a) (op : Nat) (hs : sampling1 op = true)
    (hop : a.bus.read a.pc = BitVec.ofNat 8 op) :
    ∃ n a', Isa.step a = some a' ∧ AtEnd (Core.iter n c) a' ∧ (Core.iter n c).pendInt = c.pendInt := by
  simp only [sampling1, covered1, definedFirst, Bool.and_eq_true, Bool.not_eq_true',
    Bool.or_eq_false_iff, Bool.and_eq_false_iff, decide_eq_true_eq, decide_eq_false_iff_not] at hs
  have hpage : op ≤ 7 ∨ (16 ≤ op ∧ op ≤ 31) ∨ (32 ≤ op ∧ op ≤ 43) ∨ (48 ≤ op ∧ op ≤ 63) ∨ (64 ≤ op ∧ op ≤ 75) ∨
      (80 ≤ op ∧ op ≤ 95) ∨ (96 ≤ op ∧ op ≤ 111) ∨ (112 ≤ op ∧ op ≤ 127) ∨ (128 ≤ op ∧ op ≤ 143) ∨
      (144 ≤ op ∧ op ≤ 159) ∨ (160 ≤ op ∧ op ≤ 175) ∨ (208 ≤ op ∧ op ≤ 223) ∨ (176 ≤ op ∧ op ≤ 191) ∨
      (192 ≤ op ∧ op ≤ 207) := by omega
  rcases hpage with hp | hp | hp | hp | hp | hp | hp | hp | hp | hp | hp | hp | hp | hp
  · exact endpage_0 c a h op (by omega) hop
  · exact endpage_1 c a h op (by omega) hop
  · exact endpage_2 c a h op (by omega) hop
  · exact endpage_3 c a h op (by omega) hop
  · exact endpage_4 c a h op (by omega) hop
  · exact endpage_5 c a h op (by omega) hop
  · exact endpage_6 c a h op (by omega) hop
  · exact endpage_7 c a h op (by omega) hop
  · exact endpage_8 c a h op (by omega) hop
  · exact endpage_9 c a h op (by omega) hop
  · exact endpage_A c a h op (by omega) hop
  · exact endpage_D c a h op (by omega) hop
  · exact endpage_B c a h op hp hop
  · exact endpage_C c a h op hp hop

theorem second_to_end (c : Core) (a : Arch) (v : Byte) (h : AtSecond c a v) (b : Nat)
    (hd : definedSecond b = true) (hop : a.bus.read a.pc = BitVec.ofNat 8 b) :
    ∃ n a', Isa.second { a with pc := a.pc + 1 } b v = some a' ∧ AtEnd (Core.iter n c) a' ∧
      (Core.iter n c).pendInt = c.pendInt := by
  simp only [definedSecond, Bool.or_eq_true, Bool.and_eq_true, decide_eq_true_eq, beq_iff_eq] at hd
  have hpage : (16 ≤ b ∧ b ≤ 31) ∨ (32 ≤ b ∧ b ≤ 47) ∨ (48 ≤ b ∧ b ≤ 63) ∨ (b = 64 ∨ b = 68) ∨
      (80 ≤ b ∧ b ≤ 95) ∨ (96 ≤ b ∧ b ≤ 111) := by omega
  rcases hpage with hp | hp | hp | hp | hp | hp
  · exact sendpage_1 c a v h b (by omega) hop
  · exact sendpage_2 c a v h b (by omega) hop
  · exact sendpage_3 c a v h b (by omega) hop
  · exact sendpage_4 c a v h b hp hop
  · exact sendpage_5 c a v h b (by omega) hop
  · exact sendpage_6 c a v h b (by omega) hop

/-- The instruction at the boundary is a covered one that samples the interrupt request when it ends. -/
def Sampling (a : Arch) : Prop :=
  let op := (a.bus.read a.pc).toNat
  sampling1 op = true ∨
    (240 ≤ op ∧ definedSecond
      ((Isa.operand { a with pc := a.pc + 1 } (op / 4 % 4) (op % 4)).1.bus.read
        (Isa.operand { a with pc := a.pc + 1 } (op / 4 % 4) (op % 4)).1.pc).toNat = true)

/-- Whatever the state of the flip-flop, the instruction runs to its end word with exactly the effect
`Isa.step` prescribes, and the flip-flop is untouched until then: a request raised in ANY clock cycle
of the instruction (or before it) is looked at only between this instruction and the next. -/
theorem instr_to_end (c : Core) (a : Arch) (h : AtFetch c a) (hs : Sampling a) :
    ∃ n a', Isa.step a = some a' ∧ AtEnd (Core.iter n c) a' ∧ (Core.iter n c).pendInt = c.pendInt := by
  have hlt := (a.bus.read a.pc).isLt
  have hop : a.bus.read a.pc = BitVec.ofNat 8 (a.bus.read a.pc).toNat := by simp
  rcases hs with h1 | ⟨h2, h3⟩
  · exact one_byte_to_end c a h _ h1 hop
  · obtain ⟨n1, _, hsec, hpi⟩ := prefix_any c a h _ ⟨h2, by omega⟩ hop
    obtain ⟨n2, a', hsp, he, hpi2⟩ := second_to_end _ _ _ hsec _ h3 (by simp)
    refine ⟨n1 + n2, a', ?_, by rw [C01.iter_add]; exact he, by rw [C01.iter_add, hpi2, hpi]⟩
    have h15 : (a.bus.read a.pc).toNat / 16 = 15 := by omega
    unfold Isa.step
    simp only [Arch.rd]
    unfold Isa.exec
    simp only [h15]
    simp only [Arch.rd] at hsp ⊢
    exact hsp

/-- **Taken exactly once, between two instructions**: with the request pending and the
interrupt-enable flag set when the instruction ends, the machine arrives at the first instruction
boundary of the interrupt routine in state `intEntry` of the *completed* instruction's result — flag
register and the address of the next instruction pushed, interrupts disabled, PC = 2 — with the
flip-flop cleared: a second entry needs a second key press. -/
theorem int_taken (c : Core) (a : Arch) (h : AtFetch c a) (hs : Sampling a) (hp : c.pendInt = true) :
    ∃ a', Isa.step a = some a' ∧
      (flagBit a'.fr C.flagIE = true →
        ∃ n, AtFetch (Core.iter n c) (Isa.intEntry a') ∧ (Core.iter n c).pendInt = false) ∧
      (flagBit a'.fr C.flagIE = false →
        ∃ n, AtFetch (Core.iter n c) a' ∧ (Core.iter n c).pendInt = false) := by
  obtain ⟨n, a', hstep, he, hpi⟩ := instr_to_end c a h hs
  refine ⟨a', hstep, ?_, ?_⟩
  · intro hie
    have := end_to_int _ _ he (by rw [hpi]; exact hp) hie
    exact ⟨n + 9, by rw [C01.iter_add]; exact this.1, by rw [C01.iter_add]; exact this.2⟩
  · intro hie
    have := end_to_fetch _ _ he (by rw [hie]; rfl)
    exact ⟨n + 1, by rw [C01.iter_add]; exact this.1, by rw [C01.iter_add]; exact this.2⟩

/-! ### Transparency (specification level) -/

theorem ram_read_write_same (b : Bus) (a v : Byte) (h : a.toNat ≤ 239) : (b.write a v).read a = v := by
  simp [Bus.read, Bus.write, h, C.ramTop]

theorem ram_read_write_other (b : Bus) (a a' v : Byte) (h : a.toNat ≤ 239) (h' : a'.toNat ≤ 239) (hne : a' ≠ a) :
    (b.write a' v).read a = b.read a := by
  have hn : a'.toNat ≠ a.toNat := fun e => hne (BitVec.eq_of_toNat_eq e)
  simp [Bus.read, Bus.write, h, h', C.ramTop, Vector.getElem_set_ne, hn]

/-- **RETI undoes the interrupt entry**: with the stack in RAM, executing RETI in a state that has the
stack pointer and the two stack cells of `intEntry a` gives back PC, flag register (incl. the
interrupt-enable bit) and stack pointer of `a`. Registers R0-R2 are not touched by either. So for a
routine that restores the registers it uses, the interrupted computation continues from exactly the
architectural registers of the uninterrupted run. -/
theorem reti_entry_roundtrip (a x : Arch)
    (hsp1 : (a.sp - 1).toNat ≤ 239) (hsp2 : (a.sp - 1 - 1).toNat ≤ 239) (hne : a.sp - 1 - 1 ≠ a.sp - 1)
    (hx_sp : x.sp = (Isa.intEntry a).sp)
    (hx_lo : x.bus.read x.sp = (Isa.intEntry a).bus.read (Isa.intEntry a).sp)
    (hx_hi : x.bus.read (x.sp + 1) = (Isa.intEntry a).bus.read ((Isa.intEntry a).sp + 1))
    (hreti : x.bus.read x.pc = 0x2C#8) :
    ∃ x', Isa.step x = some x' ∧ x'.pc = a.pc ∧ x'.fr = a.fr ∧ x'.sp = a.sp ∧
      x'.r0 = x.r0 ∧ x'.r1 = x.r1 ∧ x'.r2 = x.r2 := by
  have hsp : (Isa.intEntry a).sp = a.sp - 1 - 1 := by simp [Isa.intEntry, Isa.push, Arch.wr]
  have hlo : (Isa.intEntry a).bus.read (a.sp - 1 - 1) = a.pc := by
    simp only [Isa.intEntry, Isa.push, Arch.wr]
    exact ram_read_write_same _ _ _ hsp2
  have hhi : (Isa.intEntry a).bus.read (a.sp - 1 - 1 + 1) = a.fr := by
    have e : a.sp - 1 - 1 + 1 = a.sp - 1 := by bv_omega
    rw [e]
    simp only [Isa.intEntry, Isa.push, Arch.wr]
    rw [ram_read_write_other _ _ _ _ hsp1 hsp2 hne]
    exact ram_read_write_same _ _ _ hsp1
  have hspx : x.sp = a.sp - 1 - 1 := by rw [hx_sp, hsp]
  have hmisr : ∀ (b : Bus) (m : Byte) (ad : Byte), ad.toNat ≤ 239 → ({ b with misr := m } : Bus).read ad = b.read ad := by
    intro b m ad h; simp [Bus.read, h, C.ramTop]
  have hsp2' : x.sp.toNat ≤ 239 := by rw [hspx]; exact hsp2
  have hsp1' : (x.sp + 1).toNat ≤ 239 := by
    have e : x.sp + 1 = a.sp - 1 := by rw [hspx]; bv_omega
    rw [e]; exact hsp1
  have e1 : x.bus.read x.sp = a.pc := by rw [hx_lo, hsp, hlo]
  have e2 : x.bus.read (x.sp + 1) = a.fr := by rw [hx_hi, hsp, hhi]
  have hstep : Isa.step x = some
      { x with bus := { x.bus with misr := x.bus.misr &&& 0xEF#8 &&& 0xFE#8 },
               pc := ({ x.bus with misr := x.bus.misr &&& 0xEF#8 &&& 0xFE#8 } : Bus).read x.sp,
               fr := ({ x.bus with misr := x.bus.misr &&& 0xEF#8 &&& 0xFE#8 } : Bus).read (x.sp + 1),
               sp := x.sp + 1 + 1 } := by
    simp [Isa.step, Isa.exec, Arch.rd, hreti]
  refine ⟨_, hstep, ?_, ?_, ?_, rfl, rfl, rfl⟩
  · show ({ x.bus with misr := _ } : Bus).read x.sp = a.pc
    rw [hmisr _ _ _ hsp2', e1]
  · show ({ x.bus with misr := _ } : Bus).read (x.sp + 1) = a.fr
    rw [hmisr _ _ _ hsp1', e2]
  · show x.sp + 1 + 1 = a.sp
    rw [hspx]; bv_omega

end Emu2a.C04
