/-
C07 — CPU reset, master reset and program load restore exactly the documented state.
-/
import Emu2a.Model.Ops
import Emu2a.Lemmas.Fin
namespace Emu2a.C07
open Emu2a Machine

/-! ### What the resets do, field by field (for every machine state, hence after every history) -/

/-- CPU reset: registers, instruction register, micro-sequencer, pending writes and pending key
interrupt, ALU latch, last bus value are at their power-on values, the machine is Running, output
registers, MICR and UCR are cleared; RAM, input registers, timer, board, MISR/USR/UART bytes, limits and
step mode are untouched. -/
theorem cpuReset_eq (m : Machine) :
    let r := cpuReset m
    r.core.addr = Core.new.addr ∧ r.core.regs = Core.new.regs ∧ r.core.ir = Core.new.ir ∧
    r.core.pendReg = none ∧ r.core.pendFlag = false ∧ r.core.pendInt = false ∧
    r.core.alu = AluOut.default ∧ r.core.lastBus = 0#8 ∧ r.run = .running ∧ r.wait = false ∧
    r.core.bus.outFE = 0#8 ∧ r.core.bus.outFF = 0#8 ∧ r.core.bus.micr = 0#8 ∧ r.core.bus.ucr = 0#8 ∧
    r.core.bus.ram = m.core.bus.ram ∧ r.core.bus.inFC = m.core.bus.inFC ∧ r.core.bus.inFD = m.core.bus.inFD ∧
    r.core.bus.inFE = m.core.bus.inFE ∧ r.core.bus.inFF = m.core.bus.inFF ∧ r.core.bus.timer = m.core.bus.timer ∧
    r.core.bus.board = m.core.bus.board ∧ r.core.bus.misr = m.core.bus.misr ∧ r.core.bus.usr = m.core.bus.usr ∧
    r.core.bus.uartSend = m.core.bus.uartSend ∧ r.core.bus.uartRecv = m.core.bus.uartRecv ∧
    r.ss = m.ss ∧ r.ps = m.ps ∧ r.mode = m.mode := by
  simp [cpuReset, Bus.cpuReset, Core.new]

/-- The whole CPU-reset state is the power-on machine with exactly the surviving parts copied in. -/
theorem cpuReset_is_new_with (m : Machine) :
    cpuReset m =
      { Machine.new with
        core := { Core.new with bus := { m.core.bus with outFE := 0, outFF := 0, micr := 0, ucr := 0 } },
        ss := m.ss, ps := m.ps, mode := m.mode } := by
  simp [cpuReset, Bus.cpuReset, Core.new, Machine.new]

/-- Master reset: a CPU reset, and additionally the input registers, the timer settings and the board's
outputs (both output ports and DAC voltages, interrupt control, fan, UIO directions) are cleared; RAM
and the board's physical inputs (input port, temperature, analog inputs, status bits) are untouched. -/
theorem masterReset_eq (m : Machine) :
    let r := masterReset m
    r.core.addr = 0 ∧ r.core.regs = Regs.zero ∧ r.core.ir = Gen.C.irReset ∧
    r.core.pendReg = none ∧ r.core.pendFlag = false ∧ r.core.pendInt = false ∧
    r.core.alu = AluOut.default ∧ r.core.lastBus = 0#8 ∧ r.run = .running ∧ r.wait = false ∧
    r.core.bus.outFE = 0#8 ∧ r.core.bus.outFF = 0#8 ∧ r.core.bus.micr = 0#8 ∧ r.core.bus.ucr = 0#8 ∧
    r.core.bus.inFC = 0#8 ∧ r.core.bus.inFD = 0#8 ∧ r.core.bus.inFE = 0#8 ∧ r.core.bus.inFF = 0#8 ∧
    r.core.bus.timer = Bus.Timer.new ∧
    r.core.bus.board.do1 = 0#8 ∧ r.core.bus.board.do2 = 0#8 ∧ r.core.bus.board.ao1 = 0 ∧ r.core.bus.board.ao2 = 0 ∧
    r.core.bus.board.daicr = 0#8 ∧ r.core.bus.board.fanRpm = 0 ∧
    r.core.bus.board.dir1 = false ∧ r.core.bus.board.dir2 = false ∧ r.core.bus.board.dir3 = false ∧
    r.core.bus.ram = m.core.bus.ram ∧
    r.core.bus.board.di1 = m.core.bus.board.di1 ∧ r.core.bus.board.temp = m.core.bus.board.temp ∧
    r.core.bus.board.ai1 = m.core.bus.board.ai1 ∧ r.core.bus.board.ai2 = m.core.bus.board.ai2 ∧
    r.core.bus.board.dasr = m.core.bus.board.dasr ∧ r.core.bus.board.daisr = m.core.bus.board.daisr ∧
    r.ss = m.ss ∧ r.ps = m.ps ∧ r.mode = m.mode := by
  simp [masterReset, cpuReset, Bus.cpuReset, Bus.masterReset, Board.masterReset, Core.new]

/-- Loading a program: master reset, RAM = image followed by zeros, limits applied
(`NOSET` keeps the old limit, `AUTO` sets the program size to the image length). -/
theorem load_eq (m m' : Machine) (img : List Byte) (ss : Stacksize) (ps : Programsize)
    (h : m.load img ss ps = some m') :
    img.length ≤ 240 ∧
    (∀ i (hi : i < 240), m'.core.bus.ram[i] = img.getD i 0#8) ∧
    m'.ss = (if ss = .notSet then m.ss else ss) ∧
    m'.ps = (match ps with | .size n => .size n | .auto => .size (img.length % 256) | .notSet => m.ps) ∧
    { m'.core with bus := { m'.core.bus with ram := m.core.bus.ram } } = (masterReset m).core ∧
    m'.run = .running ∧ m'.wait = false ∧ m'.mode = m.mode := by
  unfold Machine.load fillRam at h
  by_cases hl : img.length ≤ Gen.C.ramSize
  · simp only [hl, ↓reduceIte] at h
    injection h with h
    subst h
    refine ⟨by simpa [Gen.C.ramSize] using hl, ?_, ?_, ?_, ?_, ?_, ?_, ?_⟩
    · intro i hi
      cases ps <;> (by_cases hs : ss = .notSet <;> simp [mapBus, hs, Vector.getElem_ofFn])
    · cases ps <;> (by_cases hs : ss = .notSet <;> simp [mapBus, hs, masterReset, cpuReset])
    · cases ps <;> (by_cases hs : ss = .notSet <;> simp [mapBus, hs, masterReset, cpuReset])
    · cases ps <;> (by_cases hs : ss = .notSet <;> simp [mapBus, hs, masterReset, cpuReset, Bus.masterReset, Bus.cpuReset])
    · cases ps <;> (by_cases hs : ss = .notSet <;> simp [mapBus, hs, masterReset, cpuReset])
    · cases ps <;> (by_cases hs : ss = .notSet <;> simp [mapBus, hs, masterReset, cpuReset])
    · cases ps <;> (by_cases hs : ss = .notSet <;> simp [mapBus, hs, masterReset, cpuReset])
  · simp [hl] at h


/-! ### History independence for programs confined to RAM and 0xFC-0xFF -/

/-- Forget what such a program cannot observe: the board, MISR, USR and the UART bytes. -/
def busProj (b : Bus) : Bus :=
  { b with board := Board.new, misr := 0, usr := 0, uartSend := 0, uartRecv := 0 }

def proj (m : Machine) : Machine :=
  { m with core := { m.core with bus := busProj m.core.bus }, mode := .real }

/-- Addresses of RAM and of the input/output/timer registers 0xFC-0xFF. -/
def confined (a : Byte) : Prop := a.toNat ≤ 0xEF ∨ 0xFC ≤ a.toNat

theorem confined_cases (a : Byte) (h : confined a) :
    a.toNat ≤ 239 ∨ a = 0xFC#8 ∨ a = 0xFD#8 ∨ a = 0xFE#8 ∨ a = 0xFF#8 := by
  have := a.isLt
  rcases h with h | h
  · left; omega
  · have h4 : a.toNat = 252 ∨ a.toNat = 253 ∨ a.toNat = 254 ∨ a.toNat = 255 := by omega
    rcases h4 with e | e | e | e
    · right; left; exact BitVec.eq_of_toNat_eq (by simpa using e)
    · right; right; left; exact BitVec.eq_of_toNat_eq (by simpa using e)
    · right; right; right; left; exact BitVec.eq_of_toNat_eq (by simpa using e)
    · right; right; right; right; exact BitVec.eq_of_toNat_eq (by simpa using e)

theorem read_proj (b : Bus) (a : Byte) (h : confined a) : (busProj b).read a = b.read a := by
  rcases confined_cases a h with h | h | h | h | h
  · simp [Bus.read, busProj, h, Gen.C.ramTop]
  all_goals (subst h; simp [Bus.read, busProj, Gen.C.ramTop])

theorem write_proj (b : Bus) (a v : Byte) (h : confined a) : busProj (b.write a v) = (busProj b).write a v := by
  rcases confined_cases a h with h | h | h | h | h
  · simp [Bus.write, busProj, h, Gen.C.ramTop]
  · subst h; rfl
  · subst h
    rw [show b.write 0xFD#8 v = (if (v &&& 0x80#8) == 0x80#8 then
              { b with timer := { b.timer with enabled := (v &&& 0x10#8) == 0x10#8, div2 := match (v &&& 0x03#8).toNat with
                | 0 => 1 | 1 => 16 | 2 => 256 | _ => 4096 } }
            else { b with timer := { b.timer with div3 := ((v.toNat &&& 0x7F) <<< 7) + (b.timer.div3 &&& 0x7F) } }) from rfl,
        show (busProj b).write 0xFD#8 v = (if (v &&& 0x80#8) == 0x80#8 then
              { busProj b with timer := { (busProj b).timer with enabled := (v &&& 0x10#8) == 0x10#8, div2 := match (v &&& 0x03#8).toNat with
                | 0 => 1 | 1 => 16 | 2 => 256 | _ => 4096 } }
            else { busProj b with timer := { (busProj b).timer with div3 := ((v.toNat &&& 0x7F) <<< 7) + ((busProj b).timer.div3 &&& 0x7F) } }) from rfl]
    split <;> rfl
  · subst h; rfl
  · subst h; rfl

/-- The core just before the bus access of an executed edge (phases 1-4). -/
def preAccess (c : Core) : Core := Core.updateWord (Core.updateIr c.applyPending)

/-- The bus address accessed by the edge that `m` executes next, if any. -/
def edgeAccess (m : Machine) : Option Byte :=
  let c := preAccess m.core
  let w := Gen.word c.addr
  if w.busen || w.buswr then some (c.regs.get (Sig.selA w c.ir)) else none

/-- The next executed edge touches RAM or 0xFC-0xFF only (or no bus address at all). -/
def accessOK (m : Machine) : Prop := ∀ a, edgeAccess m = some a → confined a

/-- Two cores that agree on everything but the invisible part of the bus. -/
def CoreEq (c1 c2 : Core) : Prop := c2 = { c1 with bus := c2.bus } ∧ busProj c1.bus = busProj c2.bus

theorem coreEq_refl (c : Core) : CoreEq c c := ⟨rfl, rfl⟩

theorem busProj_misr (b : Bus) (x : Byte) : busProj { b with misr := x } = busProj b := rfl

theorem applyPending_congr (c1 c2 : Core) (h : CoreEq c1 c2) : CoreEq c1.applyPending c2.applyPending := by
  obtain ⟨h1, h2⟩ := h
  rw [h1]
  exact ⟨by simp [Core.applyPending], by simpa [Core.applyPending] using h2⟩

theorem updateIr_congr (c1 c2 : Core) (h : CoreEq c1 c2) : CoreEq (Core.updateIr c1) (Core.updateIr c2) := by
  obtain ⟨h1, h2⟩ := h
  rw [h1]
  unfold Core.updateIr
  simp only
  cases Core.irAct (Gen.word c1.addr)
  · exact ⟨rfl, h2⟩
  · exact ⟨rfl, h2⟩
  · simp only
    split
    · refine ⟨rfl, ?_⟩
      rw [busProj_misr, busProj_misr]; exact h2
    · exact ⟨rfl, h2⟩

theorem updateWord_congr (c1 c2 : Core) (h : CoreEq c1 c2) : CoreEq (Core.updateWord c1) (Core.updateWord c2) := by
  obtain ⟨h1, h2⟩ := h
  rw [h1]
  exact ⟨by simp [Core.updateWord], by simpa [Core.updateWord] using h2⟩

theorem preAccess_congr (c1 c2 : Core) (h : CoreEq c1 c2) : CoreEq (preAccess c1) (preAccess c2) :=
  updateWord_congr _ _ (updateIr_congr _ _ (applyPending_congr _ _ h))

/-- The bus phases of an edge agree on confined accesses. -/
theorem execWord_congr (c1 c2 : Core) (h : CoreEq c1 c2)
    (hc : ((Gen.word c1.addr).busen || (Gen.word c1.addr).buswr) = true →
      confined (c1.regs.get (Sig.selA (Gen.word c1.addr) c1.ir))) :
    CoreEq (Core.execWord c1).1 (Core.execWord c2).1 ∧ (Core.execWord c1).2 = (Core.execWord c2).2 := by
  obtain ⟨h1, h2⟩ := h
  rw [h1]
  unfold Core.execWord
  simp only
  cases hen : (Gen.word c1.addr).busen <;> cases hwr : (Gen.word c1.addr).buswr
  · simp only [Bool.false_eq_true, ↓reduceIte, Bool.false_and, Bool.or_self]
    exact ⟨⟨rfl, h2⟩, trivial⟩
  · have hconf := hc (by simp [hen, hwr])
    simp only [Bool.false_eq_true, ↓reduceIte, Bool.false_and, Bool.true_and, Bool.false_or]
    refine ⟨⟨rfl, ?_⟩, trivial⟩
    simp only
    rw [write_proj _ _ _ hconf, write_proj _ _ _ hconf, h2]
  · have hconf := hc (by simp [hen, hwr])
    simp only [↓reduceIte, Bool.true_and, Bool.false_eq_true, Bool.false_and, Bool.or_false]
    rw [← read_proj c1.bus _ hconf, ← read_proj c2.bus _ hconf, h2]
    exact ⟨⟨rfl, h2⟩, trivial⟩
  · have hconf := hc (by simp [hen, hwr])
    simp only [↓reduceIte, Bool.true_and, Bool.or_self]
    rw [← read_proj c1.bus _ hconf, ← read_proj c2.bus _ hconf, h2]
    refine ⟨⟨rfl, ?_⟩, trivial⟩
    simp only
    rw [write_proj _ _ _ hconf, write_proj _ _ _ hconf, h2]

/-- Machines that agree up to the invisible bus part and the step mode. -/
def MEq (m1 m2 : Machine) : Prop :=
  CoreEq m1.core m2.core ∧ m1.run = m2.run ∧ m1.wait = m2.wait ∧ m1.ss = m2.ss ∧ m1.ps = m2.ps

theorem meq_iff_proj (m1 m2 : Machine) : MEq m1 m2 ↔ proj m1 = proj m2 := by
  constructor
  · rintro ⟨⟨h1, h2⟩, hr, hw, hs, hp⟩
    cases m1; cases m2
    simp only [proj] at *
    subst hr hw hs hp
    rw [h1]
    simp [h2]
  · intro h
    cases m1 with | mk c1 r1 w1 s1 p1 md1 =>
    cases m2 with | mk c2 r2 w2 s2 p2 md2 =>
    simp only [proj, Machine.mk.injEq] at h
    obtain ⟨hc, hr, hw, hs, hp, _⟩ := h
    cases c1; cases c2
    simp only [Core.mk.injEq] at hc
    refine ⟨⟨?_, hc.2.2.2.1⟩, hr, hw, hs, hp⟩
    simp_all

/-- **One edge preserves the agreement**, provided the edge accesses RAM / 0xFC-0xFF only. -/
theorem clockEdge_congr (m1 m2 : Machine) (h : MEq m1 m2) (hok : accessOK m1) :
    MEq (clockEdge m1) (clockEdge m2) := by
  obtain ⟨hc, hr, hw, hs, hp⟩ := h
  unfold clockEdge
  rw [← hr, ← hw]
  split
  · exact ⟨hc, hr, hw, hs, hp⟩
  · split
    · exact ⟨hc, rfl, rfl, hs, hp⟩
    · -- executed edge
      have hap := applyPending_congr _ _ hc
      have hpre := preAccess_congr _ _ hc
      have hex := execWord_congr (preAccess m1.core) (preAccess m2.core) hpre (by
        intro hb
        apply hok
        simp [edgeAccess, hb])
      have e1 : m2.core.pendReg = m1.core.pendReg := by rw [hc.1]
      have e2 : m2.core.applyPending.regs = m1.core.applyPending.regs := by rw [hap.1]
      have e3 : m2.core.applyPending.addr = m1.core.applyPending.addr := by rw [hap.1]
      have e4 : m2.core.applyPending.lastBus = m1.core.applyPending.lastBus := by rw [hap.1]
      refine ⟨?_, ?_, ?_, hs, hp⟩
      · simpa [exec, preAccess] using hex.1
      · simp only [exec, superviseWrite, superviseFetch, e1, e2, e3, e4, hr, hs, hp]
      · simpa [exec, preAccess] using hex.2

/-- `n` clock edges. -/
def edges : Nat → Machine → Machine
  | 0, m => m
  | n + 1, m => edges n (clockEdge m)

/-- Every one of the next `n` edges of `m` is confined to RAM and 0xFC-0xFF. -/
def confinedRun : Nat → Machine → Prop
  | 0, _ => True
  | n + 1, m => accessOK m ∧ confinedRun n (clockEdge m)

/-- **C07 (history independence)**: two machines that agree up to the board, MISR/USR/UART bytes and
the step mode run cycle-for-cycle alike as long as the program stays within RAM and 0xFC-0xFF. -/
theorem runs_agree (n : Nat) (m1 m2 : Machine) (h : proj m1 = proj m2) (hc : confinedRun n m1) :
    proj (edges n m1) = proj (edges n m2) := by
  induction n generalizing m1 m2 with
  | zero => exact h
  | succ n ih =>
    have h' := (meq_iff_proj _ _).mpr h
    exact ih _ _ ((meq_iff_proj _ _).mp (clockEdge_congr m1 m2 h' hc.1)) hc.2

/-- After loading program `p`, any machine agrees (in this sense) with a newly created machine that
carries the same limits — whatever happened before the load. -/
theorem load_history_independent (m m' f' : Machine) (img : List Byte) (ss : Stacksize) (ps : Programsize)
    (h : m.load img ss ps = some m')
    (hf : ({ Machine.new with ss := m.ss, ps := m.ps } : Machine).load img ss ps = some f') :
    proj m' = proj f' := by
  unfold Machine.load at h hf
  cases hr : fillRam img with
  | none => simp [hr] at h
  | some ram =>
    simp only [hr] at h hf
    injection h with h
    injection hf with hf
    subst h hf
    cases ps <;> (by_cases hs : ss = .notSet <;>
      simp [proj, mapBus, hs, masterReset, cpuReset, Bus.masterReset, Bus.cpuReset, busProj, Machine.new, Core.new, Bus.new])

/-- Consequently the loaded machine and the fresh one run cycle-for-cycle alike. -/
theorem load_then_run (n : Nat) (m m' f' : Machine) (img : List Byte) (ss : Stacksize) (ps : Programsize)
    (h : m.load img ss ps = some m')
    (hf : ({ Machine.new with ss := m.ss, ps := m.ps } : Machine).load img ss ps = some f')
    (hc : confinedRun n m') :
    proj (edges n m') = proj (edges n f') :=
  runs_agree n m' f' (load_history_independent m m' f' img ss ps h hf) hc

end Emu2a.C07
