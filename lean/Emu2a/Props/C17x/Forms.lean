/-
C17: the nom grammar model and the documented command language agree on finite families
(kernel evaluation; these are tests, labelled as such, not the unbounded claim).
-/
import Emu2a.Model.Tui
import Emu2a.Spec.TuiSpec
namespace Emu2a.C17
open Emu2a Emu2a.Tui

/-! ### Grammar = documented language, on finite families (kernel evaluation; tests, labelled as such) -/

def resEq : ParseRes → ParseRes → Bool
  | .cmd a, .cmd b => a == b
  | .invalid, .invalid => true
  | .unknown, .unknown => true
  | _, _ => false

def agree (l : List Char) : Bool := resEq (parseCmd l) (TuiSpec.parse l)

/-- All strings of length exactly `n` over `alpha`. -/
def strings (alpha : List Char) : Nat → List (List Char)
  | 0 => [[]]
  | n + 1 => (strings alpha n).flatMap fun s => alpha.map fun c => c :: s

def family : List String := [
  "FC = 1", "fd=0xff", "set FE = 0b11", "SET ff = 255", "FF = 256", "FC = 0x100", "fc = 0b100000000", "FC=", "FC = 0x", "FC = 0b2",
  "set irg = 7", "SET IRG=0XaB", "irg = 7", "set IRG = 300", "set temp = 2.55", "set TEMP=5", "set temp = 1.27x", "temp = 1",
  "set i1 = 0.5", "set I2 = 4.99", "set i3 = 1", "set J1", "unset j2", "set uio1", "UNSET UIO3", "set J3", "set uio4", "set J1 x",
  "show register", "SHOW  memory", "show", "show regs", "show registers", "next", "next 5", "NEXT  007", "next5", "next -1",
  "next 18446744073709551615", "next 18446744073709551616", "quit", "EXIT", "quitx", " quit ", "q", "load a.asm", "LOAD\t x y ",
  "load", "loadx", "load ", "", " ", "\t", "  \t ", "setFC = 1", "set", "unset", "unset FC = 1", "FC 1", "FC == 1", "FC = 1 2",
  "set J1 = 1", "= 5", "FG = 1", "set temp = 1 1", "exit now", "set uio1 set uio2", "FC\t=\t12", "  set   fd   =   0B101  "]

theorem cmd_forms_agree :
    (family.all fun s => agree s.toList) = true ∧
    ((List.range 5).all fun n => (strings ['f', 'C', '=', ' ', '1', '0', 'x', 'é'] n).all agree) = true := by
  constructor <;> decide +kernel

end Emu2a.C17
