/-
C16 — formatting a parsed program and re-parsing it yields the same program.

The full statement (`roundtrip_partial` below is the part that is a theorem):
    ∀ p, accepted p → Parse.parse fuel (Fmt.program p) = .ok p
PROVED HERE (partial):
  * `rt_forms`: for a family of 331 instruction lines covering every instruction form, every operand
    shape, every register, label and numeric operands and the extreme numeric values, the model parser
    (PEG interpreter over the grammar REGENERATED from mrasm.pest + AST builders) applied to the model
    formatter's text returns exactly the program that was formatted — by kernel evaluation, so any
    change of grammar, builder or formatter that breaks one of those forms breaks the theorem;
  * the numeric renderings parse back to the value for EVERY value: two-digit upper-case hex for all
    bytes (`hex_roundtrip`), decimal for all bytes (`dec_roundtrip_byte`);
  * comments: trimming is idempotent and the formatter's "; " prefix is absorbed by it
    (`trim_idem`, `comment_roundtrip`), for ARBITRARY comment text.
NOT PROVED: the lift from the family to all programs (needs compositionality of the PEG interpreter
over line concatenation).  Carried by the correspondence: `spec.roundtrip` on generated programs,
checked on the real formatter + real parser and on the model.
-/
import Emu2a.Props.C16x.F0
import Emu2a.Props.C16x.F1
import Emu2a.Props.C16x.F2
import Emu2a.Props.C16x.F3
import Emu2a.Props.C16x.F4
import Emu2a.Props.C16x.F5
import Emu2a.Props.C16x.F6
import Emu2a.Props.C16x.F7
import Emu2a.Props.C16x.F8
import Emu2a.Lemmas.Fin
namespace Emu2a.C16
open Emu2a Emu2a.Asm Emu2a.Parse

theorem forms_cover : forms = (List.range 9).flatMap chunk := by decide +kernel

/-- **Round trip on the covering family** (kernel evaluation of parser-after-formatter). -/
theorem rt_forms : ∀ i ∈ forms, Parse.parse 400 (Fmt.program (tiny i)) = .ok (tiny i) := by
  intro i hi
  rw [forms_cover] at hi
  simp only [List.mem_flatMap, List.mem_range] at hi
  obtain ⟨k, hk, hik⟩ := hi
  have hall : (chunk k).all check = true := by
    have : k = 0 ∨ k = 1 ∨ k = 2 ∨ k = 3 ∨ k = 4 ∨ k = 5 ∨ k = 6 ∨ k = 7 ∨ k = 8 := by omega
    rcases this with h | h | h | h | h | h | h | h | h <;> subst h
    · exact rt_chunk_0
    · exact rt_chunk_1
    · exact rt_chunk_2
    · exact rt_chunk_3
    · exact rt_chunk_4
    · exact rt_chunk_5
    · exact rt_chunk_6
    · exact rt_chunk_7
    · exact rt_chunk_8
  have := List.all_eq_true.mp hall i hik
  simpa [check] using this

/-- Every byte, rendered as the formatter renders constants (`0x` + two upper-case hex digits),
is read back as the same byte by the number builder. -/
theorem hex_roundtrip : ∀ n, n < 256 → fromRadix 16 256 (Fmt.hex2U n).toList = some n := by
  have h : allBelow 256 (fun n => fromRadix 16 256 (Fmt.hex2U n).toList == some n) = true := by decide +kernel
  intro n hn
  simpa using allBelow_spec h n hn

/-- Decimal rendering (`.ORG`, `.BYTE`, `.DB`, `*PROGRAMSIZE` operands) reads back, for every byte.
(For words — `.DW`, `.EQU` — kernel evaluation of all 65536 renderings is too slow; the boundary
values are part of `rt_forms`, the rest is correspondence.) -/
theorem dec_roundtrip_byte : ∀ n, n < 256 → fromRadix 10 256 (toString n).toList = some n := by
  have h : allBelow 256 (fun n => fromRadix 10 256 (toString n).toList == some n) = true := by decide +kernel
  intro n hn
  simpa using allBelow_spec h n hn

/-! ### Comments -/

abbrev blank : Char → Bool := fun c => c == ' ' || c == '\t' || c == ';'

theorem trimComment_eq (cs : List Char) : trimComment cs = ((cs.dropWhile blank).reverse.dropWhile blank).reverse := rfl

theorem dropWhile_idem (p : Char → Bool) (l : List Char) : (l.dropWhile p).dropWhile p = l.dropWhile p := by
  induction l with
  | nil => rfl
  | cons a l ih =>
    by_cases h : p a = true
    · simp [List.dropWhile_cons, h, ih]
    · simp [List.dropWhile_cons, h]

/-- Dropping from the back leaves the front alone when the front is already clean. -/
theorem dropBack_head (p : Char → Bool) (l : List Char) (h : l.dropWhile p = l) :
    ((l.reverse.dropWhile p).reverse).dropWhile p = (l.reverse.dropWhile p).reverse := by
  cases l with
  | nil => rfl
  | cons a l =>
    have ha : p a = false := by
      by_cases hp : p a = true
      · exfalso
        simp only [List.dropWhile_cons, hp, ↓reduceIte] at h
        have := List.dropWhile_sublist p (l := l)
        rw [h] at this
        have := this.length_le
        simp only [List.length_cons] at this
        omega
      · simpa using hp
    -- the reversed list ends in `a`; dropping from its front never removes that last element
    have key : ∀ (m : List Char), ∃ r, (m ++ [a]).dropWhile p = r ++ [a] := by
      intro m
      induction m with
      | nil => exact ⟨[], by simp [List.dropWhile_cons, ha]⟩
      | cons b m ih =>
        by_cases hb : p b = true
        · obtain ⟨r, hr⟩ := ih; exact ⟨r, by simp [List.dropWhile_cons, hb, hr]⟩
        · exact ⟨b :: m, by simp [List.dropWhile_cons, hb]⟩
    obtain ⟨r, hr⟩ := key l.reverse
    simp only [List.reverse_cons, hr, List.reverse_append, List.reverse_singleton, List.singleton_append,
      List.reverse_nil, List.nil_append, List.cons_append, List.dropWhile_cons, ha, Bool.false_eq_true, ↓reduceIte]

/-- Trimming a comment twice is trimming it once. -/
theorem trim_idem (cs : List Char) : trimComment (trimComment cs) = trimComment cs := by
  rw [trimComment_eq (trimComment cs), trimComment_eq cs]
  have h1 := dropBack_head blank (cs.dropWhile blank) (dropWhile_idem _ _)
  rw [h1, List.reverse_reverse, dropWhile_idem]

/-- The formatter writes a comment `c` as `"; " ++ c`; the parser hands the builder the text after the
semicolon, `" " ++ c`, which trims back to `c` — for every comment that came out of the parser
(i.e. that is itself trimmed), whatever characters it contains. -/
theorem comment_roundtrip (c : List Char) (h : trimComment c = c) : trimComment (' ' :: c) = c := by
  rw [trimComment_eq]
  simp only [List.dropWhile_cons, beq_self_eq_true, Bool.true_or, ↓reduceIte]
  exact h

/-- Comments stored in a parsed program are trimmed (so `comment_roundtrip` applies to them). -/
theorem parsed_comment_trimmed (cs : List Char) : trimComment (' ' :: trimComment cs) = trimComment cs :=
  comment_roundtrip _ (trim_idem cs)

end Emu2a.C16
