/-
C01 / C04 specification: the Minirechner 2a instruction set at instruction level.
Architectural state: R0-R2, PC, flag register, stack pointer and the bus (RAM, I/O, board).
Microcode scratch registers (R6, R7), the instruction register and cycle counts do not occur here.
-/
import Emu2a.Model.Bus
import Emu2a.Spec.Opcodes
namespace Emu2a.Isa
open Emu2a

structure Arch where
  r0 : Byte
  r1 : Byte
  r2 : Byte
  pc : Byte
  fr : Byte
  sp : Byte
  bus : Bus
  deriving DecidableEq, Repr

namespace Arch
/-- Operand registers R0-R2 and PC (register number 3). -/
def reg (a : Arch) : Nat → Byte
  | 0 => a.r0 | 1 => a.r1 | 2 => a.r2 | _ => a.pc
def setReg (a : Arch) (i : Nat) (v : Byte) : Arch :=
  match i with
  | 0 => { a with r0 := v } | 1 => { a with r1 := v } | 2 => { a with r2 := v } | _ => { a with pc := v }
def rd (a : Arch) (addr : Byte) : Byte := a.bus.read addr
def wr (a : Arch) (addr v : Byte) : Arch := { a with bus := a.bus.write addr v }
end Arch

def flagC (fr : Byte) : Bool := fr &&& 1#8 != 0#8
def flagZ (fr : Byte) : Bool := fr &&& 2#8 != 0#8
def flagN (fr : Byte) : Bool := fr &&& 4#8 != 0#8

/-- Replace C, Z, N (bits 0-2); all other bits of the flag register stay. -/
def withCZN (fr : Byte) (c z n : Bool) : Byte :=
  (fr &&& 0xF8#8) ||| (if c then 1#8 else 0#8) ||| (if z then 2#8 else 0#8) ||| (if n then 4#8 else 0#8)

/-- Z and N of a result, with the given carry. -/
def flagsOf (fr : Byte) (c : Bool) (v : Byte) : Byte := withCZN fr c (v == 0#8) (v.toNat ≥ 128)

/-- Fetch a general source/destination *address or value* according to the addressing mode of
register `r` (0 `R`, 1 `(R)`, 2 `(R+)`, 3 `((R+))`).  Returns the state after post-increment,
the operand value and where it lives (`none`: in register `r`). -/
def operand (a : Arch) (mode r : Nat) : Arch × Byte × Option Byte :=
  match mode with
  | 0 => (a, a.reg r, none)
  | 1 => (a, a.rd (a.reg r), some (a.reg r))
  | 2 => (a.setReg r (a.reg r + 1), a.rd (a.reg r), some (a.reg r))
  | _ =>
    let p := a.rd (a.reg r)
    (a.setReg r (a.reg r + 1), a.rd p, some p)

/-- Store a result to a destination located by `operand` (before its post-increment). -/
def store (a : Arch) (r : Nat) (loc : Option Byte) (v : Byte) : Arch :=
  match loc with
  | none => a.setReg r v
  | some addr => a.wr addr v

/-- Read-modify-write on a destination operand: `f old = (new, flag register)`.
The write happens before the post-increment of the pointer register. -/
def rmw (a : Arch) (mode r : Nat) (f : Byte → Byte × Byte) : Arch :=
  match mode with
  | 0 =>
    let (v, fr) := f (a.reg r)
    { (a.setReg r v) with fr := fr }
  | 1 =>
    let (v, fr) := f (a.rd (a.reg r))
    { (a.wr (a.reg r) v) with fr := fr }
  | 2 =>
    let (v, fr) := f (a.rd (a.reg r))
    let a := { (a.wr (a.reg r) v) with fr := fr }
    a.setReg r (a.reg r + 1)
  | _ =>
    let p := a.rd (a.reg r)
    let (v, fr) := f (a.rd p)
    let a := { (a.wr p v) with fr := fr }
    a.setReg r (a.reg r + 1)

def push (a : Arch) (v : Byte) : Arch :=
  let a := { a with sp := a.sp - 1 }
  a.wr a.sp v

/-- Register-register arithmetic/logic group: `(result, carry)` of `op` on destination value `d`
and source value `s` with carry-in `cin`. Pages 6-D. -/
def rrOp (page : Nat) (d s : Byte) (cin : Bool) : Byte × Bool :=
  match page with
  | 6 => (d + s, decide (d.toNat + s.toNat ≥ 256))                                   -- ADD
  | 7 => (d + s + (if cin then 1#8 else 0#8), decide (d.toNat + s.toNat + (if cin then 1 else 0) ≥ 256)) -- ADC
  | 8 => (d - s, decide (d.toNat < s.toNat))                                         -- SUB: borrow
  | 9 => (d &&& s, false)                                                            -- AND
  | 10 => (d ||| s, false)                                                           -- OR
  | 11 => (BitVec.ofNat 8 (d.toNat * s.toNat), decide (d.toNat * s.toNat > 255))     -- MUL
  | 12 => if s = 0#8 then (0xFF#8, true) else (BitVec.ofNat 8 (d.toNat / s.toNat), false) -- DIV
  | _ => (d ^^^ s, false)                                                            -- XOR

/-- Second opcode byte of the two-byte forms: what is done with source value `v`. -/
def second (a : Arch) (b2 : Nat) (v : Byte) : Option Arch :=
  let mode := b2 / 4 % 4
  let r := b2 % 4
  match b2 / 16 with
  | 1 =>  -- MOV dst, src
    match mode with
    | 0 => some (a.setReg r v)
    | 1 => some (a.wr (a.reg r) v)
    | 2 => some ((a.wr (a.reg r) v).setReg r (a.reg r + 1))
    | _ => some ((a.wr (a.rd (a.reg r)) v).setReg r (a.reg r + 1))
  | 2 =>  -- CMP dst, src: flags of dst - src
    let (a', d, _) := operand a mode r
    some { a' with fr := flagsOf a.fr (decide (d.toNat < v.toNat)) (d - v) }
  | 3 =>  -- BITT dst, src: flags of dst AND src
    let (a', d, _) := operand a mode r
    some { a' with fr := flagsOf a.fr false (v &&& d) }
  | 4 =>
    if b2 = 0x40 then some { a with sp := v, fr := flagsOf a.fr false v }   -- LDSP (sets Z/N, clears C)
    else if b2 = 0x44 then some { a with fr := v }                          -- LDFR
    else none
  | 5 => some (rmw a mode r fun d => (d ||| v, flagsOf a.fr false (d ||| v)))       -- BITS
  | 6 => some (rmw a mode r fun d => (d &&& ~~~v, flagsOf a.fr false (d &&& ~~~v))) -- BITC
  | _ => none

/-- Execute the instruction whose first byte `op` has been fetched (PC already points behind it). -/
def exec (a : Arch) (op : Nat) : Option Arch :=
  let lo := op % 4
  let hi := op / 4 % 4
  match op / 16 with
  | 0 =>
    match hi with
    | 0 => some a                                  -- NOP (0x00 and 0x01 also halt the machine: C05)
    | 1 => some (a.setReg lo 0#8)                  -- CLR
    | 2 => some { a with fr := a.fr ||| 0xF8#8 }   -- EI
    | _ => some { a with fr := a.fr &&& 0x07#8 }   -- DI
  | 1 =>
    match hi with
    | 0 => some (push a (a.reg lo))                                          -- PUSH Rn
    | 1 => some ({ (a.setReg lo (a.rd a.sp)) with sp := a.sp + 1 })          -- POP Rn (0x17 = RET)
    | 2 => some (push a a.fr)                                                -- PUSHF
    | _ => some { a with fr := a.rd a.sp, sp := a.sp + 1 }                   -- POPF
  | 2 =>
    if op < 0x28 then
      -- JR cond, offset: bit 2 inverts the condition selected by bits 1..0 (always / C / Z / N)
      let c := match lo with | 0 => true | 1 => flagC a.fr | 2 => flagZ a.fr | _ => flagN a.fr
      let taken := (hi % 2 == 1) != c
      if taken then some { a with pc := a.rd a.pc + a.pc + 1 } else some { a with pc := a.pc + 1 }
    else if op < 0x2C then
      -- CALL adr: push the return address, jump to the address stored behind the opcode
      let t := a.pc
      let a := push a (t + 1)
      some { a with pc := a.rd t }
    else
      -- RETI: pop PC, pop FR; the emulator also clears the key-interrupt bits of the interrupt status
      -- register when it decodes RETI (before the pops)
      let a := if op = 0x2C then { a with bus := { a.bus with misr := a.bus.misr &&& 0xEF#8 &&& 0xFE#8 } } else a
      some { a with pc := a.rd a.sp, fr := a.rd (a.sp + 1), sp := a.sp + 1 + 1 }
  | 3 =>
    let v := a.reg lo
    match hi with
    | 0 => some { (a.setReg lo (~~~v)) with fr := flagsOf a.fr false (~~~v) }               -- COM
    | 1 => some { (a.setReg lo (0#8 - v)) with fr := flagsOf a.fr (v == 0#8) (0#8 - v) }   -- NEG
    | 2 => some { (a.setReg lo (v >>> 1)) with fr := flagsOf a.fr (v &&& 1#8 != 0#8) (v >>> 1) } -- LSR
    | _ => some { (a.setReg lo ((v >>> 1) ||| (v &&& 0x80#8))) with
                  fr := flagsOf a.fr (v &&& 1#8 != 0#8) ((v >>> 1) ||| (v &&& 0x80#8)) }     -- ASR
  | 4 =>
    let v := a.reg lo
    match hi with
    | 0 =>
      let r := (v >>> 1) ||| (if flagC a.fr then 0x80#8 else 0#8)
      some { (a.setReg lo r) with fr := flagsOf a.fr (v &&& 1#8 != 0#8) r }                 -- RRC
    | 1 => some { (a.setReg lo (v + 1)) with fr := flagsOf a.fr (v == 0xFF#8) (v + 1) }     -- INC
    | 2 => some { a with fr := flagsOf a.fr false v }                                       -- TST
    | _ => none
  | 5 => some (rmw a hi lo fun d => (d - 1, flagsOf a.fr (d == 0#8) (d - 1)))              -- DEC (borrow in C)
  | 14 => none
  | 15 =>
    -- two-byte forms: general source operand, then the second opcode byte
    let (a1, v, _) := operand a hi lo
    let b2 := (a1.rd a1.pc).toNat
    second { a1 with pc := a1.pc + 1 } b2 v
  | page =>
    let d := a.reg lo
    let s := a.reg hi
    let (r, c) := rrOp page d s (flagC a.fr)
    some { (a.setReg lo r) with fr := flagsOf a.fr c r }

/-- One instruction: fetch the first byte at PC, advance PC, execute. -/
def step (a : Arch) : Option Arch :=
  exec { a with pc := a.pc + 1 } (a.rd a.pc).toNat

/-- Interrupt entry between two instructions: push FR, push PC, clear the upper flag-register bits
(interrupts disabled), continue at address 2. -/
def intEntry (a : Arch) : Arch :=
  let a1 := push a a.fr
  let a2 := push a1 a1.pc
  { a2 with fr := a2.fr &&& 0x07#8, pc := 2#8 }

end Emu2a.Isa
