/-
C12 specification: what a run with budget N and interrupt / reset schedules ends in, written as the
property states it (recursion on the budget, no loop), expectation matching as a list of stated
expectations, and the command line's exit status / printed values.
-/
import Emu2a.Model.Runner
namespace Emu2a.RunSpec
open Emu2a Emu2a.Runner

/-- The schedule-driven state sequence: `stateAt 0` is the freshly built machine, and cycle `i` applies
the interrupt and/or CPU reset scheduled for `i`, then one clock edge. -/
def stateAt (ints resets : List Nat) (m0 : Machine) : Nat → Machine
  | 0 => m0
  | i + 1 => cycle ints resets i (stateAt ints resets m0 i)

/-- Recursion on the budget.  One more cycle of budget changes the outcome only if the previous
budget was used up with the machine still Running (budget 0 issues no edge at all). -/
def specRun (ints resets : List Nat) (m0 : Machine) : Nat → Machine × Nat
  | 0 => (m0, 0)
  | n + 1 =>
    let (m, k) := specRun ints resets m0 n
    if k = n ∧ (k = 0 ∨ m.run = .running) then (cycle ints resets n m, n + 1) else (m, k)

/-- Stated expectations as a list of (kind, expected, found) in the order state, FE, FF. -/
def stated (e : Expect) (m : Machine) : List (VErr × Bool) :=
  (match e.state with | some s => [(VErr.state, s = m.run)] | none => []) ++
  (match e.fe with | some v => [(VErr.fe, v = m.core.bus.outFE)] | none => []) ++
  (match e.ff with | some v => [(VErr.ff, v = m.core.bus.outFF)] | none => [])

/-- Verification fails with the first stated expectation that does not hold. -/
def verifySpec (e : Expect) (m : Machine) : Option VErr :=
  ((stated e m).find? (fun p => !p.2)).map (·.1)

end Emu2a.RunSpec
