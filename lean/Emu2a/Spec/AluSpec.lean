/-
C08 specification: the documented ALU functions in arithmetic form (numbers, not bit tricks).
-/
import Emu2a.Model.Alu
namespace Emu2a

/-- Result and carry-out of function `f` (number = MALUS3..0) as arithmetic on `0..255`. -/
def aluSpecRaw (f : Nat) (a b : Byte) (cin : Bool) : Byte × Bool :=
  let A := a.toNat
  let B := b.toNat
  let ci := if cin then 1 else 0
  let nci := if cin then 0 else 1
  match f with
  | 0  => (BitVec.ofNat 8 (A + B), cin || decide (A + B ≥ 256))           -- ADDH: carry-holding add
  | 1  => (a, false)                                                      -- A
  | 2  => (BitVec.ofNat 8 (255 - (A ||| B)), false)                       -- NOR
  | 3  => (0#8, false)                                                    -- ZERO
  | 4  => (BitVec.ofNat 8 (A + B), decide (A + B ≥ 256))                  -- ADD
  | 5  => (BitVec.ofNat 8 (A + B + 1), !decide (A + B + 1 ≥ 256))         -- ADDS: a - ~b, borrow in carry
  | 6  => (BitVec.ofNat 8 (A + B + ci), decide (A + B + ci ≥ 256))        -- ADC
  | 7  => (BitVec.ofNat 8 (A + B + nci), !decide (A + B + nci ≥ 256))     -- ADCS
  | 8  => (BitVec.ofNat 8 (A / 2), decide (A % 2 = 1))                    -- LSR
  | 9  => (BitVec.ofNat 8 (A / 2 + 128 * (A % 2)), decide (A % 2 = 1))    -- RR
  | 10 => (BitVec.ofNat 8 (A / 2 + 128 * ci), decide (A % 2 = 1))         -- RRC
  | 11 => (BitVec.ofNat 8 (A / 2 + 128 * (A / 128)), decide (A % 2 = 1))  -- ASR
  | 12 => (b, false)                                                      -- B (clear carry)
  | 13 => (b, true)                                                       -- SETC
  | 14 => (b, cin)                                                        -- BH (hold carry)
  | _  => (b, !cin)                                                       -- INVC

def aluSpec (f : Nat) (a b : Byte) (cin : Bool) : AluOut :=
  let r := aluSpecRaw f a b cin
  { out := r.1, c := r.2, z := decide (r.1.toNat = 0), n := decide (r.1.toNat ≥ 128) }

end Emu2a
