/-
The defined opcode sets of the Minirechner 2a instruction set (what the assembler can emit plus
the documented encodings), used by C01, C09, C11 and C15.
-/
namespace Emu2a.Isa

/-- First bytes with a defined meaning: everything except 0x4C-0x4F and 0xE0-0xEF. -/
def definedFirst (op : Nat) : Bool := !((0x4C ≤ op && op ≤ 0x4F) || (0xE0 ≤ op && op ≤ 0xEF))

/-- Second bytes of the two-byte forms (first byte 0xF0-0xFF): MOV 0x1x, CMP 0x2x, BITT 0x3x,
LDSP 0x40, LDFR 0x44, BITS 0x5x, BITC 0x6x. -/
def definedSecond (b : Nat) : Bool :=
  (0x10 ≤ b && b ≤ 0x3F) || b == 0x40 || b == 0x44 || (0x50 ≤ b && b ≤ 0x6F)

def definedSeconds : List Nat := (List.range 256).filter definedSecond

def isMul (op : Nat) : Bool := 0xB0 ≤ op && op ≤ 0xBF
def isDiv (op : Nat) : Bool := 0xC0 ≤ op && op ≤ 0xCF

end Emu2a.Isa
