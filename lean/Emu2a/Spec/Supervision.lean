/-
C05 specification: when the machine halts, in the property's own terms (band numbers written out).
-/
import Emu2a.Model.Machine
namespace Emu2a.SupSpec
open Emu2a

/-- Stack pointer allowed: below 0xF0 and outside the forbidden band of the configured stack size. -/
def spOK (ss : Stacksize) (sp : Nat) : Bool :=
  decide (sp < 0xF0) &&
  match ss with
  | .s0 => true
  | .s16 => !(decide (0xD1 ≤ sp) && decide (sp ≤ 0xDE))
  | .s32 => !(decide (0xC1 ≤ sp) && decide (sp ≤ 0xCE))
  | .s48 => !(decide (0xB1 ≤ sp) && decide (sp ≤ 0xBE))
  | .s64 => !(decide (0xA1 ≤ sp) && decide (sp ≤ 0xAE))
  | .notSet => true

/-- Program counter allowed: not above the program size limit (no program loaded: only 0). -/
def pcOK (ps : Programsize) (pc : Nat) : Bool :=
  match ps with
  | .size n => decide (pc ≤ n)
  | _ => decide (pc = 0)

/-- The halt state after one clock edge, from what can be observed around the edge:
`pre` state, whether a memory wait was pending, whether a register write was committed (`wrote`) and
the SP/PC after it, whether the edge loaded the instruction register (`loads`) with byte `lb`. -/
def runAfter (pre : RunState) (wait wrote : Bool) (sp pc : Nat) (ss : Stacksize) (ps : Programsize)
    (loads : Bool) (lb : Nat) : RunState :=
  if pre ≠ .running then pre
  else if wait then .running
  else
    let breaks := wrote && (!spOK ss sp || !pcOK ps pc)
    if breaks || (loads && lb == 0) then .error
    else if loads && lb == 1 then .stopped
    else .running

end Emu2a.SupSpec
