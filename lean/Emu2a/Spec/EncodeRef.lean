/-
C02 specification: the documented encoding of mrasm programs, as a two-pass reference assembler.
Pass 1 lays the program out from address 0 and collects the symbol table; pass 2 encodes each line
with all symbols known.  (The translator in compiler.rs is one-pass with placeholders.)
-/
import Emu2a.Model.Compile
namespace Emu2a.Asm.Ref

/-- Addressing-mode field (bits 3..2) and register field (bits 1..0) of a general operand,
and the operand byte that follows it (a constant or an absolute address), if any. -/
structure Operand where
  mode : Nat
  reg : Nat
  extra : Option Const

def ofSrc : Src → Operand
  | .reg r => ⟨0, r.num, none⟩
  | .mem (.reg r) => ⟨1, r.num, none⟩
  | .di r => ⟨2, r.num, none⟩
  | .ddi r => ⟨3, r.num, none⟩
  | .const c => ⟨2, 3, some c⟩            -- (PC+): the constant follows the opcode
  | .mem (.const c) => ⟨3, 3, some c⟩     -- ((PC+)): the address follows the opcode
def ofDst : Dst → Operand
  | .reg r => ⟨0, r.num, none⟩
  | .mem (.reg r) => ⟨1, r.num, none⟩
  | .di r => ⟨2, r.num, none⟩
  | .ddi r => ⟨3, r.num, none⟩
  | .mem (.const c) => ⟨3, 3, some c⟩

def Operand.field (o : Operand) : Nat := 4 * o.mode + o.reg
def Operand.len (o : Operand) : Nat := if o.extra.isSome then 1 else 0

/-- Number of bytes a line occupies when it starts at address `cur`. -/
def size (cur : Nat) : Instr → Nat
  | .org a => a - cur
  | .byte n => n
  | .db bs => bs.length
  | .dw ws => 2 * ws.length
  | .equ _ _ | .stacksize _ | .programsize _ => 0
  | .dec s => 1 + (ofSrc s).len
  | .bits d s | .bitc d s | .cmp d s | .bitt d s | .mov d s => 2 + (ofSrc s).len + (ofDst d).len
  | .ldConst _ c => 2 + (ofSrc (.const c)).len
  | .ldMem _ m => 2 + (ofSrc (.mem m)).len
  | .st m _ => 2 + (ofDst (.mem m)).len
  | .ldsp s | .ldfr s => 2 + (ofSrc s).len
  | .jmp _ => 3
  | .jcs _ | .jcc _ | .jzs _ | .jzc _ | .jns _ | .jnc _ | .jr _ | .call _ => 2
  | _ => 1

def lineSize (cur : Nat) : Line → Nat
  | .instr i _ => size cur i
  | _ => 0

/-- Symbol definitions of a line starting at `cur`: a label names the address of the byte that
follows it, `.EQU` a constant; names are case-insensitive. -/
def defs (cur : Nat) : Line → List (String × Nat)
  | .label l _ => [(lower l, cur)]
  | .instr (.equ l n) _ => [(lower l, n)]
  | _ => []

/-- Pass 1: start address of every line and the symbol table (later definitions win). -/
def pass1 : Nat → List Line → List Nat × Labels
  | _, [] => ([], [])
  | cur, l :: ls =>
    let (as, tbl) := pass1 (cur + lineSize cur l) ls
    (cur :: as, tbl ++ defs cur l)

def value (tbl : Labels) : Const → Option Nat
  | .num n => some n
  | .label l => tbl.find (lower l)

def extraBytes (tbl : Labels) (o : Operand) : Option (List Nat) :=
  match o.extra with
  | none => some []
  | some c => (value tbl c).map fun v => [v]

/-- Two-operand forms: prefix byte 0xF0 + source field, source operand byte, second opcode
`b2` + destination field, destination operand byte. -/
def twoOperand (tbl : Labels) (b2 : Nat) (d : Operand) (s : Operand) : Option (List Nat) := do
  let se ← extraBytes tbl s
  let de ← extraBytes tbl d
  pure ([0xF0 + s.field] ++ se ++ [b2 + d.field] ++ de)

def relative (tbl : Labels) (cond : Nat) (l : String) (cur : Nat) : Option (List Nat) :=
  (tbl.find (lower l)).map fun target => [0x20 + cond, (target + 256 - (cur + 2) % 256) % 256]

/-- Pass 2: the bytes of one instruction at address `cur`. -/
def encode (tbl : Labels) (cur : Nat) : Instr → Option (List Nat)
  | .org a => some (List.replicate (a - cur) 0)
  | .byte n => some (List.replicate n 0)
  | .db bs => some bs
  | .dw ws => some (ws.flatMap fun w => [w / 256, w % 256])          -- big-endian
  | .equ _ _ | .stacksize _ | .programsize _ => some []
  | .clr r => some [0x04 + r.num]
  | .add d s => some [0x60 + 4 * s.num + d.num]
  | .adc d s => some [0x70 + 4 * s.num + d.num]
  | .sub d s => some [0x80 + 4 * s.num + d.num]
  | .and d s => some [0x90 + 4 * s.num + d.num]
  | .or d s => some [0xA0 + 4 * s.num + d.num]
  | .mul d s => some [0xB0 + 4 * s.num + d.num]
  | .div d s => some [0xC0 + 4 * s.num + d.num]
  | .xor d s => some [0xD0 + 4 * s.num + d.num]
  | .lsl r => some [0x60 + 4 * r.num + r.num]                           -- ADD r, r
  | .rlc r => some [0x70 + 4 * r.num + r.num]                           -- ADC r, r
  | .com r => some [0x30 + r.num]
  | .neg r => some [0x34 + r.num]
  | .lsr r => some [0x38 + r.num]
  | .asr r => some [0x3C + r.num]
  | .rrc r => some [0x40 + r.num]
  | .inc r => some [0x44 + r.num]
  | .tst r => some [0x48 + r.num]
  | .dec s => (extraBytes tbl (ofSrc s)).map fun e => [0x50 + (ofSrc s).field] ++ e
  | .push r => some [0x10 + r.num]
  | .pop r => some [0x14 + r.num]
  | .pushf => some [0x18]
  | .popf => some [0x1C]
  | .mov d s => twoOperand tbl 0x10 (ofDst d) (ofSrc s)
  | .ldConst r c => twoOperand tbl 0x10 (ofDst (.reg r)) (ofSrc (.const c))
  | .ldMem r m => twoOperand tbl 0x10 (ofDst (.reg r)) (ofSrc (.mem m))
  | .st m r => twoOperand tbl 0x10 (ofDst (.mem m)) (ofSrc (.reg r))
  | .cmp d s => twoOperand tbl 0x20 (ofDst d) (ofSrc s)
  | .bitt d s => twoOperand tbl 0x30 (ofDst d) (ofSrc s)
  | .bits d s => twoOperand tbl 0x50 (ofDst d) (ofSrc s)
  | .bitc d s => twoOperand tbl 0x60 (ofDst d) (ofSrc s)
  | .ldsp s => (extraBytes tbl (ofSrc s)).map fun e => [0xF0 + (ofSrc s).field] ++ e ++ [0x40]
  | .ldfr s => (extraBytes tbl (ofSrc s)).map fun e => [0xF0 + (ofSrc s).field] ++ e ++ [0x44]
  | .jmp l => (tbl.find (lower l)).map fun t => [0xFB, t, 0x13]         -- MOV PC, address
  | .jr l => relative tbl 0 l cur
  | .jcs l => relative tbl 1 l cur
  | .jzs l => relative tbl 2 l cur
  | .jns l => relative tbl 3 l cur
  | .jcc l => relative tbl 5 l cur
  | .jzc l => relative tbl 6 l cur
  | .jnc l => relative tbl 7 l cur
  | .call l => (tbl.find (lower l)).map fun t => [0x28, t]
  | .ret => some [0x17]
  | .reti => some [0x2C]
  | .stop => some [0x01]
  | .nop => some [0x02]
  | .ei => some [0x08]
  | .di => some [0x0C]

def encodeLine (tbl : Labels) (cur : Nat) : Line → Option (List Nat)
  | .instr i _ => encode tbl cur i
  | _ => some []

/-- Last `*STACKSIZE` / `*PROGRAMSIZE` setting (defaults 16 / AUTO). -/
def settings (ls : List Line) : SSize × PSize :=
  ls.foldl (fun (sp : SSize × PSize) l =>
    match l with
    | .instr (.stacksize x) _ => (x, sp.2)
    | .instr (.programsize x) _ => (sp.1, x)
    | _ => sp) (.s16, .auto)

/-- Pass 2 over all lines (with the start addresses of pass 1). -/
def encodeLines (tbl : Labels) : List Line → List Nat → Option (List (Line × List Nat))
  | l :: ls, a :: as =>
    match encodeLine tbl a l, encodeLines tbl ls as with
    | some bs, some rest => some ((l, bs) :: rest)
    | _, _ => none
  | _, _ => some []

/-- The reference assembly of a program: every line with exactly its bytes, and the settings.
`none` when a referenced symbol is undefined. -/
def assemble (p : Program) : Option ByteCode :=
  let (addrs, tbl) := pass1 0 p.lines
  match encodeLines tbl p.lines addrs with
  | some ls =>
    let (s, q) := settings p.lines
    some ⟨ls, s, q⟩
  | none => none

/-- The layout is legal: no `.ORG` points below the current address and the image fits into the
8-bit address counter. -/
def wellLaidOut : Nat → List Line → Bool
  | cur, [] => decide (cur < 256)
  | cur, l :: ls =>
    (match l with | .instr (.org a) _ => decide (cur ≤ a) | _ => true) &&
    decide (cur + lineSize cur l < 256) && (match l with | .instr i _ => decide (size cur i < 256) | _ => true) &&
    wellLaidOut (cur + lineSize cur l) ls

end Emu2a.Asm.Ref
