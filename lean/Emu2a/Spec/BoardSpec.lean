/-
C14 specification: the MR2DA2 board as pins, ports and configuration (Booleans and bytes), with the
status registers *derived* from them.
-/
import Emu2a.Model.Board
namespace Emu2a

structure BSpec where
  j1 : Bool
  j2 : Bool
  fan : Bool
  u1 : Bool
  u2 : Bool
  u3 : Bool
  di1 : Byte
  do1 : Byte
  do2 : Byte
  temp : F32.Bits
  ai1 : F32.Bits
  ai2 : F32.Bits
  icr : Byte        -- interrupt control register, 6 bits
  dir1 : Bool       -- true = output
  dir2 : Bool
  dir3 : Bool
  ff : Bool         -- interrupt flip-flop
  src : Bool        -- source flag
  deriving DecidableEq, Repr

namespace BSpec

def new : BSpec :=
  ⟨false, false, false, false, false, false, 0, 0, 0, 0, 0, 0, 0, false, false, false, false, false⟩

/-- DAC output voltage: written byte / 100 (correctly rounded binary32). -/
def volt (b : Byte) : F32.Bits := Board.dacVolt b

/-- Comparator outputs: analog input above the DAC voltage; comparator 2 sees the larger of
analog input 2 and the temperature sensor. -/
def comp1 (s : BSpec) : Bool := F32.gt s.ai1 (volt s.do1)
def comp2 (s : BSpec) : Bool := F32.gt (F32.max s.temp s.ai2) (volt s.do2)

/-- Selected interrupt source (low three bits of the control register) and edge direction (bit 3). -/
def source (s : BSpec) : Nat := (s.icr &&& 7#8).toNat
def falling (s : BSpec) : Bool := s.icr &&& 8#8 != 0#8

/-- Does source number `n` fire when its signal goes from `old` to `new`? -/
def fires (s : BSpec) (n : Nat) (old new : Bool) : Bool :=
  decide (source s = n) && (if falling s then old && !new else !old && new)

def raise (s : BSpec) (b : Bool) : BSpec := if b then { s with ff := true, src := true } else s

/-- Clamp of externally applied voltages: 0-5 V, non-numbers 0 V. -/
def clampV (v : F32.Bits) : F32.Bits := Board.clamp v

/-! External changes -/
def setDi1 (s : BSpec) (v : Byte) : BSpec := { s with di1 := v }
def setJ1 (s : BSpec) (p : Bool) : BSpec := raise { s with j1 := p } (fires s 6 s.j1 p)
def setJ2 (s : BSpec) (p : Bool) : BSpec := { s with j2 := p }
def setUio1 (s : BSpec) (v : Bool) : BSpec := if s.dir1 then s else raise { s with u1 := v } (fires s 1 s.u1 v)
def setUio2 (s : BSpec) (v : Bool) : BSpec := if s.dir2 then s else raise { s with u2 := v } (fires s 2 s.u2 v)
def setUio3 (s : BSpec) (v : Bool) : BSpec := if s.dir3 then s else raise { s with u3 := v } (fires s 3 s.u3 v)
def setAi1 (s : BSpec) (v : F32.Bits) : BSpec :=
  let s' := { s with ai1 := clampV v }
  raise s' (fires s 4 (comp1 s) (comp1 s'))
def setAi2 (s : BSpec) (v : F32.Bits) : BSpec :=
  let s' := { s with ai2 := clampV v }
  raise s' (fires s 5 (comp2 s) (comp2 s'))
def setTemp (s : BSpec) (v : F32.Bits) : BSpec :=
  let s' := { s with temp := clampV v }
  raise s' (fires s 5 (comp2 s) (comp2 s'))

/-! Port writes 0xF0-0xF3 -/
def writeF0 (s : BSpec) (v : Byte) : BSpec :=
  let s' := { s with do1 := v, fan := true }
  raise s' (fires s 4 (comp1 s) (comp1 s'))
def writeF1 (s : BSpec) (v : Byte) : BSpec :=
  let s' := { s with do2 := v }
  raise s' (fires s 5 (comp2 s) (comp2 s'))
def writeF2 (s : BSpec) (v : Byte) : BSpec :=
  match (v &&& 0xC0#8).toNat / 64 with
  | 0 => { s with u1 := v &&& 1#8 != 0#8, u2 := v &&& 2#8 != 0#8, u3 := v &&& 4#8 != 0#8 }
  | 1 => s
  | 2 => { s with dir1 := v &&& 1#8 != 0#8, dir2 := v &&& 2#8 != 0#8, dir3 := v &&& 4#8 != 0#8 }
  | _ => { s with icr := v &&& 0x3F#8, ff := false }
def writeF3 (s : BSpec) : BSpec := { s with ff := false }

/-! Derived registers -/
def bit (b : Bool) (m : Byte) : Byte := if b then m else 0#8

/-- Status register read at 0xF1. -/
def dasr (s : BSpec) : Byte :=
  bit s.j2 0x80#8 ||| bit s.j1 0x40#8 ||| bit s.fan 0x20#8 ||| bit (comp2 s) 0x10#8 ||| bit (comp1 s) 0x08#8 |||
  bit s.u3 0x04#8 ||| bit s.u2 0x02#8 ||| bit s.u1 0x01#8

/-- Interrupt status register read at 0xF3. -/
def daisr (s : BSpec) : Byte := bit s.ff 0x02#8 ||| bit s.src 0x01#8

/-- Fan period register read at 0xF2: 255 - 255 * V / 2.55 V (see `fan_period_law`). -/
def fanPeriod (s : BSpec) : Byte := (Board.setDo1 Board.new s.do1).fanPeriod

end BSpec

inductive BoardOp
  | w0 (v : Byte) | w1 (v : Byte) | w2 (v : Byte) | w3 (v : Byte)
  | di1 (v : Byte) | temp (v : F32.Bits) | ai1 (v : F32.Bits) | ai2 (v : F32.Bits)
  | j1 (p : Bool) | j2 (p : Bool) | uio1 (v : Bool) | uio2 (v : Bool) | uio3 (v : Bool)
  deriving Repr

def BSpec.apply (s : BSpec) : BoardOp → BSpec
  | .w0 v => s.writeF0 v | .w1 v => s.writeF1 v | .w2 v => s.writeF2 v | .w3 _ => s.writeF3
  | .di1 v => s.setDi1 v | .temp v => s.setTemp v | .ai1 v => s.setAi1 v | .ai2 v => s.setAi2 v
  | .j1 p => s.setJ1 p | .j2 p => s.setJ2 p | .uio1 v => s.setUio1 v | .uio2 v => s.setUio2 v | .uio3 v => s.setUio3 v

/-- The same operations on the board model (port writes as `Bus::write` dispatches them). -/
def Board.apply (b : Board) : BoardOp → Board
  | .w0 v => b.setDo1 v
  | .w1 v => b.setDo2 v
  | .w2 v =>
    match (v &&& 0xC0#8).toNat / 64 with
    | 0 => b.setUor v | 1 => b | 2 => b.setUdr v | _ => b.setIcr v
  | .w3 _ => b.deleteIntFf
  | .di1 v => b.setDi1 v | .temp v => b.setTemp v | .ai1 v => b.setAi1 v | .ai2 v => b.setAi2 v
  | .j1 p => b.setJ1 p | .j2 p => b.setJ2 p | .uio1 v => b.setUio1 v | .uio2 v => b.setUio2 v | .uio3 v => b.setUio3 v

end Emu2a
