/-
C17 specification: the documented command language, written independently of the nom grammar
(token based instead of combinator based), and the documented effect of commands and keys on the
machine.  The line editor itself has no specification beyond its invariants (cursor inside the
text, no panic): which text is submitted is taken from the editor.
-/
import Emu2a.Model.Tui
namespace Emu2a.TuiSpec
open Emu2a Emu2a.Tui

def isBlank (c : Char) : Bool := c = ' ' || c = '\t'

def lower (s : List Char) : List Char := s.map lowerC

/-- Split at blanks; every `=` is a token of its own. -/
def tokens (line : List Char) : List (List Char) :=
  let spaced := line.flatMap fun c => if c = '=' then [' ', '=', ' '] else [c]
  let rec go (cur : List Char) (acc : List (List Char)) : List Char → List (List Char)
    | [] => (if cur.isEmpty then acc else cur.reverse :: acc).reverse
    | c :: cs => if isBlank c then go [] (if cur.isEmpty then acc else cur.reverse :: acc) cs else go (c :: cur) acc cs
  go [] [] spaced

def digitsValue (base : Nat) (ds : List Char) : Option Nat :=
  if ds.isEmpty then none else
  ds.foldl (fun acc c => acc.bind fun a => (Parse.digitVal c).bind fun d => if d < base then some (a * base + d) else none) (some 0)

/-- A byte value in decimal, `0x` or `0b` notation (prefix in either case); more than 255 is no value. -/
def byteValue (tok : List Char) : Option Nat :=
  let v := match lower (tok.take 2), tok.drop 2 with
    | ['0', 'x'], ds => if ds.all Tui.isHex then digitsValue 16 ds else none
    | ['0', 'b'], ds => if ds.all Tui.isBit then digitsValue 2 ds else none
    | _, _ => if tok.all Tui.isDigit then digitsValue 10 tok else none
  v.bind fun n => if n < 256 then some n else none

def floatValue (tok : List Char) : Option (Option F32.Bits) :=   -- none: outside the modelled float syntax
  match Tui.floatLit tok with
  | .ok b [] => some (some b)
  | .ok _ _ => some none
  | .fail => some none
  | .unknown => none

def regOf : List Char → Option Nat
  | ['f', 'c'] => some 0 | ['f', 'd'] => some 1 | ['f', 'e'] => some 2 | ['f', 'f'] => some 3 | _ => none

def pinOf (name : List Char) (b : Bool) : Option Cmd :=
  match String.ofList name with
  | "j1" => some (.j1 b) | "j2" => some (.j2 b)
  | "uio1" => some (.uio1 b) | "uio2" => some (.uio2 b) | "uio3" => some (.uio3 b)
  | _ => none

def eqTok : List Char := ['=']

/-- The documented command language. -/
def parse (line : List Char) : ParseRes :=
  let body := line.dropWhile isBlank
  -- `load PATH`: everything after the blanks following the keyword, verbatim
  if lower (body.take 4) = "load".toList ∧ (body.drop 4).head?.any isBlank then
    .cmd (.load ((body.drop 4).dropWhile isBlank))
  else
    let toks := tokens body
    let kw := toks.map lower
    let byteCmd (mk : Nat → Cmd) (v : List Char) : ParseRes :=
      match byteValue v with | some n => .cmd (mk n) | none => .invalid
    let floatCmd (mk : F32.Bits → Cmd) (v : List Char) : ParseRes :=
      match floatValue v with | some (some b) => .cmd (mk b) | some none => .invalid | none => .unknown
    match kw, toks with
    | [r, e], _ =>
      if r = "set".toList then (match pinOf e true with | some c => .cmd c | none => .invalid)
      else if r = "unset".toList then (match pinOf e false with | some c => .cmd c | none => .invalid)
      else if r = "show".toList then
        (if e = "register".toList then .cmd (.show false) else if e = "memory".toList then .cmd (.show true) else .invalid)
      else if r = "next".toList then
        (if e.all Tui.isDigit then (match digitsValue 10 e with
          | some n => if n < 2 ^ 64 then .cmd (.next n) else .invalid
          | none => .invalid) else .invalid)
      else .invalid
    | [r, e, _], [_, _, v] =>
      if e = eqTok then (match regOf r with | some i => byteCmd (.reg i) v | none => .invalid) else .invalid
    | [s, r, e, _], [_, _, _, v] =>
      if s = "set".toList ∧ e = eqTok then
        (match regOf r with
         | some i => byteCmd (.reg i) v
         | none =>
           if r = "irg".toList then byteCmd .irg v
           else if r = "temp".toList then floatCmd .temp v
           else if r = "i1".toList then floatCmd .i1 v
           else if r = "i2".toList then floatCmd .i2 v
           else .invalid)
      else .invalid
    | [w], _ =>
      if w = "quit".toList ∨ w = "exit".toList then .cmd .quit
      else if w = "next".toList then .cmd (.next 1)
      else .invalid
    | _, _ => .invalid

/-- The documented effect of the control keys on the machine (library call of the same name). -/
def ctrlKey (c : Char) (m : Machine) : Machine :=
  if c = 'e' then m.keyInterrupt
  else if c = 'r' then m.cpuReset
  else if c = 'l' then m.keyContinue
  else if c = 'w' then { m with mode := if m.mode = .real then .assembly else .real }
  else m

/-- What the session must look like from the machine's side after one key event: the machine and the
notification.  `line` is the text in the input field when the key arrives. -/
def afterEvent (m : Machine) (note : Option Note) (line : List Char) (code : Code) (mods : Mods)
    (fs : String → Option String) : M (Machine × Option Note) :=
  if note.isSome then pure (m, none)                         -- any key only dismisses the notification
  else if mods = { ctrl := true } then
    match code with
    | .key (.char c) => pure (ctrlKey c m, none)
    | _ => pure (m, none)
  else
    match code with
    | .key .enter =>
      if line.isEmpty then do let m' ← Tui.keyClock m; pure (m', none)      -- the clock key
      else
        match parse line with
        | .invalid => pure (m, some (.invalid (String.ofList line)))         -- rejected with a notification
        | .unknown => .error (.unknown "float syntax outside the model")
        | .cmd c => do
          let (st, _) ← Tui.execCmd { m := m } fs c
          pure (st.m, st.note)
    | _ => pure (m, none)

end Emu2a.TuiSpec
