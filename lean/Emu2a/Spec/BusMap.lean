/-
C10 specification: the bus as an abstract address map.  Only what the property talks about:
RAM cells, the four input registers, the two output registers, the interrupt-enable mask, the
interrupt status read at 0xF9 (raised by a key press only, never changed by a write) and the board's
output / input ports.  The other status registers (0xF1-0xF3, 0xFA-0xFB reads) are not determined here.
-/
import Emu2a.Model.Bus
namespace Emu2a

structure BusSpec where
  ram : Vector Byte 240
  in0 : Byte
  in1 : Byte
  in2 : Byte
  in3 : Byte
  outFE : Byte
  outFF : Byte
  mask : Byte
  status : Byte
  do1 : Byte
  do2 : Byte
  di1 : Byte
  deriving DecidableEq, Repr

namespace BusSpec

def new : BusSpec :=
  ⟨Vector.replicate 240 0#8, 0, 0, 0, 0, 0, 0, 0, 0, 0, 0, 0⟩

/-- A write reaches exactly one cell / register of the map, or nothing the map records. -/
def write (s : BusSpec) (a v : Byte) : BusSpec :=
  if h : a.toNat < 240 then { s with ram := s.ram.set a.toNat v h }
  else if a = 0xF0#8 then { s with do1 := v }
  else if a = 0xF1#8 then { s with do2 := v }
  else if a = 0xF9#8 then { s with mask := v &&& 0x3F#8 }
  else if a = 0xFE#8 then { s with outFE := v }
  else if a = 0xFF#8 then { s with outFF := v }
  else s

/-- The value a read must return where the map determines it (`none`: a status register). -/
def read (s : BusSpec) (a : Byte) : Option Byte :=
  if h : a.toNat < 240 then some (s.ram[a.toNat]'h)
  else if a = 0xF0#8 then some s.di1
  else if a = 0xF9#8 then some s.status
  else if a = 0xFC#8 then some s.in0
  else if a = 0xFD#8 then some s.in1
  else if a = 0xFE#8 then some s.in2
  else if a = 0xFF#8 then some s.in3
  else none

def setInput (s : BusSpec) (i : Nat) (v : Byte) : BusSpec :=
  match i with
  | 0 => { s with in0 := v } | 1 => { s with in1 := v } | 2 => { s with in2 := v } | _ => { s with in3 := v }

def setDi1 (s : BusSpec) (v : Byte) : BusSpec := { s with di1 := v }

/-- The interrupt key is pressed: the status shows the request (bit 0) and, when the key-edge
enable bit of the mask (bit 0) is set, that it is pending (bit 4).  Nothing else raises the status;
no write lowers it (the CPU's RETI does, which is outside the bus operations). -/
def keyIrq (s : BusSpec) : BusSpec :=
  { s with status := s.status ||| 0x01#8 ||| (if s.mask &&& 0x01#8 = 0#8 then 0#8 else 0x10#8) }

end BusSpec

/-- Operations of the bus histories C10 quantifies over. -/
inductive BusOp
  | write (a v : Byte)
  | read (a : Byte)
  | setInput (i : Fin 4) (v : Byte)
  | setDi1 (v : Byte)
  | keyIrq
  deriving DecidableEq, Repr

def BusSpec.apply (s : BusSpec) : BusOp → BusSpec
  | .write a v => s.write a v
  | .read _ => s
  | .setInput i v => s.setInput i.val v
  | .setDi1 v => s.setDi1 v
  | .keyIrq => s.keyIrq

def Bus.setInput (b : Bus) (i : Nat) (v : Byte) : Bus :=
  match i with
  | 0 => { b with inFC := v } | 1 => { b with inFD := v } | 2 => { b with inFE := v } | _ => { b with inFF := v }

/-- The bus part of `trigger_key_edge_interrupt` (see `C10.keyIrq_machine`). -/
def Bus.keyIrq (b : Bus) : Bus :=
  let misr := if b.keyEdgeEnabled then b.misr ||| BitVec.ofNat 8 Gen.C.misrKeyPending else b.misr
  { b with misr := misr ||| BitVec.ofNat 8 Gen.C.misrKeyActive }

def Bus.apply (b : Bus) : BusOp → Bus
  | .write a v => b.write a v
  | .read _ => b          -- `Bus::read` takes `&self`: by type it cannot change the bus
  | .setInput i v => b.setInput i.val v
  | .setDi1 v => { b with board := b.board.setDi1 v }
  | .keyIrq => b.keyIrq

/-- Abstraction map from the concrete bus to the address map. -/
def Bus.abs (b : Bus) : BusSpec :=
  ⟨b.ram, b.inFC, b.inFD, b.inFE, b.inFF, b.outFE, b.outFF, b.micr, b.misr, b.board.do1, b.board.do2, b.board.di1⟩

end Emu2a
