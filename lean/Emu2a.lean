-- This module serves as the root of the `Emu2a` library.
-- Import modules here that should be built as part of the library.
import Emu2a.Basic
