/-
Line-protocol driver: reads one operation per line from stdin, applies it to the model and prints
exactly one result line per operation.  The harness runs the real implementation on the same lines.
-/
import Emu2a.Model.Dump
import Emu2a.Model.Ops
import Emu2a.Spec.AluSpec
import Emu2a.Spec.BusMap
import Emu2a.Spec.Supervision
import Emu2a.Spec.Opcodes
import Emu2a.Spec.Isa
import Emu2a.Spec.BoardSpec
import Emu2a.Model.AstIO
import Emu2a.Spec.EncodeRef
import Emu2a.Model.Build
import Emu2a.Model.Format
import Emu2a.Model.Flow
import Emu2a.Spec.RunSpec
import Emu2a.Spec.TuiSpec
open Emu2a

def stepFuel : Nat := 100000

def parseSS : String → Option Stacksize
  | "0" => some .s0 | "16" => some .s16 | "32" => some .s32 | "48" => some .s48 | "64" => some .s64
  | "N" => some .notSet | _ => none

def parsePS (s : String) : Option Programsize :=
  if s = "A" then some .auto else if s = "N" then some .notSet else
  match s.toNat? with
  | some n => if n < 256 then some (.size n) else none
  | none => none

def byteOf (s : String) : Option Byte := (s.toNat?).bind fun n => if n < 256 then some (BitVec.ofNat 8 n) else none
def boolOf : String → Option Bool | "0" => some false | "1" => some true | _ => none

structure St where
  m : Machine
  bspec : BusSpec := BusSpec.new
  board : BSpec := BSpec.new
  tui : Option Tui.State := none                       -- C17: the session model (none = dead)
  tspec : Option (Machine × Option Tui.Note) := none    -- C17: what the specification says about machine + notification
  tfs : List (String × String) := []                   -- C17: the files the session can load

def Emu2a.BusSpec.str (s : BusSpec) : String :=
  s!"ram={ramHash s.ram} out={hex2 s.outFE}{hex2 s.outFF} in={hex2 s.in0}{hex2 s.in1}{hex2 s.in2}{hex2 s.in3} mask={hex2 s.mask} status={hex2 s.status} do={hex2 s.do1}{hex2 s.do2} di={hex2 s.di1}"

def archOf (m : Machine) : Isa.Arch :=
  let r := m.core.regs
  ⟨r.r0, r.r1, r.r2, r.r3, r.r4, r.r5, m.core.bus⟩

def archStr (a : Isa.Arch) : String :=
  let b := a.bus
  let bd := b.board
  s!"r={hex2 a.r0}{hex2 a.r1}{hex2 a.r2}{hex2 a.pc}{hex2 a.fr}{hex2 a.sp} out={hex2 b.outFE}{hex2 b.outFF} micr={hex2 b.micr} ucr={hex2 b.ucr} us={hex2 b.uartSend} t={b01 b.timer.enabled},{b.timer.div1},{b.timer.div2},{b.timer.div3} bd={hex2 bd.di1}{hex2 bd.do1}{hex2 bd.do2},{hex2 bd.dasr}{hex2 bd.daisr}{hex2 bd.daicr},{bd.ao1},{bd.ao2},{bd.fanRpm},{b01 bd.dir1}{b01 bd.dir2}{b01 bd.dir3} ram={ramHash b.ram}"

/-- Edges with halts lifted (C01 harness runs): until `stop` holds or the fuel is used up. -/
def runLifted (stop : Machine → Bool) : Nat → Machine → Machine
  | 0, m => m
  | fuel + 1, m =>
    if stop m then m else
      let m' := m.clockEdge
      runLifted stop fuel (if m'.run ≠ .running then { m' with run := .running } else m')

def parseResultStr : Parse.Result → String
  | .ok p => "ok " ++ p.str
  | .syntaxError => "syntax"
  | .undefinedLabels ls => "undefined " ++ ",".intercalate ls
  | .tooManyLabels => "toomany"
  | .panic _ => "panic"

def aluStr (o : AluOut) : String := s!"{o.out.toNat} {b01 o.c} {b01 o.z} {b01 o.n}"

def nextHash (addr : Nat) : UInt64 := Id.run do
  let w := Gen.word addr
  let mut h := fnvInit
  for ir in [0:256] do
    for fr in [0:16] do
      for k in [0:16] do
        let a : AluOut := ⟨0, k % 2 == 1, k / 2 % 2 == 1, k / 4 % 2 == 1⟩
        let n := Sig.nextAddr w ir (BitVec.ofNat 8 fr) a (k / 8 % 2 == 1)
        h := fnvStep (fnvStep h (BitVec.ofNat 8 (n / 256))) (BitVec.ofNat 8 (n % 256))
  return h

def aluHash (f a : Nat) : UInt64 := Id.run do
  let mut h := fnvInit
  for b in [0:256] do
    for c in [0:2] do
      let o := alu f (BitVec.ofNat 8 a) (BitVec.ofNat 8 b) (c == 1)
      h := fnvStep (fnvStep h o.out) (BitVec.ofNat 8 ((if o.c then 1 else 0) + (if o.z then 2 else 0) + (if o.n then 4 else 0)))
  return h


/-! C12 helpers -/
def unhexE (s : String) : Option String := if s = "-" then some "" else Asm.unhex s

def natList (s : String) : Option (List Nat) :=
  if s = "-" then some [] else (s.splitOn ",").mapM (·.toNat?)

def mkCfg : List Nat → Option Runner.Config
  | [fc, fd, fe, ff, di1, temp, j1, j2, ai1, ai2, u1, u2, u3] =>
    some { fc := BitVec.ofNat 8 fc, fd := BitVec.ofNat 8 fd, fe := BitVec.ofNat 8 fe, ff := BitVec.ofNat 8 ff,
           di1 := BitVec.ofNat 8 di1, temp := temp, j1 := j1 == 1, j2 := j2 == 1, ai1 := ai1, ai2 := ai2,
           uio1 := u1 == 1, uio2 := u2 == 1, uio3 := u3 == 1 }
  | _ => none

def cfgOf (s : String) : Option Runner.Config := ((s.splitOn ",").mapM String.toNat?).bind mkCfg

def runStateOf : String → Option RunState
  | "R" => some .running | "S" => some .stopped | "E" => some .error | _ => none

def vErrStr (e : Runner.Expect) (m : Machine) : Option Runner.VErr → String
  | none => "ok"
  | some .state => s!"state {(e.state.getD .running).str} {m.run.str}"
  | some .fe => s!"fe {(e.fe.getD 0).toNat} {m.core.bus.outFE.toNat}"
  | some .ff => s!"ff {(e.ff.getD 0).toNat} {m.core.bus.outFF.toNat}"

/-- Result line of a run: the loop transcription (`spec = false`) or the budget-recursive specification. -/
def runnerLine (spec : Bool) (src : String) (c : Runner.Config) (n : Nat) (ints resets : List Nat) : String :=
  match Parse.parse (Parse.defaultFuel src) src with
  | .ok p =>
    match Asm.compile p with
    | .ok b =>
      match Runner.newWithProgram c b with
      | some m0 =>
        let (m, k) := if spec then RunSpec.specRun ints resets m0 n else Runner.run n ints resets m0
        s!"ok k={k} {m.str}"
      | none => "panic"
    | .error _ => "panic"
  | .panic _ => "panic"
  | _ => "syntax"

def optByteText (s : String) : Option (Option (Option Nat)) :=   -- absent / present(parse result)
  if s = "-" then some none
  else if s.startsWith "=" then (unhexE (s.drop 1).toString).map fun t => some (Runner.parseU8 t.toList)
  else none

def cliLine (src : Option String) (n : Nat) (ints resets : List Nat) (bytes : List (Option Nat))
    (rest : List Nat) (withVerify : Bool) (xs : Option RunState) (xfe xff : Option (Option Nat)) : String :=
  -- arguments the command line refuses: any byte text that does not denote a byte
  let badArg := bytes.any (·.isNone) || (xfe == some none) || (xff == some none)
  if badArg then "exit=1" else
  match mkCfg (bytes.map (·.getD 0) ++ rest) with
  | some c =>
    let e : Option Runner.Expect := if withVerify then
        some { state := xs, fe := (xfe.bind id).map (BitVec.ofNat 8), ff := (xff.bind id).map (BitVec.ofNat 8) } else none
    let o := Runner.cli src c n ints resets e
    match o.printed with
    | some (k, mx, st, fe, ff) => s!"exit={o.exit} cycles={k}/{mx} state={st.str} fe={fe.toNat} ff={ff.toNat}"
    | none => s!"exit={o.exit}"
  | none => "bad-op"

/-! C17 helpers -/
def hexStr (s : String) : String := if s.isEmpty then "-" else Asm.hexOf s
def hexChars (cs : List Char) : String := hexStr (String.ofList cs)

def fnvStr (s : String) : UInt64 := s.toUTF8.foldl (fun h b => fnvStep h (BitVec.ofNat 8 b.toNat)) fnvInit

def noteStr : Option Tui.Note → String
  | none => "-"
  | some (.invalid l) => "invalid:" ++ hexStr l
  | some .loadFail => "loadfail"

def tuiDump (t : Tui.State) : String :=
  let e := t.ed
  let comps := match e.comps with
    | none => "-"
    | some (l, i) => s!"{i}:" ++ ",".intercalate (l.map hexChars)
  let last := match e.hist.getLast? with | some l => hexStr l | none => "-"
  let hidx := match e.hidx with | some i => toString i | none => "-"
  s!"in={hexChars e.input} idx={e.idx} hist={e.hist.length}:{last}:{fnvStr ("\n".intercalate e.hist)} hidx={hidx} comps={comps} note={noteStr t.note} part={if t.showMemory then "M" else "R"} auto={b01 t.auto} | {t.m.str}"

def keyOf (code : String) : Option Tui.Code :=
  match code with
  | "enter" => some (.key .enter) | "tab" => some (.key .tab) | "backtab" => some (.key .backtab)
  | "backspace" => some (.key .backspace) | "home" => some (.key .home) | "end" => some (.key .«end»)
  | "left" => some (.key .left) | "right" => some (.key .right) | "up" => some (.key .up) | "down" => some (.key .down)
  | "delete" => some (.key .delete) | "insert" => some .insert | "esc" => some .esc
  | "pageup" => some .pageUp | "pagedown" => some .pageDown | "null" => some .null
  | _ =>
    if code.startsWith "f" then ((code.drop 1).toString.toNat?).map .f
    else if code.startsWith "c" then
      match parseHexBytes (let h := (code.drop 1).toString.toList; if h.length % 2 = 1 then '0' :: h else h) with
      | some bs =>
        let n := bs.foldl (fun a b => a * 256 + b.toNat) 0
        if n.isValidChar then some (.key (.char (Char.ofNat n))) else none
      | none => none
    else none

def modsOf (s : String) : Tui.Mods :=
  { ctrl := s.contains 'c', shift := s.contains 's', alt := s.contains 'a' }

def fcOf (ws : List String) : Option (Option (List String)) :=
  match ws with
  | [] => some none
  | [f] =>
    if f = "fc=" then some (some [])
    else if f.startsWith "fc=" then ((f.drop 3).toString.splitOn ",").mapM unhexE |>.map some
    else none
  | _ => none

def cmdStr : Tui.ParseRes → String
  | .invalid => "invalid"
  | .unknown => "float?"
  | .cmd c => match c with
    | .load p => "load " ++ hexChars p
    | .reg r v => s!"reg {["FC", "FD", "FE", "FF"].getD r "?"} {v}"
    | .irg v => s!"irg {v}"
    | .temp b => s!"temp {b}" | .i1 b => s!"i1 {b}" | .i2 b => s!"i2 {b}"
    | .j1 b => s!"j1 {b01 b}" | .j2 b => s!"j2 {b01 b}"
    | .uio1 b => s!"uio1 {b01 b}" | .uio2 b => s!"uio2 {b01 b}" | .uio3 b => s!"uio3 {b01 b}"
    | .show mem => if mem then "show M" else "show R"
    | .next n => s!"next {n}"
    | .quit => "quit"

def rowStr (row : List Tui.Cell) : String :=
  s!"row={hexChars (row.map (·.sym))} st={String.ofList (row.map (·.mark))}"

def faultStr : Tui.Fault → String
  | .panic _ => "panic" | .nofuel => "nofuel" | .unknown w => "unknown:" ++ w.replace " " "_"

def drawOp (s : St) (full : Bool) (w h : String) : St × String :=
  match s.tui, w.toNat?, h.toNat? with
  | none, _, _ => (s, "dead")
  | some t, some w, some h =>
    match Tui.inputWidth w h with
    | none => (s, "ok small")
    | some iw =>
      match Tui.renderRow iw t.ed.input t.ed.idx with
      | .ok row => (s, if full then "ok " ++ rowStr row else "ok")
      | .error _ => ({ s with tui := none, tspec := none }, "panic")
  | _, _, _ => (s, "bad-op")

def applyOp (s : St) (ws : List String) : St × String :=
  let m := s.m
  let ok (m' : Machine) : St × String := ({ s with m := m' }, "ok")
  let bad : St × String := (s, "bad-op")
  match ws with
  | ["new"] => ({ s with m := Machine.new, bspec := BusSpec.new, board := BSpec.new }, "ok")
  | ["load", ss, ps, hx] =>
    match parseSS ss, parsePS ps, parseHexBytes (if hx = "-" then [] else hx.toList) with
    | some ss, some ps, some img =>
      match m.load img ss ps with
      | some m' => ok m'
      | none => (s, "panic")
    | _, _, _ => bad
  | ["spec.load", ss, ps, hx] =>
    -- the limits a load leaves behind, as the property states them: the program's stack size unless it
    -- sets none, its program size (AUTO = the image length), unchanged when it sets none; machine Running
    match parseSS ss, parsePS ps, parseHexBytes (if hx = "-" then [] else hx.toList) with
    | some ss, some ps, some img =>
      let ss' := if ss = .notSet then m.ss else ss
      let ps' := match ps with | .size n => Programsize.size n | .auto => .size (img.length % 256) | .notSet => m.ps
      match m.load img ss ps with
      | some m' => ({ s with m := m' }, s!"limits ss={ss'.str} ps={ps'.str} run=R")
      | none => (s, "panic")
    | _, _, _ => bad
  | ["edge"] => if m.edgePanics then (s, "panic") else ok m.clockEdge
  | ["edges", n] =>
    match n.toNat? with
    | some n => ok (Nat.rec (motive := fun _ => Machine) m (fun _ acc => acc.clockEdge) n)
    | none => bad
  | ["clock"] =>
    if m.opPanics stepFuel .clock then (s, "panic") else
    match m.keyClock stepFuel with
    | some m' => ok m'
    | none => (s, "nofuel")
  | ["irq"] => ok m.keyInterrupt
  | ["cont"] => ok m.keyContinue
  | ["cpureset"] => ok m.cpuReset
  | ["masterreset"] => ok m.masterReset
  | ["in", i, v] =>
    match i, byteOf v with
    | "0", some v => ok (m.mapBus fun b => { b with inFC := v })
    | "1", some v => ok (m.mapBus fun b => { b with inFD := v })
    | "2", some v => ok (m.mapBus fun b => { b with inFE := v })
    | "3", some v => ok (m.mapBus fun b => { b with inFF := v })
    | _, _ => bad
  | ["di1", v] => match byteOf v with | some v => ok (m.mapBoard (·.setDi1 v)) | none => bad
  | ["temp", v] => match v.toNat? with | some v => ok (m.mapBoard (·.setTemp v)) | none => bad
  | ["ai1", v] => match v.toNat? with | some v => ok (m.mapBoard (·.setAi1 v)) | none => bad
  | ["ai2", v] => match v.toNat? with | some v => ok (m.mapBoard (·.setAi2 v)) | none => bad
  | ["j1", v] => match boolOf v with | some v => ok (m.mapBoard (·.setJ1 v)) | none => bad
  | ["j2", v] => match boolOf v with | some v => ok (m.mapBoard (·.setJ2 v)) | none => bad
  | ["uio1", v] => match boolOf v with | some v => ok (m.mapBoard (·.setUio1 v)) | none => bad
  | ["uio2", v] => match boolOf v with | some v => ok (m.mapBoard (·.setUio2 v)) | none => bad
  | ["uio3", v] => match boolOf v with | some v => ok (m.mapBoard (·.setUio3 v)) | none => bad
  | ["mode", "R"] => ok { m with mode := .real }
  | ["mode", "A"] => ok { m with mode := .assembly }
  | ["ss", v] => match parseSS v with | some v => ok { m with ss := v } | none => bad
  | ["ps", v] => match parsePS v with | some v => ok { m with ps := v } | none => bad
  | ["busw", a, v] =>
    match byteOf a, byteOf v with
    | some a, some v => ok (m.mapBus (·.write a v))
    | _, _ => bad
  | ["busr", a] => match byteOf a with | some a => (s, toString (m.core.bus.read a).toNat) | none => bad
  | ["force", addr, ir, regs, pr, pf, pi, aluo, ac, az, an, lb, run, w] =>
    match addr.toNat?, ir.toNat?, parseHexBytes regs.toList, boolOf pf, boolOf pi, byteOf aluo,
          boolOf ac, boolOf az, boolOf an, byteOf lb, boolOf w with
    | some addr, some ir, some [r0, r1, r2, r3, r4, r5, r6, r7], some pf, some pi, some aluo,
      some ac, some az, some an, some lb, some w =>
      let pr := if pr = "-" then none else pr.toNat?
      let run := if run = "R" then RunState.running else if run = "S" then .stopped else .error
      ok { m with core := { m.core with addr := addr, ir := ir, regs := ⟨r0, r1, r2, r3, r4, r5, r6, r7⟩,
                                        pendReg := pr, pendFlag := pf, pendInt := pi,
                                        alu := ⟨aluo, ac, az, an⟩, lastBus := lb },
                  run := run, wait := w }
    | _, _, _, _, _, _, _, _, _, _, _ => bad
  | ["alu2", f, a, b] =>
    match f.toNat?, byteOf a, byteOf b with
    | some f, some a, some b => (s, aluStr (alu f a b false) ++ " | " ++ aluStr (alu f a b true))
    | _, _, _ => bad
  | ["spec.alu2", f, a, b] =>
    match f.toNat?, byteOf a, byteOf b with
    | some f, some a, some b => (s, aluStr (aluSpec f a b false) ++ " | " ++ aluStr (aluSpec f a b true))
    | _, _, _ => bad
  | ["spec.busw", a, v] =>
    match byteOf a, byteOf v with
    | some a, some v => ({ s with m := m.mapBus (·.write a v), bspec := s.bspec.write a v }, "ok")
    | _, _ => bad
  | ["spec.busr", a] =>
    match byteOf a with
    | some a =>
      (s, (match s.bspec.read a with | some x => toString x.toNat | none => "-") ++ " pure")
    | none => bad
  | ["spec.in", i, v] =>
    match i.toNat?, byteOf v with
    | some i, some v =>
      if i < 4 then ({ s with m := m.mapBus (·.setInput i v), bspec := s.bspec.setInput i v }, "ok") else bad
    | _, _ => bad
  | ["spec.di1", v] =>
    match byteOf v with
    | some v => ({ s with m := m.mapBoard (·.setDi1 v), bspec := s.bspec.setDi1 v }, "ok")
    | none => bad
  | ["spec.micr"] =>
    -- the mask register of the model bus = the abstract address map's mask (C10 abs_refines)
    (s, s!"micr={hex2 m.core.bus.micr} enabled={b01 m.core.bus.keyEdgeEnabled}")
  | ["spec.busstat"] => (s, "consistent")
  | ["spec.costscratch", _, _] => (s, "same")  -- C15: the cost does not depend on what earlier instructions left in the scratch registers
  | ["spec.alupure", _] => (s, "pure")  -- C08: the ALU is a function of (function, A, B, carry-in)
  | ["spec.contkey"] => (s, "noop")  -- C15/C05: CONTINUE on a machine that is not stopped changes nothing
  | ["spec.cpuread", _] => (s, "pure")  -- the property itself: a read (here by a CPU instruction) changes no state
  | ["spec.irq"] => ({ s with m := m.keyInterrupt, bspec := s.bspec.keyIrq }, "ok")
  | ["spec.busd"] => (s, s.bspec.str)
  | ["spec.run", pre, wait, wrote, sp, pc, ss, ps, loads, lb] =>
    match boolOf wait, boolOf wrote, sp.toNat?, pc.toNat?, parseSS ss, parsePS ps, boolOf loads, lb.toNat? with
    | some wait, some wrote, some sp, some pc, some ss, some ps, some loads, some lb =>
      let pre := if pre = "R" then RunState.running else if pre = "S" then .stopped else .error
      (s, (SupSpec.runAfter pre wait wrote sp pc ss ps loads lb).str)
    | _, _, _, _, _, _, _, _ => bad
  | ["spec.valid", run, sp, pc, ss, ps] =>
    match sp.toNat?, pc.toNat?, parseSS ss, parsePS ps with
    | some sp, some pc, some ss, some ps =>
      (s, if run = "R" && !(SupSpec.spOK ss sp && SupSpec.pcOK ps pc) then "INVALID-WHILE-RUNNING" else "ok")
    | _, _, _, _ => bad
  | ["spec.absorb", "edges"] => (s, "same")
  | ["spec.absorb", "state", st] => (s, st)
  | ["spec.nopanic"] => (s, "ok")
  | ["spec.flow", op, b2, steps] =>
    match op.toNat?, steps.toNat? with
    | some op, some steps =>
      let b2 := b2.toNat?
      let defd := Isa.definedFirst op && (op < 0xF0 || (match b2 with | some b => Isa.definedSecond b || b < 0x10 || (0x41 ≤ b && b ≤ 0x47) | none => true))
      -- a hang is also what happens for undefined second bytes (0x48-0x4F, 0x70-0xFF)
      let bound := if Isa.isMul op || Isa.isDiv op then 16 + 4 * 256 else if op < 0xF0 then 16 else 20
      let bounded := !defd || steps ≤ bound
      (s, s!"completes={b01 defd} zero=0 escape=0 bounded={b01 bounded}")
    | _, _ => bad
  | ["spec.cost", op, b2, steps, ram] =>
    match op.toNat?, steps.toNat?, ram.toNat? with
    | some op, some steps, some ram =>
      let expSteps := if Isa.isMul op || Isa.isDiv op then steps else Flow.stepsOf op b2.toNat?
      (s, s!"edges={steps + ram} steps={expSteps}")
    | _, _, _ => bad
  | ["spec.flowreset", _, _] =>
    -- from reset the sequencer reaches the first fetch directly: address 0, then the fetch word
    -- (C09 reset_reaches_fetch; no interrupt can be pending after a reset)
    (s, "completes=1 zero=0 escape=0 steps=1")
  | ["spec.costint", op, b2, steps, ram] =>
    -- the end word enters the interrupt routine instead of the fetch: 9 micro-steps (C04 int_taken) replace the final one
    match op.toNat?, steps.toNat?, ram.toNat? with
    | some op, some steps, some ram =>
      (s, s!"edges={steps + ram} steps={Flow.stepsOf op b2.toNat? + 8}")
    | _, _, _ => bad
  | ["toboundary"] =>
    let m' := runLifted (fun x => x.core.done) 3000 m
    ({ s with m := m' }, if m'.core.done then "boundary" else "hang")
  | ["stepinstr"] =>
    let m1 := runLifted (fun x => !x.core.done) 50 m
    let m' := runLifted (fun x => x.core.done) 3000 m1
    ({ s with m := m' }, if m'.core.done then "boundary" else "hang")
  | ["spec.isa"] =>
    if !m.core.done then (s, "not-at-boundary") else
    match Isa.step (archOf m) with
    | some a' => (s, archStr a')
    | none => (s, "undefined")
  | ["spec.int"] =>
    -- interrupt requested at this boundary: the current instruction completes, then the entry
    -- (taken iff MICR key enable and IEF are set when the instruction ends)
    if !m.core.done then (s, "not-at-boundary") else
    match Isa.step (archOf m) with
    | some a' =>
      let enabled := m.core.bus.keyEdgeEnabled
      let ief := (a'.fr &&& 0x08#8) != 0#8
      let op := ((archOf m).rd (archOf m).pc).toNat
      -- EI / DI / RETI end without sampling the request: it stays pending for the next instruction
      let samples := !(op / 4 == 2 || op / 4 == 3 || (0x2C ≤ op && op ≤ 0x2F))
      if enabled && samples && ief then
        let a2 := Isa.intEntry a'
        (s, archStr { a2 with bus := { a2.bus with misr := a2.bus.misr ||| 0x11#8 } })
      else
        (s, archStr { a' with bus := { a'.bus with misr := a'.bus.misr ||| (if enabled then 0x11#8 else 0x01#8) } })
    | none => (s, "undefined")
  | ["spec.c04", micr, ie] =>
    (s, s!"count={if micr = "1" && ie = "1" then 1 else 0} transparent=1")
  | ["spec.c04two", m1, i1, m2, i2] =>
    let e1 := if m1 = "1" && i1 = "1" then 1 else 0
    let e2 := if m2 = "1" && i2 = "1" then 1 else 0
    (s, s!"count={e1 + e2} transparent=1")
  | ["spec.c04pair"] => (s, "count_le_2=1 transparent=1")
  | ["spec.bw", port, v] =>
    match port.toNat?, byteOf v with
    | some port, some v =>
      let a := BitVec.ofNat 8 (0xF0 + port % 4)
      let bs := match port % 4 with
        | 0 => s.board.writeF0 v | 1 => s.board.writeF1 v | 2 => s.board.writeF2 v | _ => s.board.writeF3
      ({ s with m := m.mapBus (·.write a v), board := bs }, "ok")
    | _, _ => bad
  | ["spec.bset", kind, v] =>
    match v.toNat? with
    | some n =>
      let bv := BitVec.ofNat 8 n
      let p := n != 0
      match kind with
      | "di1" => ({ s with m := m.mapBoard (·.setDi1 bv), board := s.board.setDi1 bv }, "ok")
      | "temp" => ({ s with m := m.mapBoard (·.setTemp n), board := s.board.setTemp n }, "ok")
      | "ai1" => ({ s with m := m.mapBoard (·.setAi1 n), board := s.board.setAi1 n }, "ok")
      | "ai2" => ({ s with m := m.mapBoard (·.setAi2 n), board := s.board.setAi2 n }, "ok")
      | "j1" => ({ s with m := m.mapBoard (·.setJ1 p), board := s.board.setJ1 p }, "ok")
      | "j2" => ({ s with m := m.mapBoard (·.setJ2 p), board := s.board.setJ2 p }, "ok")
      | "uio1" => ({ s with m := m.mapBoard (·.setUio1 p), board := s.board.setUio1 p }, "ok")
      | "uio2" => ({ s with m := m.mapBoard (·.setUio2 p), board := s.board.setUio2 p }, "ok")
      | "uio3" => ({ s with m := m.mapBoard (·.setUio3 p), board := s.board.setUio3 p }, "ok")
      | _ => bad
    | none => bad
  | ["spec.bd"] =>
    let b := s.board
    (s, s!"dasr={hex2 b.dasr} daisr={hex2 b.daisr} di={hex2 b.di1} ao={BSpec.volt b.do1},{BSpec.volt b.do2} period={b.fanPeriod.toNat} in={b.temp},{b.ai1},{b.ai2}")
  | ["spec.clamp", v] =>
    match v.toNat? with
    | some n => (s, toString (BSpec.clampV n))
    | none => bad
  | ["spec.clampall"] => (s, "ok")
  | ["spec.tab", v] =>
    match byteOf v with
    | some b =>
      let bd := Board.setDo1 Board.new b
      (s, s!"{bd.ao1} {bd.fanRpm} {bd.fanPeriod.toNat}")
    | none => bad
  | "compile" :: _ :: toks =>
    match Asm.parseProgram toks with
    | some p =>
      (s, match Asm.compile p with | .ok b => b.str | .error e => "panic:" ++ e.str)
    | none => (s, "bad-ast")
  | "spec.encode" :: _ :: toks =>
    match Asm.parseProgram toks with
    | some p => (s, match Asm.Ref.assemble p with | some b => b.str | none => "undefined-symbol")
    | none => (s, "bad-ast")
  | "compileload" :: _ :: toks =>
    match Asm.parseProgram toks with
    | some p => (s, match Asm.compileAndLoadable p with | .ok _ => "ok" | .error e => "panic:" ++ e.str)
    | none => (s, "bad-ast")
  | "spec.c06" :: _ => (s, "ok")
  | ["parse", hx] =>
    match (if hx = "-" then some "" else Asm.unhex hx) with
    | some src => (s, parseResultStr (Parse.parse (Parse.defaultFuel src) src))
    | none => (s, "bad-hex")
  | "spec.parse" :: _ :: expected => (s, "ok " ++ " ".intercalate expected)
  | ["spec.reject", _] => (s, "reject")
  | ["spec.accept", _] => (s, "accepted")
  | ["spec.noparsepanic", _] => (s, "ok")
  | "fmt" :: _ :: toks =>
    match Asm.parseProgram toks with
    | some p => (s, Asm.hexOf (Fmt.program p))
    | none => (s, "bad-ast")
  | ["spec.roundtrip", _] => (s, "same")
  | ["spec.asmstep"] => (s, "equal")
  | ["spec.cpureset"] =>
    (s, "a=0 ir=2 r=0000000000000000 pr=- pf=0 pi=0 alu=00000 lb=00 run=R w=0 out=0000 micr=00 ucr=00 kept=1")
  | ["spec.masterreset"] =>
    (s, "a=0 ir=2 r=0000000000000000 pr=- pf=0 pi=0 alu=00000 lb=00 run=R w=0 out=0000 micr=00 ucr=00 in=00000000 t=0,0,0,0 do=0000 ao=0,0 icr=00 rpm=0 dir=000 kept=1")
  | ["spec.reload", _, _, _, _] => (s, "agree")
  | ["spec.reloadasm", _, _, _, _] => (s, "agree")
  | ["spec.resetasm", _, _, _, _] => (s, "agree")
  | [tag, hx, n, ints, resets, cfg] =>
    if tag = "spec.runner" ∨ tag = "runner" ∨ tag = "spec.stepped" then
      match unhexE hx, n.toNat?, natList ints, natList resets, cfgOf cfg with
      | some src, some n, some ints, some resets, some c =>
        if tag = "spec.stepped" then (s, "same") else (s, runnerLine (tag = "spec.runner") src c n ints resets)
      | _, _, _, _, _ => bad
    else bad
  | ["spec.verify", st, fe, ff, xs, xfe, xff] =>
    match runStateOf st, byteOf fe, byteOf ff with
    | some st, some fe, some ff =>
      let mm : Machine := { Machine.new with run := st, core := { Machine.new.core with bus := { Machine.new.core.bus with outFE := fe, outFF := ff } } }
      let e : Runner.Expect := { state := runStateOf xs, fe := byteOf xfe, ff := byteOf xff }
      (s, vErrStr e mm (RunSpec.verifySpec e mm))
    | _, _, _ => bad
  | ["spec.cli", hx, n, ints, resets, b0, b1, b2, b3, b4, rest, wv, xs, xfe, xff] =>
    let src : Option (Option String) := if hx = "!" then some none else (unhexE hx).map some
    let bytes := [b0, b1, b2, b3, b4].mapM fun t => (unhexE t).map fun t => Runner.parseU8 t.toList
    let xsv : Option RunState := match xs with
      | "running" => some .running | "stopped" => some .stopped | "error" => some .error | _ => none
    match src, n.toNat?, natList ints, natList resets, bytes, (rest.splitOn ",").mapM (·.toNat?), optByteText xfe, optByteText xff with
    | some src, some n, some ints, some resets, some bytes, some rest, some xfe, some xff =>
      (s, cliLine src n ints resets bytes rest (wv = "1") xsv xfe xff)
    | _, _, _, _, _, _, _, _ => bad
  | ["tnew"] => ({ s with tui := some Tui.State.new, tspec := some (Tui.State.new.m, none) }, "ok")
  | ["tfile", name, content] =>
    match unhexE name with
    | some n =>
      let rest := s.tfs.filter (·.1 ≠ n)
      if content = "!" then ({ s with tfs := rest }, "ok")
      else match unhexE content with
        | some c => ({ s with tfs := (n, c) :: rest }, "ok")
        | none => (s, "bad-op")       -- not UTF-8: the generator does not produce such files
    | none => bad
  | ["cmd", hx] => match unhexE hx with | some l => (s, cmdStr (Tui.parseCmd l.toList)) | none => bad
  | ["spec.cmd", hx] => match unhexE hx with | some l => (s, cmdStr (TuiSpec.parse l.toList)) | none => bad
  | "key" :: code :: mods :: rest =>
    match s.tui, keyOf code, fcOf rest with
    | none, _, _ => (s, "dead")
    | some t, some c, some fc =>
      let fs := fun p => (s.tfs.find? (·.1 = p)).map (·.2)
      let md := modsOf mods
      -- the specification's view (machine + notification), from the text in the input field
      let tspec := match s.tspec with
        | some (sm, sn) =>
          (match TuiSpec.afterEvent sm sn t.ed.input c md fs with
           | .ok r => some r
           | .error _ => none)
        | none => none
      match Tui.handleEvent t c md fc fs with
      | .ok (t', q) => ({ s with tui := some t', tspec := tspec }, s!"q={b01 q}")
      | .error f => ({ s with tui := none, tspec := none }, faultStr f)
    | _, _, _ => bad
  | ["tdump"] => match s.tui with | some t => (s, tuiDump t) | none => (s, "dead")
  | ["spec.tmach"] =>
    match s.tui, s.tspec with
    | none, _ => (s, "dead")
    | some _, some (m, n) => (s, s!"note={noteStr n} | {m.str}")
    | some _, none => (s, "unknown")
  | ["spec.tnopanic"] => (s, "ok")
  | ["spec.cmdsafe", _] => (s, "ok")
  | ["spec.tsafe"] => match s.tui with | some _ => (s, "inside") | none => (s, "dead")
  | ["draw", w, h] => drawOp s true w h
  | ["drawp", w, h] => drawOp s false w h
  | ["d"] => (s, m.str)
  | ["ram"] => (s, ramStr m.core.bus.ram)
  | ["done"] => (s, b01 m.core.done)
  | ["alu", f, a, b, c] =>
    match f.toNat?, byteOf a, byteOf b, boolOf c with
    | some f, some a, some b, some c =>
      let o := alu f a b c
      (s, s!"{o.out.toNat} {b01 o.c} {b01 o.z} {b01 o.n}")
    | _, _, _, _ => bad
  | ["aluhash", f, a] =>
    match f.toNat?, a.toNat? with
    | some f, some a => (s, toString (aluHash f a))
    | _, _ => bad
  | ["nexthash", a] => match a.toNat? with | some a => (s, toString (nextHash a)) | none => bad
  | ["next", addr, ir, fr, k] =>
    match addr.toNat?, ir.toNat?, fr.toNat?, k.toNat? with
    | some addr, some ir, some fr, some k =>
      let a : AluOut := ⟨0, k % 2 == 1, k / 2 % 2 == 1, k / 4 % 2 == 1⟩
      (s, toString (Sig.nextAddr (Gen.word addr) ir (BitVec.ofNat 8 fr) a (k / 8 % 2 == 1)))
    | _, _, _, _ => bad
  | _ => bad

partial def loop (h : IO.FS.Stream) (out : IO.FS.Stream) (s : St) : IO Unit := do
  let line ← h.getLine
  if line.isEmpty then return ()
  let ws := (line.trimAscii.toString.splitOn " ").filter (· ≠ "")
  let (s', o) := applyOp s ws
  out.putStrLn o
  loop h out s'

def main : IO Unit := do
  let stdin ← IO.getStdin
  let stdout ← IO.getStdout
  loop stdin stdout { m := Machine.new }
