#!/bin/sh
# MANIFEST.setup_cmd: build the framework from files on disk only (offline).
set -e
cd "$(dirname "$0")"
HERE=$(pwd)
export CARGO_NET_OFFLINE=true
for g in $(python3 -c "import sys; sys.path.insert(0,'tools'); import props; print(' '.join(props.GENERATORS))"); do
  python3 tools/$g
done
MODS=$(python3 -c "import sys; sys.path.insert(0,'tools'); import props; print(' '.join(sorted({m for p in props.PROPS.values() for m in p['modules']})))")
(cd lean && lake build driver $MODS)
cp -n /repo/Cargo.lock harness/Cargo.lock 2>/dev/null || true
(cd harness && cargo build --release --offline)
# the real binary (C12: plain; C17: with the headless hook), built from /repo's working tree
(cd /repo && cargo build --release --offline -p emulator-2a --target-dir "$HERE/harness/target-bin")
(cd /repo && CARGO_PROFILE_RELEASE_OVERFLOW_CHECKS=true CARGO_PROFILE_RELEASE_DEBUG_ASSERTIONS=true cargo build --release --offline -p emulator-2a --features verif-hooks --target-dir "$HERE/harness/target-bin-hooks")
echo "setup ok"
