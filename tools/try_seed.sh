#!/bin/sh
# Apply a seeded change to /repo, run the given checks, undo the change.
# The evidence and replay files those runs write are moved into the seed directory
# (evidence/ is restored from git, so commit evidence before using this).
# usage: try_seed.sh <seed dir> <property id>...
D=$(cd "$1" && pwd); shift
cd /verif
git -C /repo diff --quiet || { echo "/repo not clean"; exit 2; }
git -C /repo apply "$D/patch.diff" || exit 2
mkdir -p replays
for id in "$@"; do
  ./check "$id" > "$D/check_$id.log" 2>&1; echo "== $id rc=$?"; grep -E "VIOLATION|KNOWN-FINDING| ok tier" "$D/check_$id.log" | cut -c1-200 | head -8
  cp "evidence/$id.json" "$D/evidence_$id.with_seed.json" 2>/dev/null
  git checkout -q -- "evidence/$id.json" 2>/dev/null
  for r in $(grep -o "replay=[^ ]*" "$D/check_$id.log" | cut -d= -f2 | head -2); do cp "$r" "$D/" 2>/dev/null; done
done
git -C /repo checkout -- .
# the generated model files followed the seeded source: regenerate them from the restored tree
for g in gen_ucode.py gen_consts.py gen_grammar.py gen_c01.py gen_muldiv.py gen_c03.py; do python3 tools/$g > /dev/null; done
git -C /repo status --short | head
