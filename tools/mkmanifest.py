#!/usr/bin/env python3
"""Regenerate MANIFEST.json from tools/props.py (keeps the manifest valid at all times)."""
import json, sys, os, subprocess
ROOT = os.path.join(os.path.dirname(os.path.abspath(__file__)), "..")
sys.path.insert(0, os.path.dirname(os.path.abspath(__file__)))
import props

NOTE = ("trusted: Lean kernel + axioms propext/Classical.choice/Quot.sound, the translators tools/gen_*.py, the Rust "
        "harness and compiled Lean driver used for the correspondence, rustc; hand-written model parts are tied to the "
        "code by differential execution (exhaustive where the domain is finite)")

checks = []
for pid in sorted(props.PROPS):
    P = props.PROPS[pid]
    checks.append({
        "property_id": pid,
        "quick_cmd": "./check %s --tier quick" % pid,
        "thorough_cmd": "./check %s --tier thorough" % pid,
        "evidence_file": "/verif/evidence/%s.json" % pid,
        "replay_cmd_template": "./check %s --replay {path}" % pid,
        "engine": "lean-proof+correspondence",
        "level_claimed": {"category": "proof", "text": P["level_text"], "design_ref": "DESIGN.md section 6 (%s)" % pid},
        "level_note": NOTE + (" " + P["level_note"] if P.get("level_note") else ""),
        "technique": P["technique"],
    })
allp = [json.loads(l)["id"] for l in open(os.path.join(ROOT, "properties.jsonl"))]
na = [{"property_id": p, "reason": props.NOT_CLAIMED.get(p, "not claimed yet: the machinery for this property is still being built (the technique applies; see DESIGN.md section 6)")}
      for p in allp if p not in props.PROPS]
hooks = subprocess.run(["git", "-C", "/repo", "log", "--format=%h", "--grep", "^verif hooks"], capture_output=True, text=True).stdout.split()
m = {"version": 1,
     "setup_cmd": "./setup.sh",
     "hooks": {"guard": "cargo feature verif-hooks (emulator-2a-lib, emulator-2a)",
               "enable": "the harness crate depends on /repo/emulator-2a-lib with features=[\"verif-hooks\"]; the binary is built with --features verif-hooks",
               "baseline_off_cmd": "cd /repo && cargo test --workspace --no-fail-fast --offline",
               "source_commits": hooks,
               "add_only": True},
     "engines": [{"name": "lean-proof+correspondence", "path": "/verif/check", "serves_properties": sorted(props.PROPS),
                  "kind_free_text": "Lean 4 theorems about an executable model (lean/Emu2a); the model is regenerated from /repo where the code is data and tied by a differential line-protocol harness (harness/) where it is logic; implementation-vs-specification search produces replays"}],
     "checks": checks,
     "not_applicable": na,
     "notes": "see DESIGN.md; known_findings.txt lists fixed defects and recorded findings"}
json.dump(m, open(os.path.join(ROOT, "MANIFEST.json"), "w"), indent=1)
print("MANIFEST.json: %d checks, %d not claimed" % (len(checks), len(na)))
