"""Per-property configuration of ./check (theorem lists, harness commands, evidence texts)."""

GENERATORS = ["gen_ucode.py", "gen_consts.py"]

TRUSTED_BASE = [
    "Lean 4.33 kernel (re-checkable with leanchecker); axioms limited to propext, Classical.choice, Quot.sound (audited per theorem with #print axioms)",
    "translators tools/gen_*.py (control store, bit layouts, constants, grammar are regenerated from /repo on every run)",
    "correspondence harness (harness/, Rust, in-process calls into /repo with feature verif-hooks) and the compiled Lean driver (lean/Driver.lean)",
    "the statement of the specification in lean/Emu2a/Spec/*.lean",
]


def signature(pid, v):
    """A stable key for a concrete violation (used to match known_findings.txt)."""
    op = v.get("op", "")
    head = op.split(" ")[0]
    impl = v.get("impl", "")
    return "%s:%s:%s" % (pid, head, impl.split(" ")[0][:40])


PROPS = {}
NOT_CLAIMED = {}


def prop(pid, **kw):
    kw["id"] = pid
    PROPS[pid] = kw


prop("C08",
     modules=["Emu2a.Props.C08"],
     theorems=["Emu2a.C08.alu_eq_spec", "Emu2a.C08.z_iff", "Emu2a.C08.n_iff"],
     harness="c08",
     level_text="Lean theorem alu_eq_spec (all 16 functions, all operands, both carry-ins: model = arithmetic specification) plus exhaustive correspondence real ALU = model = specification on all 2 097 152 points in both tiers; the input space is finite, so this decides the property completely",
     technique="Lean 4 proof (case analysis, omega, kernel decide over bytes) + exhaustive differential implementation/model/spec",
     shrink=False,
     exhaustive={"quick": True, "thorough": True},
     rule="all 16 x 256 x 256 x 2 ALU inputs, each evaluated by the real AluOutput::from_input, by the Lean model `alu` (line `alu2`) and by the arithmetic specification `aluSpec` (line `spec.alu2`); every point is distinct and non-trivial by construction",
     explanation="theorem alu_eq_spec: model = documented arithmetic function for all inputs; exhaustive correspondence: real ALU = model = spec on all 2 097 152 points",
     assumptions=["the model `alu` is tied to alu.rs by exhaustive comparison, not by translation"],
     )

prop("C10",
     modules=["Emu2a.Props.C10"],
     theorems=["Emu2a.C10.abs_refines", "Emu2a.C10.abs_write", "Emu2a.C10.abs_read", "Emu2a.C10.read_pure",
               "Emu2a.C10.spec_read_write_same", "Emu2a.C10.spec_read_write_other", "Emu2a.C10.f9_split",
               "Emu2a.C10.board_reads"],
     harness="c10",
     level_text="Lean refinement theorem abs_refines (for every sequence of writes/reads/input changes the bus model equals the abstract address map) with no-aliasing lemmas on the map; the model is tied to bus.rs by exhaustive single operations, all ordered write pairs and random sequences, each also compared with the map directly",
     technique="Lean 4 refinement proof by induction over op lists + exhaustive/random differential against the abstract map",
     exhaustive={"quick": False, "thorough": True},
     rule="single writes (all 256 addresses x values; quick tier thins RAM-address values to a residue class + 0/255), all 65 536 ordered write-address pairs, random sequences of writes/reads/input changes; each op is applied to the real Bus, to the Lean Bus model and to the abstract address map (spec.* lines), reads also check `bus == clone before the read` on the Rust side",
     explanation="abs_refines: for every op sequence the model bus seen through `abs` equals the abstract map; spec_read_write_*: no aliasing in the map; harness: real bus = model = map",
     assumptions=["status registers read at 0xF1-0xF3/0xF9-0xFB are outside the map (C14 covers the board status)"],
     )
