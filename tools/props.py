"""Per-property configuration of ./check (theorem lists, harness commands, evidence texts)."""

GENERATORS = ["gen_ucode.py", "gen_consts.py", "gen_c01.py", "gen_muldiv.py", "gen_grammar.py", "gen_c03.py"]

TRUSTED_BASE = [
    "Lean 4.33 kernel (re-checkable with leanchecker); axioms limited to propext, Classical.choice, Quot.sound (audited per theorem with #print axioms)",
    "translators tools/gen_*.py (control store, bit layouts, constants, grammar are regenerated from /repo on every run)",
    "correspondence harness (harness/, Rust, in-process calls into /repo with feature verif-hooks) and the compiled Lean driver (lean/Driver.lean)",
    "the statement of the specification in lean/Emu2a/Spec/*.lean",
]


def signature(pid, v):
    """A stable key for a concrete violation (used to match known_findings.txt)."""
    op = v.get("op", "")
    head = op.split(" ")[0]
    impl = v.get("impl", "")
    return "%s:%s:%s" % (pid, head, impl.split(" ")[0][:40])


PROPS = {}
NOT_CLAIMED = {}


def prop(pid, **kw):
    kw["id"] = pid
    PROPS[pid] = kw


prop("C08",
     modules=["Emu2a.Props.C08"],
     theorems=["Emu2a.C08.alu_eq_spec", "Emu2a.C08.z_iff", "Emu2a.C08.n_iff"],
     harness="c08",
     level_text="Lean theorem alu_eq_spec (all 16 functions, all operands, both carry-ins: model = arithmetic specification) plus exhaustive correspondence real ALU = model = specification on all 2 097 152 points in both tiers; the input space is finite, so this decides the property completely",
     technique="Lean 4 proof (case analysis, omega, kernel decide over bytes) + exhaustive differential implementation/model/spec",
     shrink=False,
     exhaustive={"quick": True, "thorough": True},
     rule="all 16 x 256 x 256 x 2 ALU inputs, each evaluated by the real AluOutput::from_input, by the Lean model `alu` (line `alu2`) and by the arithmetic specification `aluSpec` (line `spec.alu2`); every point is distinct and non-trivial by construction",
     explanation="theorem alu_eq_spec: model = documented arithmetic function for all inputs; exhaustive correspondence: real ALU = model = spec on all 2 097 152 points",
     assumptions=["the model `alu` is tied to alu.rs by exhaustive comparison, not by translation"],
     )

prop("C10",
     modules=["Emu2a.Props.C10"],
     theorems=["Emu2a.C10.abs_refines", "Emu2a.C10.abs_write", "Emu2a.C10.abs_read", "Emu2a.C10.read_pure",
               "Emu2a.C10.spec_read_write_same", "Emu2a.C10.spec_read_write_other", "Emu2a.C10.f9_split",
               "Emu2a.C10.board_reads", "Emu2a.C10.abs_keyIrq", "Emu2a.C10.keyIrq_machine", "Emu2a.C10.status_only_by_key"],
     harness="c10",
     level_text="Lean refinement theorem abs_refines (for every sequence of writes/reads/input changes/key presses the bus model equals the abstract address map, which includes the interrupt status read at 0xF9: raised by a key press only - status_only_by_key: no write changes it) with no-aliasing lemmas on the map; the model is tied to bus.rs by exhaustive single operations, all ordered write pairs and random sequences, each also compared with the map directly",
     technique="Lean 4 refinement proof by induction over op lists + exhaustive/random differential against the abstract map",
     exhaustive={"quick": False, "thorough": True},
     rule="single writes (all 256 addresses x values; quick tier thins RAM-address values to a residue class + 0/255), all 65 536 ordered write-address pairs, every mask byte written to 0xF9 after a key press under 4 earlier masks (status must survive), random sequences of writes/reads/input changes/key presses/board events (jumpers, UIO pins, analog inputs, interrupt-control bytes) with reads of 0xF0-0xFF compared with the model and spec.busstat (reads of 0xF0-0xF3 = what the board itself reports); each op is applied to the real Bus, to the Lean Bus model and to the abstract address map (spec.* lines), reads also check `bus == clone before the read` on the Rust side",
     explanation="abs_refines: for every op sequence the model bus seen through `abs` equals the abstract map; spec_read_write_*: no aliasing in the map; harness: real bus = model = map",
     assumptions=["status registers read at 0xF1-0xF3/0xFA-0xFB are outside the map (C14 covers the board status)", "the CPU's RETI (which clears the key bits of the status) is not a bus operation; C01/C04 cover it"],
     )

prop("C05",
     modules=["Emu2a.Props.C05"],
     theorems=["Emu2a.C05.inv_reachable", "Emu2a.C05.running_valid", "Emu2a.C05.inv_applyOp", "Emu2a.C05.error_iff",
               "Emu2a.C05.stop_iff", "Emu2a.C05.run_eq_spec", "Emu2a.C05.halt_absorbing", "Emu2a.C05.halt_absorbing_iter",
               "Emu2a.C05.leave_halt", "Emu2a.C05.continue_spec", "Emu2a.C05.spValid_s16", "Emu2a.C05.spValid_s32",
               "Emu2a.C05.spValid_s48", "Emu2a.C05.spValid_s64", "Emu2a.C05.spValid_s0", "Emu2a.C05.pcValid_size"],
     harness="c05",
     level_text="Lean theorems: invariant `not error-stopped => SP and PC valid` preserved by every operation and lifted to all histories (inv_reachable), exact characterisation of the edge that error-stops / stops (error_iff, stop_iff, run_eq_spec), absorbing halt states (halt_absorbing, leave_halt), band lemmas with the literals regenerated from raw/mod.rs; the model's clock edge is tied to the code by edge-by-edge differential dumps incl. private fields, and every edge of the generated runs is also checked against the specification directly",
     technique="Lean 4 invariant proof by induction over operation sequences + edge-by-edge differential and spec check on supervised runs",
     rule="programs: deep PUSH and CALL recursion, LDSP to random values, POP runs upwards, jumps to arbitrary addresses, fall-through to the limit, random images x 5 stack sizes x program-size limits {Auto,0,1,n-1,n,n+1,255}; after EVERY edge: spec.run (halt state prescribed by the spec from observations around the edge) and spec.valid (Running => SP/PC valid); after every halt: 20 edges + 1 key clock must leave the machine equal (PartialEq), 30 stimuli must not change the halt state; distinct = distinct op lines",
     explanation="see theorems; the harness found no edge whose halt state differs from SupSpec.runAfter",
     assumptions=["op alphabet = MOp (Model/Ops.lean); direct `registers_mut`/`set_stacksize` calls of the library API are outside it"],
     )

prop("C13",
     modules=["Emu2a.Props.C13"],
     theorems=["Emu2a.C13.no_panic", "Emu2a.C13.no_panic_step", "Emu2a.C13.load_ok", "Emu2a.C13.word_fields",
               "Emu2a.C13.nextAddr_lt", "Emu2a.C13.selA_lt", "Emu2a.C13.selB_lt", "Emu2a.C13.selW_lt",
               "Emu2a.C13.input_index", "Emu2a.C13.ram_index", "Emu2a.C13.toNatSat_lt", "Emu2a.C13.timer_fc",
               "Emu2a.C13.timer_fd", "Emu2a.C13.edge_no_panic", "Emu2a.C13.wf_clockEdge"],
     harness="c13",
     level_text="Lean theorem no_panic: from a well-formed machine (real stack size, micro-address < 512 - established by new/load) no operation of any sequence panics and every intermediate machine is well-formed; each panic-capable site of the machine code is either an explicit outcome of the model (unreachable! for stack size NotSet, RAM index in load) or discharged by a per-site lemma (4-bit ALU select, 3-bit register numbers, 9-bit micro-address over the whole generated control store, input register index, saturating casts, timer arithmetic). Tied to the code by differential histories with catch_unwind around every call",
     technique="Lean 4 well-formedness invariant + per-site dead-branch lemmas (decide over the generated control store) + differential histories with catch_unwind",
     rule="every byte written to every I/O address followed by reads of all 16 I/O addresses (quick: all bytes on the board ports, every 16th elsewhere); random and opcode-biased RAM images (0..240 bytes) x 5 stack sizes x program sizes x random stimulus (interrupt, continue, resets, input/board setters incl. NaN/inf/denormal bit patterns, direct bus reads/writes of every address, mode switches, reloads) interleaved with single edges; every call under catch_unwind and a watchdog (a call that does not return within 20 s is recorded as `hang:` and reported as a concrete violation), full dump compared after every 1-4 ops; distinct = distinct op lines",
     explanation="what no model can exhibit: stack exhaustion or allocation failure of the Rust runtime (no modelled function recurses or allocates per edge)",
     assumptions=["Rust float->int casts saturate (language semantics)", "debug-assertion/overflow checks are ON in the harness build (profile.release: debug-assertions, overflow-checks)"],
     )

prop("C09",
     modules=["Emu2a.Props.C09", "Emu2a.Props.C09x.Sound", "Emu2a.Props.C01x.MulDivPages"],
     theorems=["Emu2a.C09.next_in_succs", "Emu2a.C09.in_page", "Emu2a.C09.fetch_words_equal", "Emu2a.C09.second_word_unique",
               "Emu2a.C09.defined_complete_bounded", "Emu2a.C09.prefix_bounded", "Emu2a.C09.second_defined_completes",
               "Emu2a.C09.muldiv_complete_cut", "Emu2a.C09.reset_reaches_fetch", "Emu2a.C09.undefined_never_complete",
               "Emu2a.C09.completes_iff", "Emu2a.Gen.decode_ok", "Emu2a.C01.page_B", "Emu2a.C01.page_C",
               "Emu2a.C09.step_in_succNodes", "Emu2a.C09.completes_sound", "Emu2a.C09.visited_sound"],
     harness="c09",
     drill={"prefix": "nexthash", "cmd": "c09drill"},
     shrink=False,
     exhaustive={"quick": False, "thorough": True},
     level_text="Lean theorems evaluated by the kernel over the control store regenerated from microprogram_ram_content.rs: the graph of (micro-address, instruction register) nodes over-approximates the real sequencer for every flag/ALU-condition/interrupt input (next_in_succs, step_in_succNodes: one executed edge of the data-path model moves along a graph edge), and the exploration is SOUND for executions (completes_sound / visited_sound: if the exploration of a node set completes within n levels then every execution of the micro-machine model from any visited node - any registers, flags, memory, ALU latch, interrupt flip-flop - reaches a fetch word or the second-opcode word within n steps over programmed words only); every defined first byte and every defined second byte reaches the next fetch within 15 (+3+1 for prefixes) steps visiting programmed words only, the only cycles are the MUL and DIV loops (single back edge each), the undefined first bytes 0x4C-0x4F/0xE0-0xEF form closed fetch-free sets, completes_iff; page_B / page_C (from C01's loop lemmas): every MUL and DIV opcode reaches the next fetch for all operand values, zero divisor included; the next-address function of signals.rs is tied to the model by block hashes over its whole domain (512 x 256 x 16 x 16; quick tier: all programmed addresses + a quarter of the rest), and every opcode is run on the real machine",
     technique="Lean 4 kernel evaluation (decide +kernel) of graph properties over the translated control store + exhaustive differential of the next-address function + opcode enumeration on the real machine",
     rule="nexthash: FNV hash of next_microprogram_address over 256 IR x 16 flag x 8 ALU-condition x 2 interrupt values per micro-address, real Signals vs model; spec.flow: every first byte (x every defined second byte and a sample of undefined ones for prefixes) executed from a forced boundary with random registers/flags/pending interrupt, observing zero words, page escapes, completion and micro-step count; a third of the runs reach the instruction through a RETI executed with a request raised just before it (flip-flop set, status bits cleared); a CPU reset after 1..9 edges of every defined opcode (spec.flowreset: first fetch reached in one step over page 0); all 32 MUL/DIV opcodes with boundary operands (0, 1, 2, 0x80, 0xFF) in R0-R2 in every combination; distinct = distinct (opcode, second byte, registers, interrupt) tuples",
     explanation="MUL/DIV loop termination for all 65 536 operand pairs: C01's page_B / page_C (every MUL and DIV opcode reaches the next fetch from any state, by induction over the loop) are part of this property's theorem list; the harness runs MUL/DIV with random and with boundary operands (0, 1, 2, 0x80, 0xFF in every register)",
     assumptions=["level interrupts are constantly absent (Bus::get_level_interrupt returns None in the source)"],
     )

prop("C07",
     modules=["Emu2a.Props.C07"],
     theorems=["Emu2a.C07.cpuReset_eq", "Emu2a.C07.cpuReset_is_new_with", "Emu2a.C07.masterReset_eq", "Emu2a.C07.load_eq",
               "Emu2a.C07.load_history_independent", "Emu2a.C07.clockEdge_congr", "Emu2a.C07.runs_agree",
               "Emu2a.C07.load_then_run", "Emu2a.C07.read_proj", "Emu2a.C07.write_proj"],
     harness="c07",
     level_text="Lean theorems for every machine state (hence after every history): cpuReset_eq / masterReset_eq list every field that is reset to its power-on value and every field that is kept; load_eq (RAM = image ++ zeros, limits, NOSET/AUTO rules); load_history_independent + clockEdge_congr + runs_agree: after a load any machine agrees with a newly created one up to the board, MISR/USR/UART bytes and step mode, and this agreement is preserved by every clock edge whose bus access is confined to RAM and 0xFC-0xFF, so such programs run cycle-for-cycle alike (induction over edges). Tied to the code by random histories with full dumps; resets after every prefix and reload-vs-fresh lock-step runs are also checked against the specification directly",
     technique="Lean 4 field-wise equalities + bisimulation proof (projection invariant preserved by clockEdge) + differential histories, reset-after-every-prefix and reload-vs-fresh lock-step",
     rule="histories of 20-220 ops from {load, edge, clock, irq, cont, resets, input/board setters, direct bus writes, program-driven port writes to 0xF0-0xFB}; loads as spec.load (the limits a load leaves behind vs the property: program's stack size unless NOSET, program size / AUTO = image length / unchanged for NOSET); after (nearly) every prefix: spec.cpureset and spec.masterreset on a copy (reset fields printed, kept fields compared before/after); 3 follow-up programs confined to RAM/0xFC-0xFF per history reloaded and compared edge by edge (600 edges) and key clock by key clock in assembly-step mode (80 steps) with a newly created machine carrying the same limits; histories ending in a detected micro-program hang followed by load / master reset; distinct = distinct op lines",
     explanation="Board::master_reset leaves the comparator status bits stale until the next update; neither C07 nor C14 quantifies over that",
     assumptions=["`confined` programs are generated from direct-addressing templates; the theorem covers any program whose accesses are confined"],
     )

prop("C11",
     modules=["Emu2a.Props.C11", "Emu2a.Props.C11x.Terminates", "Emu2a.Props.C11x.MidInstr"],
     theorems=["Emu2a.C11.keyClock_assembly_spec", "Emu2a.C11.stepA_spec", "Emu2a.C11.stepB_spec", "Emu2a.C11.keyClock_real",
               "Emu2a.C11.keyClock_halted", "Emu2a.C11.mode_irrelevant", "Emu2a.C11.edges_mode",
               "Emu2a.C11.stepB_terminates_partial", "Emu2a.C11.fetch_successor_not_fetch", "Emu2a.C11.stepA_mono",
               "Emu2a.C11.stepB_mono", "Emu2a.C11.reach_done", "Emu2a.C11.stepB_terminates", "Emu2a.C11.after_fetch_not_done",
               "Emu2a.C11.keyClock_terminates", "Emu2a.C11.keyClock_terminates_of_reach", "Emu2a.C11.keyClock_terminates_pending",
               "Emu2a.C11.stepB_terminates_mid", "Emu2a.C11.stepB_terminates_mid_second", "Emu2a.C11.plain_no_second",
               "Emu2a.C11.second_no_second", "Emu2a.C11.fetch_step_in_start"],
     harness="c11",
     level_text="Lean theorems: an assembly step returns exactly the iterate clockEdge^(k1+k2) where k1 edges leave the boundary and k2 edges run to the FIRST state that is at the next boundary, halted or a fixed point (never more, never less: every earlier iterate still satisfies the loop condition and is no fixed point); real mode = one edge; a halted machine returns unchanged; the step mode is neither read nor written by clock edges. TERMINATION is a theorem for every machine at an instruction boundary: keyClock_terminates - whatever the registers, flags, memory, wait flag, halt state and supervision limits, with any defined instruction at PC (MUL and DIV with any operands included, by C01's isa_refines) and no interrupt pending, trigger_key_clock in assembly mode returns; reach_done - if the data path reaches a boundary word within n steps the machine leaves the loop condition after at most 2n clock edges; after_fetch_not_done - the first loop ends after one executed edge (over the regenerated control store). keyClock_terminates_pending - the same with an interrupt request pending and any interrupt-enable flag (the step then runs through the interrupt entry) for every one-byte instruction outside MUL/DIV; stepB_terminates_mid / stepB_terminates_mid_second - from ANY state inside the routine of such an instruction, inside the interrupt entry sequence that follows it, or inside the routine of a defined second opcode byte the step returns, whatever data, flags and flip-flop hold (from C09's exploration of the regenerated control store through completes_sound / visited_sound: every execution from a visited node reaches a fetch word within 15 steps). For states inside a MUL/DIV loop, a pending interrupt at the end of MUL/DIV or of a two-byte instruction, or an undefined opcode (hang words become fixed points, fix c003f27) termination is conditional (stepB_terminates_partial) and established by the harness sweep (all 256 opcode bytes x second bytes under a watchdog, every mid-run state of generated runs incl. interrupt entry)",
     technique="Lean 4 loop characterisation by induction on fuel + termination from the ISA refinement (every data-path step costs at most two edges) + differential: real trigger_key_clock on a clone vs single edges to the boundary at every edge of generated runs, watchdog for termination",
     rule="(1) every opcode byte 0..255 at PC (prefixes x defined second bytes + a rotating eighth of all second bytes), three consecutive assembly steps each, real step on a clone under a 5 s watchdog compared (PartialEq) with single edges to the next boundary; (2) 40/400 runs of 300 edges of confined and random programs with stimuli: at EVERY edge a clone is stepped in assembly mode and compared; random mode switches mid-run; (3) long instructions: DIV/MUL with every dividend and divisors 1,2,3,7,255; (4) steps across the interrupt entry: programs with the key interrupt enabled that visit the end word and the `int:` word of every opcode page (page 0: NOP, CLR), the key pressed at every clock cycle, a step issued on a copy at each of the following 45 edges; distinct = distinct op lines",
     explanation="hang words (undefined opcodes) become fixed points after their second execution; the fix c003f27 leaves the loop there",
     assumptions=["termination from states inside a MUL/DIV loop and with a request pending at the end of MUL/DIV or a two-byte instruction rests on the conditional theorem plus the harness sweep (see level text)"],
     )

prop("C15",
     modules=["Emu2a.Props.C15"],
     theorems=["Emu2a.C15.wait_iff_ram", "Emu2a.C15.wait_costs_one", "Emu2a.C15.cost_law", "Emu2a.C15.microRun_edges",
               "Emu2a.C15.steps_fixed", "Emu2a.C15.cost_mode_independent"],
     harness="c15",
     shrink=False,
     exhaustive={"quick": False, "thorough": False},
     level_text="Lean theorems on the edge function: an executed micro-step raises the wait flag iff it reads or writes an address 0x00-0xEF (one flag even for read+write words, none for I/O), a pending wait costs exactly one edge, hence cost_law: k+1 micro-steps take k+1 edges plus one per RAM-accessing step (microRun_edges ties the counting function to edge-by-edge execution); steps_fixed (kernel evaluation over the regenerated control store): for every defined first byte outside MUL/DIV and every defined second byte all interrupt-free paths have one and the same length; the cost does not depend on the step mode. The real machine is measured between boundaries for every form and compared with the law and with the fixed step count",
     technique="Lean 4 proof of the cost law by induction over micro-steps + kernel-evaluated path-length uniqueness over the translated control store + measurement of every instruction form on the real machine",
     rule="every defined first byte (x defined second bytes; quick: a third of them per repetition) with operand addresses in RAM or biased to 0xF0-0xFF, stack pointer in RAM or at the boundary, code placed in low RAM or straddling 0xEE/0xEF/0xF0 (second bytes read from the board input port); edges, executed micro-steps and RAM accesses are observed through Signals/hooks between two is_instruction_done boundaries and compared with steps + accesses and with the step count computed from the control store; MUL/DIV: every 37th operand pair (thorough: all 65 536); interrupt entry: the register-register ALU instructions and NOP with a request pending and IEF set, stack in RAM / at the boundary / in the I/O area (spec.costint: edges = steps + RAM accesses, steps = fixed count + 8); distinct = distinct (opcode, second byte, registers, placement)",
     explanation="MUL/DIV step counts are data dependent; their loop functions belong to C01",
     assumptions=["interrupt-taking paths are excluded from the fixed step count (C04 covers interrupt entry)"],
     )

prop("C01",
     modules=["Emu2a.Props.C01", "Emu2a.Props.C01x.EmitCovered"],
     theorems=["Emu2a.C01.isa_refines", "Emu2a.C01.isa_refines_seq", "Emu2a.C01.one_byte_refines",
               "Emu2a.C01.two_byte_refines", "Emu2a.C01.second_any", "Emu2a.C01.prefix_any", "Emu2a.C01.iter_pendInt",
               "Emu2a.C01.exec_core", "Emu2a.C01.op_64", "Emu2a.C01.op_84", "Emu2a.C01.op_5C", "Emu2a.C01.op_28",
               "Emu2a.C01.op_2C", "Emu2a.C01.op_21", "Emu2a.C01.pre_FF", "Emu2a.C01.sec_1F", "Emu2a.C01.sec_2C",
               "Emu2a.C01.sec_6C", "Emu2a.C01.mulLoop_spec", "Emu2a.C01.mul_loop_0", "Emu2a.C01.mul_loop_3",
               "Emu2a.C01.div_loop_0", "Emu2a.C01.div_loop_3", "Emu2a.C01.op_B6", "Emu2a.C01.op_CD",
               "Emu2a.C01.page_B", "Emu2a.C01.page_C", "Emu2a.C01.emittable", "Emu2a.C01.covered_of_first",
               "Emu2a.C01.covered_of_prefix"],
     harness="c01",
     shrink=True,
     timeout=14400,
     exhaustive={"quick": False, "thorough": True},
     level_text="Lean refinement theorem isa_refines (and isa_refines_seq for instruction sequences): from an instruction boundary with arbitrary R0-R2, PC, SP, flag register, bus contents AND arbitrary scratch registers / instruction register / ALU latch, the data path of the micro-machine over the control store regenerated from the source reaches the next boundary in exactly the architectural state Isa.step prescribes (registers, all flag-register bits, SP, the whole bus) - for EVERY defined instruction: every defined first byte (218 generated lemmas incl. the 32 MUL/DIV opcodes), all 16 prefixes and all 82 defined second bytes, composed for two-byte forms and sequences; emittable + covered_of_first / covered_of_prefix: the bytes the reference encoding (= the translator's output by C02's compile_eq_ref) produces for ANY instruction form with any registers, constants, labels and addresses have exactly the shape the theorem covers (only exception: a source operand that spells out `(PC+)` / `((PC+))`, which the assembler encodes without an operand byte). The data-dependent MUL and DIV micro-loops are proved per destination register by one symbolic pass through the loop body and induction over the number of passes (mul_loop_k, div_loop_k: the loop computes the pure functions mulLoop / repeated subtraction for any operand); mulLoop_spec (the loop multiplies, carry = product > 255) by kernel evaluation over all 65 536 operand pairs, the DIV quotient by an arithmetic proof, division by zero (0xFF, carry) by symbolic execution. The model's edge function is tied to raw/mod.rs, signals.rs, alu.rs by edge-by-edge differential dumps (all private fields) and the exhaustive ALU / next-address comparisons of C08/C09; every instruction is also executed on the real machine against Isa.step",
     technique="Lean 4 refinement proof by symbolic execution of the translated control store (316 generated per-opcode lemmas, loop lemmas by induction for MUL/DIV, kernel evaluation of the multiplication table) + differential search: every instruction from random/exhaustive architectural states on the real machine against the ISA specification",
     rule="(1) every defined first byte (x defined second bytes) x random architectural states with addresses partly biased into 0xF0-0xFF, random RAM/input registers; (2) register-register ALU group incl. MUL/DIV: random operand pairs for all 16 register pairs (thorough: all 65 536 pairs x carry-in for pages 6-D); (3) unary ops x values x 16 flag states (thorough: all 256 x 16); (4) random instruction sequences of up to 200 instructions over opcode-biased images (self-modifying code, PC running into I/O, stale scratch registers); each instruction is executed on the real machine from its boundary and compared with Isa.step (spec.isa), and the model machine is compared after every instruction (d); distinct = distinct (opcode, second byte, registers, code bytes)",
     explanation="MISR is outside the architectural comparison except for RETI's documented clearing of the key bits",
     assumptions=["interrupt flip-flop clear during the instruction (interrupt entry is C04)", "halting (supervision, opcodes 0x00/0x01) is lifted in the harness runs and treated in C05"],
     )

prop("C04",
     modules=["Emu2a.Props.C04", "Emu2a.Props.C04x.AnyCycle"],
     theorems=["Emu2a.C04.int_taken", "Emu2a.C04.instr_to_end", "Emu2a.C04.trigger_sets_iff_micr",
               "Emu2a.C04.trigger_disabled_noop", "Emu2a.C04.sampled_only_at_end", "Emu2a.C04.reti_entry_roundtrip",
               "Emu2a.IntEntry.end_to_int", "Emu2a.IntEntry.end_to_fetch", "Emu2a.IntEntry.entry_from_10",
               "Emu2a.IntEntry.end_successors", "Emu2a.C04.one_byte_to_end", "Emu2a.C04.second_to_end",
               "Emu2a.C04.press_any_cycle", "Emu2a.C04.press_commutes", "Emu2a.C04.step_withPend", "Emu2a.C04.nextAddr_indep"],
     harness="c04",
     shrink=False,
     exhaustive={"quick": False, "thorough": False},
     level_text="Lean theorems over the regenerated control store: a key press sets the flip-flop iff MICR's key-edge enable bit is set and otherwise only sets a status bit (trigger_*); the flip-flop is untouched by every micro-step that is not an end word (sampled_only_at_end; instr_to_end: for every covered instruction and ANY state of the flip-flop the instruction runs to its end word with exactly Isa.step's effect) - so a request raised in any cycle is looked at only between two instructions; int_taken: with the request pending and IEF set at the end of the instruction the machine reaches, 9 micro-steps later, the first boundary of the routine in state intEntry(result) (FR and next address pushed, upper FR bits cleared, PC = 2) with the flip-flop clear (hence once), with IEF clear the request is dropped; press_any_cycle: the same when the request is raised after ANY number k of executed micro-steps of the instruction (the flip-flop is set between two edges, which is what a key press does) - press_commutes / step_withPend / nextAddr_indep: the flip-flop is read only by words that sample it, setting it commutes with every other step, so the run equals the run with the request pending from the start; reti_entry_roundtrip (specification level): RETI on the stack left by intEntry restores PC, FR incl. IEF and SP. instr_to_end covers every defined instruction incl. MUL and DIV (their loops never touch the flip-flop). Every-cycle sweeps on the real machine check count and transparency",
     technique="Lean 4 symbolic execution of the interrupt-entry routine generic in the end word + per-instruction end-word lemmas (generated) + every-clock-cycle trigger sweep on the real machine",
     rule="generated main programs (LDSP, MICR enable + EI at a random point, 6-15 random ALU/MUL/DIV/PUSH/POP/memory/output/CMP instructions, optionally DI..EI sections, CALL/RET, final spin loop) with a register-preserving interrupt routine that bumps a RAM counter; the key is pressed at EVERY clock cycle 0..T+6 (one run per cycle): expected count = (MICR key enable at the trigger cycle) AND (IEF as left by the first end word after the trigger), and the final registers, flags, SP, PC, outputs and RAM (without the counter and the dead stack area) must equal the uninterrupted run; pairs of triggers in a 12/40-cycle window: count <= 2 and transparency; a second press while the routine of the first one runs, at every cycle from the entry to well after RETI; a third of the programs use a one-shot routine that clears the enable bit by a read-modify-write of 0xF9; spec.micr after every press (the enable mask vs the model bus); a key pressed while the program waits in STOP (0/1/5 edges after the stop, then CONTINUE): the same count rule and transparency; the model machine is compared at the trigger and 120 edges after the sampling point; distinct = (program, cycle)",
     explanation="`enabled` in the property means: enable bit set when the key is pressed and IEF set at the next sampling point; EI, DI and RETI end without sampling (the request stays pending over them)",
     assumptions=["level interrupts absent (stubbed to None in bus.rs)"],
     )

prop("C14",
     modules=["Emu2a.Props.C14"],
     theorems=["Emu2a.C14.board_refines", "Emu2a.C14.step_R", "Emu2a.C14.comparators_reflect_inputs", "Emu2a.C14.status_bits",
               "Emu2a.C14.clamp_range", "Emu2a.C14.clamp_id", "Emu2a.C14.clamp_nan", "Emu2a.C14.clamp_above",
               "Emu2a.C14.clamp_below", "Emu2a.C14.dac_voltage", "Emu2a.C14.fan_period_law", "Emu2a.C14.fan_depends_on_do1",
               "Emu2a.C14.edgeBlock_eq", "Emu2a.C14.uio_visibility", "Emu2a.C14.raise_iff"],
     harness="c14",
     exhaustive={"quick": False, "thorough": True},
     level_text="Lean refinement theorem board_refines: after ANY sequence of port writes 0xF0-0xF3 and external input changes the byte-level board model (board.rs mirrored, f32 as bit patterns with a kernel-evaluable soft-float) is related to a pin-level specification in which the status registers are DERIVED: comparator bits from `input > byte/100` (comparator 2: max of input 2 and temperature), jumper/UIO/input-port levels as last applied, UIO changes ignored exactly for output pins, interrupt flip-flop and source flag raised exactly when the selected source makes its configured transition (one `fires` definition against the six copied code blocks); clamp theorems by case analysis on the definition for all bit patterns (never NaN, within 0..5 V, identity in range, NaN -> 0, above -> 5, below -> 0); dac_voltage (the stored value is the correctly rounded byte/100) and fan_period_law (|period - (255 - byte)| <= 1, 255 at rest, 0 at full speed, monotone) by kernel evaluation over all 256 bytes. Tied to board.rs by exhaustive tables and op-by-op differential histories; the specification is compared with the real board after every operation",
     technique="Lean 4 refinement proof (simulation relation per operation, induction over histories) + kernel-evaluated soft-float tables + differential histories against the pin-level specification",
     rule="tables for all 256 bytes (DAC voltage bits, fan rpm, period); clamp on 22 special bit patterns + 100k/2M random patterns through the specification (thorough: ALL 2^32 patterns against the clamping rule on the real board); 400/4000 histories of 20-140 operations (writes to 0xF0-0xF3 incl. interrupt-control and direction bytes, setters with special/random f32 bit patterns, jumpers, UIO pins) with everything the board reports compared after EVERY operation; every byte on every port from a configured state; distinct = distinct op lines",
     explanation="Board::master_reset leaves comparator bits stale until the next update (outside this property's alphabet; noted under C07)",
     assumptions=["IEEE-754 binary32 arithmetic of rustc for `/` and `*` (modelled by the soft-float, cross-checked on all 256 table entries every run)"],
     )

prop("C02",
     modules=["Emu2a.Props.C02"],
     theorems=["Emu2a.C02.compile_eq_ref", "Emu2a.C02.bols_encode", "Emu2a.C02.bols_length", "Emu2a.C02.fold_ok",
               "Emu2a.C02.push_ok", "Emu2a.C02.push_error", "Emu2a.C02.compile_error", "Emu2a.C02.resolve_lines",
               "Emu2a.C02.image_concat"],
     harness="c02",
     level_text="Lean refinement theorem compile_eq_ref: the one-pass translator with label placeholders (model of compiler.rs: 8-bit address counter, ByteOrLabel/LabelFn placeholders, final substitution, last-definition-wins table keyed by lower-cased names) produces exactly the two-pass reference assembly (pass 1: layout from address 0 and symbol table; pass 2: documented encoding per instruction form with mode/register fields, operand bytes, big-endian .DW, zero fill for .ORG/.BYTE, relative offset target-(addr+2) mod 256, settings) for every program whose lines are shorter than 256 bytes; bols_encode / bols_length cover every instruction form and operand shape by case analysis. The model is tied to the Rust translator by differential runs on generated programs (the AST is serialised from the real parser's output), and the real byte code is compared with the reference directly",
     technique="Lean 4 refinement proof (fold invariant over lines, case analysis over all instruction forms) + differential compile on generated programs against model and reference assembler",
     rule="generated (AST, text) pairs: random instruction forms x operand shapes x registers, directives (.ORG forward, .BYTE, .DB, .DW, .EQU, *STACKSIZE, *PROGRAMSIZE), forward/backward/mixed-case label references, later redefinitions, families of label names with a common stem of 7..40 characters; text rendered with random case, blanks, radix and leading zeros; the real parser's AST must equal the generated AST, then `compile` (model) and `spec.encode` (reference) are compared with the real Translator::compile output line by line; distinct = distinct serialised ASTs",
     explanation="the encoder is not yet checked against the CPU's decoder by a theorem (Isa.exec of the encoded bytes); that link is exercised by C01's search on assembled programs only",
     assumptions=["programs whose image fits the 240-byte RAM (the property's quantifier)"],
     )

prop("C06",
     modules=["Emu2a.Props.C02", "Emu2a.Props.C06"],
     theorems=["Emu2a.C02.compile_error", "Emu2a.C02.push_error", "Emu2a.C02.push_ok", "Emu2a.C02.bols_length",
               "Emu2a.C06.accepted_no_label_panic", "Emu2a.C06.bols_ref", "Emu2a.C06.fold_inv", "Emu2a.C06.push_inv"],
     harness="c06",
     level_text="Lean theorems on the translator model with Rust panics as explicit outcomes: compile_error (translation fails only by `.ORG` below the current address, overflow of the 8-bit address counter, or an undefined label at substitution), push_error/push_ok (exact conditions per line); DEC with every operand shape is total (bols_encode covers it). The two remaining panic classes are genuine defects recorded as known findings (backward .ORG; image larger than 240/255 bytes); any other panic, or one of these on a program outside its class (the model predicts the class for every generated program), is reported. accepted_no_label_panic: a program that passes the parser's label validation (every referenced name has a case-insensitive definition) never reaches the translator's `expect(\"Labels must be defined\")` - bols_ref: every placeholder the translator creates for any instruction form names a label the validation looked at; fold_inv: every name the parser counts as defined enters the translator's table under the same lower-cased key and stays findable. Hence for accepted programs translation fails only in the two recorded classes",
     technique="Lean 4 panic-outcome model of the translator with exact failure characterisation + differential compile-and-load under catch_unwind on generated and directed programs, known-findings filter",
     rule="generated accepted programs (incl. backward .ORG in a fifth, oversize images in a quarter), directed: images of every size 0..300, .ORG to 14 targets from 7 positions, labels referenced in other letter cases through JR/JMP/CALL/JCS/LD/LDSP/DEC/MOV/.EQU, DEC with every operand shape, a label that is defined nowhere in every label-bearing operand position (105 programs; rejected by a correct parser); each is parsed by the real parser, compiled and loaded under catch_unwind, the panic site is classified from the panic message; `compileload` = model prediction, `spec.c06` = must be ok; distinct = distinct serialised ASTs",
     explanation="KNOWN FINDINGS (see known_findings.txt): backward .ORG, image > 240 bytes, image > 255 bytes",
     assumptions=["harness built with overflow checks on (the release binary wraps the address counter silently instead of panicking)"],
     )

prop("C03",
     modules=["Emu2a.Props.C03", "Emu2a.Props.C03x.Family", "Emu2a.Props.C03x.Total"],
     theorems=["Emu2a.C03.parse_never_panics", "Emu2a.C03.parse_decides", "Emu2a.C03.file_height", "Emu2a.Peg.run_not_oof", "Emu2a.Peg.run_sound", "Emu2a.Peg.run_mono", "Emu2a.Peg.run_agree",
               "Emu2a.C03.X_holds", "Emu2a.C03.run_wf", "Emu2a.C03.parseInstruction_ok", "Emu2a.C03.parseLine_ok",
               "Emu2a.C03.number_byte_ok", "Emu2a.C03.number_word_ok", "Emu2a.C03.constant_dec_ok", "Emu2a.C03.word_dec_ok",
               "Emu2a.C03.constant_bin_ok", "Emu2a.C03.constant_hex_ok", "Emu2a.C03.parseRegister_ok", "Emu2a.C03.parseMemory_ok",
               "Emu2a.C03.choicesOf_sound", "Emu2a.C03.fromRadix_ok",
               "Emu2a.C03.fromRadix_bound", "Emu2a.C03.validate_spec", "Emu2a.C03.parse_total", "Emu2a.C03.reject_family",
               "Emu2a.C03.accept_family", "Emu2a.C03.label_limit"],
     harness="c03",
     shrink=False,
     exhaustive={"quick": False, "thorough": False},
     level_text="PARTIAL (language equality is not a theorem). The model of the parser is a PEG interpreter over the grammar REGENERATED from mrasm.pest on every run (tools/gen_grammar.py; three outcomes: match, real failure, out of fuel - run_mono: an answer never changes with more fuel, so a failed alternative is a real failure) plus hand-written AST builders in which every unwrap/expect/unreachable!/inner_tuple! of implementation/mod.rs is an explicit `panic <site>` outcome. THEOREM parse_never_panics (build_total): for EVERY input text and every fuel the parser model never ends in a panic outcome - via run_sound (generic PEG metatheory: whatever the interpreter returns lies in a denotation of the expression that fixes the consumed text and the inner tokens, and every token tree is well-formed recursively), per-rule facts computed from the regenerated grammar (choicesOf: the possible inner-token sequences of each of the 94 rules; number rules: every text constant_bin/hex/dec and word_bin/hex/dec can match is a non-empty digit string whose value is below 256 / 65536, so from_str_radix(..).unwrap() cannot fail - decimal alternatives by kernel evaluation of their digit ranges, binary/hex by a 2^k / 16^k bound for any number of leading zeros), X_holds (the `raw_label` alternative of `memory` is dead because `constant` takes every label first - ordered choice, from fuel monotonicity), one generated lemma per alternative of `instruction` (81) and totality of every builder on well-formed trees. parse_decides: with the fuel the driver uses (80 + 4 x length; 80 = the static height of the `file` rule, computed by the kernel from the regenerated grammar) the interpreter never answers out-of-fuel, by run_not_oof (fuel >= height + input length suffices for any grammar: every iteration of a repetition strictly shortens the input) - so `syntax error` from the model is a real rejection. Further theorems: every numeric value a builder returns is below the limit of its type (fromRadix_bound), label validation rejects exactly >40 definitions / a reference without a case-insensitive definition (validate_spec); reject_family / accept_family / label_limit: kernel evaluation of the model parser on 33 boundary rejects, 11 accepts right below the boundaries with their ASTs, and 40 / 41 label definitions (tests, labelled as such). NOT a theorem: language equality with a description independent of the grammar file and that the returned AST lists what was written; decided up to the correspondence: real pest parser vs the model on generated programs whose AST is known by construction (spec.parse), single-token mutations, directed accept/reject boundaries, digit-less / signed literals and undefined labels in every operand position, raw byte/Unicode strings under catch_unwind (spec.noparsepanic)",
     technique="Lean 4 PEG metatheory (denotation + soundness of the interpreter, fuel monotonicity) over the grammar translated from mrasm.pest, totality of the AST builders on every well-formed token tree (81 generated per-instruction lemmas), number-range proofs + differential search against the real pest parser with construction-known ASTs",
     rule="generated (AST, text) pairs over every instruction form, radix, leading zeros, case and spacing variants (`parse` = real result vs model result, `spec.parse` = real result vs the AST the text was written from), two single-token mutations of each, 30 directed rejects + 105 programs that reference an undefined label in every operand position and 8 directed boundary accepts, raw strings over an mrasm-biased and a Unicode alphabet (`spec.noparsepanic`); distinct = distinct texts",
     explanation="a difference on a `spec.` line is a concrete input on which the real parser returns the wrong program, accepts/rejects wrongly, or panics",
     assumptions=["pest's PEG semantics is modelled by the interpreter in Model/Peg.lean (ordered choice, greedy repetition, implicit whitespace off, SOI/EOI, case-insensitive literals); tied by the differential runs only"],
     )

prop("C16",
     modules=["Emu2a.Props.C16"],
     theorems=["Emu2a.C16.rt_forms", "Emu2a.C16.hex_roundtrip", "Emu2a.C16.dec_roundtrip_byte", "Emu2a.C16.trim_idem",
               "Emu2a.C16.comment_roundtrip", "Emu2a.C16.parsed_comment_trimmed", "Emu2a.C16.forms_cover"],
     harness="c16",
     shrink=False,
     exhaustive={"quick": False, "thorough": False},
     level_text="PARTIAL. Lean theorems over the model parser (PEG interpreter over the grammar regenerated from mrasm.pest + AST builders) and the model formatter (format.rs Display impls, widths from the regenerated constants): rt_forms — parse(format(p)) = p by kernel evaluation for a family of 331 lines covering every instruction form, operand shape, register, label/number operands and extreme values; hex_roundtrip — every byte rendered as 0xHH reads back; dec_roundtrip_byte — every byte in decimal reads back; trim_idem / comment_roundtrip / parsed_comment_trimmed — for ARBITRARY comment text the '; ' prefix the formatter writes is absorbed by the parser's trimming and stored comments are fixed points of it. NOT a theorem: the lift from the family to all programs (compositionality of the PEG interpreter over lines); decided up to the search: format -> parse on the real code for generated accepted programs (spec.roundtrip), and real formatter = model formatter, real parser = model parser on the rendered text",
     technique="Lean 4 kernel-evaluated round trip over a covering family of instruction forms + proofs for number rendering and comment trimming + differential search format/parse round trip on the real code",
     rule="generated accepted programs (every instruction form, operand shape, random values, labels of length 1-30 in mixed case, comments over printable ASCII + Unicode with leading/trailing blanks, tabs and semicolons, header comments): `fmt` = real Display output vs model formatter, `spec.roundtrip` = real parse(format(parse(text))) must equal parse(text), `parse` of the rendered text real vs model; distinct = distinct ASTs",
     explanation="a difference on `spec.roundtrip` is an accepted program whose rendering is rejected or parses to a different program",
     assumptions=["the family in Props/C16x/Forms.lean is hand-chosen; forms outside it are covered by the search only"],
     )

prop("C12",
     modules=["Emu2a.Props.C12"],
     theorems=["Emu2a.C12.run_spec", "Emu2a.C12.run_cycles_unique", "Emu2a.C12.run_eq_specRun", "Emu2a.C12.run_budget_monotone",
               "Emu2a.C12.cycle_irrelevant", "Emu2a.C12.cycle_dup", "Emu2a.C12.verify_ok_iff", "Emu2a.C12.verify_err",
               "Emu2a.C12.verify_eq_spec", "Emu2a.C12.cli_exit", "Emu2a.C12.parseU8_bound", "Emu2a.C12.parseU8_accepts",
               "Emu2a.C12.parseU8_rejects_above"],
     harness="c12",
     binary="plain",
     shrink=False,
     exhaustive={"quick": False, "thorough": False},
     level_text="Lean theorems on the model of the runner loop (runner/mod.rs transcribed with fuel): run_spec - for EVERY budget N, every interrupt and reset list (duplicates, cycle 0, entries beyond the end) and every initial machine the loop returns (stateAt k, k) where stateAt is the schedule-driven state sequence of the property (interrupt and/or CPU reset scheduled for i, then one edge), k <= N, either k = N or k >= 1 and the machine is not Running after cycle k, and it was Running after every earlier cycle; run_cycles_unique (that k is determined by the sequence alone), run_eq_specRun (loop = budget-recursive specification, which the driver evaluates), run_budget_monotone, cycle_irrelevant / cycle_dup (list membership is all that matters); verify_ok_iff / verify_err / verify_eq_spec (verification succeeds exactly when every stated expectation matches, first mismatch in the order state, FE, FF); cli_exit (exit status 0 iff the file could be read, the program was accepted and every stated expectation holds; the printed values are the final machine's, also when verification fails); parseU8_bound / parseU8_accepts / parseU8_rejects_above (auto-radix byte arguments: every byte accepted in three radices, nothing above 255 accepted). The loop transcription, machine construction (new_with_program: load then configuration in source order) and the CLI glue are tied to the code by differential runs in-process (complete machine dumps incl. private fields) and through the real `2a-emulator run ... verify ...` binary as a subprocess (exit status and printed Cycles/State/FE/FF)",
     technique="Lean 4 loop characterisation by induction on fuel/budget (refinement to a declarative schedule) + case analysis for expectation matching and exit status + differential: real RunnerConfig::run, step-by-step execution of the property text on the real machine, and the real binary as a subprocess",
     rule="in-process: programs from 12 templates (loops, interrupt routines, stack overflow, program-size limits, board ports), the repository's own programs/ and testing/programs/, generated programs and 5 invalid texts x budgets (0-3, 0-400, 1000-4000) x interrupt/reset lists (empty, single, up to 5 entries incl. 0, N-1, N, beyond N, duplicates) x machine configurations; `spec.runner` = real runner vs budget-recursive specification (complete dump + cycle count), `runner` = vs loop model, `spec.stepped` = real runner vs the property text executed on the real machine; `spec.verify`: every subset of expectations x every subset of them mismatching (quick: a third); `spec.cli`: the real binary with byte arguments in three radices / odd texts (28 boundary texts: 256, 0x100, 0b2, +255, 0x+7, empty, non-ASCII digits ...), arbitrary voltages, schedules, missing files, invalid programs, verify with true/false expectations: exit status and printed values; distinct = distinct argument tuples",
     explanation="arguments the CLI refuses (clap) are expected to exit with status 1 and print nothing; a program hitting one of C06's known panics is excluded by the generator",
     assumptions=["decimal text -> f32 parsing of --temp/--ai1/--ai2 is Rust's (the harness renders the voltage with Rust's shortest round-trip formatting and hands the bit pattern to the model)",
                  "time_taken and log output are not compared"],
     )

prop("C17",
     modules=["Emu2a.Props.C17", "Emu2a.Props.C17x.Forms"],
     theorems=["Emu2a.C17.handle_good", "Emu2a.C17.handle_ok", "Emu2a.C17.run_ok", "Emu2a.C17.render_ok", "Emu2a.C17.draw_input_ok",
               "Emu2a.C17.inputWidth_ge", "Emu2a.C17.parseCmd_wf", "Emu2a.C17.reg_dec_spec", "Emu2a.C17.key_dismisses_note",
               "Emu2a.C17.ctrl_keys", "Emu2a.C17.ctrl_other", "Emu2a.C17.enter_is_clock", "Emu2a.C17.enter_submits",
               "Emu2a.C17.exec_table", "Emu2a.C17.next_is_clocks", "Emu2a.C17.handleEvent_good", "Emu2a.C17.session_never_panics",
               "Emu2a.C17.session_refines_spec", "Emu2a.C17.cmd_forms_agree"],
     harness="c17",
     binary="hooks",
     shrink=True,
     exhaustive={"quick": False, "thorough": False},
     level_text="PARTIAL (drawing of the widgets other than the input line goes through the tui crate, which is not modelled; it is exercised at every terminal size by the headless hook only). Lean theorems on the model of the interactive session (tui/input/mod.rs, parser.rs, tui/mod.rs; every Rust operation that can panic - Vec::insert/remove, indexing, % by zero, usize subtraction, slicing at a byte offset, Buffer index - is an explicit `panic` outcome): handle_good / handle_ok / run_ok - for EVERY sequence of keys and EVERY answer of the path completer the line editor never panics and keeps the cursor inside the text, the history index inside the history and the completion index inside the completion list; render_ok / draw_input_ok / inputWidth_ge - the input line is drawn without a panic and inside its row at every field width >= 8, hence at every terminal size the layout guard admits (minimum sizes and sidebar width regenerated from interface.rs), whatever the text and cursor; session_never_panics / handleEvent_good - no sequence of key events makes the session panic unless a `load` command hits one of the translator/loader panics recorded under C06; parseCmd_wf - whatever line is typed, a parsed command carries a register index < 4, byte values < 256 and a cycle count < 2^64 (nothing is truncated); reg_dec_spec - `FC..FF = <digits>` for EVERY digit string: the denoted value if <= 255, no command otherwise; ctrl_keys / ctrl_other / enter_is_clock / enter_submits / exec_table / next_is_clocks / key_dismisses_note - the event dispatch: control keys = the library calls of the same name, Enter on an empty line = clock key, a submitted line = documented command or rejection with a notification quoting it, each command = the library setter of that name; session_refines_spec - seen from machine and notification every event does what the specification prescribes, given that grammar and documented language agree on the submitted line; cmd_forms_agree - that agreement by kernel evaluation on 69 documented/near-miss forms and all 4681 strings up to length 4 over an 8-character alphabet (a test, labelled as such). Tied to the code through a headless script driver inside the real binary (feature verif-hooks): injected key events go through the real handle_event, drawing through the real Interface into an in-memory backend",
     technique="Lean 4 invariant proof by induction over key sequences (panic-outcome model of the editor, layout arithmetic and dispatch) + characterisation theorems for the nom command grammar + refinement to a token-based command specification + differential sessions through the real binary's headless hook (every key sequence up to a bound, all terminal sizes, command strings over a Unicode alphabet)",
     rule="script ops executed by the real Tui inside the binary: (A) EVERY sequence of 3 (thorough: 4) keys over 16 keys (characters incl. multi-byte, Enter, Tab/BackTab with scripted completer answers, Backspace, Home/End, arrows, Delete) + one more key, full dump after each; (B) 300/3000 random editing sessions of 5-200 keys incl. wide, zero-width and four-byte characters, control chords, Esc/Insert/F-keys, dump after every (third) key, drawing at random sizes; (C) inputs of 30-300 characters with the cursor moved to every position, the input row compared cell by cell (symbols and highlight) at widths 76-250; (D) 6000/60000 command lines (documented forms x case x blanks x radix x boundary values 255/256, near misses, blank-only lines, random Unicode strings) + every string up to length 4 (5) over 8 characters: `cmd` = real nom parser vs model, `spec.cmd` = vs the documented language; (E) 250/2500 sessions that load programs, submit commands, press control keys / clock / next N: `spec.tmach` = machine dump and notification vs the specification after every event; (F2) every prefix of every command form in lower/upper/mixed case typed key by key with a draw after each key (the help sidebar depends on the text); (F) drawing the whole interface at a grid of / all 25 000 terminal sizes 1x1..250x100 from 6 session states (empty, text, long multi-byte text, notification, memory view with a loaded program, failed load): `spec.tnopanic`; `spec.tsafe` = cursor inside the text after every dump; distinct = distinct op lines",
     explanation="float arguments outside `digits[.digits]` (signs, exponents, inf/nan) are outside the model: for them only `no panic` is checked (spec.cmdsafe)",
     assumptions=["the path completer's file-system lookup is replaced by scripted answers in hooked builds (same slicing contract as rustyline's complete_path); its own code is not modelled",
                  "unicode-width's table is not modelled: the cell-by-cell row comparison uses one-cell-wide and control characters; wide / zero-width characters are covered by the no-panic draws",
                  "a program that hits C06's known translator/loader panics also panics the session when loaded with `load PATH` (same defect, recorded under C06); the generator loads other programs"],
     )
