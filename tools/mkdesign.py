#!/usr/bin/env python3
"""Assemble DESIGN.md from docs/design_head.md, docs/design_mid.md, the per-property configuration
(tools/props.py: what is claimed, how it is tied, how violations are searched for), docs/design_tail.md
and the seeded-change records (seeded/*/meta.json)."""
import json, glob, os, sys
ROOT = os.path.join(os.path.dirname(os.path.abspath(__file__)), "..")
sys.path.insert(0, os.path.dirname(os.path.abspath(__file__)))
import props

titles = {json.loads(l)["id"]: json.loads(l)["title"] for l in open(os.path.join(ROOT, "properties.jsonl"))}

def wrap(text, width=100, indent=""):
    out, line = [], indent
    for w in text.split():
        if len(line) + len(w) + 1 > width and line.strip():
            out.append(line.rstrip()); line = indent
        line += w + " "
    if line.strip():
        out.append(line.rstrip())
    return "\n".join(out)

sec6 = ["## 6. Per property: what is proved, how it is tied to the code, how violations are found", "",
        "Generated from tools/props.py (the same texts go into MANIFEST.json and the evidence files), so that",
        "this section cannot drift from what the checks do. **Theorems** are the names audited on every run",
        "(`#print axioms`); **Search** describes the generated inputs; lines starting with `spec.` compare",
        "the implementation with the specification, all other lines with the model.", ""]
for pid in sorted(props.PROPS):
    P = props.PROPS[pid]
    sec6 += ["### %s — %s" % (pid, titles.get(pid, "")), "",
             wrap("**Claim.** " + P["level_text"]), "",
             wrap("**Theorems** (%s): " % ", ".join("`%s`" % m for m in P["modules"]) + ", ".join("`%s`" % t.split(".")[-1] for t in P["theorems"]) + "."), "",
             wrap("**Technique.** " + P["technique"]), "",
             wrap("**Search.** " + P.get("rule", "")), ""]
    if P.get("explanation"):
        sec6 += [wrap("**Note.** " + P["explanation"]), ""]
    if P.get("assumptions"):
        sec6 += ["**Assumptions.**"] + ["* " + a for a in P["assumptions"]] + [""]

rows = ["| seeded change | property | what it needs in order to manifest | detected by |", "|---|---|---|---|"]
for d in sorted(glob.glob(os.path.join(ROOT, "seeded", "*"))):
    try:
        m = json.load(open(os.path.join(d, "meta.json")))
    except Exception:
        continue
    need = " ".join((m.get("needs_to_manifest") or "").split())
    det = " ".join((m.get("detected_by") or "not yet run").split())
    rows.append("| `%s` | %s | %s | %s |" % (os.path.basename(d), m.get("property", "?"), need[:260].replace("|", "/"), det[:300].replace("|", "/")))

text = (open(os.path.join(ROOT, "docs", "design_head.md")).read() + open(os.path.join(ROOT, "docs", "design_mid.md")).read()
        + "\n".join(sec6) + "\n" + open(os.path.join(ROOT, "docs", "design_tail.md")).read().replace("<!-- SEEDTABLE -->", "\n".join(rows)))
open(os.path.join(ROOT, "DESIGN.md"), "w").write(text)
print("DESIGN.md: %d lines" % text.count("\n"))
