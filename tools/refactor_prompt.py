import sys
areas={
 'R1':('emulator-2a-lib/src/machine/bus.rs','the bus: `Bus::read` / `Bus::write` / resets / interrupt helpers. E.g. turn the if/else-if chains over addresses into `match` with ranges, introduce named constants for addresses, extract helper methods, reorder independent statements, rename locals.'),
 'R2':('emulator-2a-lib/src/machine/raw/mod.rs','the clock-edge pipeline (`trigger_clock_edge` and the `MachineAfter…` stages), `is_stackpointer_valid` / `is_program_counter_valid`, the memory-wait generation, resets. E.g. extract helper functions, replace literal comparisons by equivalent range matches or named constants, restructure the stack-size table, reorder independent statements.'),
 'R3':('emulator-2a-lib/src/machine/alu.rs','the ALU (`AluOutput::from_input`). E.g. compute with u16 arithmetic instead of chains of `overflowing_add`, share helpers between the add variants and between the shift variants, use bit tricks - with exactly the same result/carry/zero/negative for all inputs.'),
 'R4':('emulator-2a-lib/src/machine/microprogram_ram.rs and microprogram_ram_content.rs, signals.rs','the control-word representation and the derived signals (`Signals`). E.g. rewrite signal accessors via helper functions, restructure `next_microprogram_address` into smaller functions or a lookup, reformat the control-store literals (hex or grouped binary, without changing any value), reorder bitflag constant declarations.'),
 'R5':('emulator-2a-lib/syntax/mrasm.pest and emulator-2a-lib/src/parser/implementation/mod.rs','the grammar and the AST builders. E.g. factor common sub-expressions into new silent/helper rules or inline helper rules, rewrite numeric-literal rules into equivalent forms, restructure the builders (iterators instead of indexing, helper functions) - the accepted language and the produced AST must stay exactly the same.'),
 'R6':('emulator-2a-lib/src/compiler.rs and emulator-2a-lib/src/parser/ast/format.rs','the byte-code translator and the program formatter. E.g. restructure `push_instruction` into per-instruction helpers, replace the label placeholder mechanism by an equivalent one, tidy the Display impls - byte output, reported lines and rendered text must stay exactly the same.'),
 'R7':('emulator-2a-lib/src/machine/board.rs and emulator-2a-lib/src/machine/mod.rs','the MR2DA2 board model and the `Machine` wrapper (step modes, load, configuration). E.g. merge the duplicated edge-detection blocks into a helper, introduce small private types, restructure `trigger_key_clock`.'),
 'R8':('emulator-2a-lib/src/runner/mod.rs, emulator-2a/src/tui/input/mod.rs, emulator-2a/src/tui/input/parser.rs, emulator-2a/src/tui/mod.rs','the runner loop, the TUI line editor, the nom command grammar and the key dispatch. E.g. restructure loops, extract helpers, replace hand-written index arithmetic by equivalent std methods, reorder nom alternatives that cannot overlap.'),
}
k=sys.argv[1]
files,desc=areas[k]
print(f"""You are helping to evaluate a verification tool. Produce ONE behaviour-PRESERVING refactoring (no functional change at all) of a Rust code base, of the kind a maintainer does when tidying code. Work ONLY inside the git worktree /tmp/wt-{k} (a checkout of the project MalteT/2a-emulator: an emulator for the Minirechner 2a teaching microcomputer - pest-based assembler, byte-code translator, microprogrammed CPU / bus / MR2DA2 board model, runner CLI and a TUI). Do NOT read, list or touch /verif or /repo or any other /tmp/wt-* directory; do not commit anything; never use the network (build with `CARGO_NET_OFFLINE=true cargo ... --offline`).

Area to refactor: {files}
What to do: a substantial but purely structural rewrite of {desc}

Hard requirements:
- Observable behaviour must be IDENTICAL for every input: same results, same panics/non-panics, same state after every call, same public API (names, signatures, derives such as Clone/PartialEq/Debug, field semantics). Do not fix bugs, do not change constants, limits, messages that are parsed, or timing (number of clock edges).
- Keep every item that is guarded by the cargo feature `verif-hooks` compiling and working exactly as before (build once with `--features verif-hooks` for the crate(s) you touched: `cargo build --offline -p emulator-2a-lib --features verif-hooks` and, if you touched the binary crate, `cargo build --offline -p emulator-2a --features verif-hooks`).
- The workspace compiles and the complete test suite passes: cd /tmp/wt-{k} && CARGO_NET_OFFLINE=true cargo test --workspace --no-fail-fast --offline
- Convince yourself of equivalence beyond the test suite (e.g. a throw-away exhaustive or randomized comparison against the original code kept as a copy in a test module; remove it again afterwards).
- Touch at least 40 lines; make it look like a real cleanup (not only renames).

Deliver into /tmp/out-{k}/ :
- patch.diff : `git diff` of your change, applicable with `git apply` at the repository root,
- notes.md : what you changed, why it is behaviour-preserving, the commands you ran and their results.
Leave the worktree with your change applied but WITHOUT build output (`cargo clean` or delete target/).
Reply with a five-line summary.""")
