"""Evaluate the integer constant expressions of Rust `const` items and bitflags declarations:
literals (0b / 0x / decimal, `_` separators, integer suffixes), + - * / << >> | & ^ !, parentheses,
`as <type>` casts, and references to other constants (`NAME`, `Self::NAME`, `Type::NAME`,
`Type::NAME.bits()`, `Self::NAME.bits`).  Nothing else is accepted (ValueError)."""
import ast, re

_TOKEN = re.compile(r"\s*(?:(0b[01_]+|0x[0-9a-fA-F_]+|\d[\d_]*)(?:[iu](?:8|16|32|64|128|size))?"
                    r"|((?:[A-Za-z_]\w*::)*[A-Za-z_]\w*(?:\.bits\(\)|\.bits)?)"
                    r"|(<<|>>|[-+*/|&^!()]))")


def _lit(s):
    s = s.replace("_", "")
    if re.fullmatch(r"0+\d+", s):
        s = s.lstrip("0") or "0"
    return int(s, 0)


def evaluate(expr, env=None, depth=0):
    """env: name -> int or unevaluated expression string (resolved lazily)."""
    env = env or {}
    if depth > 20:
        raise ValueError("constant reference cycle")
    expr = re.sub(r"\bas\s+[iu](?:8|16|32|64|128|size)\b", "", expr)
    out, i = [], 0
    expr = expr.strip()
    while i < len(expr):
        m = _TOKEN.match(expr, i)
        if not m or m.end() == i:
            raise ValueError("cannot read constant expression %r at %r" % (expr, expr[i:i + 12]))
        lit, name, op = m.groups()
        if lit is not None:
            out.append(str(_lit(lit)))
        elif name is not None:
            base = re.sub(r"\.bits(\(\))?$", "", name).split("::")[-1]
            if base not in env:
                raise ValueError("unknown constant %s in %r" % (name, expr))
            v = env[base]
            if not isinstance(v, int):
                v = evaluate(v, env, depth + 1)
                env[base] = v
            out.append(str(v))
        else:
            out.append({"!": "~"}.get(op, op) if op != "/" else "//")
        i = m.end()
    tree = ast.parse(" ".join(out), mode="eval")
    for node in ast.walk(tree):
        if not isinstance(node, (ast.Expression, ast.BinOp, ast.UnaryOp, ast.Constant, ast.Add, ast.Sub, ast.Mult,
                                 ast.FloorDiv, ast.LShift, ast.RShift, ast.BitOr, ast.BitAnd, ast.BitXor, ast.Invert,
                                 ast.USub, ast.UAdd)):
            raise ValueError("unsupported construct in %r" % expr)
    return int(eval(compile(tree, "<const>", "eval"), {"__builtins__": {}}, {}))


def const_items(src):
    """All `const NAME: type = expr;` items of a source text (name -> expression text)."""
    return {n: e.strip() for n, e in re.findall(r"\bconst\s+([A-Z_][A-Z0-9_]*)\s*:\s*[\w:<>\[\]; ]+?=\s*([^;]+);", src)}


def flag_items(body):
    """`const NAME = expr;` items inside a bitflags block (name -> expression text), in order."""
    body = re.sub(r"//[^\n]*", "", body)
    return re.findall(r"\bconst\s+(\w+)\s*=\s*([^;]+);", body)
