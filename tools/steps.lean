import Emu2a.Model.Flow
open Emu2a Flow Isa
def main : IO Unit := do
  let firsts := (List.range 256).map fun op => if definedFirst op && !isMul op && !isDiv op then (pathLens 17 (start op)).headD 0 + 1 else 0
  let seconds := (List.range 256).map fun b => if definedSecond b then (pathLens 17 (start2 b)).headD 0 + 1 else 0
  IO.println s!"\{\"first\": {firsts}, \"second\": {seconds}}"
