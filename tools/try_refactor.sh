#!/bin/sh
# Apply a behaviour-preserving refactoring to /repo, run every quick check, undo it.
# Any VIOLATION here is a false alarm of the machinery (or the refactoring is not behaviour preserving).
# usage: try_refactor.sh <dir with patch.diff> [property ids...]
D=$(cd "$1" && pwd); shift
cd /verif
git -C /repo diff --quiet || { echo "/repo not clean"; exit 2; }
git -C /repo apply "$D/patch.diff" || exit 2
IDS=${*:-C01 C02 C03 C04 C05 C06 C07 C08 C09 C10 C11 C12 C13 C14 C15 C16 C17}
: > "$D/refactor_checks.log"
for id in $IDS; do
  ./check "$id" > "$D/check_$id.log" 2>&1; rc=$?
  echo "== $id rc=$rc $(grep -E 'tier=' "$D/check_$id.log" | cut -c1-150)" | tee -a "$D/refactor_checks.log"
  [ $rc -ne 0 ] && grep -E "VIOLATION|\[(tie|proof|corr)\]" "$D/check_$id.log" | cut -c1-260 | head -6 | tee -a "$D/refactor_checks.log"
  python3 - "$id" >> "$D/refactor_checks.log" <<'PY'
import json,sys
try:
    e=json.load(open('/verif/evidence/%s.json'%sys.argv[1]))
    for n in e['coverage'].get('tie_notes',[]): print('   note:',n[:200])
except Exception as ex: pass
PY
  git checkout -q -- "evidence/$id.json" 2>/dev/null
done
git -C /repo checkout -- .
for g in gen_ucode.py gen_consts.py gen_grammar.py gen_c01.py gen_muldiv.py gen_c03.py; do python3 tools/$g > /dev/null; done
git -C /repo status --short | head
