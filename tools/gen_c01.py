#!/usr/bin/env python3
"""Generate the per-opcode refinement lemmas of C01 (statements are uniform; the proof is symbolic
execution of the generated control store).  Step counts come from the control store itself
(lean/Emu2a/Model/Flow.lean `pathLens`, evaluated by tools/steps.lean)."""
import json, os, subprocess, sys
ROOT = os.path.join(os.path.dirname(os.path.abspath(__file__)), "..")
LEAN = os.path.join(ROOT, "lean")
OUTDIR = os.path.join(LEAN, "Emu2a", "Props", "C01x")

def steps():
    b = subprocess.run(["lake", "build", "Emu2a.Model.Flow"], cwd=LEAN, capture_output=True, text=True)
    if b.returncode != 0:
        print("gen_c01: cannot build Emu2a.Model.Flow\n" + b.stdout[-400:], file=sys.stderr); sys.exit(2)
    r = subprocess.run(["lake", "env", "lean", "--run", os.path.join(ROOT, "tools", "steps.lean")], cwd=LEAN, capture_output=True, text=True)
    if r.returncode != 0:
        print(r.stdout, r.stderr, file=sys.stderr); sys.exit(2)
    return json.loads(r.stdout)

OPEN = """  obtain ⟨addr, ⟨r0, r1, r2, r3, r4, r5, r6, r7⟩, ir, bus, pr, pf, pi, al, lb⟩ := c
  obtain ⟨a0, a1, a2, apc, afr, asp, abus⟩ := a
  obtain ⟨hf, h0, h1, h2, h3, h4, h5, hb, hpr, hpf, hal, hlb⟩ := h
  simp only at hf h0 h1 h2 h3 h4 h5 hb hpr hpf hal hlb
  subst h0 h1 h2 h3 h4 h5 hb hpr hpf hlb
"""

NOSAMPLE = set(range(0x08, 0x10)) | set(range(0x2C, 0x30))   # EI, DI, RETI end without sampling

def derive(name, endname, n, args, stmt_tail):
    return f"""theorem {name} {args} (hint : c.pendInt = false) :
    {stmt_tail} := by
  obtain ⟨a', hs, he, hpi⟩ := {endname}
  have hf := IntEntry.end_to_fetch _ _ he (by rw [hpi, hint]; simp)
  exact ⟨a', hs, hf.1⟩
"""

def lemma(op, n, split=None):
    args = f"(c : Core) (a : Arch) (h : AtFetch c a) (hop : a.bus.read a.pc = {op}#8)"
    if op in NOSAMPLE:
        head = f"""set_option maxHeartbeats 4000000 in
theorem nos_{op:02X} {args} :
    ∃ a', Isa.step a = some a' ∧ AtFetch (Core.iter {n} c) a' ∧ (Core.iter {n} c).pendInt = c.pendInt := by
"""
        main = head + OPEN + f"""  refine ⟨_, by uspec; rfl, ?_⟩
  iterate {n} ustep
  first
    | (refine And.intro ?_ (by first | rfl | simp); uclose)
    | uclose
"""
        d = f"""theorem op_{op:02X} {args} (hint : c.pendInt = false) :
    ∃ a', Isa.step a = some a' ∧ AtFetch (Core.iter {n} c) a' := by
  obtain ⟨a', hs, hf, _⟩ := nos_{op:02X} c a h hop
  exact ⟨a', hs, hf⟩
"""
        return main + "\n" + d
    head = f"""set_option maxHeartbeats 4000000 in
theorem end_{op:02X} {args} :
    ∃ a', Isa.step a = some a' ∧ AtEnd (Core.iter {n - 1} c) a' ∧ (Core.iter {n - 1} c).pendInt = c.pendInt := by
"""
    body = f"""refine ⟨_, by uspec; rfl, ?_⟩
  iterate {n - 1} ustep
  first
    | (refine And.intro ?_ (by first | rfl | simp); ucloseEnd)
    | ucloseEnd
"""
    if split == "jr" and (op & 3) != 0:
        fl = {1: ("flagC", 1), 2: ("flagZ", 2), 3: ("flagN", 4)}[op & 3]
        main = head + OPEN + f"""  cases hF : flagBit r4 {fl[1]}
  all_goals
    have hF' : Isa.{fl[0]} r4 = _ := hF
    refine ⟨_, by uspec; rfl, ?_⟩
    iterate {n - 1} ustep
    first
      | (refine And.intro ?_ (by first | rfl | simp); ucloseEnd)
      | ucloseEnd
"""
    else:
        main = head + OPEN + "  " + body
    d = derive(f"op_{op:02X}", f"end_{op:02X} c a h hop", n, args,
               f"∃ a', Isa.step a = some a' ∧ AtFetch (Core.iter {n} c) a'")
    return main + "\n" + d

OPEN2 = """  obtain ⟨addr, ⟨r0, r1, r2, r3, r4, r5, r6, r7⟩, ir, bus, pr, pf, pi, al, lb⟩ := c
  obtain ⟨a0, a1, a2, apc, afr, asp, abus⟩ := a
  obtain ⟨hf, h0, h1, h2, h3, h4, h5, h6, hb, hpr, hpf, hal, hlb⟩ := h
  simp only at hf h0 h1 h2 h3 h4 h5 h6 hb hpr hpf hal hlb
  subst hf h0 h1 h2 h3 h4 h5 h6 hb hpr hpf hlb
"""

def prefix_lemma(op, n):
    # n = steps up to and including the second-opcode word
    return f"""set_option maxHeartbeats 4000000 in
theorem pre_{op:02X} (c : Core) (a : Arch) (h : AtFetch c a) (hop : a.bus.read a.pc = {op}#8) :
    AtSecond (Core.iter {n} c) (Isa.operand {{ a with pc := a.pc + 1 }} {(op >> 2) & 3} {op & 3}).1
      (Isa.operand {{ a with pc := a.pc + 1 }} {(op >> 2) & 3} {op & 3}).2.1 ∧ (Core.iter {n} c).pendInt = c.pendInt := by
""" + OPEN + f"""  iterate {n} ustep
  first
    | (refine And.intro ?_ (by first | rfl | simp); uclose)
    | uclose
"""

def second_lemma(b, n):
    args = f"(c : Core) (a : Arch) (v : Byte) (h : AtSecond c a v) (hop : a.bus.read a.pc = {b}#8)"
    main = f"""set_option maxHeartbeats 4000000 in
theorem send_{b:02X} {args} :
    ∃ a', Isa.second {{ a with pc := a.pc + 1 }} {b} v = some a' ∧ AtEnd (Core.iter {n - 1} c) a' ∧
      (Core.iter {n - 1} c).pendInt = c.pendInt := by
""" + OPEN2 + f"""  refine ⟨_, by uspec; rfl, ?_⟩
  iterate {n - 1} ustep
  first
    | (refine And.intro ?_ (by first | rfl | simp); ucloseEnd)
    | ucloseEnd
"""
    d = derive(f"sec_{b:02X}", f"send_{b:02X} c a v h hop", n, args,
               f"∃ a', Isa.second {{ a with pc := a.pc + 1 }} {b} v = some a' ∧ AtFetch (Core.iter {n} c) a'")
    return main + "\n" + d

def main():
    d = steps()
    os.makedirs(OUTDIR, exist_ok=True)
    groups = {}
    for op in range(256):
        n = d["first"][op]
        if n == 0 or op >= 0xF0:
            continue   # undefined, MUL/DIV (loop lemmas), prefixes (separate)
        g = "P%X" % (op >> 4)
        groups.setdefault(g, []).append(lemma(op, n, "jr" if 0x20 <= op <= 0x27 else None))
    for op in range(0xF0, 0x100):
        groups.setdefault("PF", []).append(prefix_lemma(op, d["first"][op]))
    for b in range(256):
        if d["second"][b]:
            groups.setdefault("S%X" % (b >> 4), []).append(second_lemma(b, d["second"][b]))
    # dispatchers: one theorem per page, then one over all covered opcodes
    disp = []
    def alt_block(var, ops, fmt):
        alts = " ∨ ".join("%s = %d" % (var, o) for o in ops)
        pat = " | ".join("e" for _ in ops)
        cases = "\n".join("  · exact ⟨_, " + (fmt % o) + "⟩" for o in ops)
        return alts, pat, cases
    pages = {}
    for op in range(0xF0):
        if d["first"][op]:
            pages.setdefault(op >> 4, []).append(op)
    for pg, ops in sorted(pages.items()):
        lo, hi = ops[0], ops[-1]
        alts, pat, _ = alt_block("op", ops, "op_%02X c a h hop hint")
        cases = "\n".join("  · obtain ⟨a', hs, hf⟩ := op_%02X c a h hop hint; exact ⟨_, a', by decide, hs, hf⟩" % o for o in ops)
        disp.append(f"""theorem page_{pg:X} (c : Core) (a : Arch) (h : AtFetch c a) (hint : c.pendInt = false) (op : Nat)
    (hr : {lo} ≤ op ∧ op ≤ {hi}) (hop : a.bus.read a.pc = BitVec.ofNat 8 op) :
    ∃ n a', 0 < n ∧ Isa.step a = some a' ∧ AtFetch (Core.iter n c) a' := by
  have hc : {alts} := by omega
  rcases hc with {pat} <;> subst e
{cases}
""")
        sops = [o for o in ops if o not in NOSAMPLE]
        if sops:
            alts, pat, cases = alt_block("op", sops, "end_%02X c a h hop")
            disp.append(f"""theorem endpage_{pg:X} (c : Core) (a : Arch) (h : AtFetch c a) (op : Nat)
    (hc : {alts}) (hop : a.bus.read a.pc = BitVec.ofNat 8 op) :
    ∃ n a', Isa.step a = some a' ∧ AtEnd (Core.iter n c) a' ∧ (Core.iter n c).pendInt = c.pendInt := by
  rcases hc with {pat} <;> subst e
{cases}
""")
        nops = [o for o in ops if o in NOSAMPLE]
        if nops:
            alts, pat, cases = alt_block("op", nops, "nos_%02X c a h hop")
            disp.append(f"""theorem nospage_{pg:X} (c : Core) (a : Arch) (h : AtFetch c a) (op : Nat)
    (hc : {alts}) (hop : a.bus.read a.pc = BitVec.ofNat 8 op) :
    ∃ n a', Isa.step a = some a' ∧ AtFetch (Core.iter n c) a' ∧ (Core.iter n c).pendInt = c.pendInt := by
  rcases hc with {pat} <;> subst e
{cases}
""")
    ops = list(range(0xF0, 0x100))
    alts, pat, _ = alt_block("op", ops, "pre_%02X c a h hop")
    cases = "\n".join("  · obtain ⟨hs, hp⟩ := pre_%02X c a h hop; exact ⟨_, by decide, hs, hp⟩" % o for o in ops)
    disp.append(f"""theorem prefix_any (c : Core) (a : Arch) (h : AtFetch c a) (op : Nat)
    (hr : 240 ≤ op ∧ op ≤ 255) (hop : a.bus.read a.pc = BitVec.ofNat 8 op) :
    ∃ n, 0 < n ∧ AtSecond (Core.iter n c) (Isa.operand {{ a with pc := a.pc + 1 }} (op / 4 % 4) (op % 4)).1
      (Isa.operand {{ a with pc := a.pc + 1 }} (op / 4 % 4) (op % 4)).2.1 ∧ (Core.iter n c).pendInt = c.pendInt := by
  have hc : {alts} := by omega
  rcases hc with {pat} <;> subst e
{cases}
""")
    spages = {}
    for b in range(256):
        if d["second"][b]:
            spages.setdefault(b >> 4, []).append(b)
    for pg, ops in sorted(spages.items()):
        alts, pat, cases = alt_block("b", ops, "sec_%02X c a v h hop hint")
        disp.append(f"""theorem second_{pg:X} (c : Core) (a : Arch) (v : Byte) (h : AtSecond c a v) (hint : c.pendInt = false) (b : Nat)
    (hc : {alts}) (hop : a.bus.read a.pc = BitVec.ofNat 8 b) :
    ∃ n a', Isa.second {{ a with pc := a.pc + 1 }} b v = some a' ∧ AtFetch (Core.iter n c) a' := by
  rcases hc with {pat} <;> subst e
{cases}
""")
        alts, pat, cases = alt_block("b", ops, "send_%02X c a v h hop")
        disp.append(f"""theorem sendpage_{pg:X} (c : Core) (a : Arch) (v : Byte) (h : AtSecond c a v) (b : Nat)
    (hc : {alts}) (hop : a.bus.read a.pc = BitVec.ofNat 8 b) :
    ∃ n a', Isa.second {{ a with pc := a.pc + 1 }} b v = some a' ∧ AtEnd (Core.iter n c) a' ∧
      (Core.iter n c).pendInt = c.pendInt := by
  rcases hc with {pat} <;> subst e
{cases}
""")
    imports = "\n".join("import Emu2a.Props.C01x.%s" % g for g in sorted(groups))
    text = "-- GENERATED by tools/gen_c01.py. DO NOT EDIT.\n" + imports + "\nnamespace Emu2a.C01\nopen Emu2a Gen Isa\n\n" + "\n".join(disp) + "\nend Emu2a.C01\n"
    p = os.path.join(OUTDIR, "All.lean")
    if not os.path.exists(p) or open(p).read() != text:
        open(p, "w").write(text)
    names = []
    for g, ls in sorted(groups.items()):
        text = "-- GENERATED by tools/gen_c01.py. DO NOT EDIT.\nimport Emu2a.Lemmas.IntEntry\nnamespace Emu2a.C01\nopen Emu2a Gen Isa\n\n" + "\n".join(ls) + "\nend Emu2a.C01\n"
        p = os.path.join(OUTDIR, g + ".lean")
        if not os.path.exists(p) or open(p).read() != text:
            open(p, "w").write(text)
        names.append(g)
    json.dump({"groups": names, "steps": d}, open(os.path.join(OUTDIR, "index.json"), "w"))
    print("gen_c01:", len(names), "groups")

if __name__ == "__main__":
    main()
