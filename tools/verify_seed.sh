#!/bin/sh
# Confirm a seeded change: existing tests pass with it, the demo fails with it and passes without it.
# usage: verify_seed.sh <seed dir>   (uses a scratch worktree under /tmp, removed afterwards)
# The demonstration is either demo.rs (an integration test; placed into emulator-2a/tests when
# meta.json's demo_location names that directory, otherwise into emulator-2a-lib/tests) or
# demo.diff (a patch adding #[cfg(test)] tests to the binary crate).
set -u
D=$(cd "$1" && pwd)
W=/tmp/wt_verify_$$
export CARGO_NET_OFFLINE=true
git -C /repo worktree add -q "$W" HEAD || exit 2
cd "$W"
if [ -f "$D/demo.diff" ]; then
  CRATE=emulator-2a
  git apply "$D/demo.diff" || { echo "demo.diff does not apply"; cd /; git -C /repo worktree remove --force "$W"; exit 2; }
  DEMO="cargo test --offline -p emulator-2a"
  undo_demo() { git apply -R "$D/demo.diff"; }
else
  if grep -q "emulator-2a/tests" "$D/meta.json" 2>/dev/null; then CRATE=emulator-2a; else CRATE=emulator-2a-lib; fi
  mkdir -p "$W/$CRATE/tests"
  cp "$D/demo.rs" "$W/$CRATE/tests/demo.rs"
  DEMO="cargo test --offline -p $CRATE --test demo"
  undo_demo() { rm -f "$W/$CRATE/tests/demo.rs"; }
fi
echo "== baseline: demo must pass ($DEMO)"
$DEMO > "$D/verify_base_demo.log" 2>&1; B=$?
echo "   rc=$B"
git apply "$D/patch.diff" || { echo "patch does not apply"; cd /; git -C /repo worktree remove --force "$W"; exit 2; }
echo "== with change: demo must fail"
$DEMO > "$D/verify_seed_demo.log" 2>&1; S=$?
echo "   rc=$S"
undo_demo
echo "== with change: existing suite must pass"
cargo test --workspace --no-fail-fast --offline > "$D/verify_seed_suite.log" 2>&1; T=$?
grep -E "^test result" "$D/verify_seed_suite.log" | head -5
echo "   rc=$T"
cd /
git -C /repo worktree remove --force "$W"
if [ $B -eq 0 ] && [ $S -ne 0 ] && [ $T -eq 0 ]; then echo "SEED CONFIRMED"; exit 0; else echo "SEED NOT CONFIRMED"; exit 1; fi
