#!/bin/sh
# Confirm a seeded change: existing tests pass with it, the demo fails with it and passes without it.
# usage: verify_seed.sh <seed dir>   (uses a scratch worktree under /tmp, removed afterwards)
set -u
D=$(cd "$1" && pwd)
W=/tmp/wt_verify_$$
export CARGO_NET_OFFLINE=true
git -C /repo worktree add -q "$W" HEAD || exit 2
mkdir -p "$W/emulator-2a-lib/tests"
cp "$D/demo.rs" "$W/emulator-2a-lib/tests/demo.rs"
cd "$W"
echo "== baseline: demo must pass"
cargo test --offline -p emulator-2a-lib --test demo > "$D/verify_base_demo.log" 2>&1; B=$?
echo "   rc=$B"
git apply "$D/patch.diff" || { echo "patch does not apply"; cd /; git -C /repo worktree remove --force "$W"; exit 2; }
echo "== with change: demo must fail"
cargo test --offline -p emulator-2a-lib --test demo > "$D/verify_seed_demo.log" 2>&1; S=$?
echo "   rc=$S"
rm -f emulator-2a-lib/tests/demo.rs
echo "== with change: existing suite must pass"
cargo test --workspace --no-fail-fast --offline > "$D/verify_seed_suite.log" 2>&1; T=$?
grep -E "^test result" "$D/verify_seed_suite.log" | head -5
echo "   rc=$T"
cd /
git -C /repo worktree remove --force "$W"
if [ $B -eq 0 ] && [ $S -ne 0 ] && [ $T -eq 0 ]; then echo "SEED CONFIRMED"; exit 0; else echo "SEED NOT CONFIRMED"; exit 1; fi
