#!/usr/bin/env python3
"""Translator: emulator-2a-lib/syntax/mrasm.pest  ->  lean/Emu2a/Gen/Grammar.lean (a value of Peg.Expr per rule).
Supports exactly the pest constructs the grammar uses; anything else is an error (broken tie)."""
import re, sys, os
REPO = os.environ.get("VERIF_REPO", "/repo")
OUT = os.path.join(os.path.dirname(os.path.abspath(__file__)), "..", "lean", "Emu2a", "Gen", "Grammar.lean")

def die(m):
    print("gen_grammar: " + m, file=sys.stderr); sys.exit(2)

TOK = re.compile(r"""\s*(?:(//[^\n]*)|(\^?"(?:[^"\\]|\\.)*")|('(?:[^'\\]|\\.)')|(\.\.)|([A-Za-z_][A-Za-z_0-9]*)|(\{\s*(?:\d+\s*(?:,\s*\d*\s*)?|,\s*\d+\s*)\})|([=~|*+?!(){}$_@]))""")

def tokenize(src):
    pos = 0; out = []
    while True:
        m = TOK.match(src, pos)
        if not m:
            if src[pos:].strip() == "": break
            die("cannot tokenize at: %r" % src[pos:pos+40])
        pos = m.end()
        if m.group(1): continue
        for i, kind in ((2, "str"), (3, "chr"), (4, "dots"), (5, "id"), (6, "rep"), (7, "sym")):
            if m.group(i) is not None:
                out.append((kind, m.group(i))); break
    return out

def unesc(s):
    return bytes(s, "utf-8").decode("unicode_escape") if "\\" in s else s

class P:
    def __init__(self, toks): self.t = toks; self.i = 0
    def peek(self): return self.t[self.i] if self.i < len(self.t) else (None, None)
    def next(self): x = self.peek(); self.i += 1; return x
    def expect(self, v):
        k, x = self.next()
        if x != v: die("expected %r got %r" % (v, x))
    def rules(self):
        rs = []
        while self.peek()[0] is not None:
            k, name = self.next()
            if k != "id": die("rule name expected, got %r" % name)
            self.expect("=")
            mod = ""
            if self.peek()[1] in ("$", "_", "@"):
                mod = self.next()[1]
            if mod == "@": die("atomic @ rules not supported")
            self.expect("{")
            e = self.choice()
            self.expect("}")
            rs.append((name, mod, e))
        return rs
    def choice(self):
        xs = [self.seq()]
        while self.peek()[1] == "|":
            self.next(); xs.append(self.seq())
        e = xs[-1]
        for x in reversed(xs[:-1]): e = ("choice", x, e)
        return e
    def seq(self):
        xs = [self.prefix()]
        while self.peek()[1] == "~":
            self.next(); xs.append(self.prefix())
        e = xs[-1]
        for x in reversed(xs[:-1]): e = ("seq", x, e)
        return e
    def prefix(self):
        if self.peek()[1] == "!":
            self.next(); return ("not", self.prefix())
        return self.postfix()
    def postfix(self):
        e = self.atom()
        while True:
            k, x = self.peek()
            if x == "*": self.next(); e = ("star", e)
            elif x == "+": self.next(); e = ("plus", e)
            elif x == "?": self.next(); e = ("opt", e)
            elif k == "rep":
                self.next()
                m = re.match(r"\{\s*(\d*)\s*(,?)\s*(\d*)\s*\}", x)
                lo, comma, hi = m.group(1), m.group(2), m.group(3)
                if not comma:                       # e{n}
                    e = ("rep", e, int(lo), int(lo))
                elif lo and hi:                     # e{n,m}
                    e = ("rep", e, int(lo), int(hi))
                elif hi:                            # e{,m}
                    e = ("rep", e, 0, int(hi))
                else:                               # e{n,}: n repetitions, then any number
                    e = ("seq", ("rep", e, int(lo), int(lo)), ("star", e)) if int(lo) > 0 else ("star", e)
            else: return e
    def atom(self):
        k, x = self.next()
        if x == "(":
            e = self.choice(); self.expect(")"); return e
        if k == "str":
            if x.startswith("^"): return ("istr", unesc(x[2:-1]))
            return ("str", unesc(x[1:-1]))
        if k == "chr":
            lo = unesc(x[1:-1])
            if self.peek()[0] == "dots":
                self.next(); k2, y = self.next()
                if k2 != "chr": die("range end expected")
                return ("range", lo, unesc(y[1:-1]))
            return ("str", lo)
        if k == "id":
            # built-in character classes that are plain ranges (no extra construct needed in the model)
            ranges = {"ASCII_DIGIT": ("0", "9"), "ASCII_NONZERO_DIGIT": ("1", "9"), "ASCII_OCT_DIGIT": ("0", "7"),
                      "ASCII_ALPHA_LOWER": ("a", "z"), "ASCII_ALPHA_UPPER": ("A", "Z")}
            if x in ranges:
                return ("range",) + ranges[x]
            return ("rule", x)
        die("unexpected token %r" % x)

BUILTIN = {"SOI", "EOI", "ANY", "NEWLINE", "ASCII_BIN_DIGIT", "ASCII_HEX_DIGIT", "ASCII_ALPHA", "ASCII_ALPHANUMERIC"}

def lstr(s):
    return "[" + ", ".join("Char.ofNat %d" % ord(c) for c in s) + "]"

def emit(e, names):
    k = e[0]
    if k == "str": return "(.str %s)" % lstr(e[1])
    if k == "istr": return "(.istr %s)" % lstr(e[1])
    if k == "range": return "(.range (Char.ofNat %d) (Char.ofNat %d))" % (ord(e[1]), ord(e[2]))
    if k == "seq": return "(.seq %s %s)" % (emit(e[1], names), emit(e[2], names))
    if k == "choice": return "(.choice %s %s)" % (emit(e[1], names), emit(e[2], names))
    if k == "star": return "(.star %s)" % emit(e[1], names)
    if k == "plus": return "(.plus %s)" % emit(e[1], names)
    if k == "opt": return "(.opt %s)" % emit(e[1], names)
    if k == "rep": return "(.rep %s %d %d)" % (emit(e[1], names), e[2], e[3])
    if k == "not": return "(.notP %s)" % emit(e[1], names)
    if k == "rule":
        n = e[1]
        if n in BUILTIN: return "(.builtin .%s)" % n.lower()
        if n not in names: die("unknown rule " + n)
        return "(.rule \"%s\")" % n
    die("emit " + k)

def main():
    src = open(os.path.join(REPO, "emulator-2a-lib/syntax/mrasm.pest")).read()
    rules = P(tokenize(src)).rules()
    names = {r[0] for r in rules}
    L = ["-- GENERATED by tools/gen_grammar.py from emulator-2a-lib/syntax/mrasm.pest. DO NOT EDIT.",
         "import Emu2a.Model.Peg", "namespace Emu2a.Gen", "open Emu2a.Peg", ""]
    for name, mod, e in rules:
        L.append("def rule_%s : Expr := %s" % (name, emit(e, names)))
    L.append("")
    L.append("/-- All rules: name, silent (`_`), body. `$` (compound-atomic) rules behave like normal ones here:")
    L.append("the grammar defines no WHITESPACE/COMMENT rule, so there is no implicit skipping to switch off. -/")
    L.append("def mrasm : Grammar := [")
    L.append(",\n".join("  ⟨\"%s\", %s, rule_%s⟩" % (n, "true" if m == "_" else "false", n) for n, m, e in rules))
    L.append("]")
    L.append("")
    L.append("end Emu2a.Gen")
    text = "\n".join(L) + "\n"
    old = open(OUT).read() if os.path.exists(OUT) else None
    if old != text:
        open(OUT, "w").write(text); print("gen_grammar: wrote", os.path.normpath(OUT))
    else:
        print("gen_grammar: unchanged")
    # lookup lemmas (one per rule), used by the builder-totality proofs of C03
    F = ["-- GENERATED by tools/gen_grammar.py from emulator-2a-lib/syntax/mrasm.pest. DO NOT EDIT.",
         "import Emu2a.Gen.Grammar", "namespace Emu2a.Gen", "open Emu2a.Peg", ""]
    for n, m, e in rules:
        F.append("theorem find_%s : mrasm.find \"%s\" = some ⟨\"%s\", %s, rule_%s⟩ := rfl" % (n, n, n, "true" if m == "_" else "false", n))
    F.append("")
    F.append("/-- The names of all rules, in grammar order. -/")
    F.append("def ruleNames : List String := [%s]" % ", ".join('"%s"' % n for n, m, e in rules))
    F += ["", "end Emu2a.Gen"]
    ftext = "\n".join(F) + "\n"
    FOUT = os.path.join(os.path.dirname(OUT), "GrammarFind.lean")
    if not os.path.exists(FOUT) or open(FOUT).read() != ftext:
        open(FOUT, "w").write(ftext)

if __name__ == "__main__":
    main()
