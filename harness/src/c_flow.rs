//! C09: the real next-address function over its whole domain, and opcode enumeration on the real machine.
use crate::gen::*;
use crate::out::Out;
use crate::rng::Rng;
use crate::sess::{fnv, hexs, Sess};
use emulator_2a_lib::machine::{Machine, MachineConfig, RegisterNumber as RN, State, VerifRawState};

fn next_addr(m: &mut Machine, addr: usize, ir: u8, fr: u8, k: u8) -> usize {
    let f = VerifRawState {
        address: addr,
        instruction: ir,
        pending_register_write: None,
        pending_flag_write: false,
        pending_edge_interrupt: k & 8 != 0,
        pending_level_interrupt: false,
        pending_wait_for_memory: false,
        alu_output: (0, k & 1 != 0, k & 2 != 0, k & 4 != 0),
        last_bus_read: 0,
    };
    m.raw_mut().registers_mut().set(RN::R4, fr);
    m.raw_mut().verif_force(&f, State::Running);
    m.signals().next_microprogram_address()
}

fn next_hash(m: &mut Machine, addr: usize) -> u64 {
    let mut bytes = Vec::with_capacity(2 * 65536);
    for ir in 0..=255u8 {
        for fr in 0..16u8 {
            for k in 0..16u8 {
                let n = next_addr(m, addr, ir, fr, k);
                bytes.push((n / 256) as u8);
                bytes.push((n % 256) as u8);
            }
        }
    }
    fnv(&bytes)
}

pub fn defined_second(b: u8) -> bool {
    (0x10..=0x3F).contains(&b) || b == 0x40 || b == 0x44 || (0x50..=0x6F).contains(&b)
}

/// Run one instruction on the real machine from a forced boundary; observe the micro-sequencer.
fn observe(out: &mut Out, rng: &mut Rng, op: u8, b2: Option<u8>, fixed: Option<[u8; 3]>) {
    let mut s = Sess::new();
    let mut prog = vec![op];
    // operand bytes: for prefixes the constant/address byte (if any) then the second opcode
    if op >= 0xF0 {
        if (op & 0x0F) == 0x0B || (op & 0x0F) == 0x0F {
            prog.push(rng.byte() % 0xE0);
        }
        let b = b2.unwrap_or(0x10);
        prog.push(b);
        if (b & 0x0F) == 0x0F && b != 0x13 {
            prog.push(rng.byte() % 0xE0);
        }
    }
    while prog.len() < 16 {
        prog.push(rng.byte());
    }
    // a third of the runs reach the instruction through a RETI executed with a key request raised just
    // before it: the flip-flop is then set while the interrupt status bits have been cleared by the RETI
    let via_reti = fixed.is_none() && rng.chance(1, 3);
    if via_reti {
        prog.insert(0, 0x2C);
    }
    run_line(out, &mut s, "new");
    run_line(out, &mut s, &format!("load 0 255 {}", hexs(&prog)));
    // adversarial registers/flags: random R0-R2, flags, SP somewhere harmless, pending interrupt
    let mut regs = [rng.byte() % 0xE0, rng.byte() % 0xE0, rng.byte() % 0xE0, 0, rng.byte(), 0x80 + rng.byte() % 0x20, rng.byte(), rng.byte()];
    if via_reti {
        // stack for the RETI: return address 1 (the instruction under test), flag register with IEF as drawn
        let sp = regs[5];
        let fr = regs[4];
        run_line(out, &mut s, &format!("busw {} 1", sp));
        run_line(out, &mut s, &format!("busw {} {}", sp.wrapping_add(1), fr));
    }
    if let Some(f) = fixed {
        regs[0] = f[0];
        regs[1] = f[1];
        regs[2] = f[2];
    }
    let pend = rng.chance(1, 2);
    run_line(out, &mut s, "busw 249 1");
    run_line(out, &mut s, &format!("force 0 2 {} - 0 0 0 0 0 0 0 R 0", hexs(&regs)));
    // reach the first fetch and let it load the opcode
    let mut guard = 0;
    while !s.m.is_instruction_done() && guard < 50 {
        s.m.raw_mut().trigger_clock_edge();
        guard += 1;
    }
    if via_reti {
        // request raised while the RETI opcode sits in the fetch latch; run the RETI to the next boundary
        s.m.trigger_key_interrupt();
        let mut g = 0;
        let mut executed = 0;
        loop {
            let waiting = s.m.verif_state().pending_wait_for_memory;
            s.m.raw_mut().trigger_clock_edge();
            g += 1;
            if !waiting {
                executed += 1;
            }
            if (executed > 0 && s.m.is_instruction_done() && !s.m.verif_state().pending_wait_for_memory) || g > 200 {
                break;
            }
        }
        if s.m.state() != State::Running {
            let st = s.m.verif_state();
            s.m.raw_mut().verif_force(&st, State::Running);
        }
    } else if pend {
        s.m.trigger_key_interrupt();
    }
    // now the fetch word has executed; step until the next fetch (or the second-opcode word for prefixes).
    // (A halting opcode has stopped the machine at its fetch: C05's subject; the micro-sequencer is observed on.)
    if s.m.state() != State::Running {
        let st = s.m.verif_state();
        s.m.raw_mut().verif_force(&st, State::Running);
    }
    let mut steps = 0u32;
    let mut zero = false;
    let mut escape = false;
    let mut completed = false;
    let mut edges = 0;
    while edges < 3000 {
        let before = s.m.verif_state();
        // the word being left selects the next (first or second) opcode byte: a halting byte stops the machine there
        let (at_fetch, ir_reset) = {
            let sg = s.m.signals();
            (sg.mac0() && sg.mac2(), sg.mac1() && sg.mac2())
        };
        s.m.raw_mut().trigger_clock_edge();
        edges += 1;
        if before.pending_wait_for_memory {
            continue;
        }
        let st = s.m.verif_state();
        steps += 1;
        let w = emulator_2a_lib::machine::MicroprogramRam::CONTENT[st.address];
        if w.bits() == 0 {
            zero = true;
        }
        if st.address / 32 != (st.instruction as usize) / 16 {
            escape = true;
        }
        // the instruction register decides which routine runs: it is reset to NOP (0x02) by a word that selects the
        // interrupt entry (MAC1 & MAC2), loaded from the byte just read by a word that selects the next opcode byte
        // (MAC0 & MAC2), and left alone by every other word; anything else leaves the routine of the fetched opcode
        let expected_ir = if ir_reset { 0x02 } else if at_fetch { before.last_bus_read } else { before.instruction };
        if st.instruction != expected_ir {
            escape = true;
            out.count("instruction-register-not-as-the-control-word-says");
        }
        if s.m.is_instruction_done() {
            completed = true;
            break;
        }
        if s.m.state() != State::Running {
            // error stops by the stack-pointer / program-counter supervision are the subject of C05: continue
            // observing the micro-sequencer past those. Any OTHER stop in the middle of an instruction means the
            // instruction does not get back to a fetch.
            let explained = (before.pending_register_write.is_some()
                && (!s.m.raw_mut().is_stackpointer_valid() || !s.m.raw_mut().is_program_counter_valid()))
                || (at_fetch && st.last_bus_read <= 1); // a halting opcode taken into the instruction register
            if !explained {
                out.count("stopped-mid-instruction-without-cause");
                break;
            }
            let f = VerifRawState { ..st.clone() };
            s.m.raw_mut().verif_force(&f, State::Running);
        }
    }
    let b2s = match b2 {
        Some(b) => b.to_string(),
        None => "-".into(),
    };
    out.emit(
        &format!("spec.flow {} {} {}", op, b2s, steps),
        &format!("completes={} zero={} escape={} bounded=1", completed as u8, zero as u8, escape as u8),
    );
    out.distinct_case(&format!("{} {} {:?} {}", op, b2s, regs, pend));
    out.count(if completed { "completed" } else { "hung" });
}

pub fn run(out: &mut Out, seed: u64, thorough: bool) {
    let mut rng = Rng::new(seed);
    let mut m = Machine::new(MachineConfig::default());
    // 1. the real next-address function, whole domain, block hashes
    let addrs: Vec<usize> = (0..512).collect();
    for a in addrs {
        if thorough || a % 4 == (seed as usize) % 4 || emulator_2a_lib::machine::MicroprogramRam::CONTENT[a].bits() != 0 {
            out.emit(&format!("nexthash {}", a), &next_hash(&mut m, a).to_string());
            out.count("nexthash");
        }
    }
    // 2. every opcode on the real machine
    let reps = if thorough { 40 } else { 4 };
    for op in 0..=255u8 {
        for _ in 0..reps {
            if op >= 0xF0 {
                for b in 0..=255u8 {
                    if defined_second(b) || rng.chance(1, 8) {
                        observe(out, &mut rng, op, Some(b), None);
                    }
                }
            } else {
                observe(out, &mut rng, op, None, None);
            }
        }
    }
    // 2b. "from reset": a CPU reset in the middle of every instruction (after 1..6 edges), then the
    //     sequencer must reach the first fetch over programmed words of page 0 only
    for op in 0..=255u8 {
        if !crate::gen::defined_first(op) {
            continue;
        }
        for k in [1u32, 2, 3, 4, 6, 9] {
            if !thorough && (k + op as u32) % 2 == 1 {
                continue;
            }
            let mut s = Sess::new();
            let mut prog = vec![op];
            if op >= 0xF0 {
                if (op & 0x0F) == 0x0B || (op & 0x0F) == 0x0F {
                    prog.push(0x40);
                }
                prog.push(0x10);
            }
            while prog.len() < 8 {
                prog.push(0x02);
            }
            run_line(out, &mut s, "new");
            run_line(out, &mut s, &format!("load 0 255 {}", hexs(&prog)));
            run_line(out, &mut s, &format!("force 0 2 {} - 0 0 0 0 0 0 0 R 0", hexs(&[3, 5, 7, 0, 0, 0x90, 0, 0])));
            let mut guard = 0;
            while !s.m.is_instruction_done() && guard < 50 {
                run_line(out, &mut s, "edge");
                guard += 1;
            }
            run_line(out, &mut s, "d");
            run_line(out, &mut s, &format!("edges {}", k));
            run_line(out, &mut s, "cpureset");
            run_line(out, &mut s, "d");
            // observe: steps to the first fetch, zero words, page escapes
            let mut steps = 0u32;
            let mut zero = false;
            let mut escape = false;
            let mut completed = false;
            let mut edges = 0;
            while edges < 200 {
                let before = s.m.verif_state();
                s.m.raw_mut().trigger_clock_edge();
                edges += 1;
                if before.pending_wait_for_memory {
                    continue;
                }
                let st = s.m.verif_state();
                steps += 1;
                let w = emulator_2a_lib::machine::MicroprogramRam::CONTENT[st.address];
                if w.bits() == 0 {
                    zero = true;
                }
                if st.address / 32 != (st.instruction as usize) / 16 {
                    escape = true;
                }
                if s.m.is_instruction_done() {
                    completed = true;
                    break;
                }
            }
            out.emit(&format!("spec.flowreset {} {}", op, k), &format!("completes={} zero={} escape={} steps={}", completed as u8, zero as u8, escape as u8, steps));
            out.count("reset-mid-instruction");
        }
    }
    // 3. the data-driven loops: MUL and DIV with boundary operands in every register (zero divisor,
    //    zero / one / maximal factors), all 32 opcodes
    let vals: &[u8] = if thorough { &[0, 1, 2, 3, 0x7F, 0x80, 0xFE, 0xFF] } else { &[0, 1, 2, 0x80, 0xFF] };
    for op in 0xB0..=0xCFu8 {
        for &a in vals {
            for &b in vals {
                for &c in vals {
                    observe(out, &mut rng, op, None, Some([a, b, c]));
                    out.count("muldiv-boundary");
                }
            }
        }
    }
    out.sample("spec.flow 180 - <steps>: MUL R0,R1 from a forced boundary with random registers".into());
}

pub fn drill(out: &mut Out, extra: &[String]) {
    // per-point next-address lines for one micro-address (used when a block hash differs)
    let a: usize = extra[0].parse().unwrap();
    let mut m = Machine::new(MachineConfig::default());
    for ir in 0..=255u8 {
        for fr in 0..16u8 {
            for k in 0..16u8 {
                let n = next_addr(&mut m, a, ir, fr, k);
                out.emit(&format!("next {} {} {} {}", a, ir, fr, k), &n.to_string());
            }
        }
    }
}

// ---------------------------------------------------------------------------------------------
// C15: clock edges between two boundaries = micro-steps + one wait per RAM access.

fn access_is_ram(m: &Machine) -> bool {
    let sg = m.signals();
    if !(sg.busen() || sg.buswr()) {
        return false;
    }
    let a = *m.registers().get(sg.selected_register_a());
    a <= 0xEF
}

fn measure_cost(out: &mut Out, rng: &mut Rng, op: u8, b2: Option<u8>, base: u8, io_bias: bool, fixed: Option<(u8, u8)>, with_int: bool) {
    let mut s = Sess::new();
    run_line(out, &mut s, "new");
    run_line(out, &mut s, "load 0 255 -");
    let mut prog = vec![op];
    if op >= 0xF0 {
        if (op & 0x0F) == 0x0B || (op & 0x0F) == 0x0F {
            prog.push(if rng.chance(1, 4) { *rng.pick(&[0xEFu8, 0xEE, 0xF0]) } else if io_bias { 0xF0 + rng.byte() % 16 } else { rng.byte() % 0xF0 });
        }
        let b = b2.unwrap_or(0x10);
        prog.push(b);
        if (b & 0x0F) == 0x0F && b != 0x13 {
            prog.push(if rng.chance(1, 4) { *rng.pick(&[0xEFu8, 0xEE, 0xF0]) } else if io_bias { 0xF0 + rng.byte() % 16 } else { rng.byte() % 0xF0 });
        }
    } else if op == 0x28 || (0x20..=0x27).contains(&op) {
        prog.push(rng.byte() % 0x40);
    } else if (0x50..=0x5F).contains(&op) && ((op & 0x0F) == 0x0B || (op & 0x0F) == 0x0F) {
        prog.push(if rng.chance(1, 4) { *rng.pick(&[0xEFu8, 0xEE, 0xF0]) } else { rng.byte() % 0xF0 });
    }
    // every byte of the instruction must be placeable: RAM up to 0xEF, then the board's input port
    // at 0xF0 (0xF1-0xFB cannot hold code)
    let base = if base as usize + prog.len() - 1 > 0xF0 { (0xF0 - (prog.len() - 1)) as u8 } else { base };
    prog.push(0x02);
    prog.push(0x02);
    for (i, b) in prog.iter().enumerate() {
        let a = base as usize + i;
        if a <= 0xEF {
            run_line(out, &mut s, &format!("busw {} {}", a, b));
        } else if a == 0xF0 {
            run_line(out, &mut s, &format!("di1 {}", b));
        } else if a >= 0xFC && a <= 0xFF {
            run_line(out, &mut s, &format!("in {} {}", a - 0xFC, b));
        }
    }
    // data addresses: RAM, I/O, and the cells around the RAM / I-O boundary
    let addr = |rng: &mut Rng| {
        if rng.chance(1, 4) {
            *rng.pick(&[0xEFu8, 0xEF, 0xEE, 0xF0, 0xED])
        } else if io_bias && rng.chance(1, 2) {
            0xF0 + rng.byte() % 16
        } else {
            rng.byte() % 0xF0
        }
    };
    let (r0, r1) = match fixed {
        Some(p) => p,
        None => (addr(rng), addr(rng)),
    };
    let sp = if rng.chance(1, 4) { *rng.pick(&[0xEFu8, 0xF0, 0xEE, 0xF1]) } else if io_bias && rng.chance(1, 3) { 0xF0 + rng.byte() % 3 } else { 0x60 + rng.byte() % 0x80 };
    let regs = [r0, r1, addr(rng), base, (rng.byte() & 0x07) | if with_int { 0x08 } else { 0 }, sp, rng.byte(), rng.byte()];
    if with_int {
        run_line(out, &mut s, "busw 249 1");
    }
    run_line(out, &mut s, &format!("force 0 2 {} - 0 0 0 0 0 0 0 R 0", hexs(&regs)));
    let mut guard = 0;
    while !s.m.is_instruction_done() && guard < 50 {
        s.m.raw_mut().trigger_clock_edge();
        guard += 1;
    }
    if with_int {
        // the request is pending from the first cycle of the instruction: its end word enters the routine
        s.m.trigger_key_interrupt();
    }
    // boundary B0 reached (fetch word executed). Measure to the next boundary.
    let keep_running = |m: &mut Machine| {
        if m.state() != State::Running {
            let st = m.verif_state();
            m.raw_mut().verif_force(&st, State::Running);
        }
    };
    keep_running(&mut s.m);
    // the same boundary with other contents of the microprogram's scratch registers (what earlier instructions
    // happened to leave there): the cost must not depend on them
    let mut twin = s.m.clone();
    {
        use emulator_2a_lib::machine::RegisterNumber as RN;
        let (a, b) = (*twin.registers().get(RN::R6), *twin.registers().get(RN::R7));
        let pick = |rng: &mut Rng, old: u8| -> u8 {
            let v = match rng.below(4) { 0 => 0xF5, 1 => 0x10, 2 => 0xEF, _ => rng.byte() };
            if v == old { v ^ 0xFF } else { v }
        };
        twin.raw_mut().registers_mut().set(RN::R6, pick(rng, a));
        twin.raw_mut().registers_mut().set(RN::R7, pick(rng, b));
    }
    let twin_edges = {
        let mut e = 0u32;
        let mut done = false;
        while e < 5000 {
            let waiting = twin.verif_state().pending_wait_for_memory;
            twin.raw_mut().trigger_clock_edge();
            keep_running(&mut twin);
            e += 1;
            if !waiting && twin.is_instruction_done() {
                done = true;
                break;
            }
        }
        if done { Some(e) } else { None }
    };
    let mut ram = access_is_ram(&s.m) as u32; // the fetch that produced B0
    let mut steps = 0u32;
    let mut edges = 0u32;
    let mut last_ram = false;
    let mut done = false;
    while edges < 5000 {
        let waiting = s.m.verif_state().pending_wait_for_memory;
        s.m.raw_mut().trigger_clock_edge();
        keep_running(&mut s.m);
        edges += 1;
        if waiting {
            continue;
        }
        steps += 1;
        last_ram = access_is_ram(&s.m);
        if s.m.is_instruction_done() {
            done = true;
            break;
        }
        ram += last_ram as u32;
    }
    let _ = last_ram;
    if !done {
        return; // hang (undefined second byte): no cost to speak of
    }
    let b2s = b2.map(|b| b.to_string()).unwrap_or("-".into());
    out.emit(
        &format!("{} {} {} {} {}", if with_int { "spec.costint" } else { "spec.cost" }, op, b2s, steps, ram),
        &format!("edges={} steps={}", edges, steps),
    );
    out.emit(
        &format!("spec.costscratch {} {}", op, b2s),
        &(if twin_edges == Some(edges) { "same".to_string() } else { format!("differs {} vs {:?}", edges, twin_edges) }),
    );
    out.distinct_case(&format!("{} {} {:?} {}", op, b2s, regs, base));
    out.count(if io_bias { "io-biased" } else { "ram" });
}

pub fn run_c15(out: &mut Out, seed: u64, thorough: bool) {
    let mut rng = Rng::new(seed);
    let reps = if thorough { 12 } else { 4 };
    for op in 0..=255u8 {
        if !defined_first(op) {
            continue;
        }
        for rep in 0..reps {
            let io = rep % 2 == 1;
            // code placement: low RAM, and straddling the RAM / I-O boundary at 0xEF/0xF0
            let base = match rep % 4 { 0 | 1 => rng.byte() % 0x40, 2 => 0xEE, _ => 0xEF };
            if op >= 0xF0 {
                for b in 0..=255u8 {
                    if defined_second(b) && (thorough || (b as u32 + rep as u32 + op as u32) % 3 == 0) {
                        measure_cost(out, &mut rng, op, Some(b), base, io, None, false);
                    }
                }
            } else {
                measure_cost(out, &mut rng, op, None, base, io, None, false);
            }
        }
    }
    // MUL / DIV: data dependent; all 65 536 operand pairs in the thorough tier
    for op in [0xB4u8, 0xC4u8].iter() {
        let stride = if thorough { 1 } else { 37 };
        let mut i = (seed % 37) as u32;
        while i < 65536 {
            let (a, b) = ((i >> 8) as u8, (i & 0xFF) as u8);
            measure_cost(out, &mut rng, *op, None, 4, false, Some((a, b)), false);
            i += stride;
        }
    }
    // interrupt entry: the same law over an instruction whose end word enters the interrupt routine
    // (request pending, IEF set): register-register ALU instructions and NOP, stack in RAM / at the
    // RAM-I/O boundary / in the I/O area
    for rep in 0..(if thorough { 40 } else { 6 }) {
        for op in (0x60..=0xAFu8).chain(std::iter::once(0x02u8)) {
            let base = match rep % 3 { 0 => rng.byte() % 0x40, 1 => 0xEE, _ => 0x10 };
            measure_cost(out, &mut rng, op, None, base, rep % 2 == 1, None, true);
            out.count("interrupt-entry");
        }
    }
    out.sample("spec.cost 180 - <steps> <ram accesses>  (MUL R0,R1)".into());
    // history independence: a program loaded (or the machine reset) after ANY number of clock edges of an earlier
    // run - in the middle of an instruction, in a memory wait cycle - then takes exactly the edges a fresh machine
    // takes: the state is compared after every single edge that follows the reload
    let n_hist = if thorough { 60 } else { 8 };
    for case in 0..n_hist {
        let first = crate::c_mach::scenario_image(&mut rng);
        let second = if case % 2 == 0 { first.clone() } else { crate::c_mach::scenario_image(&mut rng) };
        let max_r = if thorough { 70 } else { 26 };
        for r in 0..max_r {
            let mut s = Sess::new();
            run_line(out, &mut s, "new");
            run_line(out, &mut s, &format!("load 16 255 {}", hexs(&first)));
            run_line(out, &mut s, &format!("edges {}", r));
            run_line(out, &mut s, "spec.contkey");
            // the property as a relation on the real machine: reloaded here vs loaded into a new machine, edge by edge
            run_line(out, &mut s, &format!("{} 16 255 {} 60", if (case / 2) % 3 == 1 { "spec.resetasm" } else { "spec.reload" }, hexs(&second)));
            if r % 3 == 0 {
                // the same relation with both machines stepped instruction-wise (step mode must not matter either)
                run_line(out, &mut s, &format!("spec.reloadasm 16 255 {} 12", hexs(&second)));
            }
            match (case / 2) % 3 {
                0 => { run_line(out, &mut s, &format!("load 16 255 {}", hexs(&second))); }
                1 => { run_line(out, &mut s, "masterreset"); run_line(out, &mut s, &format!("load 16 255 {}", hexs(&second))); }
                _ => { run_line(out, &mut s, "cpureset"); }
            }
            for _ in 0..14 {
                run_line(out, &mut s, "edge");
                run_line(out, &mut s, "d");
            }
            out.count("reload-after-r-edges");
        }
    }
}
