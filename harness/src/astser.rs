//! Canonical one-line serialisation of the assembler AST (parsed back by lean/Emu2a/Model/AstIO.lean).
use emulator_2a_lib::parser::*;

fn hex(s: &str) -> String {
    s.bytes().map(|b| format!("{:02x}", b)).collect()
}
fn cmt(c: &Option<String>) -> String {
    match c {
        None => "-".into(),
        Some(s) => format!("={}", hex(s)),
    }
}
fn reg(r: &Register) -> &'static str {
    match r {
        Register::R0 => "R0",
        Register::R1 => "R1",
        Register::R2 => "R2",
        Register::R3 => "R3",
    }
}
fn konst(c: &Constant) -> String {
    match c {
        Constant::Constant(n) => format!("#{}", n),
        Constant::Label(l) => format!("#:{}", l),
    }
}
fn mem(m: &MemAddress) -> String {
    match m {
        MemAddress::Constant(c) => format!("m:{}", konst(c)),
        MemAddress::Register(r) => format!("m:{}", reg(r)),
    }
}
fn src(s: &Source) -> String {
    match s {
        Source::Register(r) => format!("r:{}", reg(r)),
        Source::MemAddress(m) => mem(m),
        Source::Constant(c) => format!("c:{}", konst(c)),
        Source::RegisterDi(RegisterDi(r)) => format!("di:{}", reg(r)),
        Source::RegisterDdi(RegisterDdi(r)) => format!("ddi:{}", reg(r)),
    }
}
fn dst(d: &Destination) -> String {
    match d {
        Destination::Register(r) => format!("r:{}", reg(r)),
        Destination::MemAddress(m) => mem(m),
        Destination::RegisterDi(RegisterDi(r)) => format!("di:{}", reg(r)),
        Destination::RegisterDdi(RegisterDdi(r)) => format!("ddi:{}", reg(r)),
    }
}
pub fn ss(s: &Stacksize) -> &'static str {
    match s {
        Stacksize::_0 => "0",
        Stacksize::_16 => "16",
        Stacksize::_32 => "32",
        Stacksize::_48 => "48",
        Stacksize::_64 => "64",
        Stacksize::NotSet => "N",
    }
}
pub fn ps(p: &Programsize) -> String {
    match p {
        Programsize::Size(n) => n.to_string(),
        Programsize::Auto => "A".into(),
        Programsize::NotSet => "N".into(),
    }
}
fn list<T: ToString>(v: &[T]) -> String {
    v.iter().map(|x| x.to_string()).collect::<Vec<_>>().join(",")
}

pub fn instr(i: &Instruction) -> String {
    use Instruction::*;
    match i {
        AsmOrigin(n) => format!("ORG {}", n),
        AsmByte(n) => format!("BYTE {}", n),
        AsmDefineBytes(v) => format!("DB {}", list(v)),
        AsmDefineWords(v) => format!("DW {}", list(v)),
        AsmEquals(l, n) => format!("EQU {} {}", l, n),
        AsmStacksize(s) => format!("STACKSIZE {}", ss(s)),
        AsmProgramsize(p) => format!("PROGRAMSIZE {}", ps(p)),
        Clr(r) => format!("CLR {}", reg(r)),
        Add(a, b) => format!("ADD {} {}", reg(a), reg(b)),
        Adc(a, b) => format!("ADC {} {}", reg(a), reg(b)),
        Sub(a, b) => format!("SUB {} {}", reg(a), reg(b)),
        Mul(a, b) => format!("MUL {} {}", reg(a), reg(b)),
        Div(a, b) => format!("DIV {} {}", reg(a), reg(b)),
        Inc(r) => format!("INC {}", reg(r)),
        Dec(s) => format!("DEC {}", src(s)),
        Neg(r) => format!("NEG {}", reg(r)),
        And(a, b) => format!("AND {} {}", reg(a), reg(b)),
        Or(a, b) => format!("OR {} {}", reg(a), reg(b)),
        Xor(a, b) => format!("XOR {} {}", reg(a), reg(b)),
        Com(r) => format!("COM {}", reg(r)),
        Bits(d, s) => format!("BITS {} {}", dst(d), src(s)),
        Bitc(d, s) => format!("BITC {} {}", dst(d), src(s)),
        Tst(r) => format!("TST {}", reg(r)),
        Cmp(d, s) => format!("CMP {} {}", dst(d), src(s)),
        Bitt(d, s) => format!("BITT {} {}", dst(d), src(s)),
        Lsr(r) => format!("LSR {}", reg(r)),
        Asr(r) => format!("ASR {}", reg(r)),
        Lsl(r) => format!("LSL {}", reg(r)),
        Rrc(r) => format!("RRC {}", reg(r)),
        Rlc(r) => format!("RLC {}", reg(r)),
        Mov(d, s) => format!("MOV {} {}", dst(d), src(s)),
        LdConstant(r, c) => format!("LDC {} {}", reg(r), konst(c)),
        LdMemAddress(r, m) => format!("LDM {} {}", reg(r), mem(m)),
        St(m, r) => format!("ST {} {}", mem(m), reg(r)),
        Push(r) => format!("PUSH {}", reg(r)),
        Pop(r) => format!("POP {}", reg(r)),
        PushF => "PUSHF".into(),
        PopF => "POPF".into(),
        Ldsp(s) => format!("LDSP {}", src(s)),
        Ldfr(s) => format!("LDFR {}", src(s)),
        Jmp(l) => format!("JMP {}", l),
        Jcs(l) => format!("JCS {}", l),
        Jcc(l) => format!("JCC {}", l),
        Jzs(l) => format!("JZS {}", l),
        Jzc(l) => format!("JZC {}", l),
        Jns(l) => format!("JNS {}", l),
        Jnc(l) => format!("JNC {}", l),
        Jr(l) => format!("JR {}", l),
        Call(l) => format!("CALL {}", l),
        Ret => "RET".into(),
        RetI => "RETI".into(),
        Stop => "STOP".into(),
        Nop => "NOP".into(),
        Ei => "EI".into(),
        Di => "DI".into(),
    }
}

pub fn line(l: &Line) -> String {
    match l {
        Line::Empty(c) => format!("E {}", cmt(c)),
        Line::Label(l, c) => format!("L {} {}", cmt(c), l),
        Line::Instruction(i, c) => format!("I {} {}", cmt(c), instr(i)),
    }
}

pub fn asm(a: &Asm) -> String {
    let mut parts = vec![cmt(&a.comment_after_shebang)];
    for l in &a.lines {
        parts.push(line(l));
    }
    parts.join(" | ")
}
