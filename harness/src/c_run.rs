//! C12: the runner (`RunnerConfig::run`, `RunExpectations::verify`) in-process, and the real
//! `2a-emulator run ... verify ...` binary as a subprocess (path in $VERIF_BIN).
use crate::asmgen::{self, GenOpts};
use crate::out::Out;
use crate::rng::Rng;
use crate::sess::{dump, hexs, parse_hex};
use emulator_2a_lib::compiler::Translator;
use emulator_2a_lib::machine::{Machine, MachineConfig, State};
use emulator_2a_lib::parser::AsmParser;
use emulator_2a_lib::runner::{RunExpectationsBuilder, RunnerConfigBuilder, VerificationError};
use std::panic::{catch_unwind, AssertUnwindSafe};

const TEMPLATES: &[&str] = &[
    "#! mrasm\n CLR R0\nloop:\n INC R0\n ST (0xFF), R0\n CMP R0, {K}\n JZS end\n JR loop\nend:\n ST (0xFE), R0\n STOP\n",
    "#! mrasm\n JR main\n JR isr\nmain:\n LDSP 0xEF\n BITS (0xF9), 1\n EI\n CLR R0\nloop:\n INC R0\n ST (0xFE), R0\n JR loop\nisr:\n ST (0xFF), R0\n RETI\n",
    "#! mrasm\n JR main\n JR isr\nmain:\n LDSP 0xEF\n BITS (0xF9), 1\n EI\nloop:\n JR loop\nisr:\n MOV (0xFF), 1\n STOP\n",
    "#! mrasm\n*STACKSIZE 16\n LDSP 0xEF\n CLR R0\nloop:\n PUSH R0\n INC R0\n ST (0xFF), R0\n JR loop\n",
    "#! mrasm\n LD R0, (0xFC)\n LD R1, (0xFD)\n ADD R0, R1\n ST (0xFF), R0\n LD R2, (0xFE)\n ST (0xFE), R2\n STOP\n",
    "#! mrasm\n",
    "#! mrasm\n STOP\n",
    "#! mrasm\n .DB 0\n",
    "#! mrasm\nloop:\n LD R0, (0xFF)\n ST (0xFF), R0\n LD R1, (0xF0)\n ST (0xFE), R1\n JR loop\n",
    "#! mrasm\n*PROGRAMSIZE {K}\n INC R0\n ST (0xFF), R0\n INC R0\n ST (0xFE), R0\n INC R0\n NOP\n NOP\n NOP\n NOP\n STOP\n",
    "#! mrasm\n LDSP 0xEF\n CALL sub\n ST (0xFE), R0\n STOP\nsub:\n LD R0, {K}\n ST (0xFF), R0\n RET\n",
    "#! mrasm\n LD R0, {K}\n ST (0xF4), R0\n LD R1, (0xF1)\n ST (0xFF), R1\n LD R1, (0xF0)\n ST (0xFE), R1\n STOP\n",
    // board registers written by the program (universal I/O output / direction / interrupt control, DACs),
    // status registers copied to FE/FF for ever: a reset in between must leave the board as the program set it
    "#! mrasm\n LD R0, {K}\n ST (0xF2), R0\nloop:\n LD R1, (0xF1)\n ST (0xFF), R1\n LD R1, (0xF3)\n ST (0xFE), R1\n INC R2\n JR loop\n",
    "#! mrasm\n LD R0, 0x87\n ST (0xF2), R0\n LD R0, {K}\n ST (0xF2), R0\nloop:\n LD R1, (0xF1)\n ST (0xFF), R1\n LD R1, (0xF0)\n ST (0xFE), R1\n JR loop\n",
    "#! mrasm\n LD R0, {K}\n ST (0xF0), R0\n ST (0xF1), R0\nloop:\n LD R1, (0xF1)\n ST (0xFF), R1\n LD R1, (0xF3)\n ST (0xFE), R1\n JR loop\n",
    // the board is written only in the first pass (a RAM flag survives the CPU reset): after a reset the program
    // goes straight to the loop that reports the status registers
    "#! mrasm\n LD R0, (flag)\n TST R0\n JZC skip\n LD R1, 1\n ST (flag), R1\n LD R0, {K}\n ST (0xF2), R0\n ST (0xF1), R0\nskip:\nloop:\n LD R1, (0xF1)\n ST (0xFF), R1\n LD R1, (0xF3)\n ST (0xFE), R1\n JR loop\nflag:\n .DB 0\n",
    "#! mrasm\n LD R0, (flag)\n TST R0\n JZC skip\n LD R1, 1\n ST (flag), R1\n LD R0, 0xC0\n OR R0, R2\n ST (0xF2), R0\n LD R0, {K}\n ST (0xF2), R0\n ST (0xF0), R0\nskip:\nloop:\n LD R1, (0xF1)\n ST (0xFF), R1\n LD R1, (0xF3)\n ST (0xFE), R1\n JR loop\nflag:\n .DB 0\n",
];

const INVALID: &[&str] = &["", "NOP\n", "#! mrasm\n LD R0, 256\n", "#! mrasm\n JR nowhere\n", "#! mrasm\n FOO\n"];

const VOLTS: &[&str] = &["0", "1", "2.5", "5", "4.99", "0.01", "7.25", "1.27", "2.55", "3"];

fn program_pool() -> Vec<String> {
    let mut v: Vec<String> = vec![];
    for dir in ["programs", "testing/programs"] {
        let root = std::env::var("VERIF_REPO").unwrap_or_else(|_| "/repo".into());
        if let Ok(rd) = std::fs::read_dir(format!("{}/{}", root, dir)) {
            let mut names: Vec<_> = rd.filter_map(|e| e.ok()).map(|e| e.path()).collect();
            names.sort();
            for p in names {
                if let Ok(t) = std::fs::read_to_string(&p) {
                    // only those the whole pipeline handles without the known C06 panics
                    let ok = catch_unwind(AssertUnwindSafe(|| match AsmParser::parse(&t) {
                        Ok(a) => {
                            let b = Translator::compile(&a);
                            b.bytes().count() <= 240
                        }
                        Err(_) => true,
                    }))
                    .unwrap_or(false);
                    if ok && t.len() < 6000 {
                        v.push(t);
                    }
                }
            }
        }
    }
    v
}

fn gen_program(rng: &mut Rng, pool: &[String]) -> String {
    match rng.below(10) {
        0..=4 => {
            let t = *rng.pick(TEMPLATES);
            let k = match rng.below(4) {
                0 => rng.below(6) as u32,
                1 => 10 + rng.below(40) as u32,
                _ => rng.below(256) as u32,
            };
            t.replace("{K}", &k.to_string())
        }
        5..=6 if !pool.is_empty() => rng.pick(pool).clone(),
        7 => (*rng.pick(INVALID)).to_string(),
        _ => loop {
            let o = GenOpts { max_lines: 25, allow_backward_org: false, fit_ram: true, plain: true };
            let (_a, text) = asmgen::program(rng, &o);
            let ok = catch_unwind(AssertUnwindSafe(|| match AsmParser::parse(&text) {
                Ok(a) => Translator::compile(&a).bytes().count() <= 240,
                Err(_) => false,
            }))
            .unwrap_or(false);
            if ok {
                break text;
            }
        },
    }
}

fn gen_cycles(rng: &mut Rng, n: usize) -> Vec<usize> {
    let cnt = match rng.below(4) {
        0 => 0,
        1 => 1,
        _ => rng.below(6) as usize,
    };
    let mut v = vec![];
    for _ in 0..cnt {
        let c = match rng.below(8) {
            0 => 0,
            1 => n,
            2 => n.saturating_sub(1),
            3 => n + 1 + rng.below(5) as usize,
            _ => rng.below(n as u64 + 2) as usize,
        };
        v.push(c);
        if rng.chance(1, 6) {
            v.push(c); // duplicate
        }
        if rng.chance(1, 4) {
            // runs of adjacent cycles (a key "held" over several cycles is still one trigger per listed cycle)
            for k in 1..=(1 + rng.below(3) as usize) {
                v.push(c + k);
            }
        }
    }
    v
}

fn csv(v: &[usize]) -> String {
    if v.is_empty() {
        "-".into()
    } else {
        v.iter().map(|x| x.to_string()).collect::<Vec<_>>().join(",")
    }
}

#[derive(Clone)]
struct Cfg {
    c: MachineConfig,
    volts: [String; 3], // temp, ai1, ai2 as written on the command line
}

fn gen_cfg(rng: &mut Rng) -> Cfg {
    let mut c = MachineConfig::default();
    let mut volts = [String::from("0"), String::from("0"), String::from("0")];
    if rng.chance(3, 4) {
        c.input_fc = rng.byte();
        c.input_fd = rng.byte();
        c.input_fe = rng.byte();
        c.input_ff = rng.byte();
    }
    if rng.chance(1, 2) {
        c.digital_input1 = rng.byte();
        c.jumper1 = rng.chance(1, 2);
        c.jumper2 = rng.chance(1, 2);
        c.universal_input_output1 = rng.chance(1, 2);
        c.universal_input_output2 = rng.chance(1, 2);
        c.universal_input_output3 = rng.chance(1, 2);
        for i in 0..3 {
            volts[i] = (*rng.pick(VOLTS)).to_string();
        }
        c.temp = volts[0].parse().unwrap();
        c.analog_input1 = volts[1].parse().unwrap();
        c.analog_input2 = volts[2].parse().unwrap();
    }
    Cfg { c, volts }
}

fn cfg_str(c: &MachineConfig) -> String {
    format!(
        "{},{},{},{},{},{},{},{},{},{},{},{},{}",
        c.input_fc, c.input_fd, c.input_fe, c.input_ff, c.digital_input1, c.temp.to_bits(),
        c.jumper1 as u8, c.jumper2 as u8, c.analog_input1.to_bits(), c.analog_input2.to_bits(),
        c.universal_input_output1 as u8, c.universal_input_output2 as u8, c.universal_input_output3 as u8
    )
}

fn st_str(s: State) -> &'static str {
    match s {
        State::Running => "R",
        State::Stopped => "S",
        State::ErrorStopped => "E",
    }
}

/// The property's own description, executed on the real `Machine`: build, then per cycle apply the
/// scheduled interrupt / reset and one clock edge; stop after `n` cycles or right after the first
/// cycle that leaves the machine not Running.
fn stepped(text: &str, c: &MachineConfig, n: usize, ints: &[usize], resets: &[usize]) -> Option<(Machine, usize)> {
    let parsed = AsmParser::parse(text).ok()?;
    let bc = Translator::compile(&parsed);
    let mut m = Machine::new_with_program(c.clone(), bc);
    let mut k = 0;
    for i in 0..n {
        if ints.iter().any(|x| *x == i) {
            m.trigger_key_interrupt();
        }
        if resets.iter().any(|x| *x == i) {
            m.cpu_reset();
        }
        m.trigger_key_clock();
        k = i + 1;
        if m.state() != State::Running {
            break;
        }
    }
    Some((m, k))
}

fn radix_text(rng: &mut Rng, v: u8) -> String {
    match rng.below(7) {
        0 => format!("0x{:X}", v),
        1 => format!("0x{:02x}", v),
        2 => format!("0b{:b}", v),
        3 => format!("0b{:08b}", v),
        4 => format!("{:03}", v),
        5 => format!("+{}", v),
        _ => format!("{}", v),
    }
}

/// Byte-argument texts the CLI must refuse (or, for a few, accept): (text).
const BYTE_TEXTS: &[&str] = &[
    "256", "300", "0x100", "0x1FF", "0b100000000", "0b2", "0xG1", "0x", "0b", "", "+", "0X10", "0B1", "1e2", " 5", "5 ",
    "0x+7", "0b+101", "++1", "0x-1", "١٢", "0o17", "00000000255", "0x0000ff", "0b0000000011111111", "255", "+255", "0xFf",
];

fn unhex_str(h: &str) -> Option<String> {
    String::from_utf8(parse_hex(h)?).ok()
}

fn parse_csv(s: &str) -> Option<Vec<usize>> {
    if s == "-" {
        return Some(vec![]);
    }
    s.split(',').map(|x| x.parse().ok()).collect()
}

fn parse_cfg(s: &str) -> Option<MachineConfig> {
    let v: Vec<u64> = s.split(',').map(|x| x.parse().ok()).collect::<Option<Vec<u64>>>()?;
    if v.len() != 13 {
        return None;
    }
    let mut c = MachineConfig::default();
    c.input_fc = v[0] as u8;
    c.input_fd = v[1] as u8;
    c.input_fe = v[2] as u8;
    c.input_ff = v[3] as u8;
    c.digital_input1 = v[4] as u8;
    c.temp = f32::from_bits(v[5] as u32);
    c.jumper1 = v[6] == 1;
    c.jumper2 = v[7] == 1;
    c.analog_input1 = f32::from_bits(v[8] as u32);
    c.analog_input2 = f32::from_bits(v[9] as u32);
    c.universal_input_output1 = v[10] == 1;
    c.universal_input_output2 = v[11] == 1;
    c.universal_input_output3 = v[12] == 1;
    Some(c)
}

fn parse_st(s: &str) -> Option<State> {
    match s {
        "R" => Some(State::Running),
        "S" => Some(State::Stopped),
        "E" => Some(State::ErrorStopped),
        _ => None,
    }
}

/// The real runner on the arguments of a `runner` / `spec.runner` / `spec.stepped` line.
fn eval_runner(tag: &str, text: &str, c: &MachineConfig, n: usize, ints: &[usize], resets: &[usize]) -> String {
    let config = RunnerConfigBuilder::default()
        .with_machine_config(c.clone())
        .with_max_cycles(n)
        .with_resets(resets.to_vec())
        .with_interrupts(ints.to_vec())
        .with_program(text)
        .build()
        .unwrap();
    let res = catch_unwind(AssertUnwindSafe(|| config.run()));
    match res {
        Err(_) => "panic".into(),
        Ok(Err(_)) => "syntax".into(),
        Ok(Ok(r)) => {
            if tag == "spec.stepped" {
                // the property statement executed on the real machine
                match stepped(text, c, n, ints, resets) {
                    Some((m, k)) => {
                        if m == r.machine && k == r.emulated_cycles {
                            // a configuration that has been run before with another program, other inputs and schedules
                            // and is then given these must report the same again (a run depends on its configuration
                            // only, not on earlier runs of the same object)
                            let mut reused = RunnerConfigBuilder::default()
                                .with_machine_config(MachineConfig::default())
                                .with_max_cycles(7usize)
                                .with_program("#! mrasm\n INC R0\n ST (0xFF), R0\n")
                                .build()
                                .unwrap();
                            let _ = catch_unwind(AssertUnwindSafe(|| reused.run().map(|_| ())));
                            reused.machine_config = c.clone();
                            reused.max_cycles = n;
                            reused.program = text;
                            reused.interrupts = ints.to_vec();
                            reused.resets = resets.to_vec();
                            let again = catch_unwind(AssertUnwindSafe(|| reused.run()));
                            match again {
                                Ok(Ok(r2)) if r2.machine == m && r2.emulated_cycles == k => {
                                    // ... and a second run of the very same object as well
                                    match catch_unwind(AssertUnwindSafe(|| config.run())) {
                                        Ok(Ok(r3)) if r3.machine == m && r3.emulated_cycles == k => "same".to_string(),
                                        _ => "differs second-run-of-the-same-configuration".to_string(),
                                    }
                                }
                                _ => "differs run-of-a-reused-configuration".to_string(),
                            }
                        } else {
                            format!("differs stepped-k={} runner-k={}", k, r.emulated_cycles)
                        }
                    }
                    None => "stepped-failed".into(),
                }
            } else {
                format!("ok k={} {}", r.emulated_cycles, dump(&r.machine))
            }
        }
    }
}

/// `RunExpectations::verify` against a result whose machine reports (state, FE, FF).
fn eval_verify(ws: &[&str]) -> Option<String> {
    let (s, fe, ff) = (parse_st(ws[1])?, ws[2].parse::<u8>().ok()?, ws[3].parse::<u8>().ok()?);
    let config = RunnerConfigBuilder::default().with_max_cycles(0).with_program("#! mrasm\n").build().unwrap();
    let mut r = config.run().ok()?;
    r.machine.raw_mut().bus_mut().write(0xFE, fe);
    r.machine.raw_mut().bus_mut().write(0xFF, ff);
    let f = r.machine.verif_state();
    r.machine.raw_mut().verif_force(&f, s);
    let mut b = RunExpectationsBuilder::default();
    if ws[4] != "-" {
        b.expect_state(parse_st(ws[4])?);
    }
    if ws[5] != "-" {
        b.expect_output_fe(ws[5].parse().ok()?);
    }
    if ws[6] != "-" {
        b.expect_output_ff(ws[6].parse().ok()?);
    }
    let e = b.build().unwrap();
    Some(match e.verify(&r) {
        Ok(()) => "ok".to_string(),
        Err(VerificationError::StateMismatch { expected, found }) => format!("state {} {}", st_str(expected), st_str(found)),
        Err(VerificationError::OutputFeMismatch { expected, found }) => format!("fe {} {}", expected, found),
        Err(VerificationError::OutputFfMismatch { expected, found }) => format!("ff {} {}", expected, found),
    })
}

fn volt_text(bits: u32) -> String {
    format!("{}", f32::from_bits(bits))
}

/// The real binary on the arguments of a `spec.cli` line.
fn eval_cli(ws: &[&str]) -> Option<String> {
    let bin = std::env::var("VERIF_BIN").ok()?;
    let dir = std::env::var("VERIF_CLI_DIR").unwrap_or_else(|_| "/verif/work/c12-cli".into());
    std::fs::create_dir_all(&dir).ok()?;
    let path = format!("{}/p{}.asm", dir, std::process::id());
    if ws[1] == "!" {
        let _ = std::fs::remove_file(&path);
    } else {
        std::fs::write(&path, unhex_str(ws[1])?).ok()?;
    }
    let n: usize = ws[2].parse().ok()?;
    let ints = parse_csv(ws[3])?;
    let resets = parse_csv(ws[4])?;
    let mut argv: Vec<String> = vec!["run".into()];
    for (flag, t) in ["--fc", "--fd", "--fe", "--ff", "--di1"].iter().zip(ws[5..10].iter()) {
        argv.push(format!("{}={}", flag, unhex_str(t)?));
    }
    let rest: Vec<u64> = ws[10].split(',').map(|x| x.parse().ok()).collect::<Option<Vec<u64>>>()?;
    if rest.len() != 8 {
        return None;
    }
    argv.push(format!("--temp={}", volt_text(rest[0] as u32)));
    argv.push(format!("--ai1={}", volt_text(rest[3] as u32)));
    argv.push(format!("--ai2={}", volt_text(rest[4] as u32)));
    for (flag, on) in [("--j1", rest[1]), ("--j2", rest[2]), ("--uio1", rest[5]), ("--uio2", rest[6]), ("--uio3", rest[7])] {
        if on == 1 {
            argv.push(flag.into());
        }
    }
    for c in &ints {
        argv.push(format!("--interrupt={}", c));
    }
    for c in &resets {
        argv.push(format!("--reset={}", c));
    }
    argv.push(path.clone());
    argv.push(n.to_string());
    if ws[11] == "1" {
        argv.push("verify".into());
        if ws[12] != "-" {
            argv.push(format!("--state={}", ws[12]));
        }
        if ws[13] != "-" {
            argv.push(format!("--fe={}", unhex_str(&ws[13][1..])?));
        }
        if ws[14] != "-" {
            argv.push(format!("--ff={}", unhex_str(&ws[14][1..])?));
        }
    }
    let mut cmd = std::process::Command::new(&bin);
    cmd.args(&argv).env("NO_COLOR", "1").env("TMPDIR", &dir);
    crate::out::current_op(None);
    let (code, so, se, timed_out) = crate::out::run_limited(cmd, &dir, 20);
    let _ = std::fs::remove_file(&path);
    let o: Result<(), String> = if timed_out { Err("hang: the binary did not exit within 20 s".into()) } else if code.is_none() && so.is_empty() && se.starts_with("spawn-failed") { Err(se.clone()) } else { Ok(()) };
    Some(match o {
        Err(e) => e,
        Ok(()) => {
            let code = code.map(|c| c.to_string()).unwrap_or_else(|| "signal".into());
            let mut cyc = None;
            let mut st = None;
            let mut fe = None;
            let mut ff = None;
            for l in so.lines() {
                let l = l.trim();
                if let Some(r) = l.strip_prefix("Cycles:") {
                    cyc = Some(r.trim().to_string());
                } else if let Some(r) = l.strip_prefix("State:") {
                    st = Some(match r.trim() { "Running" => "R", "Stopped" => "S", "Error" => "E", _ => "?" }.to_string());
                } else if let Some(r) = l.strip_prefix("Output:") {
                    fe = r.trim().strip_prefix("FE:").map(|x| x.trim().to_string());
                } else if let Some(r) = l.strip_prefix("FF:") {
                    ff = Some(r.trim().to_string());
                }
            }
            match (cyc, st, fe, ff) {
                (Some(c), Some(s), Some(a), Some(b)) => format!("exit={} cycles={} state={} fe={} ff={}", code, c, s, a, b),
                (None, None, None, None) => format!("exit={}", code),
                other => format!("exit={} garbled {:?}", code, other),
            }
        }
    })
}

/// The implementation's answer to one self-contained C12 line (generation and replay share this).
pub fn eval_line(ws: &[&str]) -> Option<String> {
    match ws[0] {
        "spec.runner" | "runner" | "spec.stepped" if ws.len() == 6 => {
            let text = unhex_str(ws[1])?;
            Some(eval_runner(ws[0], &text, &parse_cfg(ws[5])?, ws[2].parse().ok()?, &parse_csv(ws[3])?, &parse_csv(ws[4])?))
        }
        "spec.verify" if ws.len() == 7 => eval_verify(ws),
        "spec.cli" if ws.len() == 15 => eval_cli(ws),
        _ => None,
    }
}

fn emit_line(out: &mut Out, line: &str) -> String {
    let ws: Vec<&str> = line.split(' ').collect();
    crate::out::current_op(Some(line));
    let r = eval_line(&ws).unwrap_or_else(|| "bad-op".into());
    crate::out::current_op(None);
    out.emit(line, &r);
    r
}

pub fn run_c12(out: &mut Out, seed: u64, thorough: bool) {
    let mut rng = Rng::new(seed);
    let pool = program_pool();
    // directed: interrupts on two / three adjacent cycles at every position of a short run of a program that
    // enables the key interrupt late, serves it in a routine and counts the entries in FF
    {
        let prog = "#! mrasm\n JR MAIN\nISR:\n INC R2\n ST (0xFF), R2\n RETI\nMAIN:\n LDSP 0xEF\n NOP\n NOP\n BITS (0xF9), 1\n EI\nLOOP:\n INC R0\n JR LOOP\n";
        let cfg = gen_cfg(&mut rng);
        let n = 140usize;
        let step = if thorough { 1 } else { 2 };
        let mut k = 0usize;
        while k < n {
            for ints in [vec![k, k + 1], vec![k, k + 1, k + 2], vec![k, k + 2], vec![k + 1, k]] {
                let args = format!("{} {} {} - {}", hexs(prog.as_bytes()), n, csv(&ints), cfg_str(&cfg.c));
                emit_line(out, &format!("spec.runner {}", args));
                emit_line(out, &format!("spec.stepped {}", args));
                out.count("adjacent-interrupts");
            }
            k += step;
        }
    }
    // directed: a CPU reset at every position of a run of the programs that set up the board in their first pass only
    // (what the program wrote to the board must survive the reset exactly as on the stepped machine)
    {
        let n_t = TEMPLATES.len();
        for (ti, k) in [(n_t - 2, 5u32), (n_t - 2, 0x82), (n_t - 1, 3), (n_t - 1, 0x46), (n_t - 5, 6), (n_t - 4, 1)] {
            let prog = TEMPLATES[ti].replace("{K}", &k.to_string());
            let cfg = gen_cfg(&mut rng);
            let n = 230usize;
            let step = if thorough { 1 } else { 9 };
            let mut r = (k as usize) % step;
            while r < n {
                let resets = if r % 2 == 0 { vec![r] } else { vec![r, r + 40] };
                let args = format!("{} {} - {} {}", hexs(prog.as_bytes()), n, csv(&resets), cfg_str(&cfg.c));
                emit_line(out, &format!("spec.runner {}", args));
                emit_line(out, &format!("spec.stepped {}", args));
                out.count("reset-at-every-position");
                r += step;
            }
        }
    }
    out.notes.insert("program-pool".into(), format!("{} files from programs/ and testing/programs/", pool.len()));
    let n_cases = if thorough { 12000 } else { 1200 };
    for i in 0..n_cases {
        let text = gen_program(&mut rng, &pool);
        let n = match rng.below(8) {
            0 => rng.below(4) as usize,
            1 => 1000 + rng.below(3000) as usize,
            _ => rng.below(400) as usize,
        };
        let ints = gen_cycles(&mut rng, n);
        let resets = if rng.chance(1, 2) { gen_cycles(&mut rng, n) } else { vec![] };
        let cfg = gen_cfg(&mut rng);
        let args = format!("{} {} {} {} {}", hexs(text.as_bytes()), n, csv(&ints), csv(&resets), cfg_str(&cfg.c));
        // the budget-recursive specification (spec.runner), the loop transcription of the model (runner),
        // and the property statement executed step by step on the real machine (spec.stepped)
        let r = emit_line(out, &format!("spec.runner {}", args));
        if r == "panic" {
            out.count("run-panic");
        } else if r == "syntax" {
            out.count("run-syntax-error");
        } else {
            emit_line(out, &format!("runner {}", args));
            emit_line(out, &format!("spec.stepped {}", args));
            let (m, k) = stepped(&text, &cfg.c, n, &ints, &resets).expect("stepped");
            out.count(&format!("end-{}", st_str(m.state())));
            out.count(if k == n { "budget-used-up" } else { "stopped-early" });
            if n == 0 {
                out.count("budget-0");
            }
            if !ints.is_empty() {
                out.count("with-interrupts");
            }
            if !resets.is_empty() {
                out.count("with-resets");
            }
            if ints.iter().chain(resets.iter()).any(|c| *c >= n) {
                out.count("schedule-entry-at-or-beyond-budget");
            }
            if i < 3 {
                out.sample(format!("N={} ints={} resets={} -> k={} state={} FE={} FF={}", n, csv(&ints), csv(&resets),
                    k, st_str(m.state()), m.bus().output_fe(), m.bus().output_ff()));
            }
            // expectations: every subset x matching / mismatching values
            let (s, fe, ff) = (m.state(), m.bus().output_fe(), m.bus().output_ff());
            for mask in 0..8u32 {
                for wrong in 0..8u32 {
                    if wrong & !mask != 0 {
                        continue;
                    }
                    if !thorough && (mask * 8 + wrong + i as u32) % 3 != 0 {
                        continue;
                    }
                    let xs = if wrong & 1 != 0 {
                        *rng.pick(&[State::Running, State::Stopped, State::ErrorStopped].iter().filter(|x| **x != s).cloned().collect::<Vec<_>>())
                    } else { s };
                    let xfe = if wrong & 2 != 0 { fe.wrapping_add(1 + rng.below(255) as u8) } else { fe };
                    let xff = if wrong & 4 != 0 { ff.wrapping_add(1 + rng.below(255) as u8) } else { ff };
                    let f = |on: bool, t: String| if on { t } else { "-".to_string() };
                    let v = emit_line(out, &format!("spec.verify {} {} {} {} {} {}", st_str(s), fe, ff, f(mask & 1 != 0, st_str(xs).into()),
                        f(mask & 2 != 0, xfe.to_string()), f(mask & 4 != 0, xff.to_string())));
                    out.count(if v == "ok" { "verify-ok" } else { "verify-mismatch" });
                }
            }
        }
        out.distinct_case(&args);
    }
    // the real binary
    match std::env::var("VERIF_BIN") {
        Ok(b) if std::path::Path::new(&b).exists() => {}
        _ => {
            out.notes.insert("cli".into(), "VERIF_BIN not set: command-line cases skipped".into());
            return;
        }
    };
    let n_cli = if thorough { 6000 } else { 500 };
    for i in 0..n_cli {
        let text = gen_program(&mut rng, &pool);
        let missing = rng.chance(1, 25);
        let n = match rng.below(6) {
            0 => rng.below(3) as usize,
            _ => rng.below(300) as usize,
        };
        let ints = gen_cycles(&mut rng, n);
        let resets = if rng.chance(1, 3) { gen_cycles(&mut rng, n) } else { vec![] };
        let mut cfg = gen_cfg(&mut rng);
        if rng.chance(1, 4) {
            // arbitrary voltages (negative, huge, NaN, infinite) as the CLI's f32 parser accepts them
            cfg.c.temp = f32::from_bits(crate::gen::f32_bits(&mut rng));
            cfg.c.analog_input1 = f32::from_bits(crate::gen::f32_bits(&mut rng));
            cfg.c.analog_input2 = f32::from_bits(crate::gen::f32_bits(&mut rng));
        }
        // byte arguments as texts
        let weird = rng.chance(1, 5);
        let mut bt: Vec<String> = [cfg.c.input_fc, cfg.c.input_fd, cfg.c.input_fe, cfg.c.input_ff, cfg.c.digital_input1]
            .iter()
            .map(|v| radix_text(&mut rng, *v))
            .collect();
        if weird {
            let k = rng.below(5) as usize;
            bt[k] = (*rng.pick(BYTE_TEXTS)).to_string();
        }
        // expectations
        let with_verify = rng.chance(2, 3);
        let mut xs = "-".to_string();
        let mut xfe = "-".to_string();
        let mut xff = "-".to_string();
        if with_verify {
            // aim at the true values most of the time: take them from an in-process run
            let truth = if missing { None } else { catch_unwind(AssertUnwindSafe(|| stepped(&text, &cfg.c, n, &ints, &resets))).unwrap_or(None) };
            if rng.chance(2, 3) {
                let s = match (&truth, rng.below(3)) {
                    (Some((m, _)), 0..=1) => m.state(),
                    _ => *rng.pick(&[State::Running, State::Stopped, State::ErrorStopped]),
                };
                xs = match s { State::Running => "running", State::Stopped => "stopped", State::ErrorStopped => "error" }.to_string();
            }
            if rng.chance(1, 2) {
                let v = match (&truth, rng.below(3)) {
                    (Some((m, _)), 0..=1) => m.bus().output_fe(),
                    _ => rng.byte(),
                };
                xfe = if rng.chance(1, 10) { (*rng.pick(BYTE_TEXTS)).to_string() } else { radix_text(&mut rng, v) };
            }
            if rng.chance(1, 2) {
                let v = match (&truth, rng.below(3)) {
                    (Some((m, _)), 0..=1) => m.bus().output_ff(),
                    _ => rng.byte(),
                };
                xff = if rng.chance(1, 10) { (*rng.pick(BYTE_TEXTS)).to_string() } else { radix_text(&mut rng, v) };
            }
        }
        let hx = |s: &str| hexs(s.as_bytes());
        let enc = |s: &str| if s == "-" { "-".to_string() } else { format!("={}", hx(s)) };
        let line = format!(
            "spec.cli {} {} {} {} {} {} {} {} {} {},{},{},{},{},{},{},{} {} {} {} {}",
            if missing { "!".to_string() } else { hexs(text.as_bytes()) },
            n, csv(&ints), csv(&resets),
            hx(&bt[0]), hx(&bt[1]), hx(&bt[2]), hx(&bt[3]), hx(&bt[4]),
            cfg.c.temp.to_bits(), cfg.c.jumper1 as u8, cfg.c.jumper2 as u8, cfg.c.analog_input1.to_bits(), cfg.c.analog_input2.to_bits(),
            cfg.c.universal_input_output1 as u8, cfg.c.universal_input_output2 as u8, cfg.c.universal_input_output3 as u8,
            with_verify as u8, xs, enc(&xfe), enc(&xff)
        );
        let imp = emit_line(out, &line);
        if i < 2 {
            out.sample(format!("{} => {}", line.chars().take(200).collect::<String>(), imp));
        }
        out.count(&format!("cli-{}", imp.split(' ').next().unwrap_or("?")));
        if missing {
            out.count("cli-missing-file");
        }
        if weird {
            out.count("cli-odd-byte-text");
        }
        if with_verify {
            out.count("cli-with-verify");
        }
        out.distinct_case(&line);
    }
}
