//! Shared generators: RAM images, stimulus, histories; replay of an ops file.
use crate::out::Out;
use crate::rng::Rng;
use crate::sess::Sess;

/// Re-run an ops file (arg 0) on the real implementation.
pub fn replay(out: &mut Out, extra: &[String]) {
    let text = std::fs::read_to_string(&extra[0]).expect("ops file");
    // ops of the interactive session are executed in one batch by the hooked binary
    let tui_heads = ["tnew", "tfile", "key", "tdump", "draw", "drawp", "cmd"];
    if text.lines().any(|l| tui_heads.contains(&l.split(' ').next().unwrap_or(""))) {
        std::env::set_var("VERIF_TUI_SCRIPT", &extra[0]);
        crate::c_tui::run_c17(out, 0, false);
        return;
    }
    let mut s = Sess::new();
    for line in text.lines() {
        let (op, r) = s.apply2(line);
        out.emit(&op, &r);
    }
}

/// First bytes the micro-program defines (everything except 0x4C-0x4F and 0xE0-0xEF).
pub fn defined_first(op: u8) -> bool {
    !((0x4C..=0x4F).contains(&op) || (0xE0..=0xEF).contains(&op))
}

pub const F32_SPECIAL: &[u32] = &[
    0x0000_0000, 0x8000_0000, 0x0000_0001, 0x8000_0001, 0x007F_FFFF, 0x0080_0000, 0x3F80_0000, 0x4000_0000,
    0x409F_FFFF, 0x40A0_0000, 0x40A0_0001, 0x4123_3333, 0x7F7F_FFFF, 0x7F80_0000, 0xFF80_0000, 0x7FC0_0000,
    0xFFC0_0000, 0x7F80_0001, 0xBF80_0000, 0x3C23_D70A, 0x4023_3333, 0x3F00_0000,
];

pub fn f32_bits(rng: &mut Rng) -> u32 {
    match rng.below(4) {
        0 => *rng.pick(F32_SPECIAL),
        1 => rng.next() as u32,
        2 => ((rng.below(600) as f32) / 100.0).to_bits(),
        _ => ((rng.below(256) as u8) as f32 / 100.0).to_bits() ^ (rng.below(3) as u32).wrapping_sub(1) & 0x3,
    }
}

/// A RAM image biased towards defined opcodes with plausible operand bytes.
pub fn image(rng: &mut Rng, len: usize) -> Vec<u8> {
    let mut v = Vec::with_capacity(len);
    let style = rng.below(4);
    while v.len() < len {
        let b = match style {
            0 => rng.byte(),
            _ => {
                let mut op = rng.byte();
                if rng.chance(9, 10) {
                    while !defined_first(op) || op < 2 {
                        op = rng.byte();
                    }
                }
                op
            }
        };
        v.push(b);
        if b >= 0xF0 && style != 0 {
            // two-byte form: optional constant, then second opcode
            if (b & 0x0F) == 0x0B || (b & 0x0F) == 0x0F {
                v.push(rng.byte());
            }
            let seconds: [u8; 8] = [0x10, 0x20, 0x30, 0x40, 0x44, 0x50, 0x60, 0x13];
            let s = *rng.pick(&seconds);
            let s = if s == 0x40 || s == 0x44 || s == 0x13 { s } else { s | (rng.byte() & 0x0F) };
            v.push(s);
            if (s & 0x0F) == 0x0F && s != 0x13 {
                v.push(rng.byte());
            }
        }
    }
    v.truncate(len);
    v
}

pub const SS: &[&str] = &["0", "16", "32", "48", "64"];

pub fn stimulus(rng: &mut Rng) -> String {
    match rng.below(16) {
        0 => "irq".into(),
        1 => "cont".into(),
        2 => format!("in {} {}", rng.below(4), rng.byte()),
        3 => format!("di1 {}", rng.byte()),
        4 => format!("temp {}", f32_bits(rng)),
        5 => format!("ai1 {}", f32_bits(rng)),
        6 => format!("ai2 {}", f32_bits(rng)),
        7 => format!("j1 {}", rng.below(2)),
        8 => format!("j2 {}", rng.below(2)),
        9 => format!("uio{} {}", 1 + rng.below(3), rng.below(2)),
        10 => format!("mode {}", if rng.chance(1, 2) { "R" } else { "A" }),
        11 => "clock".into(),
        12 => format!("busw {} {}", 0xF0 + rng.below(16), rng.byte()),
        13 => format!("busr {}", rng.byte()),
        14 => format!("busw {} {}", rng.byte(), rng.byte()),
        _ => "edge".into(),
    }
}

pub fn run_line(out: &mut Out, s: &mut Sess, line: &str) -> String {
    let (op, r) = s.apply2(line);
    out.emit(&op, &r);
    let key = line.split(' ').next().unwrap_or("");
    out.count(key);
    out.distinct_case(line);
    r
}
