//! Interpreter of the line protocol on the REAL implementation (mirror of lean/Driver.lean).
use emulator_2a_lib::compiler::ByteCode;
use emulator_2a_lib::machine::{Machine, MachineConfig, State, StepMode, VerifRawState};
use emulator_2a_lib::parser::{Line, Programsize, Stacksize};
use std::panic::{catch_unwind, AssertUnwindSafe};

pub struct Sess {
    pub m: Machine,
    /// Observations made just before the last `edge` (for the observation-carrying spec lines).
    pub last_edge: Option<(String, bool, bool, bool, u8, String, String)>,
    pub last_panicked: bool,
}

pub fn run_str(m: &Machine) -> &'static str {
    match m.state() {
        State::Running => "R",
        State::Stopped => "S",
        State::ErrorStopped => "E",
    }
}

pub fn hex2(b: u8) -> String {
    format!("{:02x}", b)
}
fn b01(b: bool) -> &'static str {
    if b {
        "1"
    } else {
        "0"
    }
}
pub fn fnv(bytes: &[u8]) -> u64 {
    let mut h: u64 = 0xcbf29ce484222325;
    for b in bytes {
        h = (h ^ (*b as u64)).wrapping_mul(0x100000001b3);
    }
    h
}
pub fn ss_str(s: Stacksize) -> &'static str {
    match s {
        Stacksize::_0 => "0",
        Stacksize::_16 => "16",
        Stacksize::_32 => "32",
        Stacksize::_48 => "48",
        Stacksize::_64 => "64",
        Stacksize::NotSet => "N",
    }
}
pub fn ps_str(p: Programsize) -> String {
    match p {
        Programsize::Size(n) => n.to_string(),
        Programsize::Auto => "A".into(),
        Programsize::NotSet => "N".into(),
    }
}
pub fn parse_ss(s: &str) -> Option<Stacksize> {
    Some(match s {
        "0" => Stacksize::_0,
        "16" => Stacksize::_16,
        "32" => Stacksize::_32,
        "48" => Stacksize::_48,
        "64" => Stacksize::_64,
        "N" => Stacksize::NotSet,
        _ => return None,
    })
}
pub fn parse_ps(s: &str) -> Option<Programsize> {
    Some(match s {
        "A" => Programsize::Auto,
        "N" => Programsize::NotSet,
        n => Programsize::Size(n.parse::<u8>().ok()?),
    })
}
pub fn parse_hex(s: &str) -> Option<Vec<u8>> {
    if s == "-" {
        return Some(vec![]);
    }
    if s.len() % 2 != 0 {
        return None;
    }
    (0..s.len() / 2)
        .map(|i| u8::from_str_radix(&s[2 * i..2 * i + 2], 16).ok())
        .collect()
}
pub fn hexs(b: &[u8]) -> String {
    if b.is_empty() {
        "-".into()
    } else {
        b.iter().map(|x| hex2(*x)).collect()
    }
}
pub fn bytecode(img: &[u8], ss: Stacksize, ps: Programsize) -> ByteCode {
    ByteCode {
        lines: vec![(Line::Empty(None), img.to_vec())],
        stacksize: ss,
        programsize: ps,
    }
}

pub fn dump(m: &Machine) -> String {
    let r = m.verif_state();
    let regs: String = m.registers().content().iter().map(|b| hex2(*b)).collect();
    let pr = match r.pending_register_write {
        Some(n) => n.to_string(),
        None => "-".into(),
    };
    let run = match m.state() {
        State::Running => "R",
        State::Stopped => "S",
        State::ErrorStopped => "E",
    };
    let bus = m.bus();
    let b = bus.verif_state();
    let bd = bus.board();
    let md = match m.step_mode() {
        StepMode::Real => "R",
        StepMode::Assembly => "A",
    };
    let dirs = bd.uio_dir();
    format!(
        "a={} ir={} r={} pr={} pf={} pi={} alu={}{}{}{} lb={} run={} w={} ss={} ps={} md={} out={}{} in={}{}{}{} micr={} misr={} ucr={} usr={} us={} ur={} t={},{},{},{} bd={}{}{},{},{}{}{},{},{},{},{},{},{}{}{} ram={}",
        r.address, r.instruction, regs, pr, b01(r.pending_flag_write), b01(r.pending_edge_interrupt),
        hex2(r.alu_output.0), b01(r.alu_output.1), b01(r.alu_output.2), b01(r.alu_output.3),
        hex2(r.last_bus_read), run, b01(r.pending_wait_for_memory), ss_str(m.stacksize()), ps_str(m.programsize()), md,
        hex2(bus.output_fe()), hex2(bus.output_ff()),
        hex2(b.input_reg[0]), hex2(b.input_reg[1]), hex2(b.input_reg[2]), hex2(b.input_reg[3]),
        hex2(b.micr), hex2(b.misr), hex2(b.ucr), hex2(b.usr), hex2(b.uart_send), hex2(b.uart_recv),
        b01(b.timer_enabled), b.timer_div[0], b.timer_div[1], b.timer_div[2],
        hex2(*bd.digital_input1()), hex2(*bd.digital_output1()), hex2(*bd.digital_output2()),
        bd.temp().to_bits(), hex2(bd.dasr().bits()), hex2(bd.daisr().bits()), hex2(bd.daicr().bits()),
        bd.analog_inputs()[0].to_bits(), bd.analog_inputs()[1].to_bits(),
        bd.analog_outputs()[0].to_bits(), bd.analog_outputs()[1].to_bits(), bd.fan_rpm(),
        b01(dirs[0]), b01(dirs[1]), b01(dirs[2]),
        fnv(&bus.memory()[..])
    )
}

/// Architectural state at a boundary: R0-R2, PC (not yet incremented), FR, SP and the bus without MISR.
pub fn arch_str(m: &Machine) -> String {
    let r = m.registers().content();
    let bus = m.bus();
    let b = bus.verif_state();
    let bd = bus.board();
    let dirs = bd.uio_dir();
    format!(
        "r={}{}{}{}{}{} out={}{} micr={} ucr={} us={} t={},{},{},{} bd={}{}{},{}{}{},{},{},{},{}{}{} ram={}",
        hex2(r[0]), hex2(r[1]), hex2(r[2]), hex2(r[3]), hex2(r[4]), hex2(r[5]),
        hex2(bus.output_fe()), hex2(bus.output_ff()), hex2(b.micr), hex2(b.ucr), hex2(b.uart_send),
        b01(b.timer_enabled), b.timer_div[0], b.timer_div[1], b.timer_div[2],
        hex2(*bd.digital_input1()), hex2(*bd.digital_output1()), hex2(*bd.digital_output2()),
        hex2(bd.dasr().bits()), hex2(bd.daisr().bits()), hex2(bd.daicr().bits()),
        bd.analog_outputs()[0].to_bits(), bd.analog_outputs()[1].to_bits(), bd.fan_rpm(),
        b01(dirs[0]), b01(dirs[1]), b01(dirs[2]),
        fnv(&bus.memory()[..])
    )
}

impl Sess {
    fn keep_running(&mut self) {
        if self.m.state() != State::Running {
            let st = self.m.verif_state();
            self.m.raw_mut().verif_force(&st, State::Running);
        }
    }
    /// Is the instruction starting at this boundary a defined one (first byte, and second byte of prefixes)?
    fn next_instruction_defined(&self) -> bool {
        use emulator_2a_lib::machine::RegisterNumber as RN;
        let pc = *self.m.registers().get(RN::R3);
        let op = self.m.bus().read(pc);
        if (0x4C..=0x4F).contains(&op) || (0xE0..=0xEF).contains(&op) {
            return false;
        }
        if op < 0xF0 {
            return true;
        }
        let mode = (op >> 2) & 3;
        let reg = op & 3;
        let second_at = if reg == 3 && mode >= 2 { pc.wrapping_add(2) } else { pc.wrapping_add(1) };
        // a source operand that writes to the second byte's location cannot occur (sources only read)
        let b = self.m.bus().read(second_at);
        (0x10..=0x3F).contains(&b) || b == 0x40 || b == 0x44 || (0x50..=0x6F).contains(&b)
    }
    pub fn new() -> Self {
        Sess { m: Machine::new(MachineConfig::default()), last_edge: None, last_panicked: false }
    }
    /// Apply a line; returns the op line to record (observation-carrying spec lines are completed
    /// with what is observed on the real machine now) and the implementation's answer.
    pub fn apply2(&mut self, line: &str) -> (String, String) {
        let snapshot = self.m.clone();
        crate::out::current_op(Some(line));
        let res = catch_unwind(AssertUnwindSafe(|| self.apply2_inner(line)));
        crate::out::current_op(None);
        match res {
            Ok(r) => r,
            Err(_) => {
                self.m = snapshot;
                self.last_panicked = true;
                (line.to_string(), "panic".into())
            }
        }
    }
    fn apply2_inner(&mut self, line: &str) -> (String, String) {
        use emulator_2a_lib::machine::RegisterNumber as RN;
        let head = line.split(' ').next().unwrap_or("");
        match head {
            "edge" => {
                let st = self.m.verif_state();
                let (reset, load) = {
                    let sg = self.m.signals();
                    let reset = sg.mac1() && sg.mac2();
                    (reset, !reset && sg.mac0() && sg.mac2())
                };
                let _ = reset;
                self.last_edge = Some((
                    run_str(&self.m).to_string(),
                    st.pending_wait_for_memory,
                    st.pending_register_write.is_some(),
                    load,
                    st.last_bus_read,
                    ss_str(self.m.stacksize()).to_string(),
                    ps_str(self.m.programsize()),
                ));
                let r = self.apply(line);
                (line.to_string(), r)
            }
            "spec.run" => {
                let sp = *self.m.registers().get(RN::R5);
                let pc = *self.m.registers().get(RN::R3);
                match &self.last_edge {
                    Some((pre, wait, wrote, load, lb, ss, ps)) => (
                        format!("spec.run {} {} {} {} {} {} {} {} {}", pre, *wait as u8, *wrote as u8, sp, pc, ss, ps, *load as u8, lb),
                        run_str(&self.m).to_string(),
                    ),
                    None => (line.to_string(), "bad-op".into()),
                }
            }
            "spec.valid" => {
                let sp = *self.m.registers().get(RN::R5);
                let pc = *self.m.registers().get(RN::R3);
                (
                    format!("spec.valid {} {} {} {} {}", run_str(&self.m), sp, pc, ss_str(self.m.stacksize()), ps_str(self.m.programsize())),
                    "ok".into(),
                )
            }
            "spec.absorb" => {
                if line == "spec.absorb edges" {
                    let before = self.m.clone();
                    for _ in 0..20 {
                        self.m.raw_mut().trigger_clock_edge();
                    }
                    self.m.trigger_key_clock();
                    let same = self.m == before;
                    self.m = before;
                    (line.to_string(), if same { "same".into() } else { "changed".into() })
                } else {
                    (line.to_string(), run_str(&self.m).to_string())
                }
            }
            "spec.cpureset" | "spec.masterreset" => {
                let before = self.m.clone();
                let mut after = self.m.clone();
                let master = head == "spec.masterreset";
                if master {
                    after.master_reset();
                } else {
                    after.cpu_reset();
                }
                let (b, a) = (before.bus(), after.bus());
                let (bs, as_) = (b.verif_state(), a.verif_state());
                let (bb, ab) = (b.board(), a.board());
                let f32eq = |x: &f32, y: &f32| x.to_bits() == y.to_bits();
                let phys = bb.digital_input1() == ab.digital_input1()
                    && f32eq(bb.temp(), ab.temp())
                    && f32eq(&bb.analog_inputs()[0], &ab.analog_inputs()[0])
                    && f32eq(&bb.analog_inputs()[1], &ab.analog_inputs()[1])
                    && bb.dasr() == ab.dasr()
                    && bb.daisr() == ab.daisr();
                let common = b.memory()[..] == a.memory()[..]
                    && bs.misr == as_.misr && bs.usr == as_.usr && bs.uart_send == as_.uart_send && bs.uart_recv == as_.uart_recv
                    && before.stacksize() == after.stacksize() && before.programsize() == after.programsize()
                    && before.step_mode() == after.step_mode() && phys;
                let kept = if master {
                    common
                } else {
                    common && bs.input_reg == as_.input_reg && bs.timer_enabled == as_.timer_enabled
                        && bs.timer_div == as_.timer_div && *bb == *ab
                };
                let r = after.verif_state();
                let regs: String = after.registers().content().iter().map(|x| hex2(*x)).collect();
                let mut res = format!(
                    "a={} ir={} r={} pr={} pf={} pi={} alu={}{}{}{} lb={} run={} w={} out={}{} micr={} ucr={}",
                    r.address, r.instruction, regs,
                    r.pending_register_write.map(|x| x.to_string()).unwrap_or("-".into()),
                    b01(r.pending_flag_write), b01(r.pending_edge_interrupt),
                    hex2(r.alu_output.0), b01(r.alu_output.1), b01(r.alu_output.2), b01(r.alu_output.3),
                    hex2(r.last_bus_read), run_str(&after), b01(r.pending_wait_for_memory),
                    hex2(a.output_fe()), hex2(a.output_ff()), hex2(as_.micr), hex2(as_.ucr)
                );
                if master {
                    let d = ab.uio_dir();
                    res += &format!(
                        " in={}{}{}{} t={},{},{},{} do={}{} ao={},{} icr={} rpm={} dir={}{}{}",
                        hex2(as_.input_reg[0]), hex2(as_.input_reg[1]), hex2(as_.input_reg[2]), hex2(as_.input_reg[3]),
                        b01(as_.timer_enabled), as_.timer_div[0], as_.timer_div[1], as_.timer_div[2],
                        hex2(*ab.digital_output1()), hex2(*ab.digital_output2()),
                        ab.analog_outputs()[0].to_bits(), ab.analog_outputs()[1].to_bits(),
                        hex2(ab.daicr().bits()), ab.fan_rpm(), b01(d[0]), b01(d[1]), b01(d[2])
                    );
                }
                res += &format!(" kept={}", b01(kept));
                (line.to_string(), res)
            }
            "spec.reload" | "spec.reloadasm" | "spec.resetasm" => {
                // spec.reload <ss> <ps> <hex> <edges>: reload here vs a newly created machine with the same limits
                // (spec.reloadasm: both stepped with the clock key in assembly-step mode; spec.resetasm: master
                // reset + RAM image instead of a load)
                let ws: Vec<&str> = line.split(' ').collect();
                let (ss, ps, img, n) = match (parse_ss(ws[1]), parse_ps(ws[2]), parse_hex(ws[3]), ws[4].parse::<usize>()) {
                    (Some(a), Some(b), Some(c), Ok(d)) => (a, b, c, d),
                    _ => return (line.to_string(), "bad-op".into()),
                };
                let mut old = self.m.clone();
                let mut fresh = Machine::new(MachineConfig::default());
                fresh.raw_mut().set_stacksize(old.stacksize());
                fresh.raw_mut().set_programsize(old.programsize());
                let asm = head != "spec.reload";
                if head == "spec.resetasm" {
                    old.master_reset();
                    fresh.master_reset();
                    for (i, b) in img.iter().enumerate().take(0xF0) {
                        old.raw_mut().bus_mut().write(i as u8, *b);
                        fresh.raw_mut().bus_mut().write(i as u8, *b);
                    }
                    for i in img.len()..0xF0 {
                        old.raw_mut().bus_mut().write(i as u8, 0);
                        fresh.raw_mut().bus_mut().write(i as u8, 0);
                    }
                } else {
                    old.load(bytecode(&img, ss, ps));
                    fresh.load(bytecode(&img, ss, ps));
                }
                if asm {
                    old.set_step_mode(StepMode::Assembly);
                    fresh.set_step_mode(StepMode::Assembly);
                }
                let view = |m: &Machine| {
                    let r = m.verif_state();
                    let b = m.bus().verif_state();
                    format!("{:?} {:?} {:?} {:?} {} {} {:?} {:?} {} {} {:?}", r.address, r.instruction, m.registers().content(),
                        (r.pending_register_write, r.pending_flag_write, r.pending_edge_interrupt, r.pending_wait_for_memory, r.alu_output, r.last_bus_read),
                        run_str(m), fnv(&m.bus().memory()[..]), (m.bus().output_fe(), m.bus().output_ff()), b.input_reg,
                        b.micr, b.ucr, (b.timer_enabled, b.timer_div, ss_str(m.stacksize()), ps_str(m.programsize())))
                };
                let mut res = "agree".to_string();
                for k in 0..=n {
                    if view(&old) != view(&fresh) {
                        res = format!("differ at edge {}", k);
                        break;
                    }
                    if asm {
                        old.trigger_key_clock();
                        fresh.trigger_key_clock();
                    } else {
                        old.raw_mut().trigger_clock_edge();
                        fresh.raw_mut().trigger_clock_edge();
                    }
                }
                (line.to_string(), res)
            }
            "spec.asmstep" => {
                // one assembly step on a copy (real trigger_key_clock, watchdog) vs single edges to the boundary
                let mut a = self.m.clone();
                a.set_step_mode(StepMode::Assembly);
                let (tx, rx) = std::sync::mpsc::channel();
                std::thread::spawn(move || {
                    a.trigger_key_clock();
                    let _ = tx.send(a);
                });
                let a = match rx.recv_timeout(std::time::Duration::from_secs(5)) {
                    Ok(a) => a,
                    Err(_) => return (line.to_string(), "timeout".into()),
                };
                let mut b = self.m.clone();
                b.set_step_mode(StepMode::Assembly);
                let mut k = 0;
                while b.is_instruction_done() && b.state() == State::Running && k < 6000 {
                    b.raw_mut().trigger_clock_edge();
                    k += 1;
                }
                while !b.is_instruction_done() && b.state() == State::Running && k < 6000 {
                    b.raw_mut().trigger_clock_edge();
                    k += 1;
                }
                (line.to_string(), if a == b { "equal".into() } else { format!("differ after {} edges", k) })
            }
            "toboundary" | "stepinstr" => {
                // run single edges to the next instruction boundary; halts are lifted (C01 is not about halting)
                let mut k = 0;
                if head == "stepinstr" {
                    while self.m.is_instruction_done() && k < 50 {
                        self.m.raw_mut().trigger_clock_edge();
                        self.keep_running();
                        k += 1;
                    }
                }
                while !self.m.is_instruction_done() && k < 3000 {
                    self.m.raw_mut().trigger_clock_edge();
                    self.keep_running();
                    k += 1;
                }
                (line.to_string(), format!("{}", if self.m.is_instruction_done() { "boundary" } else { "hang" }))
            }
            "spec.isa" | "spec.int" => {
                // architectural state after the instruction that starts at this boundary (on a copy)
                let mut c = Sess { m: self.m.clone(), last_edge: None, last_panicked: false };
                if !c.m.is_instruction_done() {
                    return (line.to_string(), "not-at-boundary".into());
                }
                if head == "spec.isa" && !self.next_instruction_defined() {
                    return (line.to_string(), "undefined".into());
                }
                if head == "spec.int" {
                    c.m.trigger_key_interrupt();
                }
                let mut k = 0;
                while c.m.is_instruction_done() && k < 50 {
                    c.m.raw_mut().trigger_clock_edge();
                    c.keep_running();
                    k += 1;
                }
                while !c.m.is_instruction_done() && k < 3000 {
                    c.m.raw_mut().trigger_clock_edge();
                    c.keep_running();
                    k += 1;
                }
                if !c.m.is_instruction_done() {
                    return (line.to_string(), "hang".into());
                }
                (line.to_string(), arch_str(&c.m))
            }
            "spec.bw" | "spec.bset" | "spec.bd" | "spec.clamp" | "spec.tab" => {
                let ws: Vec<&str> = line.split(' ').collect();
                let r = match (head, ws.as_slice()) {
                    ("spec.bw", [_, port, v]) => {
                        let (port, v): (u8, u8) = (port.parse().unwrap_or(0), v.parse().unwrap_or(0));
                        self.m.raw_mut().bus_mut().write(0xF0 + (port & 3), v);
                        "ok".to_string()
                    }
                    ("spec.bset", [_, kind, v]) => {
                        let n: u32 = v.parse().unwrap_or(0);
                        match *kind {
                            "di1" => self.m.set_digital_input1(n as u8),
                            "temp" => self.m.set_temp(f32::from_bits(n)),
                            "ai1" => self.m.set_analog_input1(f32::from_bits(n)),
                            "ai2" => self.m.set_analog_input2(f32::from_bits(n)),
                            "j1" => self.m.set_jumper1(n != 0),
                            "j2" => self.m.set_jumper2(n != 0),
                            "uio1" => self.m.set_universal_input_output1(n != 0),
                            "uio2" => self.m.set_universal_input_output2(n != 0),
                            "uio3" => self.m.set_universal_input_output3(n != 0),
                            _ => return (line.to_string(), "bad-op".into()),
                        }
                        "ok".to_string()
                    }
                    ("spec.bd", _) => {
                        let bus = self.m.bus();
                        let bd = bus.board();
                        format!(
                            "dasr={} daisr={} di={} ao={},{} period={} in={},{},{}",
                            hex2(bus.read(0xF1)), hex2(bus.read(0xF3)), hex2(bus.read(0xF0)),
                            bd.analog_outputs()[0].to_bits(), bd.analog_outputs()[1].to_bits(), bus.read(0xF2),
                            bd.temp().to_bits(), bd.analog_inputs()[0].to_bits(), bd.analog_inputs()[1].to_bits()
                        )
                    }
                    ("spec.clamp", [_, v]) => {
                        let n: u32 = v.parse().unwrap_or(0);
                        let mut c = Machine::new(MachineConfig::default());
                        c.set_temp(f32::from_bits(n));
                        c.bus().board().temp().to_bits().to_string()
                    }
                    ("spec.tab", [_, v]) => {
                        let b: u8 = v.parse().unwrap_or(0);
                        let mut c = Machine::new(MachineConfig::default());
                        c.raw_mut().bus_mut().write(0xF0, b);
                        let bd = c.bus().board();
                        format!("{} {} {}", bd.analog_outputs()[0].to_bits(), bd.fan_rpm(), c.bus().read(0xF2))
                    }
                    _ => "bad-op".to_string(),
                };
                (line.to_string(), r)
            }
            "spec.nopanic" => (line.to_string(), if self.last_panicked { "panic".into() } else { "ok".into() }),
            _ => {
                let r = self.apply(line);
                self.last_panicked = r == "panic";
                (line.to_string(), r)
            }
        }
    }
    /// Apply one protocol line to the real machine; returns the result line.
    pub fn apply(&mut self, line: &str) -> String {
        let ws: Vec<&str> = line.split(' ').filter(|w| !w.is_empty()).collect();
        let snapshot = self.m.clone();
        let res = catch_unwind(AssertUnwindSafe(|| self.apply_inner(&ws)));
        match res {
            Ok(s) => s,
            Err(_) => {
                // the Rust call unwound: the model keeps its state, so do we
                self.m = snapshot;
                "panic".into()
            }
        }
    }
    fn apply_inner(&mut self, ws: &[&str]) -> String {
        // self-contained lines (no machine session): evaluated by their property's module
        if !ws.is_empty() {
            if let Some(r) = crate::c_run::eval_line(ws) {
                return r;
            }
            if let Some(r) = crate::c_asm::eval_line(ws) {
                return r;
            }
        }
        let m = &mut self.m;
        let ok = || "ok".to_string();
        let bad = || "bad-op".to_string();
        let byte = |s: &str| s.parse::<u8>().ok();
        let boolean = |s: &str| match s {
            "0" => Some(false),
            "1" => Some(true),
            _ => None,
        };
        match ws {
            ["new"] => {
                *m = Machine::new(MachineConfig::default());
                ok()
            }
            ["load", ss, ps, hx] => match (parse_ss(ss), parse_ps(ps), parse_hex(hx)) {
                (Some(ss), Some(ps), Some(img)) => {
                    m.load(bytecode(&img, ss, ps));
                    ok()
                }
                _ => bad(),
            },
            ["spec.load", ss, ps, hx] => match (parse_ss(ss), parse_ps(ps), parse_hex(hx)) {
                // loading applies the program's limits (what the specification prescribes is answered by the driver)
                (Some(ss), Some(ps), Some(img)) => {
                    m.load(bytecode(&img, ss, ps));
                    format!("limits ss={} ps={} run={}", ss_str(m.stacksize()), ps_str(m.programsize()), run_str(m))
                }
                _ => bad(),
            },
            ["edge"] => {
                m.raw_mut().trigger_clock_edge();
                ok()
            }
            ["edges", n] => match n.parse::<usize>() {
                Ok(n) => {
                    for _ in 0..n {
                        m.raw_mut().trigger_clock_edge();
                    }
                    ok()
                }
                _ => bad(),
            },
            ["clock"] => {
                m.trigger_key_clock();
                ok()
            }
            ["irq"] => {
                m.trigger_key_interrupt();
                ok()
            }
            ["cont"] => {
                m.trigger_key_continue();
                ok()
            }
            ["cpureset"] => {
                m.cpu_reset();
                ok()
            }
            ["masterreset"] => {
                m.master_reset();
                ok()
            }
            ["in", i, v] => match (*i, byte(v)) {
                ("0", Some(v)) => {
                    m.set_input_fc(v);
                    ok()
                }
                ("1", Some(v)) => {
                    m.set_input_fd(v);
                    ok()
                }
                ("2", Some(v)) => {
                    m.set_input_fe(v);
                    ok()
                }
                ("3", Some(v)) => {
                    m.set_input_ff(v);
                    ok()
                }
                _ => bad(),
            },
            ["di1", v] => byte(v).map(|v| { m.set_digital_input1(v); ok() }).unwrap_or_else(bad),
            ["temp", v] => v.parse::<u32>().ok().map(|v| { m.set_temp(f32::from_bits(v)); ok() }).unwrap_or_else(bad),
            ["ai1", v] => v.parse::<u32>().ok().map(|v| { m.set_analog_input1(f32::from_bits(v)); ok() }).unwrap_or_else(bad),
            ["ai2", v] => v.parse::<u32>().ok().map(|v| { m.set_analog_input2(f32::from_bits(v)); ok() }).unwrap_or_else(bad),
            ["j1", v] => boolean(v).map(|v| { m.set_jumper1(v); ok() }).unwrap_or_else(bad),
            ["j2", v] => boolean(v).map(|v| { m.set_jumper2(v); ok() }).unwrap_or_else(bad),
            ["uio1", v] => boolean(v).map(|v| { m.set_universal_input_output1(v); ok() }).unwrap_or_else(bad),
            ["uio2", v] => boolean(v).map(|v| { m.set_universal_input_output2(v); ok() }).unwrap_or_else(bad),
            ["uio3", v] => boolean(v).map(|v| { m.set_universal_input_output3(v); ok() }).unwrap_or_else(bad),
            ["mode", "R"] => {
                m.set_step_mode(StepMode::Real);
                ok()
            }
            ["mode", "A"] => {
                m.set_step_mode(StepMode::Assembly);
                ok()
            }
            ["ss", v] => parse_ss(v).map(|v| { m.raw_mut().set_stacksize(v); ok() }).unwrap_or_else(bad),
            ["ps", v] => parse_ps(v).map(|v| { m.raw_mut().set_programsize(v); ok() }).unwrap_or_else(bad),
            ["busw", a, v] => match (byte(a), byte(v)) {
                (Some(a), Some(v)) => {
                    m.raw_mut().bus_mut().write(a, v);
                    ok()
                }
                _ => bad(),
            },
            ["busr", a] => match byte(a) {
                Some(a) => m.bus().read(a).to_string(),
                None => bad(),
            },
            ["force", addr, ir, regs, pr, pf, pi, aluo, ac, az, an, lb, run, w] => {
                let regs = match parse_hex(regs) {
                    Some(r) if r.len() == 8 => r,
                    _ => return bad(),
                };
                let f = (|| {
                    Some(VerifRawState {
                        address: addr.parse().ok()?,
                        instruction: ir.parse().ok()?,
                        pending_register_write: if *pr == "-" { None } else { Some(pr.parse().ok()?) },
                        pending_flag_write: boolean(pf)?,
                        pending_edge_interrupt: boolean(pi)?,
                        pending_level_interrupt: false,
                        pending_wait_for_memory: boolean(w)?,
                        alu_output: (byte(aluo)?, boolean(ac)?, boolean(az)?, boolean(an)?),
                        last_bus_read: byte(lb)?,
                    })
                })();
                let f = match f {
                    Some(f) => f,
                    None => return bad(),
                };
                let st = match *run {
                    "R" => State::Running,
                    "S" => State::Stopped,
                    _ => State::ErrorStopped,
                };
                use emulator_2a_lib::machine::RegisterNumber as RN;
                let rns = [RN::R0, RN::R1, RN::R2, RN::R3, RN::R4, RN::R5, RN::R6, RN::R7];
                for (i, rn) in rns.iter().enumerate() {
                    m.raw_mut().registers_mut().set(*rn, regs[i]);
                }
                m.raw_mut().verif_force(&f, st);
                ok()
            }
            // ---- C10: the operations as seen by the abstract address map ----
            ["spec.busw", a, v] => match (byte(a), byte(v)) {
                (Some(a), Some(v)) => {
                    m.raw_mut().bus_mut().write(a, v);
                    ok()
                }
                _ => bad(),
            },
            ["spec.busr", a] => match byte(a) {
                Some(a) => {
                    let before = m.bus().clone();
                    let v = m.bus().read(a);
                    let pure = *m.bus() == before;
                    let determined = a <= 0xF0 || a >= 0xFC || a == 0xF9;
                    format!(
                        "{} {}",
                        if determined { v.to_string() } else { "-".into() },
                        if pure { "pure" } else { "impure" }
                    )
                }
                None => bad(),
            },
            ["spec.in", i, v] => match (byte(i), byte(v)) {
                (Some(0), Some(v)) => { m.set_input_fc(v); ok() }
                (Some(1), Some(v)) => { m.set_input_fd(v); ok() }
                (Some(2), Some(v)) => { m.set_input_fe(v); ok() }
                (Some(3), Some(v)) => { m.set_input_ff(v); ok() }
                _ => bad(),
            },
            ["spec.di1", v] => byte(v).map(|v| { m.set_digital_input1(v); ok() }).unwrap_or_else(bad),
            ["spec.micr"] => {
                // the interrupt-enable mask as the program has left it (all earlier writes to 0xF9)
                format!("micr={:02x} enabled={}", m.bus().verif_state().micr, m.bus().is_key_edge_int_enabled() as u8)
            }
            ["spec.busstat"] => {
                // reads of 0xF0 / 0xF1 / 0xF2 / 0xF3 return the board's input port, status register, fan period and
                // interrupt status register - exactly what the board itself reports
                let bus = m.bus();
                let b = bus.board();
                let ok = bus.read(0xF0) == *b.digital_input1()
                    && bus.read(0xF1) == b.dasr().bits()
                    && bus.read(0xF2) == b.get_fan_period()
                    && bus.read(0xF3) == b.daisr().bits();
                if ok { "consistent".into() } else {
                    format!("inconsistent f0={}/{} f1={}/{} f2={}/{} f3={}/{}", bus.read(0xF0), b.digital_input1(), bus.read(0xF1), b.dasr().bits(),
                        bus.read(0xF2), b.get_fan_period(), bus.read(0xF3), b.daisr().bits())
                }
            }
            ["spec.irq"] => {
                m.trigger_key_interrupt();
                ok()
            }
            ["spec.contkey"] => {
                // the CONTINUE key only leaves the Stopped state: pressed on a machine that is not stopped it changes
                // nothing - in particular not the number of clock edges the instructions in flight take
                if m.state() == State::Stopped {
                    "noop".to_string()
                } else {
                    let mut a = m.clone();
                    let mut b = m.clone();
                    a.trigger_key_continue();
                    let mut res = "noop".to_string();
                    for k in 0..40 {
                        if a != b {
                            res = format!("differs after {} edges", k);
                            break;
                        }
                        a.raw_mut().trigger_clock_edge();
                        b.raw_mut().trigger_clock_edge();
                    }
                    res
                }
            }
            ["spec.cpuread", a] => match a.parse::<u8>() {
                // "reads never change any state", for a read the CPU performs: on a copy of the machine as the history
                // left it (bus, board, interrupt mask / status / flip-flop), an instruction `LD R0, (a)` is placed at PC
                // and executed from a fresh fetch; RAM, I/O registers, interrupt mask and status and the board must be
                // the same before it and after it (and the NOP that follows)
                Ok(a) => {
                    use emulator_2a_lib::machine::RegisterNumber as RN;
                    let mut c = m.clone();
                    let pc = *c.registers().get(RN::R3);
                    if c.bus().verif_state().timer_enabled || pc >= 0xE0 {
                        // a running timer changes the status register by itself; code must lie in RAM
                        "pure".to_string()
                    } else {
                        let st = c.verif_state();
                        let f = VerifRawState {
                            address: 0,
                            instruction: 2,
                            pending_register_write: None,
                            pending_flag_write: false,
                            pending_wait_for_memory: false,
                            ..st
                        };
                        c.raw_mut().verif_force(&f, State::Running);
                        let fr = *c.registers().get(RN::R4);
                        c.raw_mut().registers_mut().set(RN::R4, fr & 0x07); // no interrupt entry in between
                        for (k, b) in [0xFFu8, a, 0x10, 0x02, 0x02].iter().enumerate() {
                            c.raw_mut().bus_mut().write(pc.wrapping_add(k as u8), *b);
                        }
                        let view = |c: &Machine| {
                            let bus = c.bus();
                            let b = bus.verif_state();
                            let bd = bus.board();
                            format!("ram={} out={}{} in={:?} mask={} status={} uart={}{} bd={}{}{}{}{}{}",
                                fnv(&bus.memory()[..]), hex2(bus.output_fe()), hex2(bus.output_ff()), b.input_reg, hex2(b.micr),
                                hex2(bus.read(0xF9)), hex2(b.ucr), hex2(b.uart_send), hex2(*bd.digital_input1()), hex2(*bd.digital_output1()),
                                hex2(*bd.digital_output2()), hex2(bd.dasr().bits()), hex2(bd.daisr().bits()), hex2(bd.daicr().bits()))
                        };
                        let to_boundary = |c: &mut Machine| {
                            let mut g = 0;
                            let mut left = false;
                            loop {
                                c.raw_mut().trigger_clock_edge();
                                if c.state() != State::Running {
                                    let st = c.verif_state();
                                    c.raw_mut().verif_force(&st, State::Running);
                                }
                                g += 1;
                                if !c.is_instruction_done() {
                                    left = true;
                                }
                                if (left && c.is_instruction_done() && !c.verif_state().pending_wait_for_memory) || g > 200 {
                                    break;
                                }
                            }
                        };
                        let before = view(&c); // nothing has been executed since the instruction was placed
                        to_boundary(&mut c);
                        to_boundary(&mut c); // the LD and at most the NOP behind it
                        let after = view(&c);
                        if before == after { "pure".to_string() } else { format!("changed {} -> {}", before, after) }
                    }
                }
                _ => bad(),
            },
            ["spec.busd"] => {
                let bus = m.bus();
                let b = bus.verif_state();
                format!(
                    "ram={} out={}{} in={}{}{}{} mask={} status={} do={}{} di={}",
                    fnv(&bus.memory()[..]),
                    hex2(bus.output_fe()), hex2(bus.output_ff()),
                    hex2(b.input_reg[0]), hex2(b.input_reg[1]), hex2(b.input_reg[2]), hex2(b.input_reg[3]),
                    hex2(b.micr),
                    hex2(bus.read(0xF9)),
                    hex2(*bus.board().digital_output1()), hex2(*bus.board().digital_output2()),
                    hex2(*bus.board().digital_input1())
                )
            }
            // observation-carrying spec lines: the implementation's answer is part of a replay file
            // only through the ops that precede it; when replayed they are re-observed by the generator
            ["d"] => dump(m),
            ["ram"] => m.bus().memory().iter().map(|b| hex2(*b)).collect(),
            ["done"] => b01(m.is_instruction_done()).to_string(),
            _ => bad(),
        }
    }
}
