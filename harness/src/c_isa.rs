//! C01: every defined instruction from arbitrary architectural states, compared with the ISA specification,
//! plus random instruction sequences.  C04: interrupts at every cycle.
use crate::c_flow::defined_second;
use crate::gen::*;
use crate::out::Out;
use crate::rng::Rng;
use crate::sess::{hexs, Sess};

/// Bytes of one instruction with first byte `op` (and second byte `b2` for prefixes), operands random.
pub fn instr_bytes(rng: &mut Rng, op: u8, b2: Option<u8>, addr_bias_io: bool) -> Vec<u8> {
    let mut v = vec![op];
    let addr = |rng: &mut Rng| if addr_bias_io && rng.chance(1, 3) { 0xF0 + rng.byte() % 16 } else { rng.byte() };
    if op >= 0xF0 {
        if (op & 0x0F) == 0x0B || (op & 0x0F) == 0x0F {
            v.push(addr(rng));
        }
        let b = b2.unwrap_or(0x10);
        v.push(b);
        if (b & 0x0F) == 0x0B || (b & 0x0F) == 0x0F {
            v.push(addr(rng));
        }
    } else if (0x20..=0x2B).contains(&op) {
        v.push(rng.byte());
    } else if (0x50..=0x5F).contains(&op) && ((op & 0x0F) == 0x0B || (op & 0x0F) == 0x0F) {
        v.push(addr(rng));
    }
    v
}

fn setup(out: &mut Out, s: &mut Sess, rng: &mut Rng, regs: [u8; 6], code_at: u8, code: &[u8]) {
    run_line(out, s, "new");
    // a RAM full of random data, the instruction placed at `code_at`
    let mut img: Vec<u8> = (0..240).map(|_| rng.byte()).collect();
    for (i, b) in code.iter().enumerate() {
        let a = code_at as usize + i;
        if a < 240 {
            img[a] = *b;
        }
    }
    run_line(out, s, &format!("load 0 255 {}", hexs(&img)));
    for i in 0..4 {
        run_line(out, s, &format!("in {} {}", i, rng.byte()));
    }
    run_line(out, s, &format!("di1 {}", rng.byte()));
    let full = [regs[0], regs[1], regs[2], regs[3], regs[4], regs[5], rng.byte(), rng.byte()];
    run_line(out, s, &format!("force 0 2 {} - 0 0 0 0 0 0 0 R 0", hexs(&full)));
    run_line(out, s, "toboundary");
}

fn one(out: &mut Out, rng: &mut Rng, op: u8, b2: Option<u8>, regs: [u8; 6], io: bool) {
    let mut s = Sess::new();
    let code = instr_bytes(rng, op, b2, io);
    let at = regs[3];
    setup(out, &mut s, rng, regs, at, &code);
    run_line(out, &mut s, "spec.isa");
    run_line(out, &mut s, "stepinstr");
    run_line(out, &mut s, "d");
    out.distinct_case(&format!("{} {:?} {:?} {:?}", op, b2, regs, code));
    out.count(&format!("page{:x}", op >> 4));
}

fn rand_regs(rng: &mut Rng, io: bool) -> [u8; 6] {
    let a = |rng: &mut Rng| if io && rng.chance(1, 3) { 0xF0 + rng.byte() % 16 } else { rng.byte() };
    // PC somewhere in RAM with room for the instruction
    [a(rng), a(rng), a(rng), rng.byte() % 0xE8, rng.byte(), a(rng)]
}

pub fn run_c01(out: &mut Out, seed: u64, thorough: bool) {
    let mut rng = Rng::new(seed);
    // 1. every defined opcode x random architectural states (addresses partly biased into 0xF0-0xFF)
    let per = if thorough { 64 } else { 8 };
    for op in 0..=255u8 {
        if !defined_first(op) {
            continue;
        }
        for k in 0..per {
            let io = k % 2 == 1;
            if op >= 0xF0 {
                for b in 0..=255u8 {
                    if defined_second(b) && (thorough || (b as u32 + op as u32 + k as u32) % 5 == 0) {
                        let r = rand_regs(&mut rng, io);
                        one(out, &mut rng, op, Some(b), r, io);
                    }
                }
            } else {
                let r = rand_regs(&mut rng, io);
                one(out, &mut rng, op, None, r, io);
            }
        }
    }
    // 2. register-register ALU group incl. MUL/DIV: operand value pairs x carry-in x register pairs
    //    quick: 4096 random pairs per page; thorough: all 65 536 pairs x carry for register pair (R0,R1)
    //    and 4096 random pairs for each of the 16 register pairs
    for page in 6..=13u8 {
        if thorough {
            for a in 0..=255u8 {
                for b in 0..=255u8 {
                    for c in 0..2u8 {
                        let regs = [a, b, rng.byte(), 0x10, (rng.byte() & 0xFE) | c, 0x80];
                        one(out, &mut rng, (page << 4) | 0x04, None, regs, false);
                    }
                }
            }
        }
        // boundary operand pairs for every register pair and both carry-ins: sums of 0xFF / 0x100,
        // equal operands, extremes
        for pair in 0..16u8 {
            for k in 0..24u32 {
                let x = match k % 12 { 0 => 0u8, 1 => 1, 2 => 0x7F, 3 => 0x80, 4 => 0xFE, 5 => 0xFF, 6 => 0x55, 7 => 0x0F, _ => rng.byte() };
                let y = match k / 12 { 0 => 0xFFu8.wrapping_sub(x), _ => 0u8.wrapping_sub(x) };
                for c in 0..2u8 {
                    let (rd, rs) = ((pair & 3) as usize, ((pair >> 2) & 3) as usize);
                    let mut regs = rand_regs(&mut rng, false);
                    regs[4] = (regs[4] & 0xFE) | c;
                    if rd < 3 {
                        regs[rd] = x;
                    }
                    if rs < 3 && rs != rd {
                        regs[rs] = y;
                    }
                    one(out, &mut rng, (page << 4) | pair, None, regs, false);
                }
            }
        }
        let n = if thorough { 4096 } else { 512 };
        for pair in 0..16u8 {
            for _ in 0..(n / 16) {
                let mut regs = rand_regs(&mut rng, false);
                if rng.chance(1, 4) {
                    regs[(pair & 3) as usize % 3] = *rng.pick(&[0u8, 1, 2, 0x7F, 0x80, 0xFF, 16]);
                }
                one(out, &mut rng, (page << 4) | pair, None, regs, false);
            }
        }
    }
    // 3. unary ops: all 256 values x 16 flag states (thorough), a sample otherwise
    for op in [0x30u8, 0x34, 0x38, 0x3C, 0x40, 0x44, 0x48, 0x50].iter() {
        for v in 0..=255u32 {
            for f in 0..16u8 {
                if thorough || (v + f as u32) % 16 == (seed % 16) as u32 {
                    let regs = [v as u8, rng.byte(), rng.byte(), 0x20, f | (rng.byte() & 0xF0), 0x90];
                    one(out, &mut rng, *op, None, regs, false);
                }
            }
        }
    }
    // 4. instruction sequences: state left by earlier instructions is carried into later ones
    let seqs = if thorough { 300 } else { 30 };
    for q in 0..seqs {
        let mut s = Sess::new();
        run_line(out, &mut s, "new");
        let img = image(&mut rng, 240);
        let l = format!("load 0 255 {}", hexs(&img));
        if q < 2 {
            out.sample(l.clone());
        }
        run_line(out, &mut s, &l);
        for i in 0..4 {
            run_line(out, &mut s, &format!("in {} {}", i, rng.byte()));
        }
        let full = [rng.byte(), rng.byte(), rng.byte(), 0, rng.byte(), 0x80 + rng.byte() % 0x60, rng.byte(), rng.byte()];
        run_line(out, &mut s, &format!("force 0 2 {} - 0 0 0 0 0 0 0 R 0", hexs(&full)));
        run_line(out, &mut s, "toboundary");
        for _ in 0..200 {
            let r = run_line(out, &mut s, "spec.isa");
            if r == "undefined" || r == "hang" {
                break;
            }
            let b = run_line(out, &mut s, "stepinstr");
            if b != "boundary" {
                break;
            }
            run_line(out, &mut s, "d");
            out.count("seq-instr");
        }
    }
}

// ---------------------------------------------------------------------------------------------
// C04: key interrupt at every clock cycle of generated programs.

const CNT: u8 = 0x90;

/// Main program + register-preserving ISR that bumps RAM[CNT]. Returns (image, address of the final spin loop).
pub fn c04_program(rng: &mut Rng, with_di: bool) -> (Vec<u8>, u8) {
    // ISR at 2; in a third of the programs it is "one-shot": it clears the key-edge enable bit with a
    // read-modify-write of 0xF9 (the byte read there is the interrupt STATUS, with its pending bits set)
    let oneshot = rng.chance(1, 3);
    let mut p: Vec<u8> = vec![0x20, if oneshot { 0x0E } else { 0x0A }]; // JR MAIN
    p.extend(&[0x10, 0xFF, CNT, 0x10, 0x44, 0xF0, 0x1F, CNT, 0x14]);
    if oneshot {
        p.extend(&[0xFB, 0x01, 0x6F, 0xF9]); // BITC (0xF9), 1
    }
    p.push(0x2C); // RETI
    assert_eq!(p.len(), if oneshot { 0x10 } else { 0x0C });
    // MAIN
    p.extend(&[0xFB, 0xE8, 0x40]); // LDSP 0xE8
    let enable_at = rng.below(3);
    let mut body: Vec<Vec<u8>> = vec![];
    let n = 6 + rng.below(10);
    for _ in 0..n {
        let r = rng.byte() % 3;
        let r2 = rng.byte() % 3;
        let ins: Vec<u8> = match rng.below(15) {
            0 => vec![0xFB, rng.byte(), 0x10 + r],                   // LD r, const
            1 => vec![0x60 + (r2 << 2) + r],                         // ADD
            2 => vec![0x80 + (r2 << 2) + r],                         // SUB
            3 => vec![0xB0 + (r2 << 2) + r],                         // MUL
            4 => vec![0xC0 + (r2 << 2) + r],                         // DIV
            5 => vec![0x10 + r, 0x14 + r2],                          // PUSH r ; POP r2
            6 => vec![0xF0 + r, 0x1F, 0x80 + rng.byte() % 0x10],     // ST (ram), r   (data area behind the code)
            7 => vec![0xFF, 0x80 + rng.byte() % 0x10, 0x10 + r],     // LD r, (ram)
            8 => vec![0xF0 + r, 0x1F, 0xFE + rng.byte() % 2],        // ST (FE/FF), r
            9 => vec![0x44 + r],                                     // INC
            10 => vec![0x18, 0x1C],                                  // PUSHF ; POPF
            11 if with_di => vec![0x0C, 0x44 + r, 0x08],             // DI ; INC ; EI
            12 => vec![0xF0 + r, 0x20 + r2],                         // CMP r2, r
            13 if with_di => vec![0xFB, 0x01, 0x6F, 0xF9, 0x44 + r, 0xFB, 0x01, 0x5F, 0xF9], // BITC (0xF9),1 ; INC ; BITS (0xF9),1
            _ => vec![0x30 + r],                                     // COM
        };
        body.push(ins);
    }
    // one instruction of every register-register / unary page, so that the end word and the `int:`
    // word of every page are visited with a request pending
    let mut tour: Vec<Vec<u8>> = vec![];
    for page in [0x6u8, 0x7, 0x8, 0x9, 0xA, 0xB, 0xC, 0xD] {
        tour.push(vec![(page << 4) + ((rng.byte() % 3) << 2) + rng.byte() % 3]);
    }
    for op in [0x30u8, 0x34, 0x38, 0x3C, 0x40, 0x44, 0x48, 0x50, 0x04] {
        tour.push(vec![op + rng.byte() % 3]);
    }
    tour.push(vec![0x02]); // NOP: page 0 has its own `int:` word
    tour.push(vec![0x21 + rng.byte() % 7, 0x00]); // a conditional relative jump to the next instruction
    while !tour.is_empty() {
        let i = rng.below(tour.len() as u64) as usize;
        let at = 1 + rng.below(body.len() as u64) as usize;
        let ins = tour.swap_remove(i);
        body.insert(at.min(body.len()), ins);
    }
    for (i, ins) in body.iter().enumerate() {
        if i as u64 == enable_at {
            p.extend(&[0xFB, 0x01, 0x5F, 0xF9]); // BITS (0xF9), 1  -> MICR key enable
            p.push(0x08); // EI
        }
        p.extend(ins);
    }
    // a subroutine call: CALL SUB ; spin ; SUB: INC R1 ; RET
    let call_at = p.len();
    p.extend(&[0x28, 0x00]);
    let spin = p.len() as u8;
    p.extend(&[0x20, 0xFE]);
    let sub = p.len() as u8;
    p.extend(&[0x45, 0x17]);
    p[call_at + 1] = sub;
    (p, spin)
}

fn arch_view(s: &Sess) -> String {
    use emulator_2a_lib::machine::RegisterNumber as RN;
    let r = s.m.registers();
    let mem = s.m.bus().memory();
    let mut ram: Vec<u8> = mem[..0xA0].to_vec();
    ram[CNT as usize] = 0;
    format!(
        "{:?} fr={} sp={} pc={} out={},{} ram={}",
        (r.get(RN::R0), r.get(RN::R1), r.get(RN::R2)), r.get(RN::R4), r.get(RN::R5), r.get(RN::R3),
        s.m.bus().output_fe(), s.m.bus().output_ff(), crate::sess::fnv(&ram)
    )
}

/// Run until the machine sits at a boundary with PC == spin and no interrupt in flight; cap on edges.
fn settle(s: &mut Sess, spin: u8) {
    use emulator_2a_lib::machine::RegisterNumber as RN;
    for _ in 0..40000 {
        let st = s.m.verif_state();
        if s.m.is_instruction_done() && *s.m.registers().get(RN::R3) == spin && !st.pending_edge_interrupt {
            return;
        }
        s.m.raw_mut().trigger_clock_edge();
    }
}

fn is_end_word(s: &Sess) -> bool {
    let sg = s.m.signals();
    !sg.mac3() && !sg.mac2() && sg.mac1() && sg.mac0() && sg.na0()
}

/// IEF as it will be when the first end word after now is left (observed on a copy).
fn ie_at_next_sample(s: &Sess) -> bool {
    use emulator_2a_lib::machine::RegisterNumber as RN;
    let mut probe = Sess { m: s.m.clone(), last_edge: None, last_panicked: false };
    for _ in 0..3000 {
        let st = probe.m.verif_state();
        if is_end_word(&probe) && !st.pending_wait_for_memory && probe.m.state() == emulator_2a_lib::machine::State::Running {
            let fr = if st.pending_register_write == Some(4) { st.alu_output.0 } else { *probe.m.registers().get(RN::R4) };
            return fr & 0x08 != 0;
        }
        probe.m.raw_mut().trigger_clock_edge();
    }
    false
}

/// Two key presses: after `t1` edges and `d` edges later; the expected number of routine entries follows from the
/// enable bit at each press and IEF at the sampling point that looks at it (a press while the flip-flop is still set
/// merges with the earlier one; a press while the enable bit is clear changes nothing).
fn two_presses(out: &mut Out, load: &str, reference: &str, spin: u8, t1: usize, d: usize) {
    let mut s = Sess::new();
    run_line(out, &mut s, "new");
    run_line(out, &mut s, load);
    run_line(out, &mut s, &format!("edges {}", t1));
    let micr1 = s.m.bus().is_key_edge_int_enabled();
    let ie1 = ie_at_next_sample(&s);
    run_line(out, &mut s, "irq");
    run_line(out, &mut s, &format!("edges {}", d));
    let merged = s.m.verif_state().pending_edge_interrupt;
    let micr2 = s.m.bus().is_key_edge_int_enabled();
    let ie2 = ie_at_next_sample(&s);
    run_line(out, &mut s, "irq");
    run_line(out, &mut s, "spec.micr");
    run_line(out, &mut s, "d");
    run_line(out, &mut s, "edges 300");
    run_line(out, &mut s, "d");
    settle(&mut s, spin);
    let count = s.m.bus().memory()[CNT as usize];
    let transparent = arch_view(&s) == reference;
    if merged {
        // one request is pending (from the first press); it is looked at once, at the next sampling point
        out.emit(&format!("spec.c04 1 {}", ie2 as u8), &format!("count={} transparent={}", count, transparent as u8));
    } else {
        out.emit(
            &format!("spec.c04two {} {} {} {}", micr1 as u8, ie1 as u8, micr2 as u8, ie2 as u8),
            &format!("count={} transparent={}", count, transparent as u8),
        );
    }
}

pub fn run_c04(out: &mut Out, seed: u64, thorough: bool) {
    use emulator_2a_lib::machine::RegisterNumber as RN;
    let mut rng = Rng::new(seed);
    let programs = if thorough { 200 } else { 8 };
    for pi in 0..programs {
        let (prog, spin) = c04_program(&mut rng, pi % 2 == 1);
        let load = format!("load 16 255 {}", hexs(&prog));
        if pi < 2 {
            out.sample(load.clone());
        }
        // uninterrupted reference run
        let mut base = Sess::new();
        base.apply("new");
        base.apply(&load);
        let mut t_total = 0;
        let mut arrived = false;
        // clock cycles after which the key-edge enable bit has just changed (mask writes of the program)
        let mut mask_flips: Vec<usize> = vec![];
        let mut last_mask = base.m.bus().is_key_edge_int_enabled();
        for _ in 0..20000 {
            if base.m.is_instruction_done() && *base.m.registers().get(RN::R3) == spin {
                arrived = true;
                break;
            }
            base.m.raw_mut().trigger_clock_edge();
            t_total += 1;
            let now = base.m.bus().is_key_edge_int_enabled();
            if now != last_mask {
                mask_flips.push(t_total);
                last_mask = now;
            }
        }
        if !arrived {
            out.count("program-skipped-too-long");
            continue;
        }
        let reference = arch_view(&base);
        // every clock cycle as trigger point
        let stride = 1;
        let mut t = 0;
        while t <= t_total + 6 {
            let mut s = Sess::new();
            run_line(out, &mut s, "new");
            run_line(out, &mut s, &load);
            run_line(out, &mut s, &format!("edges {}", t));
            let micr = s.m.bus().is_key_edge_int_enabled();
            run_line(out, &mut s, "irq");
            run_line(out, &mut s, "spec.micr");
            run_line(out, &mut s, "d");
            // first sampling point after the trigger: IEF as it will be when the end word is left
            let mut ie_at_sample = false;
            let mut k = 0;
            {
                let mut probe = Sess { m: s.m.clone(), last_edge: None, last_panicked: false };
                while k < 3000 {
                    let st = probe.m.verif_state();
                    if is_end_word(&probe) && !st.pending_wait_for_memory && probe.m.state() == emulator_2a_lib::machine::State::Running {
                        let fr = if st.pending_register_write == Some(4) { st.alu_output.0 } else { *probe.m.registers().get(RN::R4) };
                        ie_at_sample = fr & 0x08 != 0;
                        break;
                    }
                    probe.m.raw_mut().trigger_clock_edge();
                    k += 1;
                }
            }
            run_line(out, &mut s, &format!("edges {}", k));
            run_line(out, &mut s, "edges 120");
            run_line(out, &mut s, "d");
            settle(&mut s, spin);
            let count = s.m.bus().memory()[CNT as usize];
            let transparent = arch_view(&s) == reference;
            if !transparent && std::env::var("VERIF_DEBUG").is_ok() {
                eprintln!("t={} k={} count={}\n  got {}\n  ref {}", t, k, count, arch_view(&s), reference);
            }
            out.emit(
                &format!("spec.c04 {} {}", micr as u8, ie_at_sample as u8),
                &format!("count={} transparent={}", count, transparent as u8),
            );
            out.distinct_case(&format!("{} {}", pi, t));
            out.count(if micr && ie_at_sample { "taken" } else if micr { "dropped" } else { "disabled" });
            t += stride;
        }
        // two key presses: the first at any cycle (also while the request will be dropped), the second
        // 250 edges later (after the first one has been taken and served, or dropped)
        let step = if thorough { 1 } else { 3 };
        let mut t1 = (seed % 3) as usize;
        while t1 <= t_total {
            let mut s = Sess::new();
            run_line(out, &mut s, "new");
            run_line(out, &mut s, &load);
            run_line(out, &mut s, &format!("edges {}", t1));
            let micr1 = s.m.bus().is_key_edge_int_enabled();
            let ie1 = ie_at_next_sample(&s);
            run_line(out, &mut s, "irq");
            run_line(out, &mut s, "spec.micr");
            // the second press comes after the first request has been looked at (taken or dropped) and
            // its routine has run: a press while the flip-flop is still set would merge with it
            let mut wait = 0;
            {
                let mut probe = Sess { m: s.m.clone(), last_edge: None, last_panicked: false };
                while probe.m.verif_state().pending_edge_interrupt && wait < 20000 {
                    probe.m.raw_mut().trigger_clock_edge();
                    wait += 1;
                }
            }
            run_line(out, &mut s, &format!("edges {}", wait + 250));
            run_line(out, &mut s, "d");
            let micr2 = s.m.bus().is_key_edge_int_enabled();
            let ie2 = ie_at_next_sample(&s);
            run_line(out, &mut s, "irq");
            run_line(out, &mut s, "spec.micr");
            run_line(out, &mut s, "d");
            run_line(out, &mut s, "edges 250");
            run_line(out, &mut s, "d");
            settle(&mut s, spin);
            let count = s.m.bus().memory()[CNT as usize];
            let transparent = arch_view(&s) == reference;
            out.emit(
                &format!("spec.c04two {} {} {} {}", micr1 as u8, ie1 as u8, micr2 as u8, ie2 as u8),
                &format!("count={} transparent={}", count, transparent as u8),
            );
            out.count("two-presses");
            t1 += step;
        }
        // a second press WHILE the routine of the first one runs: at every cycle from the entry to well after
        // RETI (dropped at the routine's next end word while IEF is clear; kept over RETI itself, which does
        // not sample, and then taken after the first instruction of the resumed program)
        {
            let firsts: Vec<usize> = [t_total / 3, t_total / 2, (2 * t_total) / 3].iter().cloned().collect();
            for (fi, t1) in firsts.iter().enumerate() {
                if !thorough && fi > 0 && pi % 2 == 0 {
                    continue;
                }
                for d in 0..(if thorough { 140 } else { 100 }) {
                    two_presses(out, &load, &reference, spin, *t1, d);
                    out.count("press-during-routine");
                }
            }
        }
        // two presses around every point where the program changes the enable mask (a press while the bit is
        // clear must not disturb a request accepted just before, nor be remembered for later)
        for f in mask_flips.iter().take(if thorough { 8 } else { 3 }) {
            let lo = f.saturating_sub(10);
            for a in lo..(f + 2) {
                for d in 1..(if thorough { 16 } else { 9 }) {
                    two_presses(out, &load, &reference, spin, a, d);
                    out.count("presses-around-mask-change");
                }
            }
        }
        // two triggers at pairs of cycles in a short window: at most two entries, still transparent
        let window = if thorough { 40 } else { 12 };
        let start = t_total / 2;
        for a in 0..window {
            for b in (a + 1)..window {
                let mut s = Sess::new();
                s.apply("new");
                s.apply(&load);
                for _ in 0..(start + a) {
                    s.m.raw_mut().trigger_clock_edge();
                }
                s.m.trigger_key_interrupt();
                for _ in 0..(b - a) {
                    s.m.raw_mut().trigger_clock_edge();
                }
                s.m.trigger_key_interrupt();
                for _ in 0..400 {
                    s.m.raw_mut().trigger_clock_edge();
                }
                settle(&mut s, spin);
                let count = s.m.bus().memory()[CNT as usize];
                let transparent = arch_view(&s) == reference;
                out.emit("spec.c04pair", &format!("count_le_2={} transparent={}", (count <= 2) as u8, transparent as u8));
                out.count("pair");
            }
        }
    }
    // a key press while the program waits in STOP: with the enable bit and IEF set the routine is entered
    // exactly once after CONTINUE, and the program ends as without the press (the press is a trigger like
    // any other; the machine not running does not make it disappear)
    use emulator_2a_lib::machine::State;
    let stops = if thorough { 60 } else { 12 };
    for si in 0..stops {
        // JR MAIN ; ISR (counter at CNT) ; MAIN: LDSP 0xE8 ; [enable] ; INC R0 ; STOP ; INC R1 ; ADD R0,R1 ; spin
        let mut p: Vec<u8> = vec![0x20, 0x0A];
        p.extend(&[0x10, 0xFF, CNT, 0x10, 0x44, 0xF0, 0x1F, CNT, 0x14, 0x2C]);
        p.extend(&[0xFB, 0xE8, 0x40]);
        let enable = si % 4 != 3;
        let ei = si % 3 != 2;
        if enable {
            p.extend(&[0xFB, 0x01, 0x5F, 0xF9]);
        }
        if ei {
            p.push(0x08);
        }
        p.extend(&[0x44, 0x01, 0x45, 0x64]);
        let spin = p.len() as u8;
        p.extend(&[0x20, 0xFE]);
        let load = format!("load 16 255 {}", hexs(&p));
        // reference: no key press
        let mut r = Sess::new();
        r.apply("new");
        r.apply(&load);
        let mut guard = 0;
        while r.m.state() == State::Running && guard < 2000 {
            r.m.raw_mut().trigger_clock_edge();
            guard += 1;
        }
        r.m.trigger_key_continue();
        settle(&mut r, spin);
        let reference = arch_view(&r);
        for extra in [0u32, 1, 5] {
            let mut s = Sess::new();
            run_line(out, &mut s, "new");
            run_line(out, &mut s, &load);
            let mut guard = 0;
            while s.m.state() == State::Running && guard < 2000 {
                run_line(out, &mut s, "edge");
                guard += 1;
            }
            run_line(out, &mut s, &format!("edges {}", extra));
            let micr = s.m.bus().is_key_edge_int_enabled();
            let ie = *s.m.registers().get(RN::R4) & 0x08 != 0;
            run_line(out, &mut s, "irq");
            run_line(out, &mut s, "d");
            run_line(out, &mut s, "cont");
            run_line(out, &mut s, "edges 200");
            run_line(out, &mut s, "d");
            settle(&mut s, spin);
            let count = s.m.bus().memory()[CNT as usize];
            let transparent = arch_view(&s) == reference;
            out.emit(
                &format!("spec.c04 {} {}", micr as u8, ie as u8),
                &format!("count={} transparent={}", count, transparent as u8),
            );
            out.count("pressed-while-stopped");
        }
    }
}
