//! C01: every defined instruction from arbitrary architectural states, compared with the ISA specification,
//! plus random instruction sequences.  C04: interrupts at every cycle.
use crate::c_flow::defined_second;
use crate::gen::*;
use crate::out::Out;
use crate::rng::Rng;
use crate::sess::{hexs, Sess};

/// Bytes of one instruction with first byte `op` (and second byte `b2` for prefixes), operands random.
pub fn instr_bytes(rng: &mut Rng, op: u8, b2: Option<u8>, addr_bias_io: bool) -> Vec<u8> {
    let mut v = vec![op];
    let addr = |rng: &mut Rng| if addr_bias_io && rng.chance(1, 3) { 0xF0 + rng.byte() % 16 } else { rng.byte() };
    if op >= 0xF0 {
        if (op & 0x0F) == 0x0B || (op & 0x0F) == 0x0F {
            v.push(addr(rng));
        }
        let b = b2.unwrap_or(0x10);
        v.push(b);
        if (b & 0x0F) == 0x0B || (b & 0x0F) == 0x0F {
            v.push(addr(rng));
        }
    } else if (0x20..=0x2B).contains(&op) {
        v.push(rng.byte());
    } else if (0x50..=0x5F).contains(&op) && ((op & 0x0F) == 0x0B || (op & 0x0F) == 0x0F) {
        v.push(addr(rng));
    }
    v
}

fn setup(out: &mut Out, s: &mut Sess, rng: &mut Rng, regs: [u8; 6], code_at: u8, code: &[u8]) {
    run_line(out, s, "new");
    // a RAM full of random data, the instruction placed at `code_at`
    let mut img: Vec<u8> = (0..240).map(|_| rng.byte()).collect();
    for (i, b) in code.iter().enumerate() {
        let a = code_at as usize + i;
        if a < 240 {
            img[a] = *b;
        }
    }
    run_line(out, s, &format!("load 0 255 {}", hexs(&img)));
    for i in 0..4 {
        run_line(out, s, &format!("in {} {}", i, rng.byte()));
    }
    run_line(out, s, &format!("di1 {}", rng.byte()));
    let full = [regs[0], regs[1], regs[2], regs[3], regs[4], regs[5], rng.byte(), rng.byte()];
    run_line(out, s, &format!("force 0 2 {} - 0 0 0 0 0 0 0 R 0", hexs(&full)));
    run_line(out, s, "toboundary");
}

fn one(out: &mut Out, rng: &mut Rng, op: u8, b2: Option<u8>, regs: [u8; 6], io: bool) {
    let mut s = Sess::new();
    let code = instr_bytes(rng, op, b2, io);
    let at = regs[3];
    setup(out, &mut s, rng, regs, at, &code);
    run_line(out, &mut s, "spec.isa");
    run_line(out, &mut s, "stepinstr");
    run_line(out, &mut s, "d");
    out.distinct_case(&format!("{} {:?} {:?} {:?}", op, b2, regs, code));
    out.count(&format!("page{:x}", op >> 4));
}

fn rand_regs(rng: &mut Rng, io: bool) -> [u8; 6] {
    let a = |rng: &mut Rng| if io && rng.chance(1, 3) { 0xF0 + rng.byte() % 16 } else { rng.byte() };
    // PC somewhere in RAM with room for the instruction
    [a(rng), a(rng), a(rng), rng.byte() % 0xE8, rng.byte(), a(rng)]
}

pub fn run_c01(out: &mut Out, seed: u64, thorough: bool) {
    let mut rng = Rng::new(seed);
    // 1. every defined opcode x random architectural states (addresses partly biased into 0xF0-0xFF)
    let per = if thorough { 64 } else { 8 };
    for op in 0..=255u8 {
        if !defined_first(op) {
            continue;
        }
        for k in 0..per {
            let io = k % 2 == 1;
            if op >= 0xF0 {
                for b in 0..=255u8 {
                    if defined_second(b) && (thorough || (b as u32 + op as u32 + k as u32) % 5 == 0) {
                        let r = rand_regs(&mut rng, io);
                        one(out, &mut rng, op, Some(b), r, io);
                    }
                }
            } else {
                let r = rand_regs(&mut rng, io);
                one(out, &mut rng, op, None, r, io);
            }
        }
    }
    // 2. register-register ALU group incl. MUL/DIV: operand value pairs x carry-in x register pairs
    //    quick: 4096 random pairs per page; thorough: all 65 536 pairs x carry for register pair (R0,R1)
    //    and 4096 random pairs for each of the 16 register pairs
    for page in 6..=13u8 {
        if thorough {
            for a in 0..=255u8 {
                for b in 0..=255u8 {
                    for c in 0..2u8 {
                        let regs = [a, b, rng.byte(), 0x10, (rng.byte() & 0xFE) | c, 0x80];
                        one(out, &mut rng, (page << 4) | 0x04, None, regs, false);
                    }
                }
            }
        }
        let n = if thorough { 4096 } else { 512 };
        for pair in 0..16u8 {
            for _ in 0..(n / 16) {
                let mut regs = rand_regs(&mut rng, false);
                if rng.chance(1, 4) {
                    regs[(pair & 3) as usize % 3] = *rng.pick(&[0u8, 1, 2, 0x7F, 0x80, 0xFF, 16]);
                }
                one(out, &mut rng, (page << 4) | pair, None, regs, false);
            }
        }
    }
    // 3. unary ops: all 256 values x 16 flag states (thorough), a sample otherwise
    for op in [0x30u8, 0x34, 0x38, 0x3C, 0x40, 0x44, 0x48, 0x50].iter() {
        for v in 0..=255u32 {
            for f in 0..16u8 {
                if thorough || (v + f as u32) % 16 == (seed % 16) as u32 {
                    let regs = [v as u8, rng.byte(), rng.byte(), 0x20, f | (rng.byte() & 0xF0), 0x90];
                    one(out, &mut rng, *op, None, regs, false);
                }
            }
        }
    }
    // 4. instruction sequences: state left by earlier instructions is carried into later ones
    let seqs = if thorough { 300 } else { 30 };
    for q in 0..seqs {
        let mut s = Sess::new();
        run_line(out, &mut s, "new");
        let img = image(&mut rng, 240);
        let l = format!("load 0 255 {}", hexs(&img));
        if q < 2 {
            out.sample(l.clone());
        }
        run_line(out, &mut s, &l);
        for i in 0..4 {
            run_line(out, &mut s, &format!("in {} {}", i, rng.byte()));
        }
        let full = [rng.byte(), rng.byte(), rng.byte(), 0, rng.byte(), 0x80 + rng.byte() % 0x60, rng.byte(), rng.byte()];
        run_line(out, &mut s, &format!("force 0 2 {} - 0 0 0 0 0 0 0 R 0", hexs(&full)));
        run_line(out, &mut s, "toboundary");
        for _ in 0..200 {
            let r = run_line(out, &mut s, "spec.isa");
            if r == "undefined" || r == "hang" {
                break;
            }
            let b = run_line(out, &mut s, "stepinstr");
            if b != "boundary" {
                break;
            }
            run_line(out, &mut s, "d");
            out.count("seq-instr");
        }
    }
}
