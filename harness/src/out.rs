//! Output of a harness run: the op lines, the implementation's result lines, and statistics.
use std::collections::BTreeMap;
use std::fs::File;
use std::io::{BufWriter, Write};
use std::sync::{Arc, Mutex, OnceLock};
use std::time::Instant;

/// The two output streams; shared with the watchdog thread so that it can complete and flush them
/// when a call into the implementation does not return.
pub struct Streams {
    ops: BufWriter<File>,
    imp: BufWriter<File>,
    n: u64,
    dir: String,
}

static STREAMS: OnceLock<Arc<Mutex<Streams>>> = OnceLock::new();
/// The op being executed on the real implementation right now, and since when.
static CURRENT: Mutex<Option<(String, Instant)>> = Mutex::new(None);

/// Mark the start of a call into the implementation (`None` = returned).
pub fn current_op(op: Option<&str>) {
    if let Ok(mut c) = CURRENT.lock() {
        *c = op.map(|o| (o.to_string(), Instant::now()));
    }
}

/// Watchdog: when one op has been running for longer than the limit (VERIF_HANG_SECS, default 20),
/// record it with the answer `hang: ...`, flush what was written so far, write the statistics file
/// and end the process (the hung thread cannot be stopped otherwise).
pub fn start_watchdog() {
    let limit: u64 = std::env::var("VERIF_HANG_SECS").ok().and_then(|s| s.parse().ok()).unwrap_or(20);
    std::thread::spawn(move || loop {
        std::thread::sleep(std::time::Duration::from_millis(250));
        let hung = match CURRENT.lock() {
            Ok(c) => c.as_ref().filter(|(_, t)| t.elapsed().as_secs() >= limit).map(|(o, _)| o.clone()),
            Err(_) => None,
        };
        if let Some(op) = hung {
            if let Some(st) = STREAMS.get() {
                let mut st = match st.lock() {
                    Ok(g) => g,
                    Err(p) => p.into_inner(),
                };
                let _ = writeln!(st.ops, "{}", op);
                let _ = writeln!(st.imp, "hang: the call did not return within {} s", limit);
                st.n += 1;
                let _ = st.ops.flush();
                let _ = st.imp.flush();
                let esc: String = op.chars().filter(|c| *c != '"' && *c != '\\' && (*c as u32) >= 0x20).collect();
                let _ = std::fs::write(
                    format!("{}/stats.json", st.dir),
                    format!("{{\n  \"lines\": {},\n  \"distinct\": 0,\n  \"hist\": {{}},\n  \"samples\": [],\n  \"notes\": {{\"hang\": \"{}\"}}\n}}\n", st.n, esc),
                );
            }
            std::process::exit(0);
        }
    });
}

pub struct Out {
    st: Arc<Mutex<Streams>>,
    dir: String,
    pub n: u64,
    pub hist: BTreeMap<String, u64>,
    pub samples: Vec<String>,
    pub distinct: std::collections::HashSet<u64>,
    pub notes: BTreeMap<String, String>,
}

impl Out {
    pub fn new(dir: &str) -> Self {
        std::fs::create_dir_all(dir).unwrap();
        let st = Arc::new(Mutex::new(Streams {
            ops: BufWriter::with_capacity(1 << 20, File::create(format!("{}/ops.txt", dir)).unwrap()),
            imp: BufWriter::with_capacity(1 << 20, File::create(format!("{}/impl.txt", dir)).unwrap()),
            n: 0,
            dir: dir.to_string(),
        }));
        let _ = STREAMS.set(st.clone());
        Out {
            st,
            dir: dir.to_string(),
            n: 0,
            hist: BTreeMap::new(),
            samples: vec![],
            distinct: Default::default(),
            notes: BTreeMap::new(),
        }
    }
    pub fn emit(&mut self, op: &str, result: &str) {
        debug_assert!(!op.contains('\n') && !result.contains('\n'));
        let mut st = self.st.lock().unwrap();
        st.ops.write_all(op.as_bytes()).unwrap();
        st.ops.write_all(b"\n").unwrap();
        st.imp.write_all(result.as_bytes()).unwrap();
        st.imp.write_all(b"\n").unwrap();
        st.n += 1;
        self.n += 1;
    }
    pub fn count(&mut self, key: &str) {
        *self.hist.entry(key.to_string()).or_insert(0) += 1;
    }
    pub fn count_n(&mut self, key: &str, n: u64) {
        *self.hist.entry(key.to_string()).or_insert(0) += n;
    }
    pub fn sample(&mut self, s: String) {
        if self.samples.len() < 6 {
            self.samples.push(s);
        }
    }
    pub fn distinct_case(&mut self, s: &str) {
        self.distinct.insert(crate::sess::fnv(s.as_bytes()));
    }
    pub fn finish(self, extra: &[(&str, String)]) {
        current_op(None);
        {
            let mut st = self.st.lock().unwrap();
            st.ops.flush().unwrap();
            st.imp.flush().unwrap();
        }
        let mut f = File::create(format!("{}/stats.json", self.dir)).unwrap();
        let esc = |s: &str| -> String {
            let mut o = String::new();
            for c in s.chars() {
                match c {
                    '\\' => o.push_str("\\\\"),
                    '"' => o.push_str("\\\""),
                    c if (c as u32) < 0x20 || c == '\u{2028}' || c == '\u{7f}' => o.push_str(&format!("\\u{:04x}", c as u32)),
                    c => o.push(c),
                }
            }
            o
        };
        let mut s = String::from("{\n");
        s += &format!("  \"lines\": {},\n", self.n);
        s += &format!("  \"distinct\": {},\n", self.distinct.len());
        s += "  \"hist\": {";
        s += &self.hist.iter().map(|(k, v)| format!("\"{}\": {}", esc(k), v)).collect::<Vec<_>>().join(", ");
        s += "},\n  \"samples\": [";
        s += &self.samples.iter().map(|x| format!("\"{}\"", esc(x))).collect::<Vec<_>>().join(", ");
        s += "],\n  \"notes\": {";
        let mut notes: Vec<String> = self.notes.iter().map(|(k, v)| format!("\"{}\": \"{}\"", esc(k), esc(v))).collect();
        for (k, v) in extra {
            notes.push(format!("\"{}\": \"{}\"", esc(k), esc(v)));
        }
        s += &notes.join(", ");
        s += "}\n}\n";
        f.write_all(s.as_bytes()).unwrap();
    }
}

/// Run a child process with its output redirected to files under `dir`; kill it after `secs` seconds.
/// Returns (exit code, stdout, stderr, timed out).
pub fn run_limited(mut cmd: std::process::Command, dir: &str, secs: u64) -> (Option<i32>, String, String, bool) {
    let _ = std::fs::create_dir_all(dir);
    let tag = std::process::id();
    let po = format!("{}/child-{}.out", dir, tag);
    let pe = format!("{}/child-{}.err", dir, tag);
    let (fo, fe) = match (File::create(&po), File::create(&pe)) {
        (Ok(a), Ok(b)) => (a, b),
        _ => return (None, String::new(), "cannot create output files".into(), false),
    };
    cmd.stdin(std::process::Stdio::null()).stdout(fo).stderr(fe);
    let mut child = match cmd.spawn() {
        Ok(c) => c,
        Err(e) => return (None, String::new(), format!("spawn-failed {}", e), false),
    };
    let t0 = Instant::now();
    let mut timed_out = false;
    let code = loop {
        match child.try_wait() {
            Ok(Some(st)) => break st.code(),
            Ok(None) => {
                if t0.elapsed().as_secs() >= secs {
                    let _ = child.kill();
                    let _ = child.wait();
                    timed_out = true;
                    break None;
                }
                std::thread::sleep(std::time::Duration::from_millis(if t0.elapsed().as_millis() < 50 { 1 } else { 10 }));
            }
            Err(_) => break None,
        }
    };
    let so = String::from_utf8_lossy(&std::fs::read(&po).unwrap_or_default()).to_string();
    let se = String::from_utf8_lossy(&std::fs::read(&pe).unwrap_or_default()).to_string();
    let _ = std::fs::remove_file(&po);
    let _ = std::fs::remove_file(&pe);
    (code, so, se, timed_out)
}
