//! Output of a harness run: the op lines, the implementation's result lines, and statistics.
use std::collections::BTreeMap;
use std::fs::File;
use std::io::{BufWriter, Write};

pub struct Out {
    ops: BufWriter<File>,
    imp: BufWriter<File>,
    dir: String,
    pub n: u64,
    pub hist: BTreeMap<String, u64>,
    pub samples: Vec<String>,
    pub distinct: std::collections::HashSet<u64>,
    pub notes: BTreeMap<String, String>,
}

impl Out {
    pub fn new(dir: &str) -> Self {
        std::fs::create_dir_all(dir).unwrap();
        Out {
            ops: BufWriter::with_capacity(1 << 20, File::create(format!("{}/ops.txt", dir)).unwrap()),
            imp: BufWriter::with_capacity(1 << 20, File::create(format!("{}/impl.txt", dir)).unwrap()),
            dir: dir.to_string(),
            n: 0,
            hist: BTreeMap::new(),
            samples: vec![],
            distinct: Default::default(),
            notes: BTreeMap::new(),
        }
    }
    pub fn emit(&mut self, op: &str, result: &str) {
        debug_assert!(!op.contains('\n') && !result.contains('\n'));
        self.ops.write_all(op.as_bytes()).unwrap();
        self.ops.write_all(b"\n").unwrap();
        self.imp.write_all(result.as_bytes()).unwrap();
        self.imp.write_all(b"\n").unwrap();
        self.n += 1;
    }
    pub fn count(&mut self, key: &str) {
        *self.hist.entry(key.to_string()).or_insert(0) += 1;
    }
    pub fn count_n(&mut self, key: &str, n: u64) {
        *self.hist.entry(key.to_string()).or_insert(0) += n;
    }
    pub fn sample(&mut self, s: String) {
        if self.samples.len() < 6 {
            self.samples.push(s);
        }
    }
    pub fn distinct_case(&mut self, s: &str) {
        self.distinct.insert(crate::sess::fnv(s.as_bytes()));
    }
    pub fn finish(mut self, extra: &[(&str, String)]) {
        self.ops.flush().unwrap();
        self.imp.flush().unwrap();
        let mut f = File::create(format!("{}/stats.json", self.dir)).unwrap();
        let esc = |s: &str| -> String {
            let mut o = String::new();
            for c in s.chars() {
                match c {
                    '\\' => o.push_str("\\\\"),
                    '"' => o.push_str("\\\""),
                    c if (c as u32) < 0x20 || c == '\u{2028}' || c == '\u{7f}' => o.push_str(&format!("\\u{:04x}", c as u32)),
                    c => o.push(c),
                }
            }
            o
        };
        let mut s = String::from("{\n");
        s += &format!("  \"lines\": {},\n", self.n);
        s += &format!("  \"distinct\": {},\n", self.distinct.len());
        s += "  \"hist\": {";
        s += &self.hist.iter().map(|(k, v)| format!("\"{}\": {}", esc(k), v)).collect::<Vec<_>>().join(", ");
        s += "},\n  \"samples\": [";
        s += &self.samples.iter().map(|x| format!("\"{}\"", esc(x))).collect::<Vec<_>>().join(", ");
        s += "],\n  \"notes\": {";
        let mut notes: Vec<String> = self.notes.iter().map(|(k, v)| format!("\"{}\": \"{}\"", esc(k), esc(v))).collect();
        for (k, v) in extra {
            notes.push(format!("\"{}\": \"{}\"", esc(k), esc(v)));
        }
        s += &notes.join(", ");
        s += "}\n}\n";
        f.write_all(s.as_bytes()).unwrap();
    }
}
