//! C17: the interactive session, driven through the headless script hook of the real binary
//! (`EMU2A_VERIF_SCRIPT`, feature verif-hooks; path of the binary in $VERIF_BIN).
//!
//! The script (one op per line) is executed by the real `Tui` inside the binary; this module
//! generates it, reads the answers back and adds the derived specification lines:
//!   spec.tnopanic  after every key / draw:   the implementation must not have panicked
//!   spec.tsafe     after every dump:         cursor inside the text, history index inside the history
//!   spec.tmach     after every dump:         machine + notification as the specification prescribes
//!   spec.cmd       for every `cmd` line:     the documented command language (token based)
use crate::out::Out;
use crate::rng::Rng;
use crate::sess::{hexs, parse_hex};

#[derive(Clone)]
struct Op {
    line: String,
    /// `cmd` lines whose float argument lies outside the modelled syntax: only "no panic" is checked
    float_unknown: bool,
}

fn op(line: String) -> Op {
    Op { line, float_unknown: false }
}

fn key_char(c: char, mods: &str) -> String {
    format!("key c{:x} {}", c as u32, mods)
}

/// Scripted completer answers (always attached to Tab/BackTab; ignored unless a path is completed).
fn fc(rng: &mut Rng, odd: bool) -> String {
    const NARROW_NAMES: &[&str] = &["a.asm", "ab.asm", "dir/", "é.asm", "x y", "", "p1.asm", "€", "λ/ß.asm"];
    const ODD_NAMES: &[&str] = &["a.asm", "é.asm", "漢", "", "a\u{301}", "😀.asm", "x\u{200b}y"];
    let names = if odd { ODD_NAMES } else { NARROW_NAMES };
    let n = match rng.below(6) {
        0 => 0,
        1 | 2 => 1,
        3 => 2,
        _ => 3,
    };
    let v: Vec<String> = (0..n).map(|_| hexs(rng.pick(names).as_bytes())).collect();
    format!("fc={}", v.join(","))
}

const EDIT_KEYS: &[&str] = &["enter", "tab", "backtab", "backspace", "home", "end", "left", "right", "up", "down", "delete"];
const OTHER_KEYS: &[&str] = &["esc", "insert", "pageup", "pagedown", "null", "f1", "f12"];
/// one-cell-wide characters (the row comparison assumes width 1)
const NARROW: &[char] = &['l', 'o', 'a', 'd', ' ', 's', 'e', 't', 'F', 'C', 'D', 'E', '=', '1', '2', '5', '0', 'x', 'é', '€', 'λ', 'ß', 'q', '\t', '/', '.'];
/// wide, zero-width, four-byte
const ODD: &[char] = &['漢', '\u{301}', '😀', '\u{200b}', 'Ａ', '\u{7f}', '\u{0}'];

fn key_line(rng: &mut Rng, k: &str, odd: bool) -> String {
    if k == "tab" || k == "backtab" {
        format!("key {} - {}", k, fc(rng, odd))
    } else {
        format!("key {} -", k)
    }
}

fn random_key(rng: &mut Rng, odd: bool) -> String {
    match rng.below(20) {
        0..=8 => key_char(*rng.pick(NARROW), if rng.chance(1, 12) { "s" } else { "-" }),
        9 if odd => key_char(*rng.pick(ODD), "-"),
        9 => key_char(*rng.pick(NARROW), "a"),
        10..=17 => {
            let k = *rng.pick(EDIT_KEYS);
            key_line(rng, k, odd)
        }
        18 => format!("key {} -", rng.pick(OTHER_KEYS)),
        _ => {
            // control chords (no quit): auto-run, step mode, interrupt, reset, continue, unknown
            let c = *rng.pick(&['a', 'w', 'e', 'r', 'l', 'x', 'E']);
            key_char(c, if rng.chance(1, 6) { "cs" } else { "c" })
        }
    }
}

fn type_line(ops: &mut Vec<Op>, text: &str) {
    for c in text.chars() {
        ops.push(op(key_char(c, "-")));
    }
}

fn submit(ops: &mut Vec<Op>, text: &str) {
    type_line(ops, text);
    ops.push(op("key enter -".into()));
    ops.push(op("tdump".into()));
}

// ---- command lines -------------------------------------------------------------------------

fn vary_case(rng: &mut Rng, s: &str) -> String {
    match rng.below(4) {
        0 => s.to_uppercase(),
        1 => s.to_lowercase(),
        _ => s.chars().map(|c| if rng.chance(1, 2) { c.to_ascii_uppercase() } else { c.to_ascii_lowercase() }).collect(),
    }
}

fn blanks(rng: &mut Rng, at_least_one: bool) -> String {
    let n = if at_least_one { 1 + rng.below(3) } else { rng.below(3) };
    (0..n).map(|_| if rng.chance(1, 5) { '\t' } else { ' ' }).collect()
}

fn byte_text(rng: &mut Rng) -> String {
    let v: u32 = match rng.below(8) {
        0 => 255,
        1 => 256,
        2 => 0,
        3 => 257 + rng.below(2000) as u32,
        _ => rng.below(256) as u32,
    };
    let zeros: String = (0..rng.below(3)).map(|_| '0').collect();
    match rng.below(9) {
        0 => format!("0x{}{:X}", zeros, v),
        1 => format!("0X{}{:x}", zeros, v),
        2 => format!("0b{}{:b}", zeros, v),
        3 => format!("0B{:b}", v),
        4 => format!("{}{}", zeros, v),
        5 => format!("{}", v),
        6 => (*rng.pick(&["", "0x", "0b", "0b2", "0xG", "+5", "-1", "5.0", "1e2", "0x1FF", "0b100000000", "256", "999999999999999999999", "٣", "0o7", "5 5", "0x 5"])).to_string(),
        _ => format!("{}", v),
    }
}

/// (text, inside the modelled float syntax)
fn float_text(rng: &mut Rng) -> (String, bool) {
    match rng.below(10) {
        0..=5 => {
            let ip = rng.below(12);
            if rng.chance(1, 2) {
                let fp = rng.below(100);
                (format!("{}.{:02}", ip, fp), true)
            } else if rng.chance(1, 2) {
                (format!("{}.{}", ip, rng.below(10)), true)
            } else {
                (format!("{}", ip), true)
            }
        }
        6 => ((*rng.pick(&["2.55", "1.27", "0.01", "4.99", "5.00", "7.25", "0.10", "3.3", "00012.50", "123456.789"])).to_string(), true),
        7 => ((*rng.pick(&["x", "", "=", "abc", ",5"])).to_string(), true),
        _ => ((*rng.pick(&["+1", "-1", "1e2", "1.", ".5", "inf", "nan", "1.5e-3", "1..2", "1234567890.1", "5e", "Infinity", "-.5", "1.2.3"])).to_string(), false),
    }
}

/// A command line: mostly documented forms with variations, some mutations. (text, float in model)
fn command_line(rng: &mut Rng) -> (String, bool) {
    let mut known = true;
    let regs = ["FC", "FD", "FE", "FF"];
    let pins = ["J1", "J2", "UIO1", "UIO2", "UIO3"];
    let body = match rng.below(16) {
        0 | 1 => {
            let set = if rng.chance(1, 2) { format!("{}{}", vary_case(rng, "set"), blanks(rng, true)) } else { String::new() };
            let r: &str = *rng.pick(&regs[..]);
            format!("{}{}{}={}{}", set, vary_case(rng, r), blanks(rng, false), blanks(rng, false), byte_text(rng))
        }
        2 => format!("{}{}{}{}={}{}", vary_case(rng, "set"), blanks(rng, true), vary_case(rng, "irg"), blanks(rng, false), blanks(rng, false), byte_text(rng)),
        3 | 4 => {
            let (t, k) = float_text(rng);
            known = k;
            let name = *rng.pick(&["TEMP", "I1", "I2"]);
            format!("{}{}{}{}={}{}", vary_case(rng, "set"), blanks(rng, true), vary_case(rng, name), blanks(rng, false), blanks(rng, false), t)
        }
        5 | 6 => {
            let p: &str = *rng.pick(&pins[..]);
            let kw = if rng.chance(1, 2) { "set" } else { "unset" };
            format!("{}{}{}", vary_case(rng, kw), blanks(rng, true), vary_case(rng, p))
        }
        7 => {
            let part = if rng.chance(1, 2) { "register" } else { "memory" };
            format!("{}{}{}", vary_case(rng, "show"), blanks(rng, true), vary_case(rng, part))
        }
        8 => {
            if rng.chance(1, 3) {
                vary_case(rng, "next")
            } else {
                let n = match rng.below(5) {
                    0 => "0".to_string(),
                    1 => "18446744073709551616".to_string(),
                    2 => format!("00{}", rng.below(30)),
                    _ => format!("{}", rng.below(40)),
                };
                format!("{}{}{}", vary_case(rng, "next"), blanks(rng, true), n)
            }
        }
        9 => {
            let w = if rng.chance(1, 2) { "quit" } else { "exit" };
            vary_case(rng, w)
        }
        10 => format!("{}{}{}", vary_case(rng, "load"), blanks(rng, true), rng.pick(&["p1.asm", "missing.asm", "bad.asm", "", "p1.asm  ", "é.asm", "a=b", "p2.asm"])),
        11 => {
            // near misses
            (*rng.pick(&["setFC = 1", "set", "unset", "set J3", "set UIO4", "unset FC = 1", "FC 1", "FC == 1", "FC = 1 2", "next5", "next -1",
                "show", "show regs", "show registers", "quitx", "q", "load", "loadp1.asm", "IRG = 5", "TEMP = 1", "set IRG 5", "set J1 = 1",
                "FG = 1", "set temp = 1 1", "set I3 = 1", "unset TEMP", "exit now", "= 5", "FC =", "FC = 0x", "set uio1 set uio2"])).to_string()
        }
        12 => {
            // whitespace-only / empty-ish lines
            (*rng.pick(&[" ", "  ", "\t", " \t ", "   "])).to_string()
        }
        13 => {
            // random strings over a Unicode alphabet
            let n = 1 + rng.below(8);
            (0..n).map(|_| if rng.chance(1, 5) { *rng.pick(ODD) } else { *rng.pick(NARROW) }).collect()
        }
        _ => {
            let v = rng.below(256);
            format!("{} = {}", rng.pick(&regs[..]), v)
        }
    };
    let lead = if rng.chance(1, 5) { blanks(rng, true) } else { String::new() };
    let trail = if rng.chance(1, 5) { blanks(rng, true) } else { String::new() };
    (format!("{}{}{}", lead, body, trail), known)
}

const PROGRAMS: &[(&str, &str)] = &[
    ("p1.asm", "#! mrasm\n CLR R0\nloop:\n INC R0\n ST (0xFF), R0\n LD R1, (0xFC)\n ST (0xFE), R1\n JR loop\n"),
    ("p2.asm", "#! mrasm\n JR main\n JR isr\nmain:\n LDSP 0xEF\n BITS (0xF9), 1\n EI\n CLR R0\nloop:\n INC R0\n ST (0xFE), R0\n CMP R0, 9\n JZS halt\n JR loop\nhalt:\n STOP\n JR loop\nisr:\n ST (0xFF), R0\n RETI\n"),
    ("bad.asm", "#! mrasm\n FOO R1\n"),
    ("é.asm", "#! mrasm\n*STACKSIZE 32\n LD R0, (0xF0)\n ST (0xFF), R0\n STOP\n"),
];

fn files(ops: &mut Vec<Op>) {
    for (n, c) in PROGRAMS {
        ops.push(op(format!("tfile {} {}", hexs(n.as_bytes()), hexs(c.as_bytes()))));
    }
    ops.push(op(format!("tfile {} !", hexs(b"missing.asm"))));
}

fn draw_sizes(rng: &mut Rng, ops: &mut Vec<Op>, narrow_only: bool, n: usize) {
    const WS: &[u16] = &[76, 77, 78, 80, 81, 90, 100, 120, 132, 200, 250];
    const HS: &[u16] = &[28, 29, 30, 40, 50, 100];
    for _ in 0..n {
        let w = *rng.pick(WS);
        let h = *rng.pick(HS);
        ops.push(op(format!("{} {} {}", if narrow_only { "draw" } else { "drawp" }, w, h)));
    }
}

fn build_script(rng: &mut Rng, thorough: bool, out: &mut Out) -> Vec<Op> {
    let mut ops: Vec<Op> = vec![];
    files(&mut ops);

    // (A) every sequence of editing keys up to a bound over a reduced alphabet
    let alpha: Vec<String> = vec![
        key_char('l', "-"), key_char('F', "-"), key_char('C', "-"), key_char('é', "-"), key_char(' ', "-"),
        "key enter -".into(), "key tab - fc=612e61736d".into(), "key backtab - fc=".into(), "key backspace -".into(),
        "key home -".into(), "key left -".into(), "key right -".into(), "key up -".into(), "key down -".into(), "key delete -".into(),
        "key end -".into(),
    ];
    let bound = if thorough { 4 } else { 3 };
    let mut idx = vec![0usize; bound];
    let mut count = 0u64;
    'outer: loop {
        ops.push(op("tnew".into()));
        for i in &idx {
            ops.push(op(alpha[*i].clone()));
        }
        ops.push(op("tdump".into()));
        // one more key from a state with history and a completion, then dump and draw
        ops.push(op(alpha[(count % alpha.len() as u64) as usize].clone()));
        ops.push(op("tdump".into()));
        if count % 7 == 0 {
            ops.push(op("draw 76 28".into()));
        }
        count += 1;
        let mut k = bound;
        loop {
            if k == 0 {
                break 'outer;
            }
            k -= 1;
            idx[k] += 1;
            if idx[k] < alpha.len() {
                break;
            }
            idx[k] = 0;
        }
    }
    out.notes.insert("exhaustive-key-sequences".into(), format!("{} sequences of length {} over {} keys", count, bound, alpha.len()));

    // (B) random long editing sessions, a dump after every key
    let n_sessions = if thorough { 3000 } else { 300 };
    for s in 0..n_sessions {
        ops.push(op("tnew".into()));
        let odd = s % 3 == 0;
        let len = 5 + rng.below(if s % 10 == 0 { 200 } else { 40 });
        // seed with something that makes completion / history interesting
        match rng.below(5) {
            0 => type_line(&mut ops, "load "),
            1 => {
                submit(&mut ops, "FC = 1");
                submit(&mut ops, "x");
                ops.push(op("key esc -".into()));
            }
            2 => type_line(&mut ops, "F"),
            _ => {}
        }
        for i in 0..len {
            ops.push(op(random_key(rng, odd)));
            if i % 3 == 0 || len < 30 {
                ops.push(op("tdump".into()));
            }
            if rng.chance(1, 10) {
                draw_sizes(rng, &mut ops, !odd, 1);
            }
        }
        ops.push(op("tdump".into()));
        draw_sizes(rng, &mut ops, !odd, 2);
    }

    // (C) long inputs: the "..." logic with the cursor everywhere
    let n_long = if thorough { 400 } else { 60 };
    for s in 0..n_long {
        ops.push(op("tnew".into()));
        let odd = s % 4 == 3;
        let n = match rng.below(4) {
            0 => 30 + rng.below(12),
            1 => 36 + rng.below(6),
            2 => 40 + rng.below(60),
            _ => 100 + rng.below(200),
        };
        for _ in 0..n {
            let c = if odd && rng.chance(1, 6) { *rng.pick(ODD) } else { *rng.pick(NARROW) };
            ops.push(op(key_char(c, "-")));
        }
        let w = *rng.pick(&[76u16, 77, 80, 100, 150, 250]);
        let d = if odd { "drawp" } else { "draw" };
        ops.push(op(format!("{} {} 30", d, w)));
        let moves = if thorough { n } else { n.min(50) };
        for i in 0..moves {
            ops.push(op("key left -".into()));
            if i < 12 || i % 5 == 0 || n - i < 12 {
                ops.push(op(format!("{} {} 28", d, w)));
            }
        }
        ops.push(op("key home -".into()));
        ops.push(op(format!("{} {} 28", d, w)));
        ops.push(op("tdump".into()));
    }

    // (D) command lines: parse only
    let n_cmd = if thorough { 60000 } else { 6000 };
    for _ in 0..n_cmd {
        let (t, known) = command_line(rng);
        ops.push(Op { line: format!("cmd {}", hexs(t.as_bytes())), float_unknown: !known });
    }
    // every string over a small alphabet up to length 4 (thorough) / 3
    let small: &[char] = &['f', 'C', '=', ' ', '1', '0', 'x', 'é'];
    let maxlen = if thorough { 5 } else { 4 };
    let mut total = 0u64;
    for len in 1..=maxlen {
        let mut ix = vec![0usize; len];
        'o2: loop {
            let t: String = ix.iter().map(|i| small[*i]).collect();
            ops.push(op(format!("cmd {}", hexs(t.as_bytes()))));
            total += 1;
            let mut k = len;
            loop {
                if k == 0 {
                    break 'o2;
                }
                k -= 1;
                ix[k] += 1;
                if ix[k] < small.len() {
                    break;
                }
                ix[k] = 0;
            }
        }
    }
    out.notes.insert("exhaustive-command-strings".into(), format!("{} strings up to length {} over {:?}", total, maxlen, small));

    // (E) sessions with commands and machine keys
    let n_m = if thorough { 2500 } else { 250 };
    for _ in 0..n_m {
        ops.push(op("tnew".into()));
        if rng.chance(2, 3) {
            submit(&mut ops, &format!("load {}", rng.pick(&["p1.asm", "p2.asm", "é.asm"])));
        }
        let steps = 4 + rng.below(25);
        for _ in 0..steps {
            match rng.below(10) {
                0..=3 => {
                    let (t, known) = command_line(rng);
                    let lower = t.trim().to_lowercase();
                    if !known || lower == "quit" || lower == "exit" {
                        continue;
                    }
                    submit(&mut ops, &t);
                    if rng.chance(1, 3) {
                        // a notification may be showing: any key dismisses it
                        ops.push(op(random_key(rng, false)));
                        ops.push(op("tdump".into()));
                    }
                }
                4 | 5 => {
                    ops.push(op("key enter -".into()));
                    ops.push(op("tdump".into()));
                }
                6 | 7 => {
                    let c = *rng.pick(&['e', 'r', 'l', 'w', 'a', 'w', 'e']);
                    ops.push(op(key_char(c, "c")));
                    ops.push(op("tdump".into()));
                }
                8 => {
                    submit(&mut ops, &format!("next {}", rng.below(60)));
                }
                _ => {
                    let k = random_key(rng, false);
                    ops.push(op(k));
                    ops.push(op("tdump".into()));
                }
            }
            if rng.chance(1, 12) {
                draw_sizes(rng, &mut ops, true, 1);
            }
        }
    }
    // (E2) long sessions: well over a hundred submitted lines in ONE session (every line must have its own effect,
    // however long the history has become), with history navigation in between
    let n_long = if thorough { 12 } else { 3 };
    for s in 0..n_long {
        ops.push(op("tnew".into()));
        let len = 70 + rng.below(if thorough { 400 } else { 90 });
        for i in 0..len {
            let v = (i * 7 + s * 13) % 256;
            let t = match i % 5 {
                0 => format!("FC = {}", v),
                1 => format!("fd = 0x{:02X}", v),
                2 => format!("set IRG = {}", v),
                3 => format!("FE = 0b{:08b}", v),
                _ => "this line is rejected".to_string(),
            };
            submit(&mut ops, &t);
            if i % 5 == 4 {
                // dismiss the notification
                ops.push(op("key esc -".into()));
                ops.push(op("tdump".into()));
            }
            if rng.chance(1, 15) {
                for _ in 0..1 + rng.below(4) {
                    ops.push(op("key up -".into()));
                }
                ops.push(op("tdump".into()));
                for _ in 0..rng.below(3) {
                    ops.push(op("key down -".into()));
                }
                ops.push(op("key enter -".into()));
                ops.push(op("tdump".into()));
            }
        }
    }
    // quitting
    for t in ["quit", "EXIT", " quit ", "quitx", "q"] {
        ops.push(op("tnew".into()));
        submit(&mut ops, t);
    }
    ops.push(op("tnew".into()));
    ops.push(op(key_char('c', "c")));
    ops.push(op("tdump".into()));

    // (F) drawing at every terminal size (thorough) / a grid (quick), from several states
    let states: Vec<Vec<Op>> = {
        let mut v: Vec<Vec<Op>> = vec![];
        v.push(vec![]);
        let mut a = vec![];
        type_line(&mut a, "set FC = 0x1F");
        v.push(a);
        let mut b = vec![];
        for _ in 0..90 {
            b.push(op(key_char(*rng.pick(&['é', '€', 'a', '漢', ' ']), "-")));
        }
        for _ in 0..40 {
            b.push(op("key left -".into()));
        }
        v.push(b);
        let mut c = vec![];
        submit(&mut c, "nonsense input that is rejected");
        v.push(c);
        let mut d = vec![];
        submit(&mut d, "load p2.asm");
        submit(&mut d, "show memory");
        submit(&mut d, "next 40");
        v.push(d);
        let mut e = vec![];
        submit(&mut e, "load missing.asm");
        v.push(e);
        // `next N` clocks the machine exactly N times, however large N is (a counting loop shows the number in FF)
        let mut big = vec![];
        submit(&mut big, "load p1.asm");
        submit(&mut big, "next 307199");
        submit(&mut big, "next 307201");
        submit(&mut big, "next 1000003");
        submit(&mut big, "next 65536");
        v.push(big);
        // the program listing scrolled to different places, both step modes, auto-run, board values
        for (prog, steps) in [("p1.asm", 3u32), ("p2.asm", 17), ("é.asm", 6), ("p2.asm", 150)] {
            let mut f = vec![];
            submit(&mut f, &format!("load {}", prog));
            f.push(op(key_char('w', "c")));
            submit(&mut f, &format!("next {}", steps));
            submit(&mut f, "set TEMP = 2.55");
            submit(&mut f, "set I1 = 4.99");
            submit(&mut f, "set IRG = 0xAB");
            submit(&mut f, "set J1");
            submit(&mut f, "set UIO2");
            submit(&mut f, "FF = 0b10101010");
            f.push(op(key_char('a', "c")));
            f.push(op(key_char('e', "c")));
            if steps % 2 == 1 {
                submit(&mut f, "show memory");
            }
            v.push(f);
        }
        v
    };
    // (F2) what is drawn next to the input line depends on the text being typed (command help):
    //      every prefix of every command form in lower, upper and mixed case, drawn after each key
    for form in ["set FC = 0x1F", "SET IRG = 5", "Set J1", "sEt UIO3", "SET TEMP = 2.5", "unset J2", "UNSET UIO1", "load p1.asm",
                 "LOAD p2.asm", "Load x", "show memory", "SHOW REGISTER", "next 5", "NEXT 12", "FC = 7", "fd = 0b101", "quit", "EXIT",
                 "Q", "sET  i1 = 1", "UnSeT ", "LoAd ", "sHoW ", "nExT ", "?", "help", "HELP"] {
        ops.push(op("tnew".into()));
        for (i, c) in form.chars().enumerate() {
            ops.push(op(key_char(c, "-")));
            let (w, h) = match i % 4 { 0 => (76, 28), 1 => (120, 40), 2 => (200, 60), _ => (77 + (i as u16 * 7) % 60, 28 + (i as u16 * 3) % 30) };
            ops.push(op(format!("draw {} {}", w, h)));
        }
        ops.push(op("tdump".into()));
    }
    let mut n_sizes = 0u64;
    for st in &states {
        ops.push(op("tnew".into()));
        ops.extend(st.iter().cloned());
        if thorough {
            for w in 1..=250u16 {
                for h in 1..=100u16 {
                    ops.push(op(format!("drawp {} {}", w, h)));
                    n_sizes += 1;
                }
            }
        } else {
            for w in [1u16, 2, 3, 5, 9, 10, 36, 37, 38, 39, 40, 41, 55, 56, 74, 75, 76, 77, 78, 79, 80, 99, 100, 132, 249, 250] {
                for h in [1u16, 2, 3, 4, 5, 10, 26, 27, 28, 29, 30, 31, 50, 99, 100] {
                    ops.push(op(format!("drawp {} {}", w, h)));
                    n_sizes += 1;
                }
            }
        }
    }
    out.notes.insert("terminal-sizes".into(), format!("{} draws over {} session states", n_sizes, states.len()));
    ops
}

fn field<'a>(dump: &'a str, name: &str) -> Option<&'a str> {
    dump.split(' ').find_map(|w| w.strip_prefix(name))
}

pub fn run_c17(out: &mut Out, seed: u64, thorough: bool) {
    let mut rng = Rng::new(seed);
    let bin = match std::env::var("VERIF_BIN") {
        Ok(b) if std::path::Path::new(&b).exists() => b,
        _ => {
            eprintln!("VERIF_BIN (2a-emulator built with --features verif-hooks) not found");
            std::process::exit(3);
        }
    };
    let dir = std::env::var("VERIF_CLI_DIR").unwrap_or_else(|_| "/verif/work/c17".into());
    std::fs::create_dir_all(&dir).unwrap();
    let ops = if let Ok(p) = std::env::var("VERIF_TUI_SCRIPT") {
        // replay: the op lines of a replay file (derived spec lines are regenerated)
        std::fs::read_to_string(&p)
            .expect("script")
            .lines()
            .filter(|l| !l.starts_with("spec."))
            .map(|l| op(l.to_string()))
            .collect()
    } else {
        build_script(&mut rng, thorough, out)
    };
    run_ops(out, &bin, &dir, &ops);
}

pub fn run_ops(out: &mut Out, bin: &str, dir: &str, ops: &[Op]) {
    let script = format!("{}/script.txt", dir);
    std::fs::write(&script, ops.iter().map(|o| o.line.as_str()).collect::<Vec<_>>().join("\n") + "\n").unwrap();
    let mut cmd = std::process::Command::new(bin);
    cmd.current_dir(dir).env("EMU2A_VERIF_SCRIPT", &script).env("TMPDIR", dir).env("NO_COLOR", "1");
    // the whole script is one batch: generous limit, but a session that stops answering must not stall the check
    let limit: u64 = std::env::var("VERIF_TUI_SECS").ok().and_then(|s| s.parse().ok()).unwrap_or(600 + ops.len() as u64 / 500);
    crate::out::current_op(None);
    let (code, text, errtext, timed_out) = crate::out::run_limited(cmd, dir, limit);
    let answers: Vec<&str> = text.lines().collect();
    if answers.len() != ops.len() {
        out.notes.insert(
            "script-run".into(),
            format!("the binary answered {} of {} lines (exit {:?}, timed out: {}): {}", answers.len(), ops.len(), code, timed_out,
                errtext.chars().take(300).collect::<String>()),
        );
    }
    let mut dead = false;
    for (i, o) in ops.iter().enumerate() {
        let a = answers.get(i).copied().unwrap_or(if timed_out && i == answers.len() { "hang: the session did not answer" } else { "no-answer" });
        let head = o.line.split(' ').next().unwrap_or("");
        if head == "tnew" {
            dead = false;
        }
        if dead && head != "tfile" && head != "cmd" {
            continue;
        }
        match head {
            "cmd" => {
                let hx = o.line.split(' ').nth(1).unwrap_or("-");
                if o.float_unknown {
                    out.emit(&format!("spec.cmdsafe {}", hx), if a == "panic" { "panic" } else { "ok" });
                    out.count("cmd-float-outside-model");
                } else {
                    out.emit(&o.line, a);
                    out.emit(&format!("spec.cmd {}", hx), a);
                    out.count(&format!("cmd-{}", a.split(' ').next().unwrap_or("?")));
                }
                out.distinct_case(&o.line);
            }
            "key" | "draw" | "drawp" => {
                out.emit(&o.line, a);
                out.emit("spec.tnopanic", if a.starts_with("hang") { "hang: the session did not answer" } else if a == "panic" || a == "no-answer" { "panic" } else { "ok" });
                if a == "panic" || a == "no-answer" || a.starts_with("hang") {
                    dead = true;
                    out.count("PANIC");
                }
                out.count(if head == "key" {
                    let k = o.line.split(' ').nth(1).unwrap_or("");
                    if k.starts_with('c') { "key-char" } else { "key-other" }
                } else if a == "ok small" {
                    "draw-too-small"
                } else {
                    "draw-full"
                });
                out.distinct_case(&o.line);
            }
            "tdump" if a == "dead" => {
                out.emit(&o.line, a);
                out.emit("spec.tsafe", "dead");
                out.emit("spec.tmach", "dead");
            }
            "tdump" => {
                out.emit(&o.line, a);
                // cursor inside the text, history index inside the history
                let inside = (|| {
                    let inp = String::from_utf8(parse_hex(field(a, "in=")?)?).ok()?;
                    let idx: usize = field(a, "idx=")?.parse().ok()?;
                    let hist: usize = field(a, "hist=")?.split(':').next()?.parse().ok()?;
                    let hidx = field(a, "hidx=")?;
                    let ok_h = hidx == "-" || hidx.parse::<usize>().ok()? < hist;
                    let ok_c = match field(a, "comps=")? {
                        "-" => true,
                        c => {
                            let (i, l) = c.split_once(':')?;
                            i.parse::<usize>().ok()? < l.split(',').count()
                        }
                    };
                    Some(idx <= inp.chars().count() && ok_h && ok_c)
                })();
                out.emit("spec.tsafe", match inside {
                    Some(true) => "inside",
                    Some(false) => "outside",
                    None => "unreadable",
                });
                // machine + notification
                let note = field(a, "note=").unwrap_or("?");
                let mach = a.split(" | ").nth(1).unwrap_or("?");
                out.emit("spec.tmach", &format!("note={} | {}", note, mach));
                if note != "-" {
                    out.count(&format!("note-{}", note.split(':').next().unwrap_or("?")));
                }
            }
            _ => out.emit(&o.line, a),
        }
    }
    let _ = std::fs::remove_file(&script);
}
