//! Machine-level histories on the real machine: C13 (no crash), C07 (resets / load), C05 (supervision),
//! C11 (assembly step).  Every op is followed by a full dump that the model has to reproduce.
use crate::gen::*;
use crate::out::Out;
use crate::rng::Rng;
use crate::sess::{hexs, Sess};

pub fn ps_choice(rng: &mut Rng, len: usize) -> String {
    match rng.below(8) {
        0 => "A".into(),
        1 => "N".into(),
        2 => "0".into(),
        3 => "1".into(),
        4 => format!("{}", len.saturating_sub(1).min(255)),
        5 => format!("{}", len.min(255)),
        6 => "255".into(),
        _ => format!("{}", rng.byte()),
    }
}

/// Programs that *do* something (interrupt routines with the key interrupt enabled, one-shot routines, stack
/// and program-counter supervision cases, STOP / continue, MUL / DIV, board and timer ports, undefined opcodes):
/// histories over random byte images rarely reach the states these reach.
pub fn scenario_image(rng: &mut Rng) -> Vec<u8> {
    match rng.below(6) {
        0 | 1 => {
            let di = rng.chance(1, 2);
            crate::c_isa::c04_program(rng, di).0
        }
        2 => {
            let kind = rng.below(8);
            c05_program(rng, kind)
        }
        3 => confined_program(rng),
        4 => {
            // enable the key interrupt, then STOP / continue / an undefined opcode in the middle
            let mut p: Vec<u8> = vec![0x20, 0x0A, 0x10, 0xFF, 0x7F, 0x10, 0x44, 0xF0, 0x1F, 0x7F, 0x14, 0x2C];
            p.extend(&[0xFB, 0xE8, 0x40, 0xFB, 0x01, 0x5F, 0xF9, 0x08, 0x44, 0x01, 0x45]);
            p.push(*rng.pick(&[0x02u8, 0x01, 0x4C, 0xE0, 0x00, 0xB1, 0xC6]));
            p.extend(&[0x64, 0x20, 0xFE]);
            p
        }
        _ => {
            // board / timer / UART ports driven by the program
            let mut p: Vec<u8> = vec![0xFB, 0xE8, 0x40];
            for _ in 0..(2 + rng.below(5)) {
                let port = 0xF0 + rng.byte() % 16;
                p.extend(&[0xFB, rng.byte(), 0x10, 0xF0, 0x1F, port]); // LD R0, v ; ST (port), R0
                if rng.chance(1, 2) {
                    p.extend(&[0xFF, 0xF0 + rng.byte() % 16, 0x11]); // LD R1, (port)
                }
            }
            p.extend(&[0x20, 0xFE]);
            p
        }
    }
}

pub fn load_line(rng: &mut Rng) -> String {
    if rng.chance(1, 3) {
        let img = scenario_image(rng);
        let ss = if rng.chance(1, 12) { "N" } else { *rng.pick(SS) };
        let ps = if rng.chance(2, 3) { "255".to_string() } else { ps_choice(rng, img.len()) };
        return format!("load {} {} {}", ss, ps, hexs(&img));
    }
    let len = match rng.below(6) {
        0 => 240,
        1 => rng.below(8) as usize,
        _ => 1 + rng.below(120) as usize,
    };
    let img = image(rng, len);
    let ss = if rng.chance(1, 12) { "N" } else { *rng.pick(SS) };
    format!("load {} {} {}", ss, ps_choice(rng, len), hexs(&img))
}

/// C13: arbitrary images x settings x interleavings; the dump after every op doubles as the
/// "state can be read" probe; "panic" answers are violations unless the model predicts them.
pub fn run_c13(out: &mut Out, seed: u64, thorough: bool) {
    let mut rng = Rng::new(seed);
    // every byte written to each board port / register of the I/O page, then every I/O address read back
    // (values computed from a written byte - fan period, DAC voltages, timer divisors - at their extremes)
    {
        let mut s = Sess::new();
        for port in 0xF0..=0xFFu32 {
            for v in 0..=255u32 {
                if !thorough && port > 0xF3 && v % 16 != 0 && v != 255 {
                    continue;
                }
                run_line(out, &mut s, "new");
                run_line(out, &mut s, &format!("busw {} {}", port, v));
                for a in 0xF0..=0xFFu32 {
                    run_line(out, &mut s, &format!("busr {}", a));
                }
                run_line(out, &mut s, "d");
            }
        }
    }
    // pairs of writes: a first write that switches a mode (timer enabled / stopped, interrupt mask, board direction /
    // interrupt-control / output registers, UART control), then every I/O address with boundary bytes (thorough: every byte),
    // followed by clock edges of the machine
    {
        let firsts: &[(u32, u32)] = &[(0xFD, 0x90), (0xFD, 0x80), (0xFD, 0x10), (0xFC, 0), (0xF9, 0xFF), (0xF2, 0x87), (0xF2, 0xC7), (0xF2, 0x07),
            (0xF0, 255), (0xF1, 255), (0xFA, 0xFF), (0xFB, 0xFF)];
        let mut s = Sess::new();
        for (a1, v1) in firsts {
            for port in 0xF0..=0xFFu32 {
                for v in 0..=255u32 {
                    if !thorough && !(v < 3 || v > 252 || v % 32 == 0 || v == 0x7F || v == 0x90) {
                        continue;
                    }
                    run_line(out, &mut s, "new");
                    run_line(out, &mut s, &format!("busw {} {}", a1, v1));
                    run_line(out, &mut s, &format!("busw {} {}", port, v));
                    run_line(out, &mut s, "edges 5");
                    run_line(out, &mut s, "d");
                    out.count("write-pair");
                }
            }
        }
    }
    let cases = if thorough { 3000 } else { 300 };
    for c in 0..cases {
        let mut s = Sess::new();
        run_line(out, &mut s, "new");
        let l = load_line(&mut rng);
        if c < 3 {
            out.sample(l.clone());
        }
        run_line(out, &mut s, &l);
        // outside the op alphabet (public `set_stacksize` only): NotSet makes supervised edges panic;
        // the model must predict exactly these panics (`edgePanics`), they are not C13 violations
        let forced_notset = c % 25 == 7;
        if forced_notset {
            run_line(out, &mut s, "ss N");
        }
        let steps = 100 + rng.below(400);
        let dump_every = 1 + rng.below(4);
        for i in 0..steps {
            let line = if rng.chance(3, 4) {
                "edge".to_string()
            } else if rng.chance(1, 40) {
                load_line(&mut rng)
            } else if rng.chance(1, 20) {
                if rng.chance(1, 2) { "cpureset".into() } else { "masterreset".into() }
            } else {
                stimulus(&mut rng)
            };
            let r = run_line(out, &mut s, &line);
            if r == "panic" && !(forced_notset && (line == "edge" || line == "clock")) {
                // C13: no call may panic (spec line: the expected answer is never "panic")
                run_line(out, &mut s, "spec.nopanic");
            }
            if i % dump_every == 0 {
                run_line(out, &mut s, "d");
            }
        }
        run_line(out, &mut s, "d");
        run_line(out, &mut s, "ram");
    }
}

// ---------------------------------------------------------------------------------------------
// C05: supervision exactness and absorbing halt states.

use crate::sess::run_str;

/// One supervised edge: the edge, then the two observation-carrying spec lines.
pub fn supervised_edge(out: &mut Out, s: &mut Sess) {
    run_line(out, s, "edge");
    run_line(out, s, "spec.run");
    run_line(out, s, "spec.valid");
    out.count(&format!("post={}", run_str(&s.m)));
}

/// After a halt: further edges and stimuli must not change the halt state; edges change nothing at all.
fn absorb_probe(out: &mut Out, s: &mut Sess, rng: &mut Rng) {
    run_line(out, s, "spec.absorb edges");
    let halted = run_str(&s.m);
    for _ in 0..30 {
        let l = stimulus(rng);
        if l == "cont" || l.starts_with("busw") {
            continue;
        }
        run_line(out, s, &l);
        run_line(out, s, "edge");
    }
    // the interrupt key in particular (whatever the random stimuli were)
    run_line(out, s, "irq");
    run_line(out, s, &format!("spec.absorb state {}", halted));
    run_line(out, s, "edge");
    run_line(out, s, &format!("spec.absorb state {}", halted));
    run_line(out, s, "d");
}

fn c05_program(rng: &mut Rng, kind: u64) -> Vec<u8> {
    let mut p: Vec<u8> = vec![];
    match kind {
        0 => {
            // deep PUSH recursion: LDSP v ; loop: PUSH R0 ; JR loop
            p.extend(&[0xFB, rng.byte(), 0x40, 0x10, 0x20, 0xFD]);
        }
        1 => {
            // deep CALL recursion: LDSP v ; f: CALL f
            p.extend(&[0xFB, rng.byte(), 0x40, 0x28, 0x03]);
        }
        2 => {
            // LDSP to a value, then pops upwards: LDSP v ; loop: POP R1 ; JR loop
            p.extend(&[0xFB, rng.byte(), 0x40, 0x15, 0x20, 0xFD]);
        }
        3 => {
            // jump to an arbitrary address, landing area of NOPs and a STOP somewhere
            let target = rng.byte();
            p.extend(&[0xFB, target, 0x13]);
            while p.len() < 200 {
                p.push(if rng.chance(1, 40) { 0x01 } else { 0x02 });
            }
        }
        4 => {
            // fall through NOPs into the end of the program / a STOP exactly at the limit
            let n = 1 + rng.below(12) as usize;
            for _ in 0..n {
                p.push(0x02);
            }
            p.push(0x01);
            p.push(0x02);
            p.push(0x02);
        }
        5 => {
            // INC PC style: write PC/SP through MOV with constants: MOV PC,c / LDSP (R0+) ...
            p.extend(&[0xFB, rng.byte(), 0x10, 0xF0, 0x40, 0x02, 0x02, 0xF0, 0x13]);
        }
        8 => {
            // 0x00 / 0x01 as the SECOND opcode byte of a two-byte form: the instruction register is
            // loaded with it, so the machine halts exactly as for a first byte
            for _ in 0..(1 + rng.below(3)) {
                p.push(0x02);
            }
            let pre = 0xF0 + rng.byte() % 16;
            p.push(pre);
            if (pre & 0x0F) == 0x0B || (pre & 0x0F) == 0x0F {
                p.push(rng.byte() % 0xE0);
            }
            p.push(rng.byte() % 2);
            for _ in 0..6 {
                p.push(0x02);
            }
        }
        _ => {
            let len = 8 + rng.below(100) as usize;
            p = image(rng, len);
        }
    }
    p
}

pub fn run_c05(out: &mut Out, seed: u64, thorough: bool) {
    let mut rng = Rng::new(seed);
    let rounds = if thorough { 40 } else { 6 };
    let mut case = 0u64;
    for round in 0..rounds {
        for kind in 0..9u64 {
            for ss in SS {
                let prog = c05_program(&mut rng, kind);
                let n = prog.len();
                let ps_opts = ["A".to_string(), "0".into(), "1".into(), format!("{}", n.saturating_sub(1).min(255)),
                               format!("{}", n.min(255)), format!("{}", (n + 1).min(255)), "255".into()];
                let ps = if thorough || round == 0 { ps_opts[(case % 7) as usize].clone() } else { rng.pick(&ps_opts).clone() };
                case += 1;
                let mut s = Sess::new();
                run_line(out, &mut s, "new");
                let l = format!("load {} {} {}", ss, ps, hexs(&prog));
                if out.samples.len() < 4 {
                    out.sample(l.clone());
                }
                run_line(out, &mut s, &l);
                if case % 2 == 1 {
                    // the key interrupt enabled in the mask: a key press on a halted machine must still not restart it
                    run_line(out, &mut s, "busw 249 1");
                }
                let budget = if kind <= 2 { 1500 } else { 600 };
                let mut halts = 0;
                for i in 0..budget {
                    if rng.chance(1, 50) {
                        let st = stimulus(&mut rng);
                        if !st.starts_with("busw") {
                            run_line(out, &mut s, &st);
                        }
                    }
                    supervised_edge(out, &mut s);
                    if i % 7 == 0 {
                        run_line(out, &mut s, "d");
                    }
                    if run_str(&s.m) != "R" {
                        halts += 1;
                        absorb_probe(out, &mut s, &mut rng);
                        if run_str(&s.m) == "S" && halts < 4 {
                            // only `continue` leaves a regular stop
                            run_line(out, &mut s, "cont");
                            run_line(out, &mut s, "spec.absorb state R");
                        } else if halts < 3 && rng.chance(1, 2) {
                            run_line(out, &mut s, "cont");
                            run_line(out, &mut s, "spec.absorb state E");
                            run_line(out, &mut s, "cpureset");
                            run_line(out, &mut s, "spec.absorb state R");
                        } else {
                            break;
                        }
                    }
                }
            }
        }
    }
}

// ---------------------------------------------------------------------------------------------
// C07: resets and load after arbitrary histories.

/// A program that touches RAM and 0xFC-0xFF only (direct addressing, stack in RAM).
pub fn confined_program(rng: &mut Rng) -> Vec<u8> {
    let mut p: Vec<u8> = vec![0xFB, 0xE0 + rng.byte() % 0x10, 0x40]; // LDSP const
    let n = 6 + rng.below(30);
    for _ in 0..n {
        let r = rng.byte() & 3;
        let r = if r == 3 { 0 } else { r };
        match rng.below(12) {
            0 => p.extend(&[0xFB, rng.byte(), 0x10 + r]),                       // LD Rr, const
            1 => p.extend(&[0xFF, 0xFC + rng.byte() % 4, 0x10 + r]),            // LD Rr, (input reg)
            2 => p.extend(&[0xF0 + r, 0x1F, 0xFE + rng.byte() % 2]),            // ST (FE/FF), Rr
            3 => p.extend(&[0xF0 + r, 0x1F, 0x40 + rng.byte() % 0x80]),         // ST (ram), Rr
            4 => p.extend(&[0xFF, 0x40 + rng.byte() % 0x80, 0x10 + r]),         // LD Rr, (ram)
            5 => p.push(0x60 + (rng.byte() % 3) * 4 + rng.byte() % 3),          // ADD
            6 => p.push(0x44 + r),                                              // INC
            7 => p.push(0x10 + r),                                              // PUSH
            8 => p.push(0x14 + r),                                              // POP
            9 => p.push(0xB0 + (rng.byte() % 3) * 4 + rng.byte() % 3),          // MUL
            10 => p.push(0x80 + (rng.byte() % 3) * 4 + rng.byte() % 3),         // SUB
            _ => p.push(0x02),
        }
    }
    // loop forever: JR to start+3
    let here = p.len() as u8;
    p.extend(&[0x20, 3u8.wrapping_sub(here.wrapping_add(2))]);
    p
}

pub fn run_c07(out: &mut Out, seed: u64, thorough: bool) {
    let mut rng = Rng::new(seed);
    let cases = if thorough { 1500 } else { 150 };
    for _ in 0..cases {
        let mut s = Sess::new();
        run_line(out, &mut s, "new");
        let hist = 20 + rng.below(200);
        for i in 0..hist {
            let line = match rng.below(20) {
                0 => format!("spec.{}", load_line(&mut rng)),
                1 => "cpureset".to_string(),
                2 => "masterreset".to_string(),
                3 | 4 | 5 | 6 => stimulus(&mut rng),
                7 => {
                    // program-driven port writes: run a few edges of a program that stores to 0xF0-0xFB
                    let a = 0xF0 + rng.byte() % 12;
                    format!("load 16 255 fb{:02x}10f01f{:02x}20fb", rng.byte(), a)
                }
                _ => "edge".to_string(),
            };
            run_line(out, &mut s, &line);
            // every prefix is followed by each kind of reset (on a copy), compared with the specification
            if i % 3 == 0 || line != "edge" {
                run_line(out, &mut s, "spec.cpureset");
                run_line(out, &mut s, "spec.masterreset");
            }
            if i % 5 == 0 {
                run_line(out, &mut s, "d");
            }
        }
        // follow-up programs: reloaded here vs a newly created machine, lock-step
        for _ in 0..3 {
            let p = confined_program(&mut rng);
            let ss = *rng.pick(&["0", "16", "32", "48", "64", "N"]);
            let ps = *rng.pick(&["A", "N", "255"]);
            let l = format!("spec.reload {} {} {} {}", ss, ps, hexs(&p), 600);
            if out.samples.len() < 3 {
                out.sample(l.clone());
            }
            run_line(out, &mut s, &l);
            run_line(out, &mut s, &format!("spec.reloadasm {} {} {} {}", ss, ps, hexs(&p), 80));
        }
        // a program that sets no program size / no stack size after one that set both, and the other way round
        for (a, b) in [(("48", "7"), ("N", "N")), (("N", "N"), ("32", "A")), (("64", "200"), ("16", "N")), (("0", "A"), ("N", "3"))] {
            run_line(out, &mut s, &format!("spec.load {} {} 0202020201", a.0, a.1));
            run_line(out, &mut s, &format!("spec.load {} {} 02020201", b.0, b.1));
            run_line(out, &mut s, "d");
        }
        // AUTO is the LENGTH of the image, whatever its bytes are: images ending in zero bytes, all-zero images,
        // the empty image, zero bytes in the middle
        for img in ["020200", "02020000", "0200", "00", "0000000000", "", "0200020002", "020202010000000000000000"] {
            let ss = *rng.pick(&["0", "16", "N"]);
            run_line(out, &mut s, &format!("spec.load {} A {}", ss, if img.is_empty() { "-" } else { img }));
            run_line(out, &mut s, "d");
        }
        {
            // random image with a random zero tail
            let n_img = 1 + rng.below(60) as usize;
            let mut img = image(&mut rng, n_img);
            let tail = 1 + rng.below(9);
            for _ in 0..tail {
                img.push(0);
            }
            run_line(out, &mut s, &format!("spec.load 16 A {}", hexs(&img)));
            run_line(out, &mut s, "d");
        }
        // model correspondence of load and resets themselves
        run_line(out, &mut s, &load_line(&mut rng));
        run_line(out, &mut s, "d");
        run_line(out, &mut s, "ram");
        run_line(out, &mut s, "masterreset");
        run_line(out, &mut s, "d");
        run_line(out, &mut s, "ram");
        // a history that ends in a detected micro-program hang (undefined opcode stepped in assembly mode,
        // interrupt pending or not), then load / master reset: must still run like a new machine, also when
        // stepped with the clock key
        {
            let mut h = Sess::new();
            run_line(out, &mut h, "new");
            let bad = *rng.pick(&[0x4Cu8, 0x4D, 0x4F, 0xE0, 0xE7, 0xEF]);
            run_line(out, &mut h, &format!("load 16 255 0244{:02x}0202", bad));
            run_line(out, &mut h, "mode A");
            for _ in 0..(3 + rng.below(4)) {
                run_line(out, &mut h, "clock");
            }
            if rng.chance(1, 2) {
                run_line(out, &mut h, "mode R");
            }
            run_line(out, &mut h, "d");
            let p = confined_program(&mut rng);
            run_line(out, &mut h, &format!("spec.reloadasm 16 A {} 80", hexs(&p)));
            run_line(out, &mut h, &format!("spec.resetasm 16 A {} 80", hexs(&p)));
            run_line(out, &mut h, &format!("spec.reload 16 A {} 300", hexs(&p)));
        }
    }
}

// ---------------------------------------------------------------------------------------------
// C11: assembly step == single edges to the next boundary, from every mid-run state.

pub fn run_c11(out: &mut Out, seed: u64, thorough: bool) {
    let mut rng = Rng::new(seed);
    // 1. termination + equality for all 256 opcode bytes at the program counter (and second bytes)
    let reps = if thorough { 8 } else { 1 };
    for op in 0..=255u32 {
        for rep in 0..reps {
            let seconds: Vec<u32> = if op >= 0xF0 { (0..=255).filter(|b| thorough || b % 8 == (op + rep) % 8 || crate::c_flow::defined_second(*b as u8)).collect() } else { vec![0] };
            for b2 in seconds {
                let mut s = Sess::new();
                let mut prog = vec![op as u8];
                if op >= 0xF0 {
                    if (op & 0x0F) == 0x0B || (op & 0x0F) == 0x0F {
                        prog.push(rng.byte() % 0xE0);
                    }
                    prog.push(b2 as u8);
                }
                while prog.len() < 12 {
                    prog.push(rng.byte());
                }
                run_line(out, &mut s, "new");
                run_line(out, &mut s, &format!("load 0 255 {}", hexs(&prog)));
                run_line(out, &mut s, "mode A");
                for _ in 0..3 {
                    run_line(out, &mut s, "spec.asmstep");
                    run_line(out, &mut s, "clock");
                    run_line(out, &mut s, "d");
                }
            }
        }
    }
    // 1b. long data-dependent instructions: DIV and MUL with every dividend / multiplier for small
    //     divisors (quotients up to 255 => more than 500 edges), stepped in assembly mode
    for (op, bs) in [(0xC4u8, vec![1u8, 2, 3, 7, 255]), (0xB4u8, vec![1u8, 2, 255])].iter() {
        for b in bs {
            for a in 0..=255u32 {
                if !thorough && a % 4 != (seed % 4) as u32 && a < 240 {
                    continue;
                }
                let mut s = Sess::new();
                run_line(out, &mut s, "new");
                run_line(out, &mut s, &format!("load 0 255 {:02x}4402", op));
                run_line(out, &mut s, &format!("force 0 2 {:02x}{:02x}000000800000 - 0 0 0 0 0 0 0 R 0", a, b));
                run_line(out, &mut s, "mode A");
                for _ in 0..3 {
                    run_line(out, &mut s, "spec.asmstep");
                    run_line(out, &mut s, "clock");
                    run_line(out, &mut s, "d");
                }
                out.count("long-instr");
            }
        }
    }
    // 2. every mid-run state of generated runs: step issued at every single edge
    let cases = if thorough { 400 } else { 40 };
    for c in 0..cases {
        let mut s = Sess::new();
        run_line(out, &mut s, "new");
        let l = if c % 2 == 0 { format!("load 16 255 {}", hexs(&confined_program(&mut rng))) } else { load_line(&mut rng) };
        if c < 2 {
            out.sample(l.clone());
        }
        run_line(out, &mut s, &l);
        run_line(out, &mut s, "busw 249 1");
        for i in 0..300 {
            if rng.chance(1, 25) {
                let st = stimulus(&mut rng);
                run_line(out, &mut s, &st);
            }
            run_line(out, &mut s, "spec.asmstep");
            // mode switches at arbitrary points do not alter the computation
            if rng.chance(1, 10) {
                run_line(out, &mut s, "mode A");
                run_line(out, &mut s, "clock");
                run_line(out, &mut s, "mode R");
            } else {
                run_line(out, &mut s, "edge");
            }
            if i % 5 == 0 {
                run_line(out, &mut s, "d");
            }
        }
    }
    // 2b. an undefined opcode reached in assembly-step mode with the key interrupt enabled (mask bit and EI) and the
    //     key pressed before any one of the steps: the step must return (hang detection) whatever the request state
    for undef in [vec![0xE0u8], vec![0x4C], vec![0xEF], vec![0xF0, 0x48], vec![0xF4, 0x70]] {
        for press_at in 0..10usize {
            let mut img: Vec<u8> = vec![0x20, 0x02, 0x2C, 0x02, 0xFB, 0xEF, 0x40, 0xFB, 0x01, 0x5F, 0xF9, 0x08, 0x02, 0x02];
            img.extend_from_slice(&undef);
            img.extend_from_slice(&[0x02, 0x02]);
            let mut s = Sess::new();
            run_line(out, &mut s, "new");
            run_line(out, &mut s, &format!("load 16 255 {}", hexs(&img)));
            run_line(out, &mut s, "mode A");
            for k in 0..11usize {
                if k == press_at {
                    run_line(out, &mut s, "irq");
                }
                run_line(out, &mut s, "spec.asmstep");
                run_line(out, &mut s, "clock");
                run_line(out, &mut s, "d");
            }
            out.count("undefined-opcode-with-request");
        }
    }
    // 3. steps across the interrupt entry: programs with the key interrupt enabled that visit the end
    //    word and the `int:` word of every opcode page; the key is pressed at every clock cycle and a
    //    step is issued (on a copy) at each of the following edges
    let progs = if thorough { 12 } else { 2 };
    for pi in 0..progs {
        let (img, spin) = crate::c_isa::c04_program(&mut rng, pi % 2 == 1);
        let load = format!("load 16 255 {}", hexs(&img));
        // edges until the final spin loop is reached (uninterrupted)
        let mut probe = Sess::new();
        probe.apply("new");
        probe.apply(&load);
        let mut total = 0u32;
        while total < 6000 {
            probe.m.raw_mut().trigger_clock_edge();
            total += 1;
            if probe.m.is_instruction_done() && *probe.m.registers().get(emulator_2a_lib::machine::RegisterNumber::R3) == spin {
                break;
            }
        }
        if total >= 6000 {
            out.count("int-step-program-skipped");
            continue;
        }
        let stride = if thorough || pi == 0 { 1 } else { 3 };
        let mut t = 0u32;
        while t <= total {
            let mut s = Sess::new();
            run_line(out, &mut s, "new");
            run_line(out, &mut s, &load);
            run_line(out, &mut s, &format!("edges {}", t));
            run_line(out, &mut s, "irq");
            for _ in 0..45 {
                run_line(out, &mut s, "spec.asmstep");
                run_line(out, &mut s, "edge");
            }
            run_line(out, &mut s, "d");
            out.count("int-step-trigger");
            t += stride;
        }
    }
}
