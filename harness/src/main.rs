//! Correspondence / search harness: runs the REAL implementation on generated cases and writes
//! the op lines (replayed by the Lean driver) together with the implementation's answers.
mod asmgen;
mod astser;
mod c_alu;
mod c_asm;
mod c_board;
mod c_bus;
mod c_flow;
mod c_isa;
mod c_mach;
mod c_run;
mod c_tui;
mod gen;
mod out;
mod rng;
mod sess;

use out::Out;

fn main() {
    c_asm::install_panic_hook();
    let args: Vec<String> = std::env::args().collect();
    if args.len() < 5 {
        eprintln!("usage: harness <cmd> <seed> <quick|thorough> <outdir> [extra...]");
        std::process::exit(2);
    }
    let cmd = args[1].as_str();
    let seed: u64 = args[2].parse().expect("seed");
    let thorough = args[3] == "thorough";
    let mut out = Out::new(&args[4]);
    out::start_watchdog();
    let extra: Vec<String> = args[5..].to_vec();
    match cmd {
        "c08" => c_alu::run(&mut out, seed, thorough),
        "c09" => c_flow::run(&mut out, seed, thorough),
        "c09drill" => c_flow::drill(&mut out, &extra),
        "c14" => c_board::run(&mut out, seed, thorough),
        "c15" => c_flow::run_c15(&mut out, seed, thorough),
        "c10" => c_bus::run(&mut out, seed, thorough),
        "c01" => c_isa::run_c01(&mut out, seed, thorough),
        "c02" => c_asm::run_c02(&mut out, seed, thorough),
        "c06" => c_asm::run_c06(&mut out, seed, thorough),
        "c03" => c_asm::run_c03(&mut out, seed, thorough),
        "c16" => c_asm::run_c16(&mut out, seed, thorough),
        "c04" => c_isa::run_c04(&mut out, seed, thorough),
        "c05" => c_mach::run_c05(&mut out, seed, thorough),
        "c07" => c_mach::run_c07(&mut out, seed, thorough),
        "c11" => c_mach::run_c11(&mut out, seed, thorough),
        "c13" => c_mach::run_c13(&mut out, seed, thorough),
        "c12" => c_run::run_c12(&mut out, seed, thorough),
        "c17" => c_tui::run_c17(&mut out, seed, thorough),
        "replay" => gen::replay(&mut out, &extra),
        _ => {
            eprintln!("unknown command {}", cmd);
            std::process::exit(2);
        }
    }
    out.finish(&[("cmd", cmd.to_string()), ("seed", seed.to_string())]);
}
