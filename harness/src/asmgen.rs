//! Generator of (AST, source text) pairs: the AST is built first, the text is rendered from it with
//! random letter case, blanks, radix, leading zeros, `PC` for R3 and comments — so the expected parse
//! result is known by construction, independently of the parser under test.
use crate::rng::Rng;
use emulator_2a_lib::parser::*;

pub struct GenOpts {
    pub max_lines: usize,
    pub allow_backward_org: bool,
    pub fit_ram: bool,
    pub plain: bool, // canonical spelling only (no case/radix games)
}

thread_local! { static LABEL_STEM: std::cell::RefCell<String> = std::cell::RefCell::new(String::new()); }

fn label_name(rng: &mut Rng) -> String {
    // families of names with a long common stem: names that differ only after 8, 16, 24 or 31 characters,
    // by one appended character, or in their last character (a table keyed by a truncated, hashed or
    // otherwise lossy form of the name confuses them)
    if rng.chance(1, 6) {
        let stem = LABEL_STEM.with(|st| {
            let mut st = st.borrow_mut();
            if st.is_empty() || rng.chance(1, 8) {
                let len = *rng.pick(&[7usize, 8, 15, 16, 17, 23, 24, 31, 32, 40]);
                let body = b"abcdefghijklmnopqtuvwxyz_0123456789ABCDEFGHIJKLMNOQTUVWXYZ";
                let mut t = String::from("c");
                while t.len() < len {
                    t.push(*rng.pick(body) as char);
                }
                *st = t;
            }
            st.clone()
        });
        let tail = *rng.pick(&["", "a", "b", "_", "0", "1", "ab", "ba", "_hi", "_lo", "x9", "X9"]);
        return format!("{}{}", stem, tail);
    }
    // must not start with R, PC or SP in any case
    let first = b"abcdefghijklmnoqtuvwxyzABCDEFGHIJKLMNOQTUVWXYZ_";
    let rest = b"abcdefghijklmnopqrstuvwxyzABCDEFGHIJKLMNOPQRSTUVWXYZ0123456789_";
    let mut s = String::new();
    s.push(*rng.pick(first) as char);
    let long = rng.chance(1, 20);
    let n = rng.below(if long { 30 } else { 7 });
    for _ in 0..n {
        s.push(*rng.pick(rest) as char);
    }
    s
}

fn mix_case(rng: &mut Rng, s: &str, plain: bool) -> String {
    if plain {
        return s.to_string();
    }
    match rng.below(4) {
        0 => s.to_uppercase(),
        1 => s.to_lowercase(),
        _ => s.chars().map(|c| if rng.chance(1, 2) { c.to_ascii_uppercase() } else { c.to_ascii_lowercase() }).collect(),
    }
}

fn reg(rng: &mut Rng) -> Register {
    *rng.pick(&[Register::R0, Register::R1, Register::R2, Register::R3])
}
fn reg_text(rng: &mut Rng, r: Register, plain: bool) -> String {
    let n = match r {
        Register::R0 => 0,
        Register::R1 => 1,
        Register::R2 => 2,
        Register::R3 => 3,
    };
    if n == 3 && !plain && rng.chance(1, 3) {
        return "PC".into();
    }
    format!("{}{}", if plain || rng.chance(1, 2) { "R" } else { "r" }, n)
}

pub fn num_text(rng: &mut Rng, n: u32, bits: u32, plain: bool, dec_only: bool) -> String {
    let zeros = |rng: &mut Rng| -> String {
        if plain {
            String::new()
        } else {
            let many = rng.chance(1, 10);
            "0".repeat(rng.below(if many { 12 } else { 3 }) as usize)
        }
    };
    let style = if dec_only || plain { 0 } else { rng.below(3) };
    match style {
        0 => format!("{}{}", zeros(rng), n),
        1 => {
            let h = if rng.chance(1, 2) { format!("{:x}", n) } else { format!("{:X}", n) };
            // at most bits/4 hex digits after the leading zeros
            format!("0x{}{}", zeros(rng), h)
        }
        _ => {
            let _ = bits;
            format!("0b{}{:b}", zeros(rng), n)
        }
    }
}

fn blanks(rng: &mut Rng, plain: bool, min: usize) -> String {
    if plain {
        return " ".repeat(min.max(1));
    }
    let n = min + rng.below(3) as usize;
    (0..n.max(min)).map(|_| if rng.chance(1, 5) { '\t' } else { ' ' }).collect()
}

fn comment_text(rng: &mut Rng) -> String {
    let pool: Vec<char> = " abcXYZ019;:,.()+-*#!\t\"'<>=_éß€λ\\/".chars().collect();
    let n = rng.below(24);
    let mut t: String = (0..n).map(|_| *rng.pick(&pool)).collect();
    // characters Unicode counts as white space but the parser's trimming (blank, tab, semicolon) does
    // not: at the ends of a comment they must survive formatting and re-parsing
    let exotic: Vec<char> = "\u{b}\u{c}\u{85}\u{a0}\u{1680}\u{2003}\u{2028}\u{2029}\u{202f}\u{205f}\u{3000}\u{feff}\u{200b}".chars().collect();
    if rng.chance(1, 4) {
        for _ in 0..1 + rng.below(2) {
            t.push(*rng.pick(&exotic));
        }
        if rng.chance(1, 3) {
            t.push(' ');
        }
    }
    if rng.chance(1, 8) {
        t.insert(0, *rng.pick(&exotic));
    }
    if rng.chance(1, 8) && !t.is_empty() {
        let k = t.char_indices().nth(rng.below(t.chars().count() as u64) as usize).map(|(i, _)| i).unwrap_or(0);
        t.insert(k, *rng.pick(&exotic));
    }
    t
}
pub fn trim_comment(s: &str) -> String {
    s.trim_matches(|c| " \t;".contains(c)).to_string()
}

struct Ctx<'a> {
    rng: &'a mut Rng,
    labels: Vec<String>, // defined label names (as written at definition)
    plain: bool,
}

impl<'a> Ctx<'a> {
    fn label_ref(&mut self) -> (String, String) {
        // returns (name as referenced in the AST/text) — may differ in case from the definition
        let l = self.rng.pick(&self.labels).clone();
        let r = if self.plain || self.rng.chance(2, 3) { l.clone() } else { mix_case(self.rng, &l, false) };
        (r.clone(), r)
    }
    fn constant(&mut self) -> (Constant, String) {
        if !self.labels.is_empty() && self.rng.chance(1, 4) {
            let (a, t) = self.label_ref();
            (Constant::Label(a), t)
        } else {
            let rb = self.rng.byte() as u32;
            let n = *self.rng.pick(&[0u32, 1, 2, 9, 10, 99, 100, 127, 128, 199, 200, 249, 250, 254, 255, rb]);
            (Constant::Constant(n as u8), num_text(self.rng, n, 8, self.plain, false))
        }
    }
    fn mem(&mut self) -> (MemAddress, String) {
        if self.rng.chance(1, 2) {
            let r = reg(self.rng);
            (MemAddress::Register(r), format!("({})", reg_text(self.rng, r, self.plain)))
        } else {
            let (c, t) = self.constant();
            (MemAddress::Constant(c), format!("({})", t))
        }
    }
    fn src(&mut self) -> (Source, String) {
        match self.rng.below(5) {
            0 => {
                let r = reg(self.rng);
                (Source::Register(r), reg_text(self.rng, r, self.plain))
            }
            1 => {
                let (m, t) = self.mem();
                (Source::MemAddress(m), t)
            }
            2 => {
                let (c, t) = self.constant();
                (Source::Constant(c), t)
            }
            3 => {
                let r = reg(self.rng);
                (Source::RegisterDi(RegisterDi(r)), format!("({}+)", reg_text(self.rng, r, self.plain)))
            }
            _ => {
                let r = reg(self.rng);
                (Source::RegisterDdi(RegisterDdi(r)), format!("(({}+))", reg_text(self.rng, r, self.plain)))
            }
        }
    }
    fn dst(&mut self) -> (Destination, String) {
        match self.rng.below(4) {
            0 => {
                let r = reg(self.rng);
                (Destination::Register(r), reg_text(self.rng, r, self.plain))
            }
            1 => {
                let (m, t) = self.mem();
                (Destination::MemAddress(m), t)
            }
            2 => {
                let r = reg(self.rng);
                (Destination::RegisterDi(RegisterDi(r)), format!("({}+)", reg_text(self.rng, r, self.plain)))
            }
            _ => {
                let r = reg(self.rng);
                (Destination::RegisterDdi(RegisterDdi(r)), format!("(({}+))", reg_text(self.rng, r, self.plain)))
            }
        }
    }
    fn sep(&mut self) -> String {
        blanks(self.rng, self.plain, 1)
    }
    fn comma(&mut self) -> String {
        if self.plain {
            ", ".into()
        } else {
            format!(",{}", blanks(self.rng, false, 0))
        }
    }
    fn mn(&mut self, m: &str) -> String {
        mix_case(self.rng, m, self.plain)
    }

    /// One machine instruction (not a directive).
    fn instruction(&mut self) -> (Instruction, String) {
        use Instruction::*;
        let k = self.rng.below(if self.labels.is_empty() { 41 } else { 50 });
        macro_rules! rr {
            ($v:ident, $m:expr) => {{
                let (a, b) = (reg(self.rng), reg(self.rng));
                let t = format!("{}{}{}{}{}", self.mn($m), self.sep(), reg_text(self.rng, a, self.plain), self.comma(), reg_text(self.rng, b, self.plain));
                ($v(a, b), t)
            }};
        }
        macro_rules! r1 {
            ($v:ident, $m:expr) => {{
                let a = reg(self.rng);
                let t = format!("{}{}{}", self.mn($m), self.sep(), reg_text(self.rng, a, self.plain));
                ($v(a), t)
            }};
        }
        macro_rules! ds {
            ($v:ident, $m:expr) => {{
                let (d, dt) = self.dst();
                let (s, st) = self.src();
                let t = format!("{}{}{}{}{}", self.mn($m), self.sep(), dt, self.comma(), st);
                ($v(d, s), t)
            }};
        }
        macro_rules! lab {
            ($v:ident, $m:expr) => {{
                let (l, lt) = self.label_ref();
                let t = format!("{}{}{}", self.mn($m), self.sep(), lt);
                ($v(l), t)
            }};
        }
        match k {
            0 => r1!(Clr, "CLR"),
            1 => rr!(Add, "ADD"),
            2 => rr!(Adc, "ADC"),
            3 => rr!(Sub, "SUB"),
            4 => rr!(Mul, "MUL"),
            5 => rr!(Div, "DIV"),
            6 => r1!(Inc, "INC"),
            7 => {
                let (s, st) = self.src();
                (Dec(s), format!("{}{}{}", self.mn("DEC"), self.sep(), st))
            }
            8 => r1!(Neg, "NEG"),
            9 => rr!(And, "AND"),
            10 => rr!(Or, "OR"),
            11 => rr!(Xor, "XOR"),
            12 => r1!(Com, "COM"),
            13 => ds!(Bits, "BITS"),
            14 => ds!(Bitc, "BITC"),
            15 => r1!(Tst, "TST"),
            16 => ds!(Cmp, "CMP"),
            17 => ds!(Bitt, "BITT"),
            18 => r1!(Lsr, "LSR"),
            19 => r1!(Asr, "ASR"),
            20 => r1!(Lsl, "LSL"),
            21 => r1!(Rrc, "RRC"),
            22 => r1!(Rlc, "RLC"),
            23 | 24 => ds!(Mov, "MOV"),
            25 => {
                let r = reg(self.rng);
                let (c, ct) = self.constant();
                (LdConstant(r, c), format!("{}{}{}{}{}", self.mn("LD"), self.sep(), reg_text(self.rng, r, self.plain), self.comma(), ct))
            }
            26 => {
                let r = reg(self.rng);
                let (m, mt) = self.mem();
                (LdMemAddress(r, m), format!("{}{}{}{}{}", self.mn("LD"), self.sep(), reg_text(self.rng, r, self.plain), self.comma(), mt))
            }
            27 => {
                let r = reg(self.rng);
                let (m, mt) = self.mem();
                (St(m, r), format!("{}{}{}{}{}", self.mn("ST"), self.sep(), mt, self.comma(), reg_text(self.rng, r, self.plain)))
            }
            28 => r1!(Push, "PUSH"),
            29 => r1!(Pop, "POP"),
            30 => (PushF, self.mn("PUSHF")),
            31 => (PopF, self.mn("POPF")),
            32 => {
                let (s, st) = self.src();
                (Ldsp(s), format!("{}{}{}", self.mn("LDSP"), self.sep(), st))
            }
            33 => {
                let (s, st) = self.src();
                (Ldfr(s), format!("{}{}{}", self.mn("LDFR"), self.sep(), st))
            }
            34 => (Ret, self.mn("RET")),
            35 => (RetI, self.mn("RETI")),
            36 => (Stop, self.mn("STOP")),
            37 => (Nop, self.mn("NOP")),
            38 => (Ei, self.mn("EI")),
            39 => (Di, self.mn("DI")),
            40 => r1!(Inc, "INC"),
            41 => lab!(Jmp, "JMP"),
            42 => lab!(Jcs, "JCS"),
            43 => lab!(Jcc, "JCC"),
            44 => lab!(Jzs, "JZS"),
            45 => lab!(Jzc, "JZC"),
            46 => lab!(Jns, "JNS"),
            47 => lab!(Jnc, "JNC"),
            48 => lab!(Jr, "JR"),
            _ => lab!(Call, "CALL"),
        }
    }
}

/// Size in bytes an instruction occupies (for keeping generated programs inside the RAM).
fn approx_size(t: &str) -> usize {
    // generous: opcode + 3
    let _ = t;
    4
}

/// Generate a valid program. Returns (expected AST, source text).
pub fn program(rng: &mut Rng, o: &GenOpts) -> (Asm, String) {
    let plain = o.plain;
    let nlines = 1 + rng.below(o.max_lines as u64) as usize;
    // choose the label names first so that forward references are possible
    let nlabels = rng.below((nlines as u64 / 2 + 1).min(12)) as usize;
    let mut names: Vec<String> = vec![];
    while names.len() < nlabels {
        let n = label_name(rng);
        if !names.iter().any(|x| x.to_lowercase() == n.to_lowercase()) {
            names.push(n);
        }
    }
    let mut ctx = Ctx { rng, labels: names.clone(), plain };
    let mut lines: Vec<Line> = vec![];
    let mut text: Vec<String> = vec![];
    let mut to_define: Vec<String> = names.clone();
    let mut addr: usize = 0;
    let budget = if o.fit_ram { 230 } else { 100_000 };
    let mut i = 0;
    while i < nlines || !to_define.is_empty() {
        i += 1;
        let lead = if plain { String::new() } else { blanks(ctx.rng, false, 0) };
        let trail = if plain { String::new() } else { blanks(ctx.rng, false, 0) };
        let cmt = if ctx.rng.chance(1, 4) { Some(comment_text(ctx.rng)) } else { None };
        let cmt_ast = cmt.as_ref().map(|c| trim_comment(c));
        let cmt_txt = cmt.as_ref().map(|c| format!(";{}", c)).unwrap_or_default();
        let kind = ctx.rng.below(20);
        let must_define = i > nlines;
        if (must_define || kind < 3) && !to_define.is_empty() {
            let l = to_define.remove(0);
            if ctx.rng.chance(1, 6) && !must_define {
                // .EQU definition
                let v = ctx.rng.byte();
                let t = format!("{}{}{}{}{}", ctx.mn(".EQU"), ctx.sep(), l, ctx.sep(), num_text(ctx.rng, v as u32, 8, plain, true));
                lines.push(Line::Instruction(Instruction::AsmEquals(l.clone(), v), cmt_ast));
                text.push(format!("{}{}{}{}", lead, t, trail, cmt_txt));
            } else {
                lines.push(Line::Label(l.clone(), cmt_ast));
                text.push(format!("{}{}:{}{}", lead, l, trail, cmt_txt));
            }
            continue;
        }
        if kind == 3 {
            lines.push(Line::Empty(cmt_ast));
            text.push(format!("{}{}", lead, cmt_txt));
            continue;
        }
        if addr + 8 >= budget {
            lines.push(Line::Empty(cmt_ast));
            text.push(format!("{}{}", lead, cmt_txt));
            continue;
        }
        let (ins, t) = if kind == 4 {
            // directives
            match ctx.rng.below(7) {
                0 => {
                    let target = if o.allow_backward_org && ctx.rng.chance(1, 3) { ctx.rng.below(addr as u64 + 1) as usize } else { (addr + ctx.rng.below(6) as usize).min(255) };
                    let t = format!("{}{}{}", ctx.mn(".ORG"), ctx.sep(), num_text(ctx.rng, target as u32, 8, plain, false));
                    if target > addr {
                        addr = target;
                    }
                    (Instruction::AsmOrigin(target as u8), t)
                }
                1 => {
                    let n = ctx.rng.below(5) as u8;
                    addr += n as usize;
                    (Instruction::AsmByte(n), format!("{}{}{}", ctx.mn(".BYTE"), ctx.sep(), num_text(ctx.rng, n as u32, 8, plain, false)))
                }
                2 => {
                    let k = 1 + ctx.rng.below(4) as usize;
                    let vs: Vec<u8> = (0..k).map(|_| ctx.rng.byte()).collect();
                    addr += k;
                    let parts: Vec<String> = vs.iter().map(|v| num_text(ctx.rng, *v as u32, 8, plain, false)).collect();
                    let mut t = format!("{}{}", ctx.mn(".DB"), ctx.sep());
                    for (j, p) in parts.iter().enumerate() {
                        if j > 0 {
                            t += &ctx.comma();
                        }
                        t += p;
                    }
                    (Instruction::AsmDefineBytes(vs), t)
                }
                3 => {
                    let k = 1 + ctx.rng.below(3) as usize;
                    let vs: Vec<u16> = (0..k).map(|_| { let rw = ctx.rng.next() as u16; *ctx.rng.pick(&[0u16, 1, 255, 256, 4095, 4096, 9999, 10000, 59999, 60000, 65534, 65535, rw]) }).collect();
                    addr += 2 * k;
                    let parts: Vec<String> = vs.iter().map(|v| num_text(ctx.rng, *v as u32, 16, plain, false)).collect();
                    let mut t = format!("{}{}", ctx.mn(".DW"), ctx.sep());
                    for (j, p) in parts.iter().enumerate() {
                        if j > 0 {
                            t += &ctx.comma();
                        }
                        t += p;
                    }
                    (Instruction::AsmDefineWords(vs), t)
                }
                4 => {
                    let (s, st) = *ctx.rng.pick(&[(Stacksize::_0, "0"), (Stacksize::_16, "16"), (Stacksize::_32, "32"), (Stacksize::_48, "48"), (Stacksize::_64, "64"), (Stacksize::NotSet, "NOSET")]);
                    let st = if st == "NOSET" { ctx.mn("NOSET") } else { st.to_string() };
                    (Instruction::AsmStacksize(s), format!("{}{}{}", ctx.mn("*STACKSIZE"), ctx.sep(), st))
                }
                5 => match ctx.rng.below(3) {
                    0 => (Instruction::AsmProgramsize(Programsize::Auto), format!("{}{}{}", ctx.mn("*PROGRAMSIZE"), ctx.sep(), ctx.mn("AUTO"))),
                    1 => (Instruction::AsmProgramsize(Programsize::NotSet), format!("{}{}{}", ctx.mn("*PROGRAMSIZE"), ctx.sep(), ctx.mn("NOSET"))),
                    _ => {
                        let n = ctx.rng.byte();
                        (Instruction::AsmProgramsize(Programsize::Size(n)), format!("{}{}{}", ctx.mn("*PROGRAMSIZE"), ctx.sep(), num_text(ctx.rng, n as u32, 8, plain, true)))
                    }
                },
                _ => {
                    let n = ctx.rng.below(3) as u8;
                    addr += n as usize;
                    (Instruction::AsmByte(n), format!("{}{}{}", ctx.mn(".BYTE"), ctx.sep(), num_text(ctx.rng, n as u32, 8, plain, false)))
                }
            }
        } else {
            let (ins, t) = ctx.instruction();
            addr += approx_size(&t);
            (ins, t)
        };
        lines.push(Line::Instruction(ins, cmt_ast));
        text.push(format!("{}{}{}{}", lead, t, trail, cmt_txt));
    }
    // header
    let hc = if ctx.rng.chance(1, 4) { Some(comment_text(ctx.rng)) } else { None };
    let mut header = String::from("#! mrasm");
    if !plain && ctx.rng.chance(1, 2) {
        header.push(if ctx.rng.chance(1, 4) { '\t' } else { ' ' });
    }
    if let Some(c) = &hc {
        header += &format!(";{}", c);
    }
    let eol = if !plain && ctx.rng.chance(1, 6) { "\r\n" } else { "\n" };
    let mut src = header;
    for t in &text {
        src += eol;
        src += t;
    }
    if lines.is_empty() {
        lines.push(Line::Empty(None));
        src += eol;
    }
    (Asm { comment_after_shebang: hc.map(|c| trim_comment(&c)), lines }, src)
}
