//! C02 / C06 (translator), C03 / C16 (parser, formatter): generated programs against model and specification.
use crate::asmgen::{self, GenOpts};
use crate::astser;
use crate::out::Out;
use crate::rng::Rng;
use emulator_2a_lib::compiler::{ByteCode, Translator};
use emulator_2a_lib::machine::{Machine, MachineConfig};
use emulator_2a_lib::parser::{Asm, AsmParser};
use std::panic::{catch_unwind, AssertUnwindSafe};
use std::sync::Mutex;

pub static LAST_PANIC: Mutex<String> = Mutex::new(String::new());

pub fn install_panic_hook() {
    std::panic::set_hook(Box::new(|info| {
        let msg = if let Some(s) = info.payload().downcast_ref::<&str>() {
            s.to_string()
        } else if let Some(s) = info.payload().downcast_ref::<String>() {
            s.clone()
        } else {
            "?".into()
        };
        let loc = info.location().map(|l| format!("{}:{}", l.file(), l.line())).unwrap_or_default();
        if let Ok(mut g) = LAST_PANIC.lock() {
            *g = format!("{} @ {}", msg, loc);
        }
    }));
}

fn panic_kind() -> String {
    let m = LAST_PANIC.lock().map(|g| g.clone()).unwrap_or_default();
    if m.contains("Compilation aborted") {
        "orgBackwards".into()
    } else if m.contains("attempt to add with overflow") && m.contains("compiler.rs") {
        "addrOverflow".into()
    } else if m.contains("Labels must be defined") {
        "undefinedLabel".into()
    } else if m.contains("index out of bounds") && m.contains("machine/mod.rs") {
        "imageTooLarge".into()
    } else {
        format!("other({})", m.replace(' ', "_"))
    }
}

pub fn bytecode_str(b: &ByteCode) -> String {
    let lines: Vec<String> = b.lines.iter().map(|(_, bs)| bs.iter().map(|x| format!("{:02x}", x)).collect::<String>()).collect();
    format!("ok ss={} ps={} {}", astser::ss(&b.stacksize), astser::ps(&b.programsize), lines.join(","))
}

pub fn compile_str(a: &Asm) -> String {
    match catch_unwind(AssertUnwindSafe(|| Translator::compile(a))) {
        Ok(b) => bytecode_str(&b),
        Err(_) => format!("panic:{}", panic_kind()),
    }
}

pub fn compile_load_str(a: &Asm) -> String {
    match catch_unwind(AssertUnwindSafe(|| {
        let b = Translator::compile(a);
        let mut m = Machine::new(MachineConfig::default());
        m.load(b);
        m
    })) {
        Ok(_) => "ok".into(),
        Err(_) => format!("panic:{}", panic_kind()),
    }
}

pub fn run_c02(out: &mut Out, seed: u64, thorough: bool) {
    let mut rng = Rng::new(seed);
    let n = if thorough { 20000 } else { 2500 };
    for i in 0..n {
        let o = GenOpts { max_lines: if i % 10 == 0 { 60 } else { 14 }, allow_backward_org: false, fit_ram: true, plain: i % 3 == 0 };
        let (ast, text) = asmgen::program(&mut rng, &o);
        // the real parser must produce the expected AST (otherwise the generator or the parser is off: C03)
        match AsmParser::parse(&text) {
            Ok(parsed) if parsed == ast => {}
            Ok(_) => {
                out.count("generator-parser-ast-mismatch");
                continue;
            }
            Err(_) => {
                out.count("generator-text-rejected");
                continue;
            }
        }
        let ser = astser::asm(&ast);
        let r = compile_str(&ast);
        if i < 3 {
            out.sample(format!("{} => {}", text.replace('\n', "\\n").replace('\r', "\\r").replace('\t', "\\t"), r));
        }
        out.emit(&format!("compile {} {}", hexs(&text), ser), &r);
        out.emit(&format!("spec.encode {} {}", hexs(&text), ser), &r);
        out.distinct_case(&ser);
        out.count(if r.starts_with("ok") { "compiled" } else { "panicked" });
    }
    // directed: a name defined more than once (label repeated, also in another letter case; .EQU given a new value; a label
    // and an .EQU of the same name) with absolute, relative and data references before, BETWEEN and after the definitions:
    // every reference takes the LAST definition
    let refs = ["LD R0, {n}", "LD R1, ({n})", "ST ({n}), R2", "JMP {n}", "CALL {n}", "JR {n}", "JZS {n}", "CMP R0, {n}", "BITS ({n}), 1", "LDSP {n}", "DEC ({n})"];
    let defs: [(&str, &str); 5] = [("{n}:", "{n}:"), ("{n}:", "{N}:"), (".EQU {n} 7", ".EQU {n} 9"), ("{n}:", ".EQU {n} 200"), (".EQU {N} 3", "{n}:")];
    for (d1, d2) in defs.iter() {
        for (ri, r) in refs.iter().enumerate() {
            for pos in 0..3 {
                let name = format!("nm{}", ri);
                let sub = |t: &str| t.replace("{n}", &name).replace("{N}", &name.to_uppercase());
                let mut lines: Vec<String> = vec!["#! mrasm".into(), " NOP".into()];
                if pos == 0 { lines.push(format!(" {}", sub(r))); }
                lines.push(sub(d1));
                lines.push(" INC R0".into());
                if pos == 1 { lines.push(format!(" {}", sub(r))); }
                lines.push(" INC R1".into());
                lines.push(sub(d2));
                lines.push(" NOP".into());
                if pos == 2 { lines.push(format!(" {}", sub(r))); }
                lines.push(" STOP".into());
                let text = lines.join("\n") + "\n";
                if let Ok(parsed) = AsmParser::parse(&text) {
                    let ser = astser::asm(&parsed);
                    let res = compile_str(&parsed);
                    out.emit(&format!("compile {} {}", hexs(&text), ser), &res);
                    out.emit(&format!("spec.encode {} {}", hexs(&text), ser), &res);
                    out.count("redefined-name");
                } else {
                    out.count("redefined-name-rejected");
                }
            }
        }
    }
}

pub fn run_c06(out: &mut Out, seed: u64, thorough: bool) {
    let mut rng = Rng::new(seed);
    let n = if thorough { 20000 } else { 2500 };
    for i in 0..n {
        let o = GenOpts { max_lines: if i % 7 == 0 { 120 } else { 16 }, allow_backward_org: i % 5 == 0, fit_ram: i % 4 != 0, plain: i % 3 == 0 };
        let (ast, text) = asmgen::program(&mut rng, &o);
        let parsed = match AsmParser::parse(&text) {
            Ok(p) => p,
            Err(_) => {
                out.count("generator-text-rejected");
                continue;
            }
        };
        let _ = ast;
        let ser = astser::asm(&parsed);
        let r = compile_load_str(&parsed);
        if i < 2 {
            out.sample(format!("{} => {}", text.replace('\n', "\\n").replace('\r', "\\r").replace('\t', "\\t"), r));
        }
        out.emit(&format!("compileload {} {}", hexs(&text), ser), &r);
        out.emit(&format!("spec.c06 {} {}", hexs(&text), ser), &r);
        out.distinct_case(&ser);
        out.count(&r);
    }
    // directed: images of every size 0..300, .ORG to every address relative to the current one,
    // labels referenced in every letter case, every DEC operand shape
    for size in 0..=300usize {
        let mut src = String::from("#! mrasm");
        let mut left = size;
        while left > 0 {
            let k = left.min(40);
            src += "\n.DB ";
            src += &(0..k).map(|j| ((j * 7 + size) % 256).to_string()).collect::<Vec<_>>().join(", ");
            left -= k;
        }
        directed(out, &src);
    }
    for cur in [0usize, 1, 5, 100, 239, 240, 254].iter() {
        for target in [0usize, 1, 4, 5, 6, 99, 100, 101, 238, 239, 240, 241, 254, 255].iter() {
            let src = format!("#! mrasm\n.BYTE {}\n.ORG {}\nNOP", cur.min(&255), target);
            directed(out, &src);
        }
    }
    for (d, r) in [("loop", "LOOP"), ("Loop", "lOOP"), ("LOOP", "loop"), ("a_B1", "A_b1")].iter() {
        for ins in ["JR", "JMP", "CALL", "JCS", "LD R0,", "LDSP", "DEC"].iter() {
            let operand = if *ins == "DEC" { format!("({})", r) } else { r.to_string() };
            directed(out, &format!("#! mrasm\n{}:\n {} {}\n .EQU k_{} 7\n MOV ({}), K_{}", d, ins, operand, d, r, d.to_uppercase()));
        }
    }
    for op in ["R1", "(R1)", "(R2+)", "((R0+))", "(L)", "7", "L", "(0xF0)"].iter() {
        directed(out, &format!("#! mrasm\nL:\n DEC {}", op));
    }
    // a reference to a label that is defined nowhere, in every operand position: rejected by the parser
    // (then the property says nothing), and if it is accepted it must still compile and load
    for src in undefined_label_programs() {
        directed(out, &src);
    }
    // a name bound more than once (label repeated at another address, other letter case, label after .EQU and the other
    // way round): accepted by the parser, so translation and loading must not panic
    for (d1, d2) in [("nm:", "nm:"), ("nm:", "NM:"), ("Nm:", "nM:"), (".EQU nm 7", "NM:"), ("nm:", ".EQU NM 9"), (".EQU nm 1", ".EQU Nm 2")] {
        for r in ["JR nm", "JMP nm", "LD R0, nm", "ST (NM), R1", "NOP"] {
            directed(out, &format!("#! mrasm\n NOP\n{}\n INC R0\n {}\n{}\n INC R1\n STOP", d1, r, d2));
            directed(out, &format!("#! mrasm\n{}\n{}\n {}", d1, d2, r));
        }
    }
}

/// Every operand position that can carry a label, with a label that is defined nowhere (`missing`
/// in three spellings) next to labels that are defined: the parser must reject each of them.
pub fn undefined_label_programs() -> Vec<String> {
    let mut v = Vec::new();
    let forms: &[&str] = &[
        "JR X", "JMP X", "CALL X", "JCS X", "JCC X", "JZS X", "JZC X", "JNS X", "JNC X",
        "LD R0, X", "LD R1, (X)", "ST (X), R2", "MOV R0, X", "MOV R0, (X)", "MOV (X), R0", "MOV (X), 7", "MOV (here), (X)",
        "MOV (X), (here)", "MOV (R1+), X", "MOV ((R2+)), (X)", "CMP R0, X", "CMP (X), R1", "CMP R2, (X)", "BITS (X), 1", "BITS R0, X",
        "BITC (X), 0x10", "BITC R1, (X)", "BITT (X), k", "BITT R0, X", "DEC X", "DEC (X)", "LDSP X", "LDSP (X)", "LDFR X", "LDFR (X)",
    ];
    for name in ["missing", "Missing_1", "_m"] {
        for f in forms {
            let line = f.replace('X', name);
            v.push(format!("#! mrasm\nhere:\n .EQU k 3\n {}\n JR here", line));
        }
    }
    v
}

fn directed(out: &mut Out, src: &str) {
    match AsmParser::parse(src) {
        Ok(p) => {
            let ser = astser::asm(&p);
            let r = compile_load_str(&p);
            out.emit(&format!("compileload {} {}", hexs(src), ser), &r);
            out.emit(&format!("spec.c06 {} {}", hexs(src), ser), &r);
            out.count(&format!("directed:{}", r));
        }
        Err(_) => out.count("directed-rejected"),
    }
}

// ---------------------------------------------------------------------------------------------
// C03 / C16

fn roundtrip_str(parsed: &Asm, rendered: &str) -> String {
    match catch_unwind(AssertUnwindSafe(|| AsmParser::parse(rendered))) {
        Ok(Ok(again)) => {
            if &again == parsed {
                "same".to_string()
            } else {
                "differs".to_string()
            }
        }
        Ok(Err(_)) => "rejected".to_string(),
        Err(_) => "panic".to_string(),
    }
}

/// The implementation's answer to one self-contained assembler line (replay): the source text is
/// the first argument (hex), the real parser / translator / formatter are run on it again.
pub fn eval_line(ws: &[&str]) -> Option<String> {
    let head = *ws.first()?;
    if !["compile", "spec.encode", "compileload", "spec.c06", "fmt", "parse", "spec.parse", "spec.noparsepanic", "spec.reject",
        "spec.accept", "spec.roundtrip"].contains(&head) {
        return None;
    }
    let text = String::from_utf8(crate::sess::parse_hex(ws.get(1)?)?).ok()?;
    let parsed = || catch_unwind(AssertUnwindSafe(|| AsmParser::parse(&text))).ok().and_then(|r| r.ok());
    Some(match head {
        "compile" | "spec.encode" => compile_str(&parsed()?),
        "compileload" | "spec.c06" => compile_load_str(&parsed()?),
        "fmt" => hexs(&format!("{}", parsed()?)),
        "parse" | "spec.parse" => parse_str(&text),
        "spec.noparsepanic" => (if parse_str(&text) == "panic" { "panic" } else { "ok" }).to_string(),
        "spec.reject" | "spec.accept" => (if parse_str(&text).starts_with("ok") { "accepted" } else { "reject" }).to_string(),
        "spec.roundtrip" => {
            let p = parsed()?;
            let rendered = format!("{}", p);
            roundtrip_str(&p, &rendered)
        }
        _ => return None,
    })
}

fn hexs(s: &str) -> String {
    if s.is_empty() {
        return "-".into();
    }
    s.bytes().map(|b| format!("{:02x}", b)).collect()
}

pub fn parse_str(text: &str) -> String {
    use emulator_2a_lib::parser::ParserError;
    match catch_unwind(AssertUnwindSafe(|| AsmParser::parse(text))) {
        Ok(Ok(a)) => format!("ok {}", astser::asm(&a)),
        Ok(Err(ParserError::InvalidSyntax(_))) => "syntax".into(),
        Ok(Err(ParserError::UndefinedLabels(v))) => format!("undefined {}", v.join(",")),
        Ok(Err(ParserError::TooManyLabels)) => "toomany".into(),
        Err(_) => "panic".into(),
    }
}

/// One random single-token mutation of a valid source text (usually makes it invalid).
fn mutate(rng: &mut Rng, text: &str) -> String {
    let chars: Vec<char> = text.chars().collect();
    if chars.len() < 10 {
        return text.to_string();
    }
    let i = 8 + rng.below((chars.len() - 8) as u64) as usize;
    let mut v = chars.clone();
    match rng.below(8) {
        0 => {
            v.remove(i);
        }
        1 => {
            let c = v[i];
            v.insert(i, c);
        }
        2 => v[i] = *rng.pick(&[',', '(', ')', '+', ':', ';', ' ', '0', '9', 'R', 'x', '#', '\t', '.', '*']),
        3 => {
            // boundary numerals
            let ins: Vec<char> = rng.pick(&["256", "0x100", "0b100000000", "65536", "0x10000", "00255", "0x0FF", "0b011111111", "0xG"]).chars().collect();
            for (k, c) in ins.iter().enumerate() {
                v.insert(i + k, *c);
            }
        }
        4 => {
            // drop the header
            return text.splitn(2, '\n').nth(1).unwrap_or("").to_string();
        }
        5 => {
            // a reference to an undefined label
            return format!("{}\nJR undefined_label_{}", text, rng.below(100));
        }
        6 => {
            // a label that starts like a register
            return format!("{}\n{}x:", text, rng.pick(&["R", "r", "PC", "pc", "SP", "sp"]));
        }
        _ => {
            v.truncate(i);
        }
    }
    v.into_iter().collect()
}

fn raw_string(rng: &mut Rng) -> String {
    let pool: Vec<char> = "#! mrasm\n\r\t ;:,()+.*0123456789abxRrPCLDMOVJ_é€λ\u{0}\u{7f}\u{2028}".chars().collect();
    let n = rng.below(60);
    let mut s: String = (0..n).map(|_| *rng.pick(&pool)).collect();
    if rng.chance(1, 2) {
        s = format!("#! mrasm\n{}", s);
    }
    s
}

pub fn run_c03(out: &mut Out, seed: u64, thorough: bool) {
    let mut rng = Rng::new(seed);
    let n = if thorough { 12000 } else { 1500 };
    for i in 0..n {
        let o = GenOpts { max_lines: if i % 9 == 0 { 50 } else { 10 }, allow_backward_org: true, fit_ram: false, plain: i % 4 == 0 };
        let (ast, text) = asmgen::program(&mut rng, &o);
        let r = parse_str(&text);
        if i < 2 {
            out.sample(format!("{} => {}", text.replace('\n', "\\n").replace('\r', "\\r").replace('\t', "\\t"), &r[..r.len().min(120)]));
        }
        let hx = hexs(&text);
        // model of the parser (PEG interpreter over the translated grammar + AST builders)
        out.emit(&format!("parse {}", hx), &r);
        // expected AST known by construction
        out.emit(&format!("spec.parse {} {}", hx, astser::asm(&ast)), &r);
        out.distinct_case(&text);
        out.count("valid");
        // single-token mutations: model must agree; most must be rejected
        for _ in 0..2 {
            let m = mutate(&mut rng, &text);
            let rm = parse_str(&m);
            out.emit(&format!("parse {}", hexs(&m)), &rm);
            out.emit(&format!("spec.noparsepanic {}", hexs(&m)), if rm == "panic" { "panic" } else { "ok" });
            out.count(if rm.starts_with("ok") { "mutant-accepted" } else { "mutant-rejected" });
        }
    }
    // directed rejects: boundary numerals, missing header, 41 labels, undefined label, register-like labels
    let rejects: Vec<String> = vec![
        "".into(), "NOP".into(), "#!mrasm\nNOP".into(), "#! mrasm  \nNOP".into(), " #! mrasm\nNOP".into(),
        "#! mrasm\nLD R0, 256".into(), "#! mrasm\nLD R0, 0x100".into(), "#! mrasm\nLD R0, 0b100000000".into(),
        "#! mrasm\n.DW 65536".into(), "#! mrasm\n.DW 0x10000".into(), "#! mrasm\n.DW 0b10000000000000000".into(),
        "#! mrasm\nJR nowhere".into(), "#! mrasm\nR0x:".into(), "#! mrasm\npcx:".into(), "#! mrasm\nSPx:".into(),
        "#! mrasm\nLD R4, 1".into(), "#! mrasm\nLD pc, 1".into(), "#! mrasm\nMOV 5, R0".into(), "#! mrasm\nADD R0 , R1".into(),
        "#! mrasm\nADD R0,R1 R2".into(), "#! mrasm\n.EQU x 0x10".into(), "#! mrasm\n*STACKSIZE 17".into(),
        "#! mrasm\n*STACKSIZE 016".into(), "#! mrasm\nNOP NOP".into(), "#! mrasm\nlabel :".into(), "#! mrasm\n.DB".into(),
        "#! mrasm\n.DB 1,".into(), "#! mrasm\nLD R0,(R1+".into(), "#! mrasm\nLD R0,((R1))".into(),
        format!("#! mrasm\n{}", (0..41).map(|i| format!("l{}:", i)).collect::<Vec<_>>().join("\n")),
    ];
    let mut rejects = rejects;
    rejects.extend(undefined_label_programs());
    // a radix prefix without digits, a lone sign or separator, in every numeric operand position
    for lit in ["0x", "0b", "0X1", "0B1", "0x_", "0b2", "0xG", "-1", "+1", "1_0", "0x 1"] {
        for form in ["LD R0, N", "LD R0, (N)", "ST (N), R1", "MOV (N), N", "CMP R0, N", "LDSP N", "LDFR (N)", "DEC N", ".DB N", ".DB 1, N, 3",
                     ".DW N", ".DW 1, N", ".BYTE N", ".ORG N", ".EQU k N", "*PROGRAMSIZE N", "BITS (N), 1", "BITT R0, N"] {
            rejects.push(format!("#! mrasm\n {}", form.replace('N', lit)));
        }
    }
    for r in &rejects {
        let rm = parse_str(r);
        out.emit(&format!("parse {}", hexs(r)), &rm);
        out.emit(&format!("spec.reject {}", hexs(r)), if rm.starts_with("ok") { "accepted" } else { "reject" });
        out.count("directed-reject");
    }
    // directed accepts at the boundaries
    let accepts: Vec<(String, String)> = vec![
        ("#! mrasm\nLD R0, 255".into(), "- | I - LDC R0 #255".into()),
        ("#! mrasm\nLD R0, 0xff".into(), "- | I - LDC R0 #255".into()),
        ("#! mrasm\nLD R0, 0b11111111".into(), "- | I - LDC R0 #255".into()),
        ("#! mrasm\nLD R0, 0b0000000011111111".into(), "- | I - LDC R0 #255".into()),
        ("#! mrasm\nLD R0, 000000255".into(), "- | I - LDC R0 #255".into()),
        ("#! mrasm\n.DW 65535, 0xFFFF, 0b1111111111111111, 0".into(), "- | I - DW 65535,65535,65535,0".into()),
        ("#! mrasm\nLD PC, 0".into(), "- | I - LDC R3 #0".into()),
        (format!("#! mrasm\n{}", (0..40).map(|i| format!("l{}:", i)).collect::<Vec<_>>().join("\n")),
         format!("- | {}", (0..40).map(|i| format!("L - l{}", i)).collect::<Vec<_>>().join(" | "))),
    ];
    for (t, e) in &accepts {
        let rm = parse_str(t);
        out.emit(&format!("parse {}", hexs(t)), &rm);
        out.emit(&format!("spec.parse {} {}", hexs(t), e), &rm);
        out.count("directed-accept");
    }
    // label-count sweep: N definitions made of labels, .EQU names and re-definitions (same spelling,
    // other letter case, .EQU of an existing label): accepted iff N <= 40, whatever the number of distinct names
    for total in [1usize, 2, 39, 40, 41, 42, 45, 60, 255, 256, 257, 296, 297, 512, 552] {
        for dups in [0usize, 1, 2, 7, 20] {
            if dups >= total {
                continue;
            }
            for style in 0..4 {
                // far beyond the limit (where a narrow counter would wrap): two shapes are enough
                if total > 100 && (style >= 2 || (dups != 0 && dups != 7)) {
                    continue;
                }
                let distinct = total - dups;
                let mut lines: Vec<String> = vec![];
                for i in 0..distinct {
                    if (style == 1 || style == 3) && i % 3 == 1 {
                        lines.push(format!(".EQU n{} {}", i, i));
                    } else {
                        lines.push(format!("n{}:", i));
                    }
                }
                for d in 0..dups {
                    let k = (d * 7 + rng.below(distinct as u64) as usize) % distinct;
                    lines.push(match style {
                        0 => format!("n{}:", k),
                        1 => format!("N{}:", k),
                        2 => format!(".EQU n{} 3", k),
                        _ => format!(".EQU N{} 16", k),
                    });
                }
                // interleave deterministically
                let cut = rng.below(lines.len() as u64) as usize;
                lines.rotate_left(cut);
                let t = format!("#! mrasm\n{}\n JR n0", lines.join("\n"));
                let rm = parse_str(&t);
                out.emit(&format!("parse {}", hexs(&t)), &rm);
                let verdict = if rm.starts_with("ok") { "accepted" } else { "reject" };
                if total > 40 {
                    out.emit(&format!("spec.reject {}", hexs(&t)), verdict);
                } else {
                    out.emit(&format!("spec.accept {}", hexs(&t)), verdict);
                }
                out.count("label-count-sweep");
            }
        }
    }
    // raw strings: never a panic, and the model agrees on accept/reject
    let m = if thorough { 40000 } else { 4000 };
    for _ in 0..m {
        let t = raw_string(&mut rng);
        let rm = parse_str(&t);
        out.emit(&format!("parse {}", hexs(&t)), &rm);
        out.emit(&format!("spec.noparsepanic {}", hexs(&t)), if rm == "panic" { "panic" } else { "ok" });
        out.count(if rm.starts_with("ok") { "raw-accepted" } else { "raw-rejected" });
    }
}

pub fn run_c16(out: &mut Out, seed: u64, thorough: bool) {
    let mut rng = Rng::new(seed);
    let n = if thorough { 20000 } else { 2500 };
    for i in 0..n {
        let o = GenOpts { max_lines: if i % 9 == 0 { 60 } else { 12 }, allow_backward_org: true, fit_ram: false, plain: i % 4 == 0 };
        let (_ast, text) = asmgen::program(&mut rng, &o);
        let parsed = match AsmParser::parse(&text) {
            Ok(p) => p,
            Err(_) => {
                out.count("generator-text-rejected");
                continue;
            }
        };
        let rendered = format!("{}", parsed);
        // model of the formatter
        out.emit(&format!("fmt {} {}", hexs(&text), astser::asm(&parsed)), &hexs(&rendered));
        // the property itself on the real code
        let rt = roundtrip_str(&parsed, &rendered);
        if i < 2 {
            out.sample(format!("{} => {}", rendered.replace('\n', "\\n"), rt));
        }
        out.emit(&format!("spec.roundtrip {}", hexs(&text)), &rt);
        // and the model parser on the rendered text
        out.emit(&format!("parse {}", hexs(&rendered)), &parse_str(&rendered));
        out.distinct_case(&text);
        out.count(&rt);
    }
}
