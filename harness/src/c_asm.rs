//! C02 / C06 (translator), C03 / C16 (parser, formatter): generated programs against model and specification.
use crate::asmgen::{self, GenOpts};
use crate::astser;
use crate::out::Out;
use crate::rng::Rng;
use emulator_2a_lib::compiler::{ByteCode, Translator};
use emulator_2a_lib::machine::{Machine, MachineConfig};
use emulator_2a_lib::parser::{Asm, AsmParser};
use std::panic::{catch_unwind, AssertUnwindSafe};
use std::sync::Mutex;

pub static LAST_PANIC: Mutex<String> = Mutex::new(String::new());

pub fn install_panic_hook() {
    std::panic::set_hook(Box::new(|info| {
        let msg = if let Some(s) = info.payload().downcast_ref::<&str>() {
            s.to_string()
        } else if let Some(s) = info.payload().downcast_ref::<String>() {
            s.clone()
        } else {
            "?".into()
        };
        let loc = info.location().map(|l| format!("{}:{}", l.file(), l.line())).unwrap_or_default();
        if let Ok(mut g) = LAST_PANIC.lock() {
            *g = format!("{} @ {}", msg, loc);
        }
    }));
}

fn panic_kind() -> String {
    let m = LAST_PANIC.lock().map(|g| g.clone()).unwrap_or_default();
    if m.contains("Compilation aborted") {
        "orgBackwards".into()
    } else if m.contains("attempt to add with overflow") && m.contains("compiler.rs") {
        "addrOverflow".into()
    } else if m.contains("Labels must be defined") {
        "undefinedLabel".into()
    } else if m.contains("index out of bounds") && m.contains("machine/mod.rs") {
        "imageTooLarge".into()
    } else {
        format!("other({})", m.replace(' ', "_"))
    }
}

pub fn bytecode_str(b: &ByteCode) -> String {
    let lines: Vec<String> = b.lines.iter().map(|(_, bs)| bs.iter().map(|x| format!("{:02x}", x)).collect::<String>()).collect();
    format!("ok ss={} ps={} {}", astser::ss(&b.stacksize), astser::ps(&b.programsize), lines.join(","))
}

pub fn compile_str(a: &Asm) -> String {
    match catch_unwind(AssertUnwindSafe(|| Translator::compile(a))) {
        Ok(b) => bytecode_str(&b),
        Err(_) => format!("panic:{}", panic_kind()),
    }
}

pub fn compile_load_str(a: &Asm) -> String {
    match catch_unwind(AssertUnwindSafe(|| {
        let b = Translator::compile(a);
        let mut m = Machine::new(MachineConfig::default());
        m.load(b);
        m
    })) {
        Ok(_) => "ok".into(),
        Err(_) => format!("panic:{}", panic_kind()),
    }
}

pub fn run_c02(out: &mut Out, seed: u64, thorough: bool) {
    let mut rng = Rng::new(seed);
    let n = if thorough { 20000 } else { 2500 };
    for i in 0..n {
        let o = GenOpts { max_lines: if i % 10 == 0 { 60 } else { 14 }, allow_backward_org: false, fit_ram: true, plain: i % 3 == 0 };
        let (ast, text) = asmgen::program(&mut rng, &o);
        // the real parser must produce the expected AST (otherwise the generator or the parser is off: C03)
        match AsmParser::parse(&text) {
            Ok(parsed) if parsed == ast => {}
            Ok(_) => {
                out.count("generator-parser-ast-mismatch");
                continue;
            }
            Err(_) => {
                out.count("generator-text-rejected");
                continue;
            }
        }
        let ser = astser::asm(&ast);
        let r = compile_str(&ast);
        if i < 3 {
            out.sample(format!("{} => {}", text.replace('\n', "\\n").replace('\r', "\\r").replace('\t', "\\t"), r));
        }
        out.emit(&format!("compile {}", ser), &r);
        out.emit(&format!("spec.encode {}", ser), &r);
        out.distinct_case(&ser);
        out.count(if r.starts_with("ok") { "compiled" } else { "panicked" });
    }
}

pub fn run_c06(out: &mut Out, seed: u64, thorough: bool) {
    let mut rng = Rng::new(seed);
    let n = if thorough { 20000 } else { 2500 };
    for i in 0..n {
        let o = GenOpts { max_lines: if i % 7 == 0 { 120 } else { 16 }, allow_backward_org: i % 5 == 0, fit_ram: i % 4 != 0, plain: i % 3 == 0 };
        let (ast, text) = asmgen::program(&mut rng, &o);
        let parsed = match AsmParser::parse(&text) {
            Ok(p) => p,
            Err(_) => {
                out.count("generator-text-rejected");
                continue;
            }
        };
        let _ = ast;
        let ser = astser::asm(&parsed);
        let r = compile_load_str(&parsed);
        if i < 2 {
            out.sample(format!("{} => {}", text.replace('\n', "\\n").replace('\r', "\\r").replace('\t', "\\t"), r));
        }
        out.emit(&format!("compileload {}", ser), &r);
        out.emit(&format!("spec.c06 {}", ser), &r);
        out.distinct_case(&ser);
        out.count(&r);
    }
    // directed: images of every size 0..300, .ORG to every address relative to the current one,
    // labels referenced in every letter case, every DEC operand shape
    for size in 0..=300usize {
        let mut src = String::from("#! mrasm");
        let mut left = size;
        while left > 0 {
            let k = left.min(40);
            src += "\n.DB ";
            src += &(0..k).map(|j| ((j * 7 + size) % 256).to_string()).collect::<Vec<_>>().join(", ");
            left -= k;
        }
        directed(out, &src);
    }
    for cur in [0usize, 1, 5, 100, 239, 240, 254].iter() {
        for target in [0usize, 1, 4, 5, 6, 99, 100, 101, 238, 239, 240, 241, 254, 255].iter() {
            let src = format!("#! mrasm\n.BYTE {}\n.ORG {}\nNOP", cur.min(&255), target);
            directed(out, &src);
        }
    }
    for (d, r) in [("loop", "LOOP"), ("Loop", "lOOP"), ("LOOP", "loop"), ("a_B1", "A_b1")].iter() {
        for ins in ["JR", "JMP", "CALL", "JCS", "LD R0,", "LDSP", "DEC"].iter() {
            let operand = if *ins == "DEC" { format!("({})", r) } else { r.to_string() };
            directed(out, &format!("#! mrasm\n{}:\n {} {}\n .EQU k_{} 7\n MOV ({}), K_{}", d, ins, operand, d, r, d.to_uppercase()));
        }
    }
    for op in ["R1", "(R1)", "(R2+)", "((R0+))", "(L)", "7", "L", "(0xF0)"].iter() {
        directed(out, &format!("#! mrasm\nL:\n DEC {}", op));
    }
}

fn directed(out: &mut Out, src: &str) {
    match AsmParser::parse(src) {
        Ok(p) => {
            let ser = astser::asm(&p);
            let r = compile_load_str(&p);
            out.emit(&format!("compileload {}", ser), &r);
            out.emit(&format!("spec.c06 {}", ser), &r);
            out.count(&format!("directed:{}", r));
        }
        Err(_) => out.count("directed-rejected"),
    }
}
