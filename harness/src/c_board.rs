//! C14: board status against the pin-level specification after every operation.
use crate::gen::*;
use crate::out::Out;
use crate::rng::Rng;
use crate::sess::Sess;
use emulator_2a_lib::machine::{Machine, MachineConfig};

fn board_op(rng: &mut Rng) -> String {
    match rng.below(16) {
        0 | 1 => format!("spec.bw 0 {}", rng.byte()),
        2 | 3 => format!("spec.bw 1 {}", rng.byte()),
        4 => format!("spec.bw 2 {}", rng.byte()),
        5 => format!("spec.bw 2 {}", 0xC0 | (rng.byte() & 0x3F)),   // interrupt control
        6 => format!("spec.bw 2 {}", 0x80 | (rng.byte() & 0x07)),   // directions
        7 => format!("spec.bw 3 {}", rng.byte()),
        8 => format!("spec.bset di1 {}", rng.byte()),
        9 => format!("spec.bset temp {}", f32_bits(rng)),
        10 => format!("spec.bset ai1 {}", f32_bits(rng)),
        11 => format!("spec.bset ai2 {}", f32_bits(rng)),
        12 => format!("spec.bset j1 {}", rng.below(2)),
        13 => format!("spec.bset j2 {}", rng.below(2)),
        _ => format!("spec.bset uio{} {}", 1 + rng.below(3), rng.below(2)),
    }
}

pub fn run(out: &mut Out, seed: u64, thorough: bool) {
    let mut rng = Rng::new(seed);
    // 1. tables: DAC voltage, fan speed, fan period for every byte
    for b in 0..=255u32 {
        let mut s = Sess::new();
        run_line(out, &mut s, &format!("spec.tab {}", b));
    }
    // 2. clamping: special values, a random sample through the specification ...
    let mut s = Sess::new();
    for v in F32_SPECIAL {
        run_line(out, &mut s, &format!("spec.clamp {}", v));
    }
    let n = if thorough { 2_000_000 } else { 100_000 };
    for _ in 0..n {
        run_line(out, &mut s, &format!("spec.clamp {}", rng.next() as u32));
    }
    // ... and (thorough) every one of the 2^32 bit patterns against the rule itself
    if thorough {
        let mut bad: Option<u32> = None;
        let mut m = Machine::new(MachineConfig::default());
        let mut v: u32 = 0;
        loop {
            let x = f32::from_bits(v);
            m.set_analog_input1(x);
            let r = m.bus().board().analog_inputs()[0];
            let expect = if x.is_nan() { 0.0 } else if x > 5.0 { 5.0 } else if x < 0.0 { 0.0 } else { x };
            let ok = !r.is_nan() && r >= 0.0 && r <= 5.0 && (r.to_bits() == expect.to_bits() || (r == 0.0 && expect == 0.0));
            if !ok && bad.is_none() {
                bad = Some(v);
            }
            if v == u32::MAX {
                break;
            }
            v += 1;
        }
        out.emit("spec.clampall", &match bad { None => "ok".to_string(), Some(v) => format!("violated at {}", v) });
        out.notes.insert("clamp_exhaustive".into(), "all 2^32 bit patterns checked against the clamping rule".into());
    }
    // 3. histories: every operation followed by a comparison of everything the board reports
    let cases = if thorough { 4000 } else { 400 };
    for c in 0..cases {
        let mut s = Sess::new();
        run_line(out, &mut s, "new");
        let len = 20 + rng.below(120);
        for _ in 0..len {
            let op = board_op(&mut rng);
            if c == 0 {
                out.sample(op.clone());
            }
            run_line(out, &mut s, &op);
            run_line(out, &mut s, "spec.bd");
        }
        run_line(out, &mut s, "d");
    }
    // 3b. comparator thresholds: inputs exactly at, just below and just above every DAC voltage
    //     (both orders of applying input and DAC byte, all three analog inputs)
    for b in 0..=255u32 {
        let v = ((b as u8) as f32 / 100.0).to_bits();
        for delta in [-2i64, -1, 0, 1, 2].iter() {
            let x = (v as i64 + delta).max(0) as u32;
            for (kind, port) in [("ai1", 0), ("ai2", 1), ("temp", 1)].iter() {
                let mut s = Sess::new();
                run_line(out, &mut s, "new");
                run_line(out, &mut s, &format!("spec.bw 2 {}", 0xC0 | if *port == 0 { 4 } else { 5 } | if b % 2 == 0 { 8 } else { 0 }));
                run_line(out, &mut s, &format!("spec.bw {} {}", port, b));
                run_line(out, &mut s, &format!("spec.bset {} {}", kind, x));
                run_line(out, &mut s, "spec.bd");
                run_line(out, &mut s, &format!("spec.bw {} {}", port, (b + 1) % 256));
                run_line(out, &mut s, "spec.bd");
                run_line(out, &mut s, &format!("spec.bw {} {}", port, b));
                run_line(out, &mut s, "spec.bd");
                out.count("threshold");
            }
        }
    }
    // 4. every byte value on every port from a non-trivial state
    for port in 0..4 {
        for v in 0..=255u32 {
            let mut s = Sess::new();
            run_line(out, &mut s, "new");
            run_line(out, &mut s, &format!("spec.bset ai1 {}", (1.0f32 + (v % 7) as f32 * 0.31).to_bits()));
            run_line(out, &mut s, &format!("spec.bset temp {}", (0.5f32 + (v % 5) as f32 * 0.4).to_bits()));
            run_line(out, &mut s, &format!("spec.bw 2 {}", 0xC0 | (4 + (v % 2)) | if v % 3 == 0 { 8 } else { 0 }));
            run_line(out, &mut s, &format!("spec.bw {} {}", port, v));
            run_line(out, &mut s, "spec.bd");
            run_line(out, &mut s, &format!("spec.bw {} {}", port, (v * 7 + 13) % 256));
            run_line(out, &mut s, "spec.bd");
        }
    }
    // histories with a master reset in between (the board specification has no reset; these lines compare the real
    // board with the model of the whole machine): an analog input, a DAC written above it, master reset, then the
    // DAC written with the value the reset left there / with other values - comparator bit and interrupt flags read back
    for (port, kind, src) in [(240u32, "ai1", 4u32), (241, "ai2", 5), (241, "temp", 5)] {
        for hi in [250u32, 120, 1] {
            for vin in [0.5f32, 2.0, 4.9] {
                for after in [0u32, 1, hi] {
                    for falling in [0u32, 8] {
                        run_line(out, &mut s, "new");
                        run_line(out, &mut s, &format!("{} {}", kind, vin.to_bits()));
                        run_line(out, &mut s, &format!("busw 242 {}", 0xC0 | src | falling));
                        run_line(out, &mut s, &format!("busw {} {}", port, hi));
                        run_line(out, &mut s, "d");
                        run_line(out, &mut s, "masterreset");
                        run_line(out, &mut s, &format!("busw 242 {}", 0xC0 | src | falling));
                        run_line(out, &mut s, &format!("busw {} {}", port, after));
                        run_line(out, &mut s, "busr 241");
                        run_line(out, &mut s, "busr 243");
                        run_line(out, &mut s, "d");
                        out.count("reset-then-dac-write");
                    }
                }
            }
        }
    }
}
