//! C10: bus address map. Single operations exhaustively, ordered write pairs, random sequences.
use crate::gen::run_line;
use crate::out::Out;
use crate::rng::Rng;
use crate::sess::Sess;

pub fn run(out: &mut Out, seed: u64, thorough: bool) {
    let mut rng = Rng::new(seed);
    let mut s = Sess::new();
    // the abstract map is tracked by the driver on `spec.bus*` lines; here the real bus answers
    // 1. all 256 x 256 single writes on a dirty bus, each followed by reads of every address class
    run_line(out, &mut s, "new");
    for a in 0..=255u32 {
        for v in 0..=255u32 {
            if !thorough && a < 0xF0 && v % 17 != (a % 17) && v != 0 && v != 255 {
                continue;
            }
            run_line(out, &mut s, &format!("spec.busw {} {}", a, v));
            run_line(out, &mut s, &format!("spec.busr {}", a));
            run_line(out, &mut s, &format!("spec.busr {}", (a + 1) % 256));
            run_line(out, &mut s, "spec.busd");
        }
    }
    // 2. all ordered pairs of write addresses
    for a in 0..=255u32 {
        for b in 0..=255u32 {
            let (va, vb) = (rng.byte(), rng.byte());
            run_line(out, &mut s, &format!("spec.busw {} {}", a, va));
            run_line(out, &mut s, &format!("spec.busw {} {}", b, vb));
            run_line(out, &mut s, &format!("spec.busr {}", a));
            run_line(out, &mut s, &format!("spec.busr {}", b));
        }
        run_line(out, &mut s, "spec.busd");
    }
    // 2b. the interrupt status (read at 0xF9) is raised by a key press only and survives every mask write
    for pre in [0u32, 1, 2, 0x3F] {
        for v in 0..=255u32 {
            run_line(out, &mut s, "new");
            run_line(out, &mut s, &format!("spec.busw 249 {}", pre));
            run_line(out, &mut s, "spec.irq");
            run_line(out, &mut s, "spec.busr 249");
            run_line(out, &mut s, &format!("spec.busw 249 {}", v));
            run_line(out, &mut s, "spec.busr 249");
            run_line(out, &mut s, "spec.irq");
            run_line(out, &mut s, "spec.busr 249");
            run_line(out, &mut s, "spec.busd");
        }
    }
    run_line(out, &mut s, "new");
    // 3. random sequences incl. input setters, compared with the model's full dump as well
    let n = if thorough { 400_000 } else { 40_000 };
    for i in 0..n {
        let line = match rng.below(14) {
            0 | 1 | 2 => format!("spec.busw {} {}", rng.byte(), rng.byte()),
            3 => format!("spec.busw {} {}", 0xF0 + rng.below(16), rng.byte()),
            4 | 5 => format!("spec.busr {}", rng.byte()),
            6 => format!("spec.busr {}", 0xF0 + rng.below(16)),
            7 => format!("spec.in {} {}", rng.below(4), rng.byte()),
            8 => format!("spec.di1 {}", rng.byte()),
            10 => if rng.below(3) == 0 { "spec.irq".to_string() } else { format!("spec.busw 249 {}", rng.byte()) },
            // the board behind 0xF0-0xF3: external events, interrupt-control / direction bytes, reads compared with
            // the model and with what the board reports
            11 => match rng.below(6) {
                0 => format!("j1 {}", rng.below(2)),
                1 => format!("j2 {}", rng.below(2)),
                2 => format!("uio{} {}", 1 + rng.below(3), rng.below(2)),
                3 => format!("ai{} {}", 1 + rng.below(2), crate::gen::f32_bits(&mut rng)),
                4 => format!("temp {}", crate::gen::f32_bits(&mut rng)),
                _ => format!("spec.busw 242 {}", 0xC0 | rng.byte()),
            },
            12 => format!("busr {}", 0xF0 + rng.below(16)),
            13 => "spec.busstat".to_string(),
            _ => "spec.busd".to_string(),
        };
        run_line(out, &mut s, &line);
        if i % 64 == 0 {
            run_line(out, &mut s, "d");
            run_line(out, &mut s, "ram");
        }
    }
    out.sample("spec.busw 249 255 ; spec.busr 249 -> MISR, not the mask".into());
    // 4. reads performed by the CPU: after histories of programs that enable, take and serve key interrupts (so that
    //    mask, status register, flip-flop and board are in every combination), an `LD R0, (a)` executed on a copy of the
    //    machine must leave RAM, I/O registers, mask, status and board as they were - for every I/O address and RAM
    let n_h = if thorough { 400 } else { 60 };
    for h in 0..n_h {
        let di = h % 2 == 1;
        let (img, _) = crate::c_isa::c04_program(&mut rng, di);
        run_line(out, &mut s, "new");
        run_line(out, &mut s, &format!("load 16 255 {}", crate::sess::hexs(&img)));
        run_line(out, &mut s, &format!("edges {}", 40 + rng.below(200)));
        if h < (if thorough { 40 } else { 6 }) {
            // directed: a press, then the read at EVERY following clock edge (before, during and after the routine)
            run_line(out, &mut s, "irq");
            for _ in 0..160 {
                run_line(out, &mut s, "edge");
                run_line(out, &mut s, "spec.cpuread 249");
                out.count("cpu-read");
            }
        }
        for _ in 0..1 + rng.below(3) {
            run_line(out, &mut s, "irq");
            run_line(out, &mut s, &format!("edges {}", 1 + rng.below(90)));
            for a in (0xF0..=0xFFu32).chain([0u32, 0x80, 0xEF]) {
                if thorough || a == 0xF9 || (a + h as u32) % 4 == 0 {
                    run_line(out, &mut s, &format!("spec.cpuread {}", a));
                    out.count("cpu-read");
                }
            }
        }
    }
    run_line(out, &mut s, "new");
}
