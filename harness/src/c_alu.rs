//! C08: the complete ALU input space on the real `AluOutput::from_input`.
use crate::out::Out;
use emulator_2a_lib::machine::{AluInput, AluOutput, AluSelect};

pub fn sel(f: u8) -> AluSelect {
    use AluSelect::*;
    [ADDH, A, NOR, ZERO, ADD, ADDS, ADC, ADCS, LSR, RR, RRC, ASR, B, SETC, BH, INVC]
        .iter()
        .cloned()
        .find(|s| *s as u8 == f)
        .expect("alu select")
}

pub fn alu(f: u8, a: u8, b: u8, c: bool) -> String {
    let o = AluOutput::from_input(&AluInput::new(a, b, c), &sel(f));
    format!("{} {} {} {}", o.output(), o.carry_out() as u8, o.zero_out() as u8, o.negative_out() as u8)
}

pub fn run(out: &mut Out, _seed: u64, _thorough: bool) {
    for f in 0..16u8 {
        for a in 0..=255u8 {
            for b in 0..=255u8 {
                let r = format!("{} | {}", alu(f, a, b, false), alu(f, a, b, true));
                // implementation vs model
                out.emit(&format!("alu2 {} {} {}", f, a, b), &r);
                out.distinct.insert(((f as u64) << 16) | ((a as u64) << 8) | b as u64);
                // implementation vs arithmetic specification
                out.emit(&format!("spec.alu2 {} {} {}", f, a, b), &r);
            }
        }
        out.count_n(&format!("fn{}", f), 256 * 256 * 2);
    }
    // the ALU is a FUNCTION of its inputs: the same point gives the same result whatever was evaluated before it.
    // Second pass in another order: every point is evaluated right after a neighbour that differs in exactly one of
    // carry-in / A / B / function, and once more after that neighbour's neighbour; all against the first pass.
    {
        let packed = |f: u8, a: u8, b: u8, c: bool| -> u32 {
            let o = AluOutput::from_input(&AluInput::new(a, b, c), &sel(f));
            (o.output() as u32) | (o.carry_out() as u32) << 8 | (o.zero_out() as u32) << 9 | (o.negative_out() as u32) << 10
        };
        let idx = |f: u8, a: u8, b: u8, c: bool| ((f as usize) << 17) | ((a as usize) << 9) | ((b as usize) << 1) | c as usize;
        let mut table = vec![0u32; 16 << 17];
        for f in 0..16u8 {
            for c in [false, true] {
                for b in 0..=255u8 {
                    for a in 0..=255u8 {
                        table[idx(f, a, b, c)] = packed(f, a, b, c);
                    }
                }
            }
        }
        let mut rng = crate::rng::Rng::new(_seed ^ 0xA1B2);
        let n = if _thorough { 3_000_000 } else { 600_000 };
        let mut bad: Vec<String> = vec![String::new(); 16];
        for i in 0..n {
            let (f, a, b, c) = ((i % 16) as u8, rng.byte(), rng.byte(), rng.chance(1, 2));
            let (f2, a2, b2, c2) = match rng.below(4) {
                0 => (f, a, b, !c),
                1 => (f, a ^ (1 << rng.below(8)), b, c),
                2 => (f, a, b ^ (1 << rng.below(8)), c),
                _ => ((f + 1 + rng.below(15) as u8) % 16, a, b, c),
            };
            let seq = [(f, a, b, c), (f2, a2, b2, c2), (f, a, b, c), (f2, a2, b2, !c2), (f2, a2, b2, c2)];
            for (k, (pf, pa, pb, pc)) in seq.iter().enumerate() {
                let r = packed(*pf, *pa, *pb, *pc);
                if r != table[idx(*pf, *pa, *pb, *pc)] && bad[*pf as usize].is_empty() {
                    bad[*pf as usize] = format!("differs fn={} a={} b={} c={} as evaluation {} of the sequence {:?}", pf, pa, pb, *pc as u8, k, seq);
                }
            }
        }
        for f in 0..16u8 {
            out.emit(&format!("spec.alupure {}", f), &(if bad[f as usize].is_empty() { "pure".to_string() } else { bad[f as usize].clone() }));
        }
        out.notes.insert("purity".into(), format!("{} evaluation sequences of five points (neighbours in carry-in / A / B / function) against a first pass in another order", n));
    }
    out.sample("alu2 5 200 100 -> ".to_string() + &format!("{} | {}", alu(5, 200, 100, false), alu(5, 200, 100, true)));
    out.notes.insert("exhaustive".into(), "16 functions x 256 x 256 x 2 carry-in = 2097152 points".into());
}
