//! C08: the complete ALU input space on the real `AluOutput::from_input`.
use crate::out::Out;
use emulator_2a_lib::machine::{AluInput, AluOutput, AluSelect};

pub fn sel(f: u8) -> AluSelect {
    use AluSelect::*;
    [ADDH, A, NOR, ZERO, ADD, ADDS, ADC, ADCS, LSR, RR, RRC, ASR, B, SETC, BH, INVC]
        .iter()
        .cloned()
        .find(|s| *s as u8 == f)
        .expect("alu select")
}

pub fn alu(f: u8, a: u8, b: u8, c: bool) -> String {
    let o = AluOutput::from_input(&AluInput::new(a, b, c), &sel(f));
    format!("{} {} {} {}", o.output(), o.carry_out() as u8, o.zero_out() as u8, o.negative_out() as u8)
}

pub fn run(out: &mut Out, _seed: u64, _thorough: bool) {
    for f in 0..16u8 {
        for a in 0..=255u8 {
            for b in 0..=255u8 {
                let r = format!("{} | {}", alu(f, a, b, false), alu(f, a, b, true));
                // implementation vs model
                out.emit(&format!("alu2 {} {} {}", f, a, b), &r);
                out.distinct.insert(((f as u64) << 16) | ((a as u64) << 8) | b as u64);
                // implementation vs arithmetic specification
                out.emit(&format!("spec.alu2 {} {} {}", f, a, b), &r);
            }
        }
        out.count_n(&format!("fn{}", f), 256 * 256 * 2);
    }
    out.sample("alu2 5 200 100 -> ".to_string() + &format!("{} | {}", alu(5, 200, 100, false), alu(5, 200, 100, true)));
    out.notes.insert("exhaustive".into(), "16 functions x 256 x 256 x 2 carry-in = 2097152 points".into());
}
